(* C07 -- multi-annotator query returns distinct, available pairs.  Statements only. *)
From Coq Require Import ZArith List Bool Lia Arith.
From V Require Import Base.OptOrder Model.Sel Model.PoolQuery Model.MultiAnnot Proofs.MultiAnnotProofs.
Import ListNotations.
Close Scope Z_scope.

(* an accepted trace (shape, NaN at unavailable pairs and earlier picks, the picked pair a
   number attaining the maximum of its slice) consists of k pairwise distinct available pairs *)
Theorem C07_accepts_valid_pairs : forall (A : list (list bool)) (na k : nat) (t : list (pair * slice)),
  accepts_pairs A na k t = true ->
  length (map fst t) = k /\ NoDup (map fst t) /\ Forall (fun p => avail_at A p = true) (map fst t).
Proof. exact accepts_pairs_valid. Qed.
Print Assumptions C07_accepts_valid_pairs.

Theorem C07_utilities_nan_at_unavailable_and_selected : forall A na k t,
  accepts_pairs A na k t = true ->
  forall i p s, nth_error t i = Some (p, s) ->
  forall q, fst q < length s -> snd q < length (nth (fst q) s []) ->
  (avail_at A q = false \/ In q (firstn i (map fst t))) -> at2 s q = None.
Proof. exact accepts_pairs_nan. Qed.
Print Assumptions C07_utilities_nan_at_unavailable_and_selected.

(* the batch size is clipped to the number of available pairs - for all three ways of giving
   annotators (None, an index array with indices in range, a boolean matrix) x all three ways of
   giving candidates *)
Theorem C07_pairs_count : forall y c a,
  (forall l, a = AIdx l -> Forall (fun j => j < n_annot y) l) ->
  n_pairs y c a = count_true (ma_avail y c a).
Proof. exact n_pairs_counts_available. Qed.
Print Assumptions C07_pairs_count.

(* a boolean annotators matrix is given row-per-candidate in the caller's order; _validate_data
   sorts the candidate indices and permutes the rows along: row r of A_cand is the row the caller
   gave for the r-th smallest candidate, and the number of candidate pairs is the number of True
   entries of the caller's matrix *)
Theorem C07_matrix_rows_follow_candidates : forall (l : list nat) (m : list (list bool)) (r : nat),
  NoDup l -> r < length l ->
  exists j, j < length l /\ nth j l 0 = nth r (uniq_sort l) 0 /\ nth r (perm_rows l m) [] = nth j m [].
Proof. exact matrix_rows_follow_candidates. Qed.
Print Assumptions C07_matrix_rows_follow_candidates.

Theorem C07_pairs_count_matrix : forall y c m,
  (forall l, c = CIdx l -> length m = length l) -> n_pairs y c (AMat m) = count_true m.
Proof. exact n_pairs_matrix. Qed.
Print Assumptions C07_pairs_count_matrix.

(* the per-sample annotator count loop terminates whenever the chosen samples offer enough
   pairs, reaches the batch size, never exceeds availability, never goes below the request *)
Theorem C07_n_to_assign_terminates : forall bs nmax pref,
  length nmax = length pref -> bs <= nsum nmax ->
  exists r, n_to_assign bs bs nmax pref = Some r /\ bs <= nsum r /\
            le_all r nmax /\ le_all (map2 Nat.min nmax pref) r.
Proof.
  intros bs nmax pref Hl Hbs. unfold n_to_assign.
  apply n_to_assign_terminates; [|exact Hbs|apply Nat.le_add_l].
  clear Hbs. revert pref Hl. induction nmax as [|m nmax IH]; intros [|p pref] Hl; cbn in *; try lia; constructor; [lia|].
  apply IH. lia.
Qed.
Print Assumptions C07_n_to_assign_terminates.

(* as written the loop has no progress measure otherwise: no fuel suffices *)
Theorem C07_n_to_assign_diverges_refuted :
  exists bs nmax pref, forall fuel, n_to_assign fuel bs nmax pref = None.
Proof.
  exists 2, [0; 1], [1; 1]. intros fuel. unfold n_to_assign.
  apply n_to_assign_diverges; [repeat constructor|cbn; lia].
Qed.
Print Assumptions C07_n_to_assign_diverges_refuted.

Example C07_nonvacuous :
  let A := [[true; false]; [true; true]] in
  let t := [((1, 1), [[Some 3; None]; [Some 5; Some 9]]%Z); ((1, 0), [[Some 3; None]; [Some 5; None]]%Z)] in
  accepts_pairs A 2 2 t = true /\ n_to_assign 3 3 [1; 2] [1; 1] = Some [1; 2] /\
  ma_avail [[true; true]; [true; true]; [true; true]] (CIdx [2; 0]) (AMat [[true; false]; [false; true]]) = [[false; true]; [true; false]].
Proof. vm_compute. repeat split; reflexivity. Qed.
