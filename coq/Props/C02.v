(* C02 -- returned utilities agree with the returned selection.  Statements only. *)
From Coq Require Import ZArith List Bool.
From V Require Import Base.OptOrder Model.Sel Model.PoolQuery Proofs.SelProofs Proofs.PoolProofs Proofs.SkeletonProofs Model.PoolLoops Proofs.PoolLoopsProofs.
Import ListNotations.
Open Scope Z_scope.

(* in an accepted trace, row i has one column per sample (candidate row), is
   NaN exactly at the non-candidates and at the picks of steps 0..i-1, is a
   number at pick i, which attains the row maximum (maximising strategies) or
   has strictly positive mass (sampling strategies) *)
Theorem C02_accepted_rows :
  forall (mode : selmode) (lab : list bool) (c : cand) (bs : nat) (t : list step),
  accepts_pool mode lab c bs t = true ->
  forall i p row, nth_error t i = Some (p, row) ->
  length row = ncols lab c /\ (p < ncols lab c)%nat /\
  (forall j, (j < ncols lab c)%nat ->
     (nth j row None = None <-> (~ In j (cand_set lab c) \/ In j (firstn i (map fst t))))) /\
  exists v, nth p row None = Some v /\
    match mode with SelMax => nanmax row = Some v | SelSampling => 0 < v end.
Proof. intros mode lab c bs t H i p row Hi. exact (accepts_rows mode lab c bs t H i (p, row) Hi). Qed.
Print Assumptions C02_accepted_rows.

(* simple_batch itself produces such rows for EVERY utility vector, tie
   pattern, batch size and positive noise (C18's model) *)
Theorem C02_simple_batch_rows : forall (u : list val) (noises : list (list Z)) (bs : nat),
  noises_ok (length u) (Nat.min bs (count_nonnan u)) noises ->
  let t := simple_batch_max u noises bs in
  map snd t = map (fun s => mask_all u (firstn s (map fst t))) (seq 0 (length (map fst t))) /\
  Forall (fun s : nat * list val => let '(i, row) := s in
            exists m, nanmax row = Some m /\ nth i row None = Some m) t.
Proof.
  intros u noises bs Hn t. destruct (simple_batch_max_spec u noises bs Hn) as [_ [_ [H3 [_ H5]]]].
  split; [exact H5|]. unfold t. rewrite Forall_forall in *. intros [i row] Hs. specialize (H3 _ Hs). cbn in H3. tauto.
Qed.
Print Assumptions C02_simple_batch_rows.

(* ... and the whole canonical skeleton (scores scattered into a NaN-filled vector through the
   mapping, then simple_batch) yields a trace the acceptor accepts: by C02_accepted_rows its rows
   are NaN exactly at non-candidates and earlier picks and every pick attains its row maximum *)
Theorem C02_skeleton_accepted :
  forall (lab : list bool) (c : cand) (scores : list val) (noises : list (list Z)) (bs : nat),
  (forall l, c = CIdx l -> Forall (fun i => (i < length lab)%nat) l) ->
  length scores = length (cand_set lab c) -> Forall (fun v => is_nan v = false) scores ->
  noises_ok (ncols lab c) (expected_k bs lab c) noises ->
  accepts_pool SelMax lab c bs (skeleton lab c scores noises bs) = true.
Proof.
  intros lab c scores noises bs Hc Hl Hs Hn.
  exact (skeleton_accepted lab c scores noises bs (conj Hl Hs) (cand_wf_all lab c Hc) Hn).
Qed.
Print Assumptions C02_skeleton_accepted.

(* hand-written loops, numeric layer universally quantified: every row of CoreSet's greedy k-center
   loop (any distance function, incl. the all-distances-zero branch) and of ProbCover's batch loop
   (any edge matrix) has one column per sample, is NaN exactly at non-candidates and earlier picks,
   and the pick attains the row maximum *)
Theorem C02_coreset_loop_rows :
  forall (d : nat -> nat -> Z) (w : nat) (mapping centers0 : list nat) (k : nat) (noises : list (list Z)),
  (forall j, In j mapping -> ~ In j centers0) ->
  NoDup mapping -> Forall (fun i => (i < w)%nat) mapping -> (k <= length mapping)%nat -> noises_ok w k noises ->
  let t := coreset_loop d w mapping centers0 k noises in
  forall i p row, nth_error t i = Some (p, row) ->
  length row = w /\ (p < w)%nat /\
  (forall j, (j < w)%nat -> (nth j row None = None <-> (~ In j mapping \/ In j (firstn i (map fst t))))) /\
  exists v, nth p row None = Some v /\ nanmax row = Some v.
Proof. intros d w mapping centers0 k noises H1 H2 H3 H4 H5 t i p row Hi. exact (coreset_rows d w mapping centers0 k noises H1 H2 H3 H4 H5 i (p, row) Hi). Qed.
Print Assumptions C02_coreset_loop_rows.

Theorem C02_probcover_loop_rows :
  forall (cs : list nat) (n : nat) (edges : list (list bool)) (is_cand : list bool) (k : nat) (noises : list (list Z)),
  NoDup cs -> Forall (fun i => (i < n)%nat) cs -> (k <= length cs)%nat ->
  length is_cand = n -> (forall j, (j < n)%nat -> nth j is_cand false = memb j cs) -> noises_ok n k noises ->
  let t := probcover_loop edges is_cand k noises in
  forall i p row, nth_error t i = Some (p, row) ->
  length row = n /\ (p < n)%nat /\
  (forall j, (j < n)%nat -> (nth j row None = None <-> (~ In j cs \/ In j (firstn i (map fst t))))) /\
  exists v, nth p row None = Some v /\ nanmax row = Some v.
Proof. intros cs n edges is_cand k noises H1 H2 H3 H4 H5 H6 t i p row Hi. exact (probcover_rows cs n edges is_cand k noises H1 H2 H3 H4 H5 H6 i (p, row) Hi). Qed.
Print Assumptions C02_probcover_loop_rows.

Theorem C02_oracle_loop_rows :
  forall (n : nat) (cs : list nat) (score : list nat -> list val) (k : nat) (noises : list (list Z)),
  (forall prev, length (score prev) = length cs /\ Forall (fun v => is_nan v = false) (score prev)) ->
  NoDup cs -> Forall (fun i => (i < n)%nat) cs -> (k <= length cs)%nat -> noises_ok n k noises ->
  let t := oracle_loop n cs score k noises in
  forall i p row, nth_error t i = Some (p, row) ->
  length row = n /\ (p < n)%nat /\
  (forall j, (j < n)%nat -> (nth j row None = None <-> (~ In j cs \/ In j (firstn i (map fst t))))) /\
  exists v, nth p row None = Some v /\ nanmax row = Some v.
Proof. intros n cs score k noises H1 H2 H3 H4 H5 t i p row Hi. exact (oracle_loop_rows n cs score k noises H1 H2 H3 H4 H5 i (p, row) Hi). Qed.
Print Assumptions C02_oracle_loop_rows.

Theorem C02_greedy_sampling_rows :
  forall (d : nat -> nat -> Z) (n_samples : nat) (labeled : list nat) (cidx : nat -> nat)
         (n : nat) (mapping : list nat) (k : nat) (noises : list (list Z)),
  NoDup mapping -> Forall (fun i => (i < n)%nat) mapping -> (k <= length mapping)%nat ->
  cnoises_ok (length mapping) k noises ->
  let t := remap n mapping (gsx_loop d n_samples labeled cidx (length mapping) k noises) in
  forall i p row, nth_error t i = Some (p, row) ->
  length row = n /\ (p < n)%nat /\
  (forall j, (j < n)%nat -> (nth j row None = None <-> (~ In j mapping \/ In j (firstn i (map fst t))))) /\
  exists v, nth p row None = Some v /\ nanmax row = Some v.
Proof. intros d ns lab cidx n mapping k noises H1 H2 H3 H4 t i p row Hi. exact (gsx_rows d ns lab cidx n mapping k noises H1 H2 H3 H4 i (p, row) Hi). Qed.
Print Assumptions C02_greedy_sampling_rows.

(* sampling strategies: every row is NaN exactly at the earlier picks and the drawn sample has strictly
   positive mass in its row - for every raw weight oracle and every contract-respecting sequence of draws *)
Theorem C02_sampling_loop_rows :
  forall (m : nat) (raws : list (list Z)) (picks prev : list nat),
  Forall (fun r => length r = m) raws -> contract_ok raws picks prev = true ->
  psteps_ok SelSampling (seq 0 m) prev m (sampling_trace raws picks prev) = true.
Proof. exact sampling_trace_accepted. Qed.
Print Assumptions C02_sampling_loop_rows.

(* BatchBALD: the pick made by query() (second tie-break, sample space) is the image of the pick batch_bald made when it
   computed the rows (first tie-break, candidate space) whenever the row has a unique maximiser - then the reported rows carry
   the NaN marks of the picks that are actually returned *)
Theorem C02_batchbald_step_agrees :
  forall (n : nat) (mapping : list nat) (r : list val) (nzA nzB : list Z) (v : Z),
  NoDup mapping -> length r = length mapping -> Forall (fun j => (j < n)%nat) mapping ->
  noise_ok (length r) nzA -> noise_ok n nzB -> nanmax r = Some v ->
  let row := scatter mapping r (repeat None n) in
  (forall i j, (i < n)%nat -> (j < n)%nat -> nth i row None = Some v -> nth j row None = Some v -> i = j) ->
  rand_argmax row nzB = nth (rand_argmax r nzA) mapping O.
Proof. exact bald_step_agrees. Qed.
Print Assumptions C02_batchbald_step_agrees.

(* rows built with one tie-break and winners re-derived with another one (the
   BatchBALD pattern) allow a repeated pick: witness with two tied maxima *)
Theorem C02_two_tiebreaks_refuted :
  exists (u : list val) (nzA nzB0 nzB1 : list Z),
    let rows := map snd (simple_batch_max u [nzA; nzA] 2) in
    map (fun rn => rand_argmax (fst rn) (snd rn)) (combine rows [nzB0; nzB1]) = [0%nat; 0%nat].
Proof. exists [Some 3; Some 3], [1; 2], [2; 1], [1; 1]. vm_compute. reflexivity. Qed.
Print Assumptions C02_two_tiebreaks_refuted.

Example C02_nonvacuous :
  accepts_pool SelSampling [false; false; true] CNone 2
    [(1%nat, [Some 2; Some 9; None]); (0%nat, [Some 2; None; None])] = true.
Proof. vm_compute. reflexivity. Qed.
