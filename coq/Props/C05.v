(* C05 -- pool query has no side effects on the strategy's own settings (part a: constructor
   parameters).  Statements only.  The table theorem [table_ok frame_table = true] is re-checked
   on every run against the table the translator regenerates from /repo (build/C05/C05_table.v). *)
From Coq Require Import List Bool Arith.
From V Require Import Model.Frame Proofs.FrameProofs.
Import ListNotations.

(* if the decidable check accepts (method effects, parameter), then every execution of the
   method's effects -- any order, repetition or omission, i.e. all branches and loops -- leaves
   the parameter bound to the same object with unchanged content *)
Theorem C05_frame_sound : forall effs p es st,
  frame_ok effs p = true -> fresh_store st -> Forall (fun e => In e effs) es ->
  env (exec_all st es) p = env st p /\ ver (exec_all st es) (env st p) = ver st (env st p).
Proof. exact frame_sound. Qed.
Print Assumptions C05_frame_sound.

Theorem C05_table_ok_means_every_method : forall t, table_ok t = true ->
  forall c m q, In c t -> In m (fc_methods c) -> In q (fc_params c) -> frame_ok m q = true.
Proof. exact table_ok_spec. Qed.
Print Assumptions C05_table_ok_means_every_method.

(* non-vacuity: the alias pattern `self.d_ = self.d ; self.d_[k] = v` is rejected, the repaired
   pattern (copy) is accepted *)
Example C05_nonvacuous :
  frame_ok [EWrite 1; EAlias 1 0; EMutate 1] 0 = false /\ frame_ok [EWrite 1; EMutate 1] 0 = true /\
  frame_ok [EWrite 0] 0 = false /\ frame_ok [EMutate 2; EAlias 2 1; EAlias 1 0] 0 = false.
Proof. vm_compute. repeat split. Qed.
