(* C01 -- pool query returns a valid batch.  Statements only.
   The acceptor [accepts_pool] is what the harness evaluates on every trace
   (indices + utility rows) recorded from the implementation; the theorem
   derives the user-level property from the mechanism-level conditions. *)
From Coq Require Import ZArith List Bool.
From V Require Import Base.OptOrder Model.Sel Model.PoolQuery Proofs.SelProofs Proofs.PoolProofs Proofs.SkeletonProofs Model.PoolLoops Proofs.PoolLoopsProofs.
Import ListNotations.
Close Scope Z_scope.

Theorem C01_accepts_valid_batch :
  forall (mode : selmode) (lab : list bool) (c : cand) (bs : nat) (t : list step),
  accepts_pool mode lab c bs t = true ->
  length (map fst t) = Nat.min bs (length (cand_set lab c)) /\
  NoDup (map fst t) /\
  Forall (fun p => In p (cand_set lab c)) (map fst t).
Proof. exact accepts_valid_batch. Qed.
Print Assumptions C01_accepts_valid_batch.

(* the boolean evaluated by the check on the returned indices means exactly C01 *)
Theorem C01_batch_ok_means_valid : forall lab c bs picks,
  batch_ok lab c bs picks = true <->
  (length picks = Nat.min bs (length (cand_set lab c)) /\ NoDup picks /\
   Forall (fun p => In p (cand_set lab c)) picks).
Proof. exact batch_ok_spec. Qed.
Print Assumptions C01_batch_ok_means_valid.

Theorem C01_accepted_trace_has_valid_batch : forall mode lab c bs t,
  accepts_pool mode lab c bs t = true -> batch_ok lab c bs (map fst t) = true.
Proof. exact accepts_batch_ok. Qed.
Print Assumptions C01_accepted_trace_has_valid_batch.

(* what "candidate" means in the three modes; with candidates=None a labeled
   sample is never a candidate *)
Theorem C01_candidate_sets : forall (lab : list bool) (i : nat),
  (In i (cand_set lab CNone) <-> nth_error lab i = Some false) /\
  (forall l, In i (cand_set lab (CIdx l)) <-> In i l) /\
  (forall m, In i (cand_set lab (CFeat m)) <-> i < m).
Proof.
  intros lab i. split; [apply cand_none_unlabeled|]. split; intros; [apply cand_idx_members|apply cand_feat_members].
Qed.
Print Assumptions C01_candidate_sets.

Theorem C01_labeled_noncandidate_never_selected :
  forall mode lab bs t i, accepts_pool mode lab CNone bs t = true ->
  nth_error lab i = Some true -> ~ In i (map fst t).
Proof.
  intros mode lab bs t i H Hl Hin.
  destruct (accepts_valid_batch _ _ _ _ _ H) as [_ [_ F]].
  rewrite Forall_forall in F. specialize (F i Hin). apply cand_none_unlabeled in F. congruence.
Qed.
Print Assumptions C01_labeled_noncandidate_never_selected.

(* the canonical query skeleton (NaN-filled utilities, scores scattered through the mapping,
   simple_batch) returns a valid batch for EVERY score vector (all tie patterns), every way of
   giving candidates, every batch size and every positive tie-breaking noise *)
Theorem C01_skeleton_returns_valid_batch :
  forall (lab : list bool) (c : cand) (scores : list val) (noises : list (list Z)) (bs : nat),
  (forall l, c = CIdx l -> Forall (fun i => i < length lab) l) ->
  length scores = length (cand_set lab c) -> Forall (fun v => is_nan v = false) scores ->
  noises_ok (ncols lab c) (expected_k bs lab c) noises ->
  let picks := map fst (skeleton lab c scores noises bs) in
  length picks = expected_k bs lab c /\ NoDup picks /\ Forall (fun p => In p (cand_set lab c)) picks.
Proof.
  intros lab c scores noises bs Hc Hl Hs Hn.
  exact (skeleton_valid_batch lab c scores noises bs (conj Hl Hs) (cand_wf_all lab c Hc) Hn).
Qed.
Print Assumptions C01_skeleton_returns_valid_batch.


(* hand-written selection loops (the numeric layer is a universally quantified oracle):
   CoreSet's greedy k-center loop returns k pairwise distinct candidates for EVERY distance
   function, including all ties and the all-distances-zero branch *)
Theorem C01_coreset_loop_valid_batch :
  forall (d : nat -> nat -> Z) (w : nat) (mapping centers0 : list nat) (k : nat) (noises : list (list Z)),
  (forall j, In j mapping -> ~ In j centers0) ->
  NoDup mapping -> Forall (fun i => i < w) mapping -> k <= length mapping -> noises_ok w k noises ->
  let picks := map fst (coreset_loop d w mapping centers0 k noises) in
  length picks = k /\ NoDup picks /\ Forall (fun p => In p mapping) picks.
Proof. exact coreset_valid_batch. Qed.
Print Assumptions C01_coreset_loop_valid_batch.

(* ProbCover's batch loop, for EVERY edge matrix (any graph, any coverage pattern) *)
Theorem C01_probcover_loop_valid_batch :
  forall (cs : list nat) (n : nat) (edges : list (list bool)) (is_cand : list bool) (k : nat) (noises : list (list Z)),
  NoDup cs -> Forall (fun i => i < n) cs -> k <= length cs ->
  length is_cand = n -> (forall j, j < n -> nth j is_cand false = memb j cs) -> noises_ok n k noises ->
  let picks := map fst (probcover_loop edges is_cand k noises) in
  length picks = k /\ NoDup picks /\ Forall (fun p => In p cs) picks.
Proof. exact probcover_valid_batch. Qed.
Print Assumptions C01_probcover_loop_valid_batch.


(* loops that mask earlier picks in a freshly computed score row (Clue, DropQuery; in candidate space
   DiscriminativeAL without greedy selection and FourDs): the scores of every step are an ARBITRARY
   function of the picks so far (refitted discriminator, b-th centroid, ...) *)
Theorem C01_oracle_loop_valid_batch :
  forall (n : nat) (cs : list nat) (score : list nat -> list val) (k : nat) (noises : list (list Z)),
  (forall prev, length (score prev) = length cs /\ Forall (fun v => is_nan v = false) (score prev)) ->
  NoDup cs -> Forall (fun i => i < n) cs -> k <= length cs -> noises_ok n k noises ->
  let picks := map fst (oracle_loop n cs score k noises) in
  length picks = k /\ NoDup picks /\ Forall (fun p => In p cs) picks.
Proof. exact oracle_loop_valid_batch. Qed.
Print Assumptions C01_oracle_loop_valid_batch.

(* ... and a NaN score row breaks it (the recorded FourDs finding): the hypothesis is necessary *)
Theorem C01_oracle_loop_nan_refuted :
  let score := fun prev : list nat => match prev with [] => [Some 1; Some 2; Some 3]%Z | _ => [None; None; None] end in
  map fst (oracle_loop 3 [0; 1; 2] score 3 [[1; 1; 1]; [1; 1; 1]; [1; 1; 1]]%Z) = [2; 0; 0].
Proof. exact oracle_loop_nan_refuted. Qed.
Print Assumptions C01_oracle_loop_nan_refuted.

(* _greedy_sampling (GreedySamplingX, first phase of GreedySamplingTarget): compacted utilities, winner
   translated through not_selected_candidates, then remapped to sample indices - for EVERY distance oracle *)
Theorem C01_greedy_sampling_valid_batch :
  forall (d : nat -> nat -> Z) (n_samples : nat) (labeled : list nat) (cidx : nat -> nat)
         (n : nat) (mapping : list nat) (k : nat) (noises : list (list Z)),
  NoDup mapping -> Forall (fun i => i < n) mapping -> k <= length mapping ->
  cnoises_ok (length mapping) k noises ->
  let picks := map fst (remap n mapping (gsx_loop d n_samples labeled cidx (length mapping) k noises)) in
  length picks = k /\ NoDup picks /\ Forall (fun p => In p mapping) picks.
Proof. exact gsx_valid_batch. Qed.
Print Assumptions C01_greedy_sampling_valid_batch.

(* the remapping step shared by the candidate-space strategies preserves validity *)
Theorem C01_remap_preserves_valid_batch :
  forall (n : nat) (mapping : list nat) (t : list step),
  NoDup mapping -> Forall (fun i => i < n) mapping ->
  psteps_ok SelMax (seq 0 (length mapping)) [] (length mapping) t = true ->
  psteps_ok SelMax mapping [] n (remap n mapping t) = true /\
  NoDup (map fst (remap n mapping t)) /\ Forall (fun p => In p mapping) (map fst (remap n mapping t)).
Proof. exact remap_valid_batch. Qed.
Print Assumptions C01_remap_preserves_valid_batch.


(* TypiClust AS WRITTEN violates C01 (recorded findings; the model is tied to the code by exact
   correspondence, duplicates and the UnboundLocalError included): the sample is chosen by an
   unmasked rand_argmax over typicality[mapping], so once every cluster is covered an earlier pick is
   returned again; and `cluster_sizes[cluster_id] = 0` has no cluster_id when every cluster is covered
   from the start *)
Theorem C01_typiclust_duplicates_refuted :
  exists picks, option_map (map fst)
    (typiclust 4 [1; 2; 3] [0; 1; 1; 1] (fun c j => 5%Z) 1%Z (-1)%Z 2 [0; 3]%Z [1; 1; 9; 1; 1; 9; 1; 1; 9; 1; 1]%Z) = Some picks
  /\ ~ NoDup picks.
Proof. exact typiclust_duplicates_refuted. Qed.
Print Assumptions C01_typiclust_duplicates_refuted.

Theorem C01_typiclust_unbound_refuted :
  typiclust 3 [1; 2] [0; 0; 0] (fun c j => 5%Z) 1%Z (-1)%Z 1 [0; 0]%Z [1; 1; 1; 1]%Z = None.
Proof. exact typiclust_unbound_refuted. Qed.
Print Assumptions C01_typiclust_unbound_refuted.


(* BatchBALD (greedy_selection=False), as written: the internal loop of batch_bald alone yields a valid batch for every score
   oracle; query() then picks a second time with other noise - the recorded finding - which agrees with the first pick
   exactly when the row has a unique maximiser (C02_batchbald_step_agrees) *)
Theorem C01_batchbald_internal_loop_valid :
  forall (m : nat) (score : list nat -> list val) (k : nat) (noiseA : list Z),
  (forall prev, length (score prev) = m /\ Forall nonnan (score prev)) -> k <= m -> noise_ok m noiseA ->
  psteps_ok SelMax (seq 0 m) [] m (bald_internal m score k noiseA) = true /\ length (bald_internal m score k noiseA) = k.
Proof. exact bald_internal_accepted. Qed.
Print Assumptions C01_batchbald_internal_loop_valid.

Theorem C01_batchbald_two_tiebreaks_duplicate_refuted :
  let score := fun _ : list nat => [Some 5%Z; Some 5%Z] in
  let t := bald_trace 2 2 [0; 1] score 2 [1; 2]%Z [[2; 1]; [1; 1]]%Z in
  map fst (bald_internal 2 score 2 [1; 2]%Z) = [1; 0] /\ map fst t = [0; 0] /\
  psteps_ok SelMax [0; 1] [] 2 t = false.
Proof. exact bald_two_tiebreaks_duplicate_refuted. Qed.
Print Assumptions C01_batchbald_two_tiebreaks_duplicate_refuted.

(* RegressionTreeBasedAL (random / diversity), as written: whatever the tree, the per-leaf quotas and the values are, the indices
   returned are pairwise distinct candidates and every row has the documented NaN marks with an optimal pick - for as many steps as
   the schedule of the numeric layer has.  What the code as written does not guarantee is the NUMBER of steps (a leaf with a
   positive quota but without candidates is skipped) and a finite utility at the pick (quota > candidates of the leaf): recorded
   findings, witnessed below *)
Theorem C01_regression_tree_loop_valid :
  forall (m : nat) (leaf_of : nat -> nat) (value : nat -> Z) (neg : Z) (sched : list nat) (noises : list (list Z)),
  length sched <= m -> noises_ok m (length sched) noises ->
  psteps_ok SelMax (seq 0 m) [] m (rt_loop m leaf_of value neg sched noises) = true /\
  length (rt_loop m leaf_of value neg sched noises) = length sched.
Proof. exact regtree_accepted. Qed.
Print Assumptions C01_regression_tree_loop_valid.

Theorem C01_regression_tree_neg_inf_pick_refuted :
  let t := rt_loop 2 (fun j => j) (fun _ => 1%Z) (-5)%Z [0; 0] [[1; 1]; [1; 1]]%Z in
  map fst t = [0; 1] /\ nth 1 (snd (nth 1 t (O, []))) None = Some (-5)%Z.
Proof. exact regtree_neg_inf_pick_refuted. Qed.
Print Assumptions C01_regression_tree_neg_inf_pick_refuted.

(* sampling loops (Badge, Falcun): earlier picks get weight 0, a fallback to weight 1 for everything
   that is not an earlier pick when nothing is left; for EVERY raw weight oracle and every sequence of
   draws that respects numpy's contract for choice (positive probability) the batch is duplicate-free
   and inside the candidates; and a positive weight always exists while a candidate is left *)
Theorem C01_sampling_loop_valid_batch :
  forall (m : nat) (raws : list (list Z)) (picks : list nat),
  Forall (fun r => length r = m) raws -> contract_ok raws picks [] = true ->
  NoDup (map fst (sampling_trace raws picks [])) /\
  Forall (fun p => p < m) (map fst (sampling_trace raws picks [])).
Proof. exact sampling_valid_batch. Qed.
Print Assumptions C01_sampling_loop_valid_batch.

Theorem C01_sampling_weights_available :
  forall (raw : list Z) (prev : list nat) (j : nat),
  Forall (fun v => (0 <= v)%Z) raw -> j < length raw -> memb j prev = false ->
  exists i, i < length raw /\ (0 < nth i (sweights raw prev) 0)%Z.
Proof. exact sweights_available. Qed.
Print Assumptions C01_sampling_weights_available.

(* non-vacuity: a 6-sample pool, two labeled samples, ties among the utilities *)
Example C01_nonvacuous :
  let lab := [true; false; false; true; false; false] in
  let t := [(2, [None; Some 5; Some 7; None; Some 7; Some 1]%Z);
            (4, [None; Some 5; None; None; Some 7; Some 1]%Z);
            (1, [None; Some 5; None; None; None; Some 1]%Z)] in
  accepts_pool SelMax lab CNone 3 t = true /\ accepts_pool SelMax lab CNone 5 t = false /\
  map fst (skeleton lab (CIdx [4; 1; 4; 5]) [Some 7; Some 7; Some 1]%Z [[1; 2; 3; 4; 5; 6]; [6; 5; 4; 3; 2; 1]]%Z 2) = [4; 1].
Proof. vm_compute. repeat split; reflexivity. Qed.

(* non-vacuity of the loop theorems: points 0,0,2,2,5 (duplicates, zero distances), sample 0 labeled;
   a 4-vertex graph with covered columns *)
Example C01_loops_nonvacuous :
  let D := [[0;0;2;2;5];[0;0;2;2;5];[2;2;0;0;3];[2;2;0;0;3];[5;5;3;3;0]]%Z in
  let d := fun i j => nth j (nth i D []) 0%Z in
  map fst (coreset_loop d 5 [1;2;3;4] [0] 4 [[1;2;3;4;5];[5;4;3;2;1];[1;2;3;4;5];[2;1;2;1;2]]%Z) = [4; 2; 3; 1] /\
  map fst (probcover_loop [[true;true;false;false];[true;true;true;false];[false;true;true;false];[false;false;false;true]]
             [false;true;true;true] 3 [[1;2;3;4];[4;3;2;1];[1;1;2;1]]%Z) = [3; 1; 2].
Proof. vm_compute. split; reflexivity. Qed.
