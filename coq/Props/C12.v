(* C12 -- unlabeled samples do not influence supervised models.  Statements only. *)
From Coq Require Import ZArith List Bool Permutation.
From V Require Import Model.FitFilter Proofs.FitFilterProofs.
Import ListNotations.
Open Scope Z_scope.

Theorem C12_subset_ignores_unlabeled : forall d1 d2 i w,
  labeled_subset (d1 ++ (i, None, w) :: d2) = labeled_subset (d1 ++ d2).
Proof. exact subset_ignores_unlabeled_row. Qed.
Print Assumptions C12_subset_ignores_unlabeled.

(* around any estimator: parametricity in the estimator does the "any" *)
Theorem C12_any_estimator : forall (model : Type) (est : list row -> model) d1 d2 i w,
  wrapper_fit model est (d1 ++ (i, None, w) :: d2) = wrapper_fit model est (d1 ++ d2) /\
  wrapper_fit model est (d1 ++ d2) = wrapper_fit model est (labeled_subset (d1 ++ d2)).
Proof. intros. split; [apply wrapper_ignores_unlabeled|apply wrapper_equals_fit_on_subset]. Qed.
Print Assumptions C12_any_estimator.

(* Parzen window / kernel learners with a fixed bandwidth *)
Theorem C12_kernel_votes_ignore_unlabeled : forall (K : nat -> Z) c d d',
  kernel_freq K c d = kernel_freq K c (labeled_subset d) /\
  (Permutation d d' -> kernel_freq K c d = kernel_freq K c d').
Proof. intros. split; [apply kernel_freq_ignores_unlabeled|apply kernel_freq_order_irrelevant]. Qed.
Print Assumptions C12_kernel_votes_ignore_unlabeled.

Example C12_nonvacuous :
  labeled_subset [(0%nat, Some 1, 8); (1%nat, None, 99); (2%nat, Some 0, 4)] = [(0%nat, Some 1, 8); (2%nat, Some 0, 4)] /\
  kernel_freq (fun i => Z.of_nat i + 1) 1 [(0%nat, Some 1, 8); (1%nat, None, 99); (2%nat, Some 1, 4)] = 20.
Proof. vm_compute. split; reflexivity. Qed.
