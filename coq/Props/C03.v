(* C03 -- stream query is a pure simulation.  Statements only.
   All theorems hold for an arbitrary arithmetic instance (Base/Num.v), hence
   for the binary64 instance that is compared bit-exactly with the code. *)
From Coq Require Import ZArith QArith List Bool.
From V Require Import Base.Num Model.StreamCore Model.Zliobaite Model.StreamCounters
  Model.Biqf Proofs.StreamGeneric Proofs.StreamGenericX Proofs.ZlProofs Proofs.CounterProofs Proofs.BiqfProofs Model.StreamStrategy Proofs.StreamStrategyProofs Model.Cognitive Proofs.CognitiveProofs.
Import ListNotations.
Close Scope Q_scope.

(* window-based managers (Fixed / Variable / RandomVariable / Split / Random):
   query_by_utility returns exactly the state it was given (u_t_, theta_ and the
   generator position), although the loop advances the generator *)
Theorem C03_zliobaite_query_restores_state :
  forall (F : Type) (N : Num F) (k : zkind) (p : zparams) (s : zstate) (xs : list zin),
  snd (zquery k p s xs) = s /\
  fst (zquery k p s xs) = indices_from (fst (giter (inst k p) s xs)) 0.
Proof. intros. rewrite zquery_pure. split; reflexivity. Qed.
Print Assumptions C03_zliobaite_query_restores_state.

(* any history of interleaved query/update calls: the state after the history
   is the state after its updates alone; every query result is determined by
   the preceding updates; repeating a query repeats its result *)
Theorem C03_zliobaite_extra_queries_invisible :
  forall (F : Type) (N : Num F) (k : zkind) (p : zparams) (h : list gop) (s : zstate),
  snd (grun (zquery k p) (zupdate k p) s h) =
  snd (grun (zquery k p) (zupdate k p) s (filter is_update h)).
Proof. intros. apply (extra_queries_invisible (inst k p)). apply zquery_pure. Qed.
Print Assumptions C03_zliobaite_extra_queries_invisible.

Theorem C03_zliobaite_results_depend_on_updates_only :
  forall (F : Type) (N : Num F) (k : zkind) (p : zparams) (h1 h2 : list gop) (xs : list zin) (s : zstate),
  fst (grun (zquery k p) (zupdate k p) s (h1 ++ OQuery xs :: h2)) =
  fst (grun (zquery k p) (zupdate k p) s h1) ++
  fst (zquery k p (snd (grun (zquery k p) (zupdate k p) s (filter is_update h1))) xs)
  :: fst (grun (zquery k p) (zupdate k p) (snd (grun (zquery k p) (zupdate k p) s (filter is_update h1))) h2).
Proof. intros. apply (query_results_depend_on_updates_only (inst k p)). apply zquery_pure. Qed.
Print Assumptions C03_zliobaite_results_depend_on_updates_only.

Theorem C03_zliobaite_query_idempotent :
  forall (F : Type) (N : Num F) (k : zkind) (p : zparams) (s : zstate) (xs : list zin),
  zquery k p (snd (zquery k p s xs)) xs = zquery k p s xs.
Proof. intros. apply (query_idempotent (inst k p)). apply zquery_pure. Qed.
Print Assumptions C03_zliobaite_query_idempotent.

(* density-based split manager *)
Theorem C03_density_split_extra_queries_invisible :
  forall (F : Type) (N : Num F) (p : dparams) (h : list gop) (s : dstate),
  snd (grun (d_query p) (d_update p) s h) = snd (grun (d_query p) (d_update p) s (filter is_update h)).
Proof. intros. apply (extra_queries_invisible (d_inst p)). apply d_query_pure. Qed.
Print Assumptions C03_density_split_extra_queries_invisible.

(* StreamRandomSampling / PeriodicSampling: counters and generator position *)
Theorem C03_baselines_query_restores_state :
  forall (F : Type) (N : Num F) (k : ckind) (p : cparams) (s : cstate) (n : nat),
  snd (c_query k p s n) = s.
Proof.
  intros. pose proof (c_query_pure k p s (repeat tt n)) as H. unfold c_query_l in H.
  rewrite repeat_length in H. rewrite H. reflexivity.
Qed.
Print Assumptions C03_baselines_query_restores_state.

Theorem C03_baselines_extra_queries_invisible :
  forall (F : Type) (N : Num F) (k : ckind) (p : cparams) (h : list gop) (s : cstate),
  snd (grun (c_query_l k p) (c_update k p) s h) =
  snd (grun (c_query_l k p) (c_update k p) s (filter is_update h)).
Proof. intros. apply (extra_queries_invisible (c_inst k p)). apply c_query_pure. Qed.
Print Assumptions C03_baselines_extra_queries_invisible.

(* BalancedIncrementalQuantileFilter, for every quantile oracle: query_by_utility works on copies
   of the counters and of the bounded history; the state after any history of interleaved
   query / update calls is the state after its updates alone; results depend on the preceding
   updates only; repeated queries repeat their result *)
Theorem C03_biqf_extra_queries_invisible :
  forall (F : Type) (N : Num F) (quant : Z -> list F -> F) (p : bparams) (h : list xop) (s : bstate),
  snd (xrun (b_query quant p) (b_update p) s h) =
  snd (xrun (b_query quant p) (b_update p) s (filter x_is_update h)).
Proof. intros. apply (x_extra_queries_invisible (b_inst quant p)). apply b_query_pure. Qed.
Print Assumptions C03_biqf_extra_queries_invisible.

Theorem C03_biqf_results_depend_on_updates_only :
  forall (F : Type) (N : Num F) (quant : Z -> list F -> F) (p : bparams) (h1 h2 : list xop) (xs : list F) (s : bstate),
  fst (xrun (b_query quant p) (b_update p) s (h1 ++ XQuery xs :: h2)) =
  fst (xrun (b_query quant p) (b_update p) s h1) ++
  fst (b_query quant p (snd (xrun (b_query quant p) (b_update p) s (filter x_is_update h1))) xs)
  :: fst (xrun (b_query quant p) (b_update p) (snd (xrun (b_query quant p) (b_update p) s (filter x_is_update h1))) h2).
Proof. intros. apply (x_query_results_depend_on_updates_only (b_inst quant p)). apply b_query_pure. Qed.
Print Assumptions C03_biqf_results_depend_on_updates_only.

Theorem C03_biqf_query_idempotent :
  forall (F : Type) (N : Num F) (quant : Z -> list F -> F) (p : bparams) (s : bstate) (xs : list F),
  b_query quant p (snd (b_query quant p s xs)) xs = b_query quant p s xs.
Proof. intros. apply (x_query_idempotent (b_inst quant p)). apply b_query_pure. Qed.
Print Assumptions C03_biqf_query_idempotent.


(* ---- strategy layer: a classifier-based stream strategy (utility oracle, optional sliding-window
   density test with its own state, lazily created manager) on top of a window-based manager.
   For EVERY utility oracle [inp] and EVERY filter [wstep] (in particular StreamDensityBasedAL's
   _calculate_ldf, Model/StreamStrategy.ldf_step): query restores the complete state (window,
   min_dist, manager, generator position), extra queries are invisible in every history, and it does
   not matter whether query or update creates the manager. ---- *)
Theorem C03_strategy_query_restores_state :
  forall (F : Type) (N : Num F) (k : zkind) (p : zparams) (C W : Type) (wstep : W -> C -> bool * W)
         (inp : bool -> C -> zin) (s : W * zstate) (cs : list C),
  snd (squery (zquery k p) wstep inp s cs) = s /\
  squery (zquery k p) wstep inp (snd (squery (zquery k p) wstep inp s cs)) cs = squery (zquery k p) wstep inp s cs.
Proof.
  intros. split.
  - apply (strategy_query_restores_state (inst k p)). apply zquery_pure.
  - apply (strategy_query_idempotent (inst k p)). apply zquery_pure.
Qed.
Print Assumptions C03_strategy_query_restores_state.

Theorem C03_strategy_extra_queries_invisible :
  forall (F : Type) (N : Num F) (k : zkind) (p : zparams) (C W : Type) (wstep : W -> C -> bool * W)
         (inp : bool -> C -> zin) (h : list xop) (s : W * zstate),
  let sq := squery (zquery k p) wstep inp in
  let su := supdate (fun m xs idx => zupdate k p m (length xs) idx) wstep inp in
  snd (xrun sq su s h) = snd (xrun sq su s (filter x_is_update h)).
Proof. intros. apply (strategy_extra_queries_invisible (inst k p)). apply zquery_pure. Qed.
Print Assumptions C03_strategy_extra_queries_invisible.

Theorem C03_strategy_over_biqf_extra_queries_invisible :
  forall (F : Type) (N : Num F) (quant : Z -> list F -> F) (p : bparams) (C W : Type)
         (wstep : W -> C -> bool * W) (inp : bool -> C -> F) (h : list xop) (s : W * bstate),
  let sq := squery (b_query quant p) wstep inp in
  let su := supdate (b_update p) wstep inp in
  snd (xrun sq su s h) = snd (xrun sq su s (filter x_is_update h)) /\
  (forall cs, snd (sq s cs) = s).
Proof.
  intros. split.
  - apply (strategy_extra_queries_invisible (b_inst quant p)). apply b_query_pure.
  - intros cs. apply (strategy_query_restores_state (b_inst quant p)). apply b_query_pure.
Qed.
Print Assumptions C03_strategy_over_biqf_extra_queries_invisible.

Theorem C03_strategy_lazy_manager_invisible :
  forall (F : Type) (N : Num F) (k : zkind) (p : zparams) (C W : Type) (wstep : W -> C -> bool * W)
         (inp : bool -> C -> zin) (init : W * zstate) (h : list xop) (s : option (W * zstate)),
  let mu := fun m (xs : list zin) idx => zupdate k p m (length xs) idx in
  fst (lrun (zquery k p) mu wstep inp init s h) = fst (xrun (squery (zquery k p) wstep inp) (supdate mu wstep inp) (force init s) h) /\
  force init (snd (lrun (zquery k p) mu wstep inp init s h)) =
    snd (xrun (squery (zquery k p) wstep inp) (supdate mu wstep inp) (force init s) h).
Proof. intros. apply lazy_creation_invisible. Qed.
Print Assumptions C03_strategy_lazy_manager_invisible.

(* ---- the cognitive dual query strategies, as written (Model/Cognitive.v): for every distance
   oracle, every memory-strength oracle, every manager decision function ---- *)
Theorem C03_cognitive_query_restores_state :
  forall (d : nat -> nat -> Z) (strength : nat -> nat -> Z) (cws thr : nat) (M : Type) (mdec : M -> nat -> bool)
         (s : cog * M) (cs : list nat),
  snd (cog_query d strength cws thr mdec s cs) = s /\
  cog_query d strength cws thr mdec (snd (cog_query d strength cws thr mdec s cs)) cs = cog_query d strength cws thr mdec s cs.
Proof. intros. split; [apply cog_query_restores|apply cog_query_idempotent]. Qed.
Print Assumptions C03_cognitive_query_restores_state.

Theorem C03_cognitive_extra_queries_invisible :
  forall (d : nat -> nat -> Z) (strength : nat -> nat -> Z) (cws thr : nat) (M : Type) (mdec : M -> nat -> bool)
         (mupd : M -> list (option nat) -> list nat -> option M) (ffb : bool) (h : list cog_op) (s : cog * M),
  cog_hrun d strength cws thr mdec mupd ffb s h = cog_hrun d strength cws thr mdec mupd ffb s (filter cog_is_update h).
Proof. intros. apply cog_extra_queries_invisible. Qed.
Print Assumptions C03_cognitive_extra_queries_invisible.

Theorem C03_cognitive_reachable_window_invariant :
  forall (d : nat -> nat -> Z) (strength : nat -> nat -> Z) (cws thr : nat) (M : Type) (mdec : M -> nat -> bool)
         (mupd : M -> list (option nat) -> list nat -> option M) (ffb : bool) (h : list cog_op) (m : M) (s' : cog * M),
  cog_hrun d strength cws thr mdec mupd ffb (cog0, m) h = Some s' ->
  winv cws (fst s') /\ ct (fst s') = list_sum (map cog_committed h).
Proof.
  intros d strength cws thr M mdec mupd ffb h m s' E.
  destruct (cog_reachable_invariant d strength cws thr mdec mupd ffb h (cog0, m) s' (winv0 cws) E) as [H1 H2].
  split; [exact H1|exact H2].
Qed.
Print Assumptions C03_cognitive_reachable_window_invariant.

(* non-vacuity: a split manager whose query really draws random numbers *)
Example C03_nonvacuous :
  let p := {| zp_w := 4; zp_b := (1 # 2)%Q; zp_s := (1 # 100)%Q; zp_v := (1 # 10)%Q; zp_K := 2;
              zp_draws := [(1 # 20)%Q; (1 # 3)%Q; (9 # 10)%Q; (1 # 2)%Q] |} in
  let s := {| u_t := 0%Q; theta := 1%Q; cur := 0 |} in
  let xs := [{| util := (9 # 10)%Q; eta := 1%Q |}; {| util := (1 # 10)%Q; eta := 1%Q |}] in
  fst (zquery ZSplit p s xs) = [0; 1] /\ cur (snd (giter (inst ZSplit p) s xs)) = 3 /\
  snd (zquery ZSplit p s xs) = s.
Proof. vm_compute. repeat split. Qed.
