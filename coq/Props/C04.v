(* C04 -- budget managers never overspend.  Exact-arithmetic (Q) instance of
   the same models whose binary64 instance is compared bit-exactly with the
   code.  The per-instance decision is arbitrary (any utilities incl. NaN-free
   adversarial ones, any random draws, any adaptive threshold).  Statements only. *)
From Coq Require Import ZArith QArith List Bool.
From V Require Import Base.Num Model.StreamCore Model.Zliobaite Model.StreamCounters
  Proofs.StreamGeneric Proofs.StreamGenericX Proofs.ZlProofs Proofs.CounterProofs Proofs.ZlBound Proofs.CounterBound
  Model.StreamStrategy Proofs.StrategyBound.
Import ListNotations.
Open Scope Q_scope.

(* window-based managers, per-instance run from the initial state:
   grants(n) < b*n + n/w + b*w + 1 *)
Theorem C04_zliobaite_bound :
  forall (k : zkind) (p : @zparams Q) (s : zstate) (xs : list zin),
  (1 <= zp_w p)%Z -> 0 < zp_b p -> u_t s == 0 ->
  cnt (fst (giter (inst k p) s xs)) <
  zp_b p * qlen xs + qlen xs * / inject_Z (zp_w p) + zp_b p * inject_Z (zp_w p) + 1.
Proof. intros k p s xs Hw Hb Hu. exact (zliobaite_bound k p Hw s xs Hu Hb). Qed.
Print Assumptions C04_zliobaite_bound.

(* ... and however the stream is chunked into query/update calls *)
Theorem C04_zliobaite_bound_any_chunking :
  forall (k : zkind) (p : @zparams Q) (s : zstate) (chunks : list (list zin)),
  (1 <= zp_w p)%Z -> 0 < zp_b p -> u_t s == 0 ->
  cnt (fst (process (zquery k p) (zupdate k p) s chunks)) <
  zp_b p * qlen (concat chunks) + qlen (concat chunks) * / inject_Z (zp_w p)
  + zp_b p * inject_Z (zp_w p) + 1.
Proof.
  intros k p s chunks Hw Hb Hu.
  rewrite (chunking_invariance (inst k p) _ _ (zquery_pure k p) (zupdate_simulates k p)).
  exact (zliobaite_bound k p Hw s (concat chunks) Hu Hb).
Qed.
Print Assumptions C04_zliobaite_bound_any_chunking.

(* density-based split manager: grants(n) <= b*n + 1, any chunking *)
Theorem C04_density_split_bound :
  forall (p : @dparams Q) (s : dstate) (chunks : list (list din)),
  0 <= dp_b p -> d_u s = 0%Z -> d_t s = 0%Z ->
  cnt (fst (process (d_query p) (d_update p) s chunks)) <= dp_b p * qlen (concat chunks) + 1.
Proof.
  intros p s chunks Hb Hu Ht.
  rewrite (chunking_invariance (d_inst p) _ _ (d_query_pure p) (d_update_simulates p)).
  exact (density_split_bound p Hb s (concat chunks) Hu Ht).
Qed.
Print Assumptions C04_density_split_bound.

(* PeriodicSampling and StreamRandomSampling(allow_exceeding_budget=False):
   grants(n) <= b*n, any chunking *)
Theorem C04_baselines_bound :
  forall (k : ckind) (p : @cparams Q) (s : cstate) (chunks : list (list unit)),
  0 <= cp_b p -> (k = CPeriodic \/ k = CRandom false) -> c_obs s = 0%Z -> c_q s = 0%Z ->
  cnt (fst (process (c_query_l k p) (c_update k p) s chunks)) <= cp_b p * qlen (concat chunks).
Proof.
  intros k p s chunks Hb Hk Ho Hq.
  rewrite (chunking_invariance (c_inst k p) _ _ (c_query_pure k p) (c_update_simulates k p)).
  exact (counter_bound k p Hb Hk s (concat chunks) Ho Hq).
Qed.
Print Assumptions C04_baselines_bound.

(* a stream STRATEGY built on a window-based manager (FixedUncertainty, VariableUncertainty, Split, ..., StreamDensityBasedAL with
   such a manager): whatever utilities its classifier reports, whatever its filter lets pass, however the stream is chunked *)
Theorem C04_strategy_over_zliobaite_bound :
  forall (k : zkind) (p : @zparams Q) (C W : Type) (wstep : W -> C -> bool * W) (inp : bool -> C -> zin)
         (w : W) (s : zstate) (chunks : list (list C)),
  (1 <= zp_w p)%Z -> 0 < zp_b p -> u_t s == 0 ->
  let mu := fun m (xs : list zin) idx => zupdate k p m (length xs) idx in
  cnt (fst (xprocess (squery (zquery k p) wstep inp) (supdate mu wstep inp) (w, s) chunks)) <
  zp_b p * qlen (concat chunks) + qlen (concat chunks) * / inject_Z (zp_w p) + zp_b p * inject_Z (zp_w p) + 1.
Proof. exact strategy_zliobaite_bound. Qed.
Print Assumptions C04_strategy_over_zliobaite_bound.

(* the additive terms are not slack: 12 maximal utilities, b = 3/10, w = 10:
   6 labels are granted although b*n = 3.6 (and 6 < 3.6 + 1.2 + 3 + 1) *)
Example C04_nonvacuous :
  let p := {| zp_w := 10; zp_b := 3 # 10; zp_s := 1 # 100; zp_v := 1 # 10; zp_K := 2; zp_draws := [] |} in
  let s := {| u_t := 0; theta := 1; cur := 0%nat |} in
  let xs := repeat {| util := 1; eta := 1 |} 12 in
  cnt (fst (giter (inst ZFixed p) s xs)) == 6 /\ ~ (6 <= zp_b p * qlen xs).
Proof. vm_compute. split; [reflexivity|intro H; apply H; reflexivity]. Qed.
