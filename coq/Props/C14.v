(* C14 -- a pool active-learning loop labels every sample exactly once.
   Statements only.  A cycle is ANY batch with the properties that
   C01_accepts_valid_batch derives from an accepted trace; the oracle's labels
   are irrelevant (the pool only shrinks by the returned indices). *)
From Coq Require Import ZArith List Bool Lia.
From V Require Import Base.OptOrder Model.PoolQuery Proofs.PoolProofs.
Import ListNotations.
Close Scope Z_scope.

Theorem C14_loop : forall (b : nat) (batches : list (list nat)) (u : list nat),
  NoDup u -> loop_valid b u batches = true ->
  NoDup (concat batches) /\
  (forall x, In x u <-> (In x (concat batches) \/ In x (loop_remaining u batches))) /\
  (forall x, In x (concat batches) -> ~ In x (loop_remaining u batches)) /\
  length (loop_remaining u batches) = length u - Nat.min (length u) (b * length batches).
Proof. exact loop_spec. Qed.
Print Assumptions C14_loop.

(* the pool is exhausted after exactly ceil(u / b) cycles and not before *)
Theorem C14_exhausted_exactly : forall (b : nat) (batches : list (list nat)) (u : list nat),
  NoDup u -> loop_valid b u batches = true ->
  (loop_remaining u batches = [] <-> length u <= b * length batches).
Proof.
  intros b batches u Hu H. destruct (loop_spec b batches u Hu H) as [_ [_ [_ L]]].
  split.
  - intros E. rewrite E in L. cbn in L. lia.
  - intros Hle. destruct (loop_remaining u batches) as [|x r]; [reflexivity|]. cbn in L. lia.
Qed.
Print Assumptions C14_exhausted_exactly.

(* an accepted trace of the query against the current pool is a valid batch of the loop *)
Theorem C14_accepted_trace_is_valid_batch :
  forall mode lab bs t, accepts_pool mode lab CNone bs t = true ->
  batch_valid bs (cand_set lab CNone) (map fst t) = true.
Proof.
  intros mode lab bs t H. destruct (accepts_valid_batch _ _ _ _ _ H) as [H1 [H2 H3]].
  unfold batch_valid. rewrite H1. unfold expected_k. rewrite Nat.eqb_refl. rewrite andb_true_r.
  apply andb_true_intro. split.
  - clear H1 H3. induction H2 as [|x l Hn Hnd IH]; [reflexivity|]. cbn [nodupb_n].
    apply andb_true_intro. split; [|exact IH]. apply negb_true_iff. apply memb_false. exact Hn.
  - apply forallb_forall. intros x Hx. apply memb_In. rewrite Forall_forall in H3. apply H3. exact Hx.
Qed.
Print Assumptions C14_accepted_trace_is_valid_batch.

Example C14_nonvacuous :
  loop_valid 2 [0; 1; 2; 3; 4] [[3; 0]; [4; 1]; [2]] = true /\
  loop_remaining [0; 1; 2; 3; 4] [[3; 0]; [4; 1]; [2]] = [] /\
  loop_remaining [0; 1; 2; 3; 4] [[3; 0]; [4; 1]] = [2].
Proof. vm_compute. repeat split. Qed.
