(* C08 -- a sample's utility does not depend on how candidates are addressed.  Statements only:
   the index algebra every strategy routes its scores through (equality of the numeric scores
   themselves across representations is validated by paired runs). *)
From Coq Require Import ZArith List Bool.
From V Require Import Base.OptOrder Model.Sel Model.PoolQuery Proofs.AddressingProofs.
Import ListNotations.
Close Scope Z_scope.

Theorem C08_none_eq_indices : forall lab,
  cand_set lab (CIdx (cand_set lab CNone)) = cand_set lab CNone.
Proof. exact none_eq_unlabeled_indices. Qed.
Print Assumptions C08_none_eq_indices.

Theorem C08_index_order_irrelevant : forall lab l l', (forall i, In i l <-> In i l') ->
  forall i, In i (cand_set lab (CIdx l)) <-> In i (cand_set lab (CIdx l')).
Proof. exact index_order_irrelevant. Qed.
Print Assumptions C08_index_order_irrelevant.

(* sample-wise scores f: the utility at position j is f j for candidates, NaN otherwise; hence
   restricting the candidate set leaves the utilities of the remaining candidates unchanged *)
Theorem C08_restriction : forall (f : nat -> val) n cs cs' j,
  NoDup cs -> NoDup cs' -> Forall (fun c => c < n) cs -> Forall (fun c => c < n) cs' ->
  In j cs -> In j cs' ->
  nth j (scatter cs (map f cs) (repeat None n)) None = nth j (scatter cs' (map f cs') (repeat None n)) None.
Proof. exact restriction. Qed.
Print Assumptions C08_restriction.

Theorem C08_non_candidates_nan : forall (f : nat -> val) n cs j,
  NoDup cs -> Forall (fun c => c < n) cs -> ~ In j cs ->
  nth j (scatter cs (map f cs) (repeat None n)) None = None.
Proof. exact non_candidates_nan. Qed.
Print Assumptions C08_non_candidates_nan.

(* Quire's kernel book-keeping: the row to delete is the sample's position among the unlabeled samples *)
Theorem C08_quire_position : forall lab s, nth_error lab s = Some false ->
  pos_of s (cand_set lab CNone) = count_unl_before lab s.
Proof. exact quire_position_none. Qed.
Print Assumptions C08_quire_position.

Theorem C08_quire_subset_positions_differ :
  let lab := [false; false; false; true] in
  pos_of 2 (cand_set lab (CIdx [2])) = 0 /\ count_unl_before lab 2 = 2.
Proof. exact quire_position_subset_differs. Qed.
Print Assumptions C08_quire_subset_positions_differ.
