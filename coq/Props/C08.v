(* C08 -- a sample's utility does not depend on how candidates are addressed.  Statements only:
   the index algebra every strategy routes its scores through (equality of the numeric scores
   themselves across representations is validated by paired runs). *)
From Coq Require Import ZArith List Bool.
From V Require Import Base.OptOrder Model.Sel Model.PoolQuery Proofs.SelProofs Proofs.AddressingProofs.
Import ListNotations.
Close Scope Z_scope.

Theorem C08_none_eq_indices : forall lab,
  cand_set lab (CIdx (cand_set lab CNone)) = cand_set lab CNone.
Proof. exact none_eq_unlabeled_indices. Qed.
Print Assumptions C08_none_eq_indices.

Theorem C08_index_order_irrelevant : forall lab l l', (forall i, In i l <-> In i l') ->
  forall i, In i (cand_set lab (CIdx l)) <-> In i (cand_set lab (CIdx l')).
Proof. exact index_order_irrelevant. Qed.
Print Assumptions C08_index_order_irrelevant.

(* sample-wise scores f: the utility at position j is f j for candidates, NaN otherwise; hence
   restricting the candidate set leaves the utilities of the remaining candidates unchanged *)
Theorem C08_restriction : forall (f : nat -> val) n cs cs' j,
  NoDup cs -> NoDup cs' -> Forall (fun c => c < n) cs -> Forall (fun c => c < n) cs' ->
  In j cs -> In j cs' ->
  nth j (scatter cs (map f cs) (repeat None n)) None = nth j (scatter cs' (map f cs') (repeat None n)) None.
Proof. exact restriction. Qed.
Print Assumptions C08_restriction.

Theorem C08_non_candidates_nan : forall (f : nat -> val) n cs j,
  NoDup cs -> Forall (fun c => c < n) cs -> ~ In j cs ->
  nth j (scatter cs (map f cs) (repeat None n)) None = None.
Proof. exact non_candidates_nan. Qed.
Print Assumptions C08_non_candidates_nan.

(* candidates as feature rows vs the same candidates as indices: the score of the i-th candidate is
   reported at position i resp. at position mapping[i] - the same utilities for the same samples *)
Theorem C08_rows_vs_indices : forall (f : nat -> val) n cs i,
  NoDup cs -> Forall (fun c => c < n) cs -> i < length cs ->
  nth (nth i cs 0) (scatter cs (map f cs) (repeat None n)) None =
  nth i (scatter (seq 0 (length cs)) (map f cs) (repeat None (length cs))) None.
Proof. exact rows_vs_indices. Qed.
Print Assumptions C08_rows_vs_indices.

(* ... and the same selection whenever the best candidate is unique, whatever the tie-breaking
   noise of the two calls *)
Theorem C08_same_selection_when_best_unique : forall (f : nat -> val) n cs nz nz' (m : Z) i,
  NoDup cs -> Forall (fun c => c < n) cs -> i < length cs ->
  f (nth i cs 0) = Some m ->
  (forall j, j < length cs -> forall k, f (nth j cs 0) = Some k -> (k < m)%Z \/ j = i) ->
  noise_ok n nz -> noise_ok (length cs) nz' ->
  rand_argmax (scatter cs (map f cs) (repeat None n)) nz = nth i cs 0 /\
  rand_argmax (scatter (seq 0 (length cs)) (map f cs) (repeat None (length cs))) nz' = i.
Proof. exact same_selection_when_unique. Qed.
Print Assumptions C08_same_selection_when_best_unique.

(* reordering the rows of (X, y) by pi reorders the utilities accordingly (sample-wise scores) *)
Theorem C08_permutation_equivariance : forall (f : nat -> val) (pi : nat -> nat) n cs cs' j,
  NoDup cs -> NoDup cs' -> Forall (fun c => c < n) cs -> Forall (fun c => c < n) cs' ->
  (forall i, In i cs' <-> In (pi i) cs) -> j < n -> pi j < n ->
  nth j (scatter cs' (map (fun i => f (pi i)) cs') (repeat None n)) None =
  nth (pi j) (scatter cs (map f cs) (repeat None n)) None.
Proof. exact permutation_equivariance. Qed.
Print Assumptions C08_permutation_equivariance.

(* Quire's kernel book-keeping: the row to delete is the sample's position among the unlabeled samples *)
Theorem C08_quire_position : forall lab s, nth_error lab s = Some false ->
  pos_of s (cand_set lab CNone) = count_unl_before lab s.
Proof. exact quire_position_none. Qed.
Print Assumptions C08_quire_position.

Theorem C08_quire_subset_positions_differ :
  let lab := [false; false; false; true] in
  pos_of 2 (cand_set lab (CIdx [2])) = 0 /\ count_unl_before lab 2 = 2.
Proof. exact quire_position_subset_differs. Qed.
Print Assumptions C08_quire_subset_positions_differ.
