(* C16 -- label predicates and encoder round-trip.  Statements only. *)
From Coq Require Import ZArith List Bool Lia Sorted.
From V Require Import Model.Label Proofs.LabelProofs.
Import ListNotations.
Open Scope Z_scope.

(* is_labeled is the exact complement of is_unlabeled, which marks precisely
   the entries equal to the sentinel *)
Theorem C16_complement_and_marks : forall ml y i, (i < length y)%nat ->
  length (is_unlabeled ml y) = length y /\ length (is_labeled ml y) = length y /\
  nth i (is_labeled ml y) false = negb (nth i (is_unlabeled ml y) false) /\
  (nth i (is_unlabeled ml y) false = true <-> nth i y 0 = ml) /\
  (nth i (is_labeled ml y) false = true <-> nth i y 0 <> ml).
Proof.
  intros ml y i H. split; [apply is_unlabeled_length|]. split; [apply is_labeled_length|].
  split; [apply is_labeled_nth; exact H|]. exact (marks_exactly_sentinel ml y i H).
Qed.
Print Assumptions C16_complement_and_marks.

(* (un)labeled_indices enumerate exactly the marked positions, in increasing order *)
Theorem C16_indices_enumerate_in_order : forall ml y,
  (forall i, In i (unlabeled_indices ml y) <-> ((i < length y)%nat /\ nth i y 0 = ml)) /\
  (forall i, In i (labeled_indices ml y) <-> ((i < length y)%nat /\ nth i y 0 <> ml)) /\
  StronglySorted lt (unlabeled_indices ml y) /\ StronglySorted lt (labeled_indices ml y).
Proof.
  intros ml y. unfold unlabeled_indices, labeled_indices.
  split; [|split; [|split; apply true_indices_sorted]].
  - intros i. rewrite true_indices_spec. split.
    + intros H. assert (L : (i < length y)%nat).
      { rewrite <- (is_unlabeled_length ml). apply true_indices_lt. apply true_indices_spec. exact H. }
      split; [exact L|]. apply (marks_exactly_sentinel ml y i L). exact H.
    + intros [L H]. apply (marks_exactly_sentinel ml y i L). exact H.
  - intros i. rewrite true_indices_spec. split.
    + intros H. assert (L : (i < length y)%nat).
      { rewrite <- (is_labeled_length ml). apply true_indices_lt. apply true_indices_spec. exact H. }
      split; [exact L|]. apply (marks_exactly_sentinel ml y i L). exact H.
    + intros [L H]. apply (marks_exactly_sentinel ml y i L). exact H.
Qed.
Print Assumptions C16_indices_enumerate_in_order.

(* 2-D: pairs (row, column), exactly the marked entries, lexicographic order *)
Theorem C16_indices_2d : forall (m : list (list bool)),
  (forall i j, In (i, j) (true_indices2 m) <-> nth j (nth i m []) false = true) /\
  StronglySorted lexlt (true_indices2 m).
Proof. intros m. split; [intros; apply true_indices2_spec|apply true_indices2_from_sorted]. Qed.
Print Assumptions C16_indices_2d.

(* classes_ is sorted without duplicates and holds exactly the given classes
   (or the labels present in y) *)
Theorem C16_classes_sorted : forall classes ml y,
  StronglySorted Z.lt (enc_fit classes ml y) /\
  (forall cs, classes = Some cs -> forall z, In z (enc_fit classes ml y) <-> In z cs) /\
  (classes = None -> forall z, In z (enc_fit classes ml y) <-> (In z y /\ z <> ml)).
Proof.
  intros classes ml y. split; [apply enc_fit_sorted|]. split.
  - intros cs E z. subst. apply sort_dedupe_in.
  - intros E z. subst. unfold enc_fit. rewrite sort_dedupe_in, filter_In.
    split; intros [H1 H2]; (split; [exact H1|]).
    + apply negb_true_iff in H2. lia.
    + apply negb_true_iff. lia.
Qed.
Print Assumptions C16_classes_sorted.

(* the sorted classes are mapped to 0..K-1 *)
Theorem C16_classes_to_range : forall cls ml,
  StronglySorted Z.lt cls -> ~ In ml cls ->
  enc_transform cls ml cls = Some (map Z.of_nat (seq 0 (length cls))).
Proof. intros cls ml H. apply transform_classes_is_range. apply sorted_lt_nodup. exact H. Qed.
Print Assumptions C16_classes_to_range.

(* missing labels are mapped to -1 and inverse_transform(transform(y)) = y *)
Theorem C16_roundtrip : forall cls ml y,
  ~ In ml cls -> Forall (fun v => v = ml \/ In v cls) y ->
  exists codes, enc_transform cls ml y = Some codes /\
    enc_inverse cls ml codes = Some y /\
    length codes = length y /\
    Forall (fun c => -1 <= c < Z.of_nat (length cls)) codes /\
    (forall i, (i < length y)%nat -> (nth i codes 0 = -1 <-> nth i y 0 = ml)).
Proof. exact roundtrip. Qed.
Print Assumptions C16_roundtrip.

(* without an explicit class list the hypotheses of the round-trip always hold *)
Theorem C16_fit_without_classes_covers : forall ml y,
  ~ In ml (enc_fit None ml y) /\ Forall (fun v => v = ml \/ In v (enc_fit None ml y)) y.
Proof. exact fit_covers_y. Qed.
Print Assumptions C16_fit_without_classes_covers.

(* empty arrays *)
Theorem C16_empty : forall ml,
  is_unlabeled ml [] = [] /\ is_labeled ml [] = [] /\ unlabeled_indices ml [] = [] /\
  labeled_indices ml [] = [] /\ enc_transform (enc_fit None ml []) ml [] = Some [] /\
  enc_inverse (enc_fit None ml []) ml [] = Some [].
Proof. intros ml. repeat split. Qed.
Print Assumptions C16_empty.

Example C16_nonvacuous :
  let y := [7; 0; 3; 7; 0; 5] in
  let cls := enc_fit None 0 y in
  cls = [3; 5; 7] /\ enc_transform cls 0 y = Some [2; -1; 0; 2; -1; 1] /\
  enc_inverse cls 0 [2; -1; 0; 2; -1; 1] = Some y /\
  unlabeled_indices 0 y = [1%nat; 4%nat] /\ labeled_indices 0 y = [0%nat; 2%nat; 3%nat; 5%nat].
Proof. vm_compute. repeat split. Qed.
