(* C11 -- classifier outputs are valid probabilities and consistent decisions.
   Statements only (exact arithmetic; the values of real estimators are inputs). *)
From Coq Require Import ZArith QArith List Bool Lia.
From V Require Import Base.OptOrder Model.Sel Model.Label Model.ClassProba Proofs.SelProofs Proofs.ClassProbaProofs.
Import ListNotations.
Open Scope Q_scope.

(* frequency normalisation: rows of predict_proba are non-negative and sum to one for every
   non-negative frequency / prior vector *)
Theorem C11_simplex : forall K row, (0 < K)%nat -> length row = K -> Forall (fun x => 0 <= x) row ->
  length (normalize_row K row) = K /\ Forall (fun x => 0 <= x) (normalize_row K row) /\
  qsum (normalize_row K row) == 1.
Proof. exact normalize_row_simplex. Qed.
Print Assumptions C11_simplex.

(* declared classes, no labels (all frequencies and priors zero): the uniform distribution *)
Theorem C11_uniform_without_labels : forall K row, qsum row == 0 ->
  normalize_row K row = repeat (1 # Pos.of_nat K) K.
Proof. exact normalize_row_uniform. Qed.
Print Assumptions C11_uniform_without_labels.

(* the cost matrix the user gives in the declared class order is applied to the classes it was
   given for, whatever the declared order *)
Theorem C11_cost_matrix_follows_classes : forall (declared : list Z) (C : list (list Q)) p p',
  NoDup declared -> (p < length declared)%nat -> (p' < length declared)%nat ->
  exists r r', index_of (nth p declared 0%Z) (sort_dedupe declared) = Some r /\
               index_of (nth p' declared 0%Z) (sort_dedupe declared) = Some r' /\
               nth r' (nth r (permute_cost 0 declared C) []) 0 = nth p' (nth p C []) 0.
Proof. intros. apply permute_cost_spec; assumption. Qed.
Print Assumptions C11_cost_matrix_follows_classes.

(* predict returns a member of classes_ whose expected cost is minimal *)
Theorem C11_decision_is_member_and_optimal : forall cls keys noise m,
  length cls = length keys -> noise_ok (length keys) noise -> nanmin keys = Some m ->
  In (decide cls keys noise) cls /\ nth (rand_argmin keys noise) keys None = Some m /\
  forall k, In (Some k) keys -> (m <= k)%Z.
Proof. exact decide_member_and_optimal. Qed.
Print Assumptions C11_decision_is_member_and_optimal.

Definition qlist_eq (a b : list Q) : bool :=
  (length a =? length b)%nat && forallb (fun p => Qeq_bool (fst p) (snd p)) (combine a b).

Example C11_nonvacuous :
  qlist_eq (normalize_row 3 [1 # 2; 0; 3 # 2]) [1 # 4; 0; 3 # 4] = true /\
  qlist_eq (remap_row [10; 20; 30]%Z [10; 30]%Z [1 # 4; 3 # 4]) [1 # 4; 0; 3 # 4] = true /\
  forallb (fun p => qlist_eq (fst p) (snd p))
    (combine (permute_cost 0 [30; 10; 20]%Z [[0; 1; 2]; [3; 0; 4]; [5; 6; 0]]) [[0; 4; 3]; [6; 0; 5]; [1; 2; 0]]) = true.
Proof. vm_compute. split; [reflexivity|split; reflexivity]. Qed.
