(* C09 -- results do not depend on how labels and missing labels are encoded.  Statements only
   (the encoder algebra every strategy and classifier routes its labels through; agreement of the
   numeric results is validated by paired runs). *)
From Coq Require Import ZArith List Bool.
From V Require Import Model.Label Proofs.RelabelProofs.
Import ListNotations.
Open Scope Z_scope.

(* strictly increasing relabeling f of the classes (0,1,2 -> 10,20,30 -> 'a','b','c' by their order
   codes), sentinel relabelled along: same classes_ up to f, IDENTICAL encoded labels, decoded
   predictions are the re-encoded originals *)
Theorem C09_monotone_relabel_invariant : forall (f : Z -> Z), (forall a b, a < b -> f a < f b) ->
  forall classes cls ml y codes,
  enc_fit (option_map (map f) classes) (f ml) (map f y) = map f (enc_fit classes ml y) /\
  enc_transform (map f cls) (f ml) (map f y) = enc_transform cls ml y /\
  enc_inverse (map f cls) (f ml) codes = option_map (map f) (enc_inverse cls ml codes).
Proof.
  intros f Hf classes cls ml y codes. split; [apply enc_fit_relabel; exact Hf|].
  split; [apply enc_transform_relabel; exact Hf|apply enc_inverse_relabel].
Qed.
Print Assumptions C09_monotone_relabel_invariant.

Theorem C09_sentinel_irrelevant : forall cls ml ml' y y',
  length y = length y' ->
  (forall i, (i < length y)%nat ->
     (nth i y 0 = ml <-> nth i y' 0 = ml') /\ (nth i y 0 <> ml -> nth i y' 0 = nth i y 0)) ->
  enc_transform cls ml y = enc_transform cls ml' y'.
Proof. exact sentinel_irrelevant. Qed.
Print Assumptions C09_sentinel_irrelevant.

Example C09_nonvacuous :
  enc_transform [10; 20; 30] 99 [20; 99; 30; 10] = enc_transform [0; 1; 2] (-5) [1; -5; 2; 0] /\
  enc_transform [0; 1; 2] (-5) [1; -5; 2; 0] = Some [1; -1; 2; 0].
Proof. vm_compute. split; reflexivity. Qed.
