(* C15 -- regressor predictions cohere with the predictive distribution.  Statements only
   (exact arithmetic; scipy's t distribution and the kernel sums are external). *)
From Coq Require Import ZArith QArith.
From V Require Import Base.Num Model.Nix Proofs.NixProofs.
Open Scope Q_scope.

(* standard deviations are well defined and non-negative whenever a proper prior or data is
   available: total kappa and nu positive => no vanishing denominator, sigma^2 >= 0, scale^2 >= 0 *)
Theorem C15_posterior_wellformed : forall k1 n1 m1 s1 k2 n2 m2 s2,
  0 <= k1 -> 0 <= n1 -> 0 <= s1 -> 0 <= k2 -> 0 <= n2 -> 0 <= s2 -> 0 < k1 + k2 -> 0 < n1 + n2 ->
  let '(kc, nc, mc, sc) := combineQ (k1, n1, m1, s1) (k2, n2, m2, s2) in
  0 < kc /\ 0 < nc /\ 0 <= sc /\ 0 <= scale_sqQ (kc, nc, mc, sc).
Proof. exact posterior_wellformed. Qed.
Print Assumptions C15_posterior_wellformed.

Theorem C15_no_data_is_prior : forall k1 n1 m1 s1, 0 < k1 -> 0 < n1 ->
  let '(kc, nc, mc, sc) := combineQ (k1, n1, m1, s1) (0, 0, 0, 0) in
  kc == k1 /\ nc == n1 /\ mc == m1 /\ sc == s1.
Proof. exact no_data_is_prior. Qed.
Print Assumptions C15_no_data_is_prior.

Example C15_nonvacuous :
  let '(kc, nc, mc, sc) := combineQ (1 # 10, 25 # 10, 0, 1) (2, 2, 3, 1 # 2) in
  Qeq_bool kc (21 # 10) && Qeq_bool nc (45 # 10) && Qeq_bool mc (60 # 21) = true.
Proof. vm_compute. reflexivity. Qed.
