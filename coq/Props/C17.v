(* C17 -- annotation aggregation equals plain counting.  Statements only. *)
From Coq Require Import ZArith QArith List Bool.
From V Require Import Base.OptOrder Model.Sel Model.Aggregation Proofs.SelProofs Proofs.AggProofs.
Import ListNotations.
Open Scope Z_scope.

(* compute_vote_vectors (bincount over class + sample * n_classes with weights zeroed at
   missing entries) returns, for every sample and class, exactly the weighted number of
   annotators that voted for that class *)
Theorem C17_bincount_is_count : forall K y w i c,
  Forall2 (row_wf K) y w -> (i < length y)%nat -> (c < K)%nat ->
  nth c (nth i (vote_vectors K y w) []) 0 = count_row c (nth i y []) (nth i w []).
Proof. exact vote_vectors_count. Qed.
Print Assumptions C17_bincount_is_count.

Theorem C17_missing_ignored : forall c row w,
  count_row c (None :: row) w = count_row c row (tl w).
Proof. exact count_row_missing. Qed.
Print Assumptions C17_missing_ignored.

(* majority_vote: a class with maximal vote, or missing for samples without any label *)
Theorem C17_majority_is_maximal_or_missing : forall K y w noise,
  (0 < K)%nat -> length y = length w ->
  Forall (noise_ok K) noise -> (length (filter has_label y) <= length noise)%nat ->
  length (majority K y w noise) = length y /\
  forall i, (i < length y)%nat ->
    match nth i (majority K y w noise) None with
    | None => has_label (nth i y []) = false
    | Some c => has_label (nth i y []) = true /\ (c < K)%nat /\
                forall c', (c' < K)%nat -> count_row c' (nth i y []) (nth i w []) <= count_row c (nth i y []) (nth i w [])
    end.
Proof. exact majority_spec. Qed.
Print Assumptions C17_majority_is_maximal_or_missing.

(* ext_confusion_matrix, normalize=None: the confusion counts of the non-missing labels *)
Theorem C17_confusion_counts : forall K y_true pred t p, (t < K)%nat -> (p < K)%nat ->
  nth p (nth t (conf_matrix K y_true pred) []) 0 = conf_count t p y_true pred /\
  nth p (nth t (conf_norm 0 K (conf_matrix K y_true pred)) []) 0%Q = inject_Z (conf_count t p y_true pred).
Proof. exact conf_matrix_counts. Qed.
Print Assumptions C17_confusion_counts.

Theorem C17_confusion_ignores_missing : forall t p a y_true pred,
  conf_count t p (a :: y_true) (None :: pred) = conf_count t p y_true pred.
Proof. exact conf_count_missing. Qed.
Print Assumptions C17_confusion_ignores_missing.

Example C17_nonvacuous :
  let y := [[Some 1%nat; None; Some 1%nat]; [None; None; None]; [Some 0%nat; Some 2%nat; Some 0%nat]] in
  let w := [[Some 8; Some 8; Some 4]; [Some 8; Some 8; Some 8]; [Some 8; None; Some 2]] in
  vote_vectors 3 y w = [[0; 12; 0]; [0; 0; 0]; [10; 0; 0]] /\
  majority 3 y w [[5; 5; 5]; [5; 5; 5]] = [Some 1%nat; None; Some 0%nat].
Proof. vm_compute. split; reflexivity. Qed.
