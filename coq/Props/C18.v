(* C18 -- selection primitives pick true optima and well-formed batches.
   Only statements; proofs are in Proofs/SelProofs.v. *)
From Coq Require Import ZArith List Bool Lia Sorted.
From V Require Import Base.OptOrder Model.Sel Proofs.SelProofs.
Import ListNotations.
Open Scope Z_scope.

(* rand_argmax returns a position of the exact maximum of the non-NaN entries
   (for every array, every tie / NaN / +-inf pattern, every positive noise) *)
Theorem C18_argmax_optimal : forall (a : list val) (noise : list Z) (m : Z),
  noise_ok (length a) noise -> nanmax a = Some m ->
  (rand_argmax a noise < length a)%nat /\
  nth (rand_argmax a noise) a None = Some m /\
  (forall k, In (Some k) a -> k <= m).
Proof. exact rand_argmax_full. Qed.
Print Assumptions C18_argmax_optimal.

Theorem C18_argmin_optimal : forall (a : list val) (noise : list Z) (m : Z),
  noise_ok (length a) noise -> nanmin a = Some m ->
  (rand_argmin a noise < length a)%nat /\
  nth (rand_argmin a noise) a None = Some m /\
  (forall k, In (Some k) a -> m <= k).
Proof. exact rand_argmin_optimal. Qed.
Print Assumptions C18_argmin_optimal.

(* every tied optimum is reachable under some noise vector *)
Theorem C18_every_max_tie_reachable : forall (a : list val) (j : nat) (m : Z),
  (j < length a)%nat -> nanmax a = Some m -> nth j a None = Some m ->
  exists noise, noise_ok (length a) noise /\ rand_argmax a noise = j.
Proof. exact every_tie_reachable. Qed.
Print Assumptions C18_every_max_tie_reachable.

Theorem C18_every_min_tie_reachable : forall (a : list val) (j : nat) (m : Z),
  (j < length a)%nat -> nanmin a = Some m -> nth j a None = Some m ->
  exists noise, noise_ok (length a) noise /\ rand_argmin a noise = j.
Proof. exact every_min_tie_reachable. Qed.
Print Assumptions C18_every_min_tie_reachable.

Theorem C18_all_nan_returns_zero : forall (a : list val) (noise : list Z),
  length noise = length a -> nanmax a = None -> rand_argmax a noise = O.
Proof. exact rand_argmax_all_nan. Qed.
Print Assumptions C18_all_nan_returns_zero.

(* N-d arrays are handled through the flat index: unravel is a bijection *)
Theorem C18_unravel_roundtrip : forall (shape : list nat) (i : nat),
  (i < fold_right Nat.mul 1 shape)%nat ->
  ravel shape (unravel shape i) = i /\
  Forall2 (fun x d => (x < d)%nat) (unravel shape i) shape.
Proof. intros shape i H. split; [exact (ravel_unravel shape i H)|exact (unravel_in_range shape i H)]. Qed.
Print Assumptions C18_unravel_roundtrip.

(* simple_batch(method="max"): min(bs, #non-NaN) distinct positions, each a
   maximum of its row (never NaN), non-increasing utilities, row s = utilities
   with the picks of steps < s set to NaN *)
Theorem C18_simple_batch_max : forall (u : list val) (noises : list (list Z)) (bs : nat),
  noises_ok (length u) (Nat.min bs (count_nonnan u)) noises ->
  let t := simple_batch_max u noises bs in
  let picks := map fst t in
  length t = Nat.min bs (count_nonnan u) /\
  NoDup picks /\
  Forall (fun s : nat * list val => let '(i, row) := s in
            length row = length u /\ (i < length u)%nat /\
            exists m, nanmax row = Some m /\ nth i row None = Some m) t /\
  StronglySorted vge (map pick_val t) /\
  map snd t = map (fun s => mask_all u (firstn s picks)) (seq 0 (length picks)).
Proof. exact simple_batch_max_spec. Qed.
Print Assumptions C18_simple_batch_max.

(* simple_batch(method="proportional") under numpy's contract for
   choice(replace=False): never a zero-weight / NaN entry, distinct, rows masked *)
Theorem C18_simple_batch_proportional : forall (u : list val) (k : nat) (chosen : list nat),
  choice_contract u k chosen = true ->
  let t := simple_batch_prop u chosen in
  map fst t = chosen /\ length t = k /\ NoDup chosen /\
  Forall (fun c => (c < length u)%nat /\ positive (nth c u None) = true) chosen /\
  map snd t = map (fun s => mask_all u (firstn s chosen)) (seq 0 (length chosen)).
Proof. exact simple_batch_prop_spec. Qed.
Print Assumptions C18_simple_batch_proportional.

(* the hypothesis noise > 0 is necessary (probability 2^-53 per draw) *)
Theorem C18_zero_noise_counterexample :
  rand_argmax [Some 1; Some 5] [3; 0] = O /\ nanmax [Some 1; Some 5] = Some 5.
Proof. exact zero_noise_counterexample. Qed.
Print Assumptions C18_zero_noise_counterexample.

(* non-vacuity: a concrete array with ties, NaN and -inf-like keys meets the hypotheses *)
Example C18_nonvacuous :
  let u := [Some 3; None; Some 7; Some 7; Some (-9); None] in
  let noises := [[5;1;2;9;4;4]; [5;1;2;9;4;4]; [5;1;2;9;4;4]] in
  noises_ok (length u) (Nat.min 3 (count_nonnan u)) noises /\
  map fst (simple_batch_max u noises 3) = [3%nat; 2%nat; 0%nat].
Proof.
  cbv zeta. split; [|vm_compute; reflexivity].
  split; [vm_compute; lia|].
  repeat constructor.
Qed.
