(* C19 -- index-based incremental refitting equals retraining from scratch.  Statements only.
   The model state IS the implied training data (list of batches the model has been shown);
   "behaves like a fresh copy trained on the implied multiset" is then checked against the code
   by comparing the wrapped (recording / real) classifier with that state after every operation. *)
From Coq Require Import ZArith List Bool.
From V Require Import Base.OptOrder Model.PoolQuery Model.IndexWrapper Proofs.IndexWrapperProofs Model.KernelCache Proofs.KernelCacheProofs.
Import ListNotations.

(* the stored base model changes only through set_base_clf=True *)
Theorem C19_base_changes_only_by_set_base : forall c s o s',
  step c s o = inl s' ->
  match o with OFit _ sb | OPartial _ _ sb => sb = false end -> base s' = base s.
Proof. exact base_only_by_set_base. Qed.
Print Assumptions C19_base_changes_only_by_set_base.

(* partial_fit(use_base_clf=True) restarts from the base model: whatever the current model has
   been shown in between is irrelevant *)
Theorem C19_base_restart : forall c s1 s2 b sb,
  base s1 = base s2 ->
  match step c s1 (OPartial b true sb), step c s2 (OPartial b true sb) with
  | inl a, inl a' => cur a = cur a'
  | inr e, inr e' => e = e'
  | _, _ => False
  end.
Proof. exact partial_from_base_ignores_current. Qed.
Print Assumptions C19_base_restart.


(* ---- the precomputed-kernel speed-up for the Parzen window classifier never changes a prediction ----
   every entry of the cache that is not NaN is the kernel value of its two samples, after ANY history
   of precompute calls (any index lists, any labeled / unlabeled filters); a lookup either raises
   (None) or hands the classifier exactly the kernel matrix it would compute itself *)
Theorem C19_kernel_cache_sound :
  forall (k : nat -> nat -> Z) (lab : list bool) (n : nat) (h : list pcall) (i j : nat) (v : Z),
  cget (run_calls k lab (empty_cache n) h) i j = Some v -> v = k i j.
Proof. intros k lab n h. exact (cache_sound k lab n h). Qed.
Print Assumptions C19_kernel_cache_sound.

Theorem C19_speed_up_transparent :
  forall (k : nat -> nat -> Z) (lab : list bool) (n : nat) (h : list pcall) (train query : list nat) (P : list (list Z)),
  (forall i j, k i j = k j i) ->
  lookup (run_calls k lab (empty_cache n) h) train query = Some P -> P = direct k train query.
Proof. exact speed_up_transparent. Qed.
Print Assumptions C19_speed_up_transparent.


(* emulated partial_fit, any operation sequence: the current and the base model are always a
   single refit on the concatenated data, and with enforce_unique_samples their sample indices
   stay pairwise distinct (re-labelled samples replace their old entry) *)
Theorem C19_emulated_partial_fit_invariant : forall c, native_pf c = false -> forall ops s',
  run c init ops = inl s' ->
  single_batch (cur s') /\ single_batch (base s') /\
  (unique c = true -> nodup_model (cur s') /\ nodup_model (base s')).
Proof.
  intros c Hn ops s' Hr. apply (emulated_invariant c Hn ops init s'); cbn; auto.
Qed.
Print Assumptions C19_emulated_partial_fit_invariant.

Example C19_nonvacuous :
  let c := {| native_pf := false; unique := true |} in
  let t (i : nat) (y : Z) := (i, y, None) : triple in
  run c init [OFit [t 0%nat 1%Z; t 1%nat 0%Z] true; OPartial [t 2%nat 1%Z] false false; OPartial [t 1%nat 1%Z; t 3%nat 0%Z] true false]
  = inl {| cur := Some [[t 0%nat 1%Z; t 1%nat 1%Z; t 3%nat 0%Z]]; base := Some [[t 0%nat 1%Z; t 1%nat 0%Z]] |}.
Proof. vm_compute. reflexivity. Qed.

(* non-vacuity of the cache theorems: linear kernel on coordinates 0,1,2,3; the labeled samples 0 and 2
   are precomputed against 1 and 3; looking up sample 1 succeeds, sample 0 raises *)
Example C19_kernel_cache_nonvacuous :
  let k := fun i j => (Z.of_nat i * Z.of_nat j)%Z in
  let lab := [true; false; true; false] in
  let c := precompute k lab (empty_cache 4) [0; 2]%nat [1; 3; 3]%nat PLabeled PAll in
  lookup c [0; 2]%nat [1%nat] = Some [[0; 2]%Z] /\ lookup c [0; 2]%nat [0%nat] = None /\ cget c 2 3 = Some 6%Z.
Proof. vm_compute. repeat split; reflexivity. Qed.
