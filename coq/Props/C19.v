(* C19 -- index-based incremental refitting equals retraining from scratch.  Statements only.
   The model state IS the implied training data (list of batches the model has been shown);
   "behaves like a fresh copy trained on the implied multiset" is then checked against the code
   by comparing the wrapped (recording / real) classifier with that state after every operation. *)
From Coq Require Import ZArith List Bool.
From V Require Import Base.OptOrder Model.PoolQuery Model.IndexWrapper Proofs.IndexWrapperProofs.
Import ListNotations.

(* the stored base model changes only through set_base_clf=True *)
Theorem C19_base_changes_only_by_set_base : forall c s o s',
  step c s o = inl s' ->
  match o with OFit _ sb | OPartial _ _ sb => sb = false end -> base s' = base s.
Proof. exact base_only_by_set_base. Qed.
Print Assumptions C19_base_changes_only_by_set_base.

(* partial_fit(use_base_clf=True) restarts from the base model: whatever the current model has
   been shown in between is irrelevant *)
Theorem C19_base_restart : forall c s1 s2 b sb,
  base s1 = base s2 ->
  match step c s1 (OPartial b true sb), step c s2 (OPartial b true sb) with
  | inl a, inl a' => cur a = cur a'
  | inr e, inr e' => e = e'
  | _, _ => False
  end.
Proof. exact partial_from_base_ignores_current. Qed.
Print Assumptions C19_base_restart.

(* emulated partial_fit, any operation sequence: the current and the base model are always a
   single refit on the concatenated data, and with enforce_unique_samples their sample indices
   stay pairwise distinct (re-labelled samples replace their old entry) *)
Theorem C19_emulated_partial_fit_invariant : forall c, native_pf c = false -> forall ops s',
  run c init ops = inl s' ->
  single_batch (cur s') /\ single_batch (base s') /\
  (unique c = true -> nodup_model (cur s') /\ nodup_model (base s')).
Proof.
  intros c Hn ops s' Hr. apply (emulated_invariant c Hn ops init s'); cbn; auto.
Qed.
Print Assumptions C19_emulated_partial_fit_invariant.

Example C19_nonvacuous :
  let c := {| native_pf := false; unique := true |} in
  let t (i : nat) (y : Z) := (i, y, None) : triple in
  run c init [OFit [t 0%nat 1%Z; t 1%nat 0%Z] true; OPartial [t 2%nat 1%Z] false false; OPartial [t 1%nat 1%Z; t 3%nat 0%Z] true false]
  = inl {| cur := Some [[t 0%nat 1%Z; t 1%nat 1%Z; t 3%nat 0%Z]]; base := Some [[t 0%nat 1%Z; t 1%nat 0%Z]] |}.
Proof. vm_compute. reflexivity. Qed.
