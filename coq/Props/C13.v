(* C13 -- fit is history-free and never rewrites constructor parameters.  Statements only.
   (a) the frame theorem over ALL estimator classes (table regenerated from /repo on every run,
   build/C13/C13_table.v); (c) the sliding-window classifier equals a fit on exactly the last
   window_size samples it was given since the last fit. *)
From Coq Require Import List Bool Arith.
From V Require Import Model.Frame Proofs.FrameProofs Model.SlidingWindow Proofs.SlidingWindowProofs.
Import ListNotations.

Theorem C13_frame_sound : forall effs p es st,
  frame_ok effs p = true -> fresh_store st -> Forall (fun e => In e effs) es ->
  env (exec_all st es) p = env st p /\ ver (exec_all st es) (env st p) = ver st (env st p).
Proof. exact frame_sound. Qed.
Print Assumptions C13_frame_sound.

Theorem C13_window_is_last_w : forall w ops,
  sw_run w ops = lastn w (since_last_fit ops []) /\ length (sw_run w ops) <= w.
Proof.
  intros w ops. split; [apply sw_run_spec|]. rewrite sw_run_spec, lastn_length. apply Nat.le_min_l.
Qed.
Print Assumptions C13_window_is_last_w.

Example C13_nonvacuous :
  sw_run 3 [SFit [1; 2]; SPartial [3; 4]; SFit [9]; SPartial [5; 6; 7]] = [5; 6; 7] /\
  sw_run 3 [SFit [1; 2]; SPartial [3; 4]] = [2; 3; 4].
Proof. vm_compute. split; reflexivity. Qed.
