(* C13 -- fit is history-free and never rewrites constructor parameters.  Statements only.
   (a) the frame theorem over ALL estimator classes (table regenerated from /repo on every run,
   build/C13/C13_table.v); (c) the sliding-window classifier equals a fit on exactly the last
   window_size samples it was given since the last fit. *)
From Coq Require Import List Bool Arith.
From V Require Import Model.Frame Proofs.FrameProofs Model.SlidingWindow Proofs.SlidingWindowProofs.
Import ListNotations.

Theorem C13_frame_sound : forall effs p es st,
  frame_ok effs p = true -> fresh_store st -> Forall (fun e => In e effs) es ->
  env (exec_all st es) p = env st p /\ ver (exec_all st es) (env st p) = ver st (env st p).
Proof. exact frame_sound. Qed.
Print Assumptions C13_frame_sound.

Theorem C13_window_is_last_w : forall w ops,
  sw_run w ops = lastn w (since_last_fit ops []) /\ length (sw_run w ops) <= w.
Proof.
  intros w ops. split; [apply sw_run_spec|]. rewrite sw_run_spec, lastn_length. apply Nat.le_min_l.
Qed.
Print Assumptions C13_window_is_last_w.

Example C13_nonvacuous :
  sw_run 3 [SFit [1; 2]; SPartial [3; 4]; SFit [9]; SPartial [5; 6; 7]] = [5; 6; 7] /\
  sw_run 3 [SFit [1; 2]; SPartial [3; 4]] = [2; 3; 4].
Proof. vm_compute. split; reflexivity. Qed.


(* ---- the window when a caller varies everything between two calls (window_size and only_labeled
   through set_params, sample weights present or not); Model.SlidingWindow.swx_step, compared with
   X_train_ / sample_weight_train_ of the implementation after every call ---- *)

(* at most the CURRENT window_size samples, after every call *)
Theorem C13_window_bounded_by_current_size : forall s c s',
  swx_step s c = Some s' -> length (xwindow s') <= xw c.
Proof. exact swx_length_bound. Qed.
Print Assumptions C13_window_bounded_by_current_size.

(* a fit leaks nothing: any history before it (other data, other parameters, weights or not) gives the
   same window as the fit on a new object, and so does everything after it *)
Theorem C13_window_history_before_fit_irrelevant : forall pre s c cs s1,
  xfit c = true -> swx_run s pre = Some s1 -> swx_run s (pre ++ c :: cs) = swx_run xempty (c :: cs).
Proof. exact swx_history_before_fit_irrelevant. Qed.
Print Assumptions C13_window_history_before_fit_irrelevant.

(* the stored weights always are the weights of exactly the samples in the window, in window order *)
Theorem C13_window_weights_aligned : forall cs s',
  swx_run xempty cs = Some s' -> xaligned s'.
Proof. intros cs s'. apply swx_run_invariant. reflexivity. Qed.
Print Assumptions C13_window_weights_aligned.

(* with only_labeled nothing unlabeled enters; a fit on unlabeled samples only empties the window *)
Theorem C13_window_only_labeled : forall s c s',
  Forall (fun p => snd p = true) (xwindow s) -> xol c = true -> swx_step s c = Some s' ->
  Forall (fun p => snd p = true) (xwindow s').
Proof. exact swx_only_labeled. Qed.
Print Assumptions C13_window_only_labeled.

Theorem C13_window_fit_on_unlabeled_only_is_empty : forall s c s',
  xfit c = true -> xol c = true -> Forall (fun p => snd p = false) (xs c) -> swx_step s c = Some s' ->
  xwindow s' = [].
Proof. exact swx_fit_unlabeled_only_empties. Qed.
Print Assumptions C13_window_fit_on_unlabeled_only_is_empty.

(* constant parameters: the richer model is the simple one on the filtered batches *)
Theorem C13_window_constant_params : forall w ol cs s s',
  Forall (fun c => xw c = w /\ xol c = ol) cs -> swx_run s cs = Some s' ->
  xwindow s' = fold_left (sw_step_gen w) (map (fun c => (xfit c, keepl ol (xs c))) cs) (xwindow s).
Proof. exact swx_constant_params_window. Qed.
Print Assumptions C13_window_constant_params.

(* the code as it was written kept the old deque length after window_size had been lowered: recorded and
   repaired (known_findings.json, fixed) *)
Theorem C13_window_shrunk_overfull_as_written_refuted :
  exists st c, let st' := swa_step st c in xw c < length (fst st').
Proof. exact swa_shrunk_window_overfull_refuted. Qed.
Print Assumptions C13_window_shrunk_overfull_as_written_refuted.

Example C13_window_varying_nonvacuous :
  option_map (fun s => map fst (xwindow s))
    (swx_run xempty [ {| xfit := true;  xw := 4; xol := false; xs := [(0, true); (1, false); (2, true); (3, true)]; xwt := true |};
                      {| xfit := false; xw := 2; xol := true;  xs := [(4, false); (5, true)]; xwt := true |} ]) = Some [3; 5].
Proof. vm_compute. reflexivity. Qed.
