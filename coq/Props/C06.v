(* C06 -- results are reproducible for a fixed random_state.  Statements only.  The call-site table
   (which sites can reach numpy's global generator) is regenerated from /repo on every run and
   'sites_ok table = true' (every such site is a listed known finding, i.e. no new one) is re-checked. *)
From Coq Require Import ZArith List Bool.
From V Require Import Model.RngProv Proofs.RngProvProofs.
Import ListNotations.
Open Scope Z_scope.

Theorem C06_noninterference : forall (A : Type) (p : prog A), no_global p ->
  forall own co g1 c1 g2 c2, run p own co g1 c1 = run p own co g2 c2.
Proof. intros A p. apply noninterference. Qed.
Print Assumptions C06_noninterference.

Theorem C06_hypothesis_necessary :
  exists (p : prog Z) own g1 g2, run p own 0 g1 0 <> run p own 0 g2 0.
Proof. exact global_draw_matters. Qed.
Print Assumptions C06_hypothesis_necessary.

(* the derived generator is a function of (first draw of a copy of random_state, number of unlabeled
   samples + 1) only; the caller's RandomState is not advanced (the draw is taken from a copy) *)
Theorem C06_seed_is_function_of_args : forall r m, 0 <= derive_seed r m < 2 ^ 31.
Proof. exact derive_seed_range. Qed.
Print Assumptions C06_seed_is_function_of_args.

Example C06_nonvacuous :
  run (DrawOwn (fun a => DrawOwn (fun b => Ret (a + b)))) (fun n => Z.of_nat n + 5) 2 (fun _ => 99) 0 = 15 /\
  derive_seed 2147483000 7 = 2147479112.
Proof. vm_compute. split; reflexivity. Qed.
