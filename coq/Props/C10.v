(* C10 -- update commits exactly what query simulated.  Statements only;
   arbitrary arithmetic instance (so they hold verbatim for binary64). *)
From Coq Require Import ZArith QArith List Bool Sorted.
From V Require Import Base.Num Model.StreamCore Model.Zliobaite Model.StreamCounters
  Model.Biqf Proofs.StreamGeneric Proofs.StreamGenericX Proofs.ZlProofs Proofs.CounterProofs Proofs.BiqfProofs Model.StreamStrategy Proofs.StreamStrategyProofs Model.Cognitive Proofs.CognitiveProofs.
Import ListNotations.
Close Scope Q_scope.

(* queried_indices: strictly increasing, in range(len(candidates)) *)
Theorem C10_zliobaite_indices_wellformed :
  forall (F : Type) (N : Num F) (k : zkind) (p : zparams) (s : zstate) (xs : list zin),
  StronglySorted lt (fst (zquery k p s xs)) /\
  (forall j, In j (fst (zquery k p s xs)) -> j < length xs).
Proof. intros. apply (query_indices_wellformed (inst k p)). apply zquery_pure. Qed.
Print Assumptions C10_zliobaite_indices_wellformed.

(* update(candidates, query(candidates)) = the instances processed one at a time *)
Theorem C10_zliobaite_update_commits_simulation :
  forall (F : Type) (N : Num F) (k : zkind) (p : zparams) (s : zstate) (xs : list zin),
  zupdate k p s (length xs) (fst (zquery k p s xs)) = snd (giter (inst k p) s xs).
Proof. intros. apply zupdate_simulates. Qed.
Print Assumptions C10_zliobaite_update_commits_simulation.

(* decisions and final state do not depend on how the stream is cut into chunks *)
Theorem C10_zliobaite_chunking_invariance :
  forall (F : Type) (N : Num F) (k : zkind) (p : zparams) (chunks : list (list zin)) (s : zstate),
  process (zquery k p) (zupdate k p) s chunks = giter (inst k p) s (concat chunks).
Proof.
  intros. apply (chunking_invariance (inst k p)); [apply zquery_pure|apply zupdate_simulates].
Qed.
Print Assumptions C10_zliobaite_chunking_invariance.

Theorem C10_density_split_chunking_invariance :
  forall (F : Type) (N : Num F) (p : dparams) (chunks : list (list din)) (s : dstate),
  process (d_query p) (d_update p) s chunks = giter (d_inst p) s (concat chunks).
Proof.
  intros. apply (chunking_invariance (d_inst p)); [apply d_query_pure|apply d_update_simulates].
Qed.
Print Assumptions C10_density_split_chunking_invariance.

Theorem C10_baselines_chunking_invariance :
  forall (F : Type) (N : Num F) (k : ckind) (p : cparams) (chunks : list (list unit)) (s : cstate),
  process (c_query_l k p) (c_update k p) s chunks = giter (c_inst k p) s (concat chunks).
Proof.
  intros. apply (chunking_invariance (c_inst k p)); [apply c_query_pure|apply c_update_simulates].
Qed.
Print Assumptions C10_baselines_chunking_invariance.

Theorem C10_baselines_indices_wellformed :
  forall (F : Type) (N : Num F) (k : ckind) (p : cparams) (s : cstate) (xs : list unit),
  StronglySorted lt (fst (c_query_l k p s xs)) /\
  (forall j, In j (fst (c_query_l k p s xs)) -> j < length xs).
Proof. intros. apply (query_indices_wellformed (c_inst k p)). apply c_query_pure. Qed.
Print Assumptions C10_baselines_indices_wellformed.

(* BalancedIncrementalQuantileFilter, for every quantile oracle and every arithmetic: update fed
   with query's result commits the per-instance simulation (counters and the bounded history), so
   decisions and final state do not depend on the chunking; indices are strictly increasing and
   in range.  b_wf = the history holds at most w entries (true initially and after every update). *)
Theorem C10_biqf_update_commits_simulation :
  forall (F : Type) (N : Num F) (quant : Z -> list F -> F) (p : bparams) (s : bstate) (xs : list F),
  b_wf p s -> b_update p s xs (fst (b_query quant p s xs)) = snd (giter (b_inst quant p) s xs).
Proof. intros. apply b_update_sim. assumption. Qed.
Print Assumptions C10_biqf_update_commits_simulation.

Theorem C10_biqf_chunking_invariance :
  forall (F : Type) (N : Num F) (quant : Z -> list F -> F) (p : bparams) (chunks : list (list F)) (s : bstate),
  b_wf p s ->
  xprocess (b_query quant p) (b_update p) s chunks = giter (b_inst quant p) s (concat chunks).
Proof.
  intros F N quant p chunks s Hs.
  apply (x_chunking_invariance (b_inst quant p) (b_query quant p) (b_update p) (b_query_pure quant p) (b_wf p)).
  - intros s0 xs H0. apply b_update_sim. exact H0.
  - intros s0 xs idx. apply b_update_wf.
  - exact Hs.
Qed.
Print Assumptions C10_biqf_chunking_invariance.

Theorem C10_biqf_indices_wellformed :
  forall (F : Type) (N : Num F) (quant : Z -> list F -> F) (p : bparams) (s : bstate) (xs : list F),
  StronglySorted lt (fst (b_query quant p s xs)) /\
  forall j, In j (fst (b_query quant p s xs)) -> j < length xs.
Proof. intros. apply (x_query_indices_wellformed (b_inst quant p)). apply b_query_pure. Qed.
Print Assumptions C10_biqf_indices_wellformed.


(* ---- strategy layer (FixedUncertainty, VariableUncertainty, ..., StreamDensityBasedAL): for every
   utility oracle and every filter, update fed with query's result commits the per-instance
   simulation of window AND manager, so the labels granted and the complete final state do not
   depend on the chunking; indices are strictly increasing and in range ---- *)
Theorem C10_strategy_chunking_invariance :
  forall (F : Type) (N : Num F) (k : zkind) (p : zparams) (C W : Type) (wstep : W -> C -> bool * W)
         (inp : bool -> C -> zin) (chunks : list (list C)) (s : W * zstate),
  let mu := fun m (xs : list zin) idx => zupdate k p m (length xs) idx in
  xprocess (squery (zquery k p) wstep inp) (supdate mu wstep inp) s chunks =
  giter (sinst (inst k p) wstep inp) s (concat chunks).
Proof.
  intros. apply (strategy_chunking_invariance (inst k p) (zquery k p) mu wstep inp (fun _ => True)).
  - apply zquery_pure.
  - intros m xs _. apply zupdate_simulates.
  - intros; exact I.
  - exact I.
Qed.
Print Assumptions C10_strategy_chunking_invariance.

Theorem C10_strategy_indices_wellformed :
  forall (F : Type) (N : Num F) (k : zkind) (p : zparams) (C W : Type) (wstep : W -> C -> bool * W)
         (inp : bool -> C -> zin) (s : W * zstate) (cs : list C),
  StronglySorted lt (fst (squery (zquery k p) wstep inp s cs)) /\
  (forall j, In j (fst (squery (zquery k p) wstep inp s cs)) -> j < length cs).
Proof. intros. apply (strategy_indices_wellformed (inst k p)). apply zquery_pure. Qed.
Print Assumptions C10_strategy_indices_wellformed.

(* StreamProbabilisticAL = utility oracle over the balanced incremental quantile filter: the same
   strategy-layer theorems with BIQF as the manager, for every quantile oracle and every arithmetic *)
Theorem C10_strategy_over_biqf_chunking_invariance :
  forall (F : Type) (N : Num F) (quant : Z -> list F -> F) (p : bparams) (C W : Type)
         (wstep : W -> C -> bool * W) (inp : bool -> C -> F) (chunks : list (list C)) (s : W * bstate),
  b_wf p (snd s) ->
  xprocess (squery (b_query quant p) wstep inp) (supdate (b_update p) wstep inp) s chunks =
  giter (sinst (b_inst quant p) wstep inp) s (concat chunks).
Proof.
  intros F N quant p C W wstep inp chunks s Hs.
  apply (strategy_chunking_invariance (b_inst quant p) (b_query quant p) (b_update p) wstep inp (b_wf p)).
  - apply b_query_pure.
  - intros m xs Hm. apply b_update_sim. exact Hm.
  - intros m xs idx. apply b_update_wf.
  - exact Hs.
Qed.
Print Assumptions C10_strategy_over_biqf_chunking_invariance.

(* the instance used by StreamDensityBasedAL: the sliding-window density test, any distance oracle *)
Theorem C10_density_strategy_chunking_invariance :
  forall (F : Type) (N : Num F) (k : zkind) (p : zparams) (d : nat -> nat -> Z) (maxlen : nat)
         (inp : bool -> nat -> zin) (chunks : list (list nat)) (s : dwin * zstate),
  let mu := fun m (xs : list zin) idx => zupdate k p m (length xs) idx in
  xprocess (squery (zquery k p) (ldf_step d maxlen) inp) (supdate mu (ldf_step d maxlen) inp) s chunks =
  giter (sinst (inst k p) (ldf_step d maxlen) inp) s (concat chunks).
Proof. intros. apply C10_strategy_chunking_invariance. Qed.
Print Assumptions C10_density_strategy_chunking_invariance.

(* non-vacuity: two chunkings of a 4-instance stream under the variable-uncertainty manager *)
(* ---- the cognitive dual query strategies, as written (Model/Cognitive.v) ---- *)
Theorem C10_cognitive_indices_wellformed :
  forall (d : nat -> nat -> Z) (strength : nat -> nat -> Z) (cws thr : nat) (M : Type) (mdec : M -> nat -> bool)
         (s : cog * M) (cs : list nat),
  StronglySorted lt (fst (cog_query d strength cws thr mdec s cs)) /\
  (forall j, In j (fst (cog_query d strength cws thr mdec s cs)) -> j < length cs).
Proof. intros. apply cog_query_indices_wellformed. Qed.
Print Assumptions C10_cognitive_indices_wellformed.

(* force_full_budget=True: update accepts every result of query (the manager checks the indices
   against the list it is handed, as the window-based managers do) *)
Theorem C10_cognitive_full_budget_update_accepts :
  forall (d : nat -> nat -> Z) (strength : nat -> nat -> Z) (cws thr : nat) (mdec : nat -> nat -> bool)
         (w : cog) (m : nat) (cs : list nat), winv cws w ->
  cog_update d strength cws thr idx_manager_upd true (w, m) cs (fst (cog_query d strength cws thr mdec (w, m) cs)) <> None.
Proof. intros. apply cog_ffb_update_accepts. assumption. Qed.
Print Assumptions C10_cognitive_full_budget_update_accepts.

(* one instance per query / update: accepted whatever force_full_budget *)
Theorem C10_cognitive_single_instance_accepts :
  forall (d : nat -> nat -> Z) (strength : nat -> nat -> Z) (cws thr : nat) (mdec : nat -> nat -> bool)
         (ffb : bool) (w : cog) (m : nat) (c : nat),
  cog_inst d strength cws thr mdec idx_manager_upd ffb (w, m) c <> None.
Proof. intros. apply cog_single_instance_accepts. Qed.
Print Assumptions C10_cognitive_single_instance_accepts.

(* the code as written does not meet the statement for chunks longer than one (recorded findings):
   force_full_budget=False -> update raises on query's own result; every instance of a chunk is judged
   against the same manager state -> the labels granted depend on the chunking *)
Theorem C10_cognitive_update_rejects_own_query_refuted :
  exists (d : nat -> nat -> Z) (strength : nat -> nat -> Z) (cws thr : nat) (mdec : nat -> nat -> bool) (s : cog * nat) (cs : list nat),
    cog_update d strength cws thr idx_manager_upd false s cs (fst (cog_query d strength cws thr mdec s cs)) = None.
Proof. exact cog_update_rejects_own_query_refuted. Qed.
Print Assumptions C10_cognitive_update_rejects_own_query_refuted.

Theorem C10_cognitive_chunk_overspends_refuted :
  exists (d : nat -> nat -> Z) (strength : nat -> nat -> Z) (cws thr : nat) (cs : list nat),
    fst (cog_query d strength cws thr one_left_dec (cog0, 0) cs) = [0; 1; 2] /\
    cog_one_by_one d strength cws thr (cog0, 0) cs = [true; false; false].
Proof. exact cog_chunk_overspends_refuted. Qed.
Print Assumptions C10_cognitive_chunk_overspends_refuted.

Example C10_nonvacuous :
  let p := {| zp_w := 3; zp_b := (1 # 2)%Q; zp_s := (1 # 10)%Q; zp_v := (1 # 10)%Q; zp_K := 2; zp_draws := [] |} in
  let s := {| u_t := 0%Q; theta := 1%Q; cur := 0 |} in
  let x u := {| util := u; eta := 1%Q |} in
  let xs := [x (9 # 10)%Q; x (8 # 10)%Q; x (1 # 10)%Q; x (9 # 10)%Q] in
  fst (process (zquery ZVariable p) (zupdate ZVariable p) s [[x (9 # 10)%Q; x (8 # 10)%Q]; [x (1 # 10)%Q; x (9 # 10)%Q]])
  = fst (process (zquery ZVariable p) (zupdate ZVariable p) s [xs]) /\
  fst (giter (inst ZVariable p) s xs) = [true; true; false; true].
Proof. vm_compute. split; reflexivity. Qed.

(* non-vacuity for the quantile filter: w = 2, the oracle returns the window maximum; two chunkings
   of a 4-instance stream decide alike and the history ends as the last two utilities *)
Example C10_biqf_nonvacuous :
  let p := {| bq_b := (1 # 2)%Q; bq_w := 2; bq_wtol := 1%Q |} in
  let s := {| b_obs := 0; b_que := 0; b_hist := [] |} in
  let quant := fun (_ : Z) (h : list Q) => fmax_list h in
  let xs := [(3 # 10)%Q; (9 # 10)%Q; (1 # 10)%Q; (5 # 10)%Q] in
  xprocess (b_query quant p) (b_update p) s [[(3 # 10)%Q; (9 # 10)%Q]; [(1 # 10)%Q; (5 # 10)%Q]] =
  xprocess (b_query quant p) (b_update p) s [xs] /\
  fst (giter (b_inst quant p) s xs) = [true; true; false; true] /\
  b_hist (snd (giter (b_inst quant p) s xs)) = [(1 # 10)%Q; (5 # 10)%Q] /\ b_wf p s.
Proof. vm_compute. repeat split; try reflexivity. auto with arith. Qed.

(* non-vacuity of the density test: window of 2, points 0,5,6,1 (distances as keys): the first instance
   never passes (empty window), 5 is a new nearest neighbour of 0, 6 of 5, 1 of nobody in the window [5;6] *)
Example C10_density_filter_nonvacuous :
  let pts := [0; 5; 6; 1]%Z in
  let d := fun i j => Z.abs (nth i pts 0 - nth j pts 0)%Z in
  let w0 := {| win := []; mind := [] |} in
  fst (wrun (ldf_step d 2) (fun (b : bool) (c : nat) => b) w0 [0; 1; 2; 3]) = [false; true; true; false] /\
  win (snd (wrun (ldf_step d 2) (fun (b : bool) (c : nat) => b) w0 [0; 1; 2; 3])) = [2; 3].
Proof. vm_compute. split; reflexivity. Qed.
