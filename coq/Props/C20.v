(* C20 -- wrapper strategies are transparent.  Statements only. *)
From Coq Require Import ZArith List Bool Lia.
From V Require Import Base.OptOrder Model.PoolQuery Model.Wrappers Proofs.WrapperProofs.
Import ListNotations.
Open Scope Z_scope.

(* ParallelUtilityEstimationWrapper: for every number of jobs the chunks evaluated by the workers
   are a partition of the candidates in their original order, so concatenating the first-row
   utilities of the chunks yields one utility per candidate at its own position *)
Theorem C20_array_split_partition : forall (A : Type) (l : list A) (k : nat), (0 < k)%nat ->
  concat (array_split l k) = l /\ length (array_split l k) = k.
Proof. intros A l k. apply array_split_partition. Qed.
Print Assumptions C20_array_split_partition.

(* SubSamplingWrapper: size of the sub-sample (integer resp. fractional max_candidates) *)
Theorem C20_subsample_size : forall mc n, (sub_size mc n <= n)%nat.
Proof. exact sub_size_le. Qed.
Print Assumptions C20_subsample_size.

Theorem C20_subsample_size_is_ceil : forall p q n, Z.pos p <= Z.pos q ->
  let k := Z.of_nat (sub_size (MFrac p q) n) in
  (Z.of_nat n * Z.pos p <= k * Z.pos q /\ (k - 1) * Z.pos q < Z.of_nat n * Z.pos p) \/ n = 0%nat.
Proof. exact sub_size_frac_ceil. Qed.
Print Assumptions C20_subsample_size_is_ceil.

(* SingleAnnotatorWrapper: the ordinal rank transform of the sample utilities preserves the
   order in which the wrapped strategy ranks the samples and never merges two samples *)
Theorem C20_rank_transform_order_preserving : forall l i j,
  (i < length l)%nat -> (j < length l)%nat -> nth i l 0 < nth j l 0 ->
  (nth i (ordinal_rank l) 0 < nth j (ordinal_rank l) 0)%nat.
Proof. exact ordinal_rank_order_preserving. Qed.
Print Assumptions C20_rank_transform_order_preserving.

Theorem C20_rank_transform_injective : forall l i j,
  (i < length l)%nat -> (j < length l)%nat -> i <> j ->
  nth i (ordinal_rank l) 0%nat <> nth j (ordinal_rank l) 0%nat.
Proof. exact ordinal_rank_injective. Qed.
Print Assumptions C20_rank_transform_injective.

(* ... and the sample the wrapped strategy ranked first in a step is forced to max + 1 beforehand: whatever the sign and
   magnitude of the utilities (expected-error reductions are negative), it receives the highest rank of the row *)
Theorem C20_forced_sample_gets_top_rank : forall (low : Z) (filled : list Z) (forced : nat),
  (forced < length filled)%nat -> nth forced (ordinal_rank (bump low filled forced)) O = length filled.
Proof. exact forced_sample_gets_top_rank. Qed.
Print Assumptions C20_forced_sample_gets_top_rank.

Example C20_nonvacuous :
  array_split [1; 2; 3; 4; 5; 6; 7] 3 = [[1; 2; 3]; [4; 5]; [6; 7]] /\
  sub_size (MFrac 1 2) 7 = 4%nat /\ ordinal_rank [5; 2; 5; 9] = [2%nat; 1%nat; 3%nat; 4%nat] /\
  rank_transform (-100) [Some 5; None; Some 5; Some 9] 0 = [Some 4%nat; None; Some 2%nat; Some 3%nat].
Proof. vm_compute. repeat split. Qed.
