(* Arithmetic interface over which the stream models are written once and
   instantiated twice: binary64 (PrimFloat; bit-exact correspondence with the
   implementation) and Q (exact; quantitative theorems). *)
From Coq Require Import ZArith QArith Qabs Bool.
From Coq Require Import PrimFloat Uint63.

Class Num (F : Type) := {
  fadd : F -> F -> F;
  fsub : F -> F -> F;
  fmul : F -> F -> F;
  fdiv : F -> F -> F;
  fltb : F -> F -> bool;     (* a < b  *)
  fleb : F -> F -> bool;     (* a <= b *)
  fofZ : Z -> F;             (* exact for the small non-negative integers used *)
  fisnan : F -> bool;
}.

Definition fbit {F} `{Num F} (b : bool) : F := if b then fofZ 1 else fofZ 0.

#[global] Instance NumFloat : Num float := {|
  fadd := PrimFloat.add; fsub := PrimFloat.sub; fmul := PrimFloat.mul; fdiv := PrimFloat.div;
  fltb := PrimFloat.ltb; fleb := PrimFloat.leb;
  fofZ := fun z => PrimFloat.of_uint63 (Uint63.of_Z z);
  fisnan := fun x => negb (PrimFloat.eqb x x);
|}.

#[global] Instance NumQ : Num Q := {|
  fadd := Qplus; fsub := Qminus; fmul := Qmult; fdiv := Qdiv;
  fltb := fun a b => negb (Qle_bool b a); fleb := Qle_bool;
  fofZ := inject_Z;
  fisnan := fun _ => false;
|}.
