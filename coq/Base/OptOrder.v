(* Order-only view of float64 values: None = NaN, Some k = monotone integer key
   of the double (harness/keys.py).  -0.0 and +0.0 share key 0. *)
From Coq Require Import ZArith List Bool Lia.
Import ListNotations.
Open Scope Z_scope.

Notation val := (option Z) (only parsing).

Definition is_nan (v : val) : bool :=
  match v with None => true | Some _ => false end.

Definition vmax2 (a b : val) : val :=
  match a, b with
  | None, x => x
  | x, None => x
  | Some x, Some y => Some (Z.max x y)
  end.

Definition vmin2 (a b : val) : val :=
  match a, b with
  | None, x => x
  | x, None => x
  | Some x, Some y => Some (Z.min x y)
  end.

(* np.nanmax / np.nanmin : None when every entry is NaN (numpy returns NaN) *)
Definition nanmax (l : list val) : val := fold_right vmax2 None l.
Definition nanmin (l : list val) : val := fold_right vmin2 None l.

(* IEEE == : NaN is different from everything *)
Definition veqb (a b : val) : bool :=
  match a, b with
  | Some x, Some y => x =? y
  | _, _ => false
  end.

Definition count_nonnan (l : list val) : nat :=
  length (filter (fun v => negb (is_nan v)) l).

(* a[i] = NaN *)
Fixpoint set_nan (l : list val) (i : nat) : list val :=
  match l, i with
  | [], _ => []
  | _ :: t, O => None :: t
  | x :: t, S j => x :: set_nan t j
  end.

(* first index of the maximum of a list of integers (np.argmax) *)
Fixpoint argmax_first (l : list Z) : nat :=
  match l with
  | [] => O
  | x :: t => if forallb (fun y => y <=? x) t then O else S (argmax_first t)
  end.

Fixpoint map2 {A B C} (f : A -> B -> C) (l : list A) (m : list B) : list C :=
  match l, m with
  | a :: l', b :: m' => f a b :: map2 f l' m'
  | _, _ => []
  end.

Definition vopp (v : val) : val := option_map Z.opp v.
