From Coq Require Import ZArith List Bool Lia Arith.
From V Require Import Base.OptOrder Model.PoolQuery Model.IndexWrapper Proofs.PoolProofs.
Import ListNotations.
Open Scope Z_scope.

(* the stored base model changes only through set_base_clf *)
Theorem base_only_by_set_base c s o s' :
  step c s o = inl s' ->
  match o with OFit _ sb | OPartial _ _ sb => sb = false end -> base s' = base s.
Proof.
  destruct o as [b sb|b ub sb]; cbn [step]; intros H Hs; subst sb.
  - destruct (unique c && negb (nodupb_n (idxs b))); [discriminate|]. injection H as H. subst s'. reflexivity.
  - destruct (unique c && negb (nodupb_n (idxs b))); [discriminate|].
    destruct (if ub then base s else cur s) as [start|]; [|discriminate].
    destruct (native_pf c).
    + injection H as H. subst s'. reflexivity.
    + destruct (weights_consistent _ b); [|discriminate]. injection H as H. subst s'. reflexivity.
Qed.

(* partial_fit from the base model ignores whatever the current model has seen *)
Theorem partial_from_base_ignores_current c s1 s2 b sb :
  base s1 = base s2 ->
  match step c s1 (OPartial b true sb), step c s2 (OPartial b true sb) with
  | inl a, inl a' => cur a = cur a'
  | inr e, inr e' => e = e'
  | _, _ => False
  end.
Proof.
  intros Hb. cbn [step]. rewrite Hb.
  destruct (unique c && negb (nodupb_n (idxs b))); [reflexivity|].
  destruct (base s2) as [start|]; [|reflexivity].
  destruct (native_pf c); [reflexivity|].
  destruct (weights_consistent _ b); reflexivity.
Qed.

(* emulated partial_fit (refit on the concatenation): the current model is a single batch,
   the old data followed by the new one; with enforce_unique_samples re-labelled indices are
   dropped from the old data first, so indices stay pairwise distinct *)
Definition single_batch (m : option (list batch)) : Prop :=
  match m with Some [_] | None => True | _ => False end.

Definition nodup_model (m : option (list batch)) : Prop :=
  match m with Some [b] => NoDup (idxs b) | _ => True end.

Lemma idxs_app a b : idxs (a ++ b) = idxs a ++ idxs b.
Proof. unfold idxs. apply map_app. Qed.

Lemma idxs_filter_notin old b :
  forall x, In x (idxs (filter (fun t => negb (memb (fst (fst t)) (idxs b))) old)) -> ~ In x (idxs b).
Proof.
  intros x Hx. unfold idxs in Hx at 1. rewrite in_map_iff in Hx. destruct Hx as [t [E Ht]].
  rewrite filter_In in Ht. destruct Ht as [_ Hn]. subst x. apply negb_true_iff in Hn. apply memb_false. exact Hn.
Qed.

Lemma NoDup_idxs_filter f old : NoDup (idxs old) -> NoDup (idxs (filter f old)).
Proof.
  unfold idxs. induction old as [|t old IH]; intros H; [constructor|].
  cbn [map] in H. inversion H as [|? ? Hn Hd]; subst. cbn [filter].
  destruct (f t); [|apply IH; exact Hd]. cbn [map]. constructor; [|apply IH; exact Hd].
  intros Hin. apply Hn. rewrite in_map_iff in *. destruct Hin as [u [E Hu]]. exists u. split; [exact E|].
  rewrite filter_In in Hu. tauto.
Qed.

Theorem emulated_invariant c : native_pf c = false -> forall ops s s',
  single_batch (cur s) -> single_batch (base s) ->
  (unique c = true -> nodup_model (cur s) /\ nodup_model (base s)) ->
  run c s ops = inl s' ->
  single_batch (cur s') /\ single_batch (base s') /\
  (unique c = true -> nodup_model (cur s') /\ nodup_model (base s')).
Proof.
  intros Hn. induction ops as [|o ops IH]; intros s s' H1 H2 H3 Hr; cbn [run] in Hr.
  - injection Hr as Hr. subst s'. repeat split; try assumption; apply H3; assumption.
  - destruct (step c s o) as [s1|e] eqn:Es; [|discriminate].
    apply (IH s1 s'); try exact Hr.
    + destruct o as [b sb|b ub sb]; cbn [step] in Es.
      * destruct (unique c && negb (nodupb_n (idxs b))); [discriminate|]. injection Es as Es. subst s1. exact I.
      * destruct (unique c && negb (nodupb_n (idxs b))); [discriminate|].
        destruct (if ub then base s else cur s) as [start|]; [|discriminate]. rewrite Hn in Es.
        destruct (weights_consistent _ b); [|discriminate]. injection Es as Es. subst s1. exact I.
    + destruct o as [b sb|b ub sb]; cbn [step] in Es.
      * destruct (unique c && negb (nodupb_n (idxs b))); [discriminate|]. injection Es as Es. subst s1. cbn. destruct sb; [exact I|exact H2].
      * destruct (unique c && negb (nodupb_n (idxs b))); [discriminate|].
        destruct (if ub then base s else cur s) as [start|]; [|discriminate]. rewrite Hn in Es.
        destruct (weights_consistent _ b); [|discriminate]. injection Es as Es. subst s1. cbn. destruct sb; [exact I|exact H2].
    + intros Hu. specialize (H3 Hu). destruct H3 as [N1 N2].
      destruct o as [b sb|b ub sb]; cbn [step] in Es; rewrite Hu in Es; cbn [andb] in Es.
      * destruct (nodupb_n (idxs b)) eqn:Nb; cbn [negb] in Es; [|discriminate]. injection Es as Es. subst s1. cbn.
        apply nodupb_n_NoDup in Nb. destruct sb; split; try exact Nb; exact N2.
      * destruct (nodupb_n (idxs b)) eqn:Nb; cbn [negb] in Es; [|discriminate]. apply nodupb_n_NoDup in Nb.
        destruct (if ub then base s else cur s) as [start|] eqn:Est; [|discriminate]. rewrite Hn in Es.
        destruct (weights_consistent _ b); [|discriminate]. injection Es as Es. subst s1. cbn [cur base nodup_model].
        assert (Hstart : single_batch (Some start) /\ nodup_model (Some start)).
        { destruct ub; rewrite <- Est; split; assumption. }
        destruct Hstart as [S1 S2]. cbn in S1. destruct start as [|b0 [|? ?]]; try contradiction. cbn in S2.
        cbn [concat]. rewrite app_nil_r.
        assert (Hm : NoDup (idxs (filter (fun t => negb (memb (fst (fst t)) (idxs b))) b0 ++ b))).
        { rewrite idxs_app. apply NoDup_app_intro; [apply NoDup_idxs_filter; exact S2|exact Nb|].
          intros x Hx Hb. exact (idxs_filter_notin b0 b x Hx Hb). }
        destruct sb; split; try exact Hm; exact N2.
Qed.
