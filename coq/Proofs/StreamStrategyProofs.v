(* A stream strategy built on a budget manager inherits the manager's C03 / C10 theorems:
   from the manager's two bridging facts the strategy's two bridging facts follow, for ANY utility
   oracle and ANY filter (density test) - then Proofs/StreamGenericX.v applies verbatim. *)
From Coq Require Import ZArith List Bool Lia Sorted.
From V Require Import Base.OptOrder Model.StreamCore Model.StreamStrategy Proofs.StreamGeneric Proofs.StreamGenericX.
Import ListNotations.

Section StrategyProofs.
  Context {S I C W : Type}.
  Variable minst : S -> I -> bool * S.
  Variable mquery : S -> list I -> list nat * S.
  Variable mupdate : S -> list I -> list nat -> S.
  Variable wstep : W -> C -> bool * W.
  Variable inp : bool -> C -> I.
  Variable MInv : S -> Prop.
  Hypothesis mquery_pure : forall m xs, mquery m xs = (indices_from (fst (giter minst m xs)) 0, m).
  Hypothesis mupdate_sim : forall m xs, MInv m -> mupdate m xs (fst (mquery m xs)) = snd (giter minst m xs).
  Hypothesis mupdate_inv : forall m xs idx, MInv (mupdate m xs idx).

  Notation sq := (squery mquery wstep inp).
  Notation su := (supdate mupdate wstep inp).
  Notation si := (sinst minst wstep inp).
  Notation wr := (wrun wstep inp).

  Definition SInv (s : W * S) : Prop := MInv (snd s).

  Lemma giter_sinst cs : forall w m,
    giter si (w, m) cs =
    (fst (giter minst m (fst (wr w cs))), (snd (wr w cs), snd (giter minst m (fst (wr w cs))))).
  Proof.
    induction cs as [|c t IH]; intros w m; [reflexivity|].
    cbn [giter sinst wrun]. destruct (wstep w c) as [p w1].
    destruct (minst m (inp p c)) as [b m1] eqn:Em. rewrite IH.
    destruct (wr w1 t) as [xs w2]. cbn [fst snd giter]. rewrite Em.
    destruct (giter minst m1 xs) as [bs m2]. reflexivity.
  Qed.

  Theorem squery_pure s cs : sq s cs = (indices_from (fst (giter si s cs)) 0, s).
  Proof.
    destruct s as [w m]. unfold squery. rewrite mquery_pure. rewrite giter_sinst. reflexivity.
  Qed.

  Theorem supdate_sim s cs : SInv s -> su s cs (fst (sq s cs)) = snd (giter si s cs).
  Proof.
    destruct s as [w m]. unfold SInv. cbn [snd]. intros Hm. unfold supdate, squery.
    rewrite giter_sinst. destruct (wr w cs) as [xs w'] eqn:Ew. cbn [fst snd].
    destruct (mquery m xs) as [idx m'] eqn:Eq. cbn [fst].
    replace idx with (fst (mquery m xs)) by (rewrite Eq; reflexivity).
    rewrite mupdate_sim by exact Hm. reflexivity.
  Qed.

  Theorem supdate_inv s cs idx : SInv (su s cs idx).
  Proof. destruct s as [w m]. unfold supdate, SInv. destruct (wr w cs) as [xs w']. cbn [snd]. apply mupdate_inv. Qed.

  (* ---- the consequences, for every utility oracle and every filter ---- *)
  Theorem strategy_extra_queries_invisible (h : list (@xop C)) s :
    snd (xrun sq su s h) = snd (xrun sq su s (filter x_is_update h)).
  Proof. apply (x_extra_queries_invisible si sq su squery_pure). Qed.

  Theorem strategy_query_idempotent s cs : sq (snd (sq s cs)) cs = sq s cs.
  Proof. apply (x_query_idempotent si sq squery_pure). Qed.

  Theorem strategy_query_restores_state s cs : snd (sq s cs) = s.
  Proof. rewrite squery_pure. reflexivity. Qed.

  Theorem strategy_chunking_invariance (chunks : list (list C)) s : SInv s ->
    xprocess sq su s chunks = giter si s (concat chunks).
  Proof. apply (x_chunking_invariance si sq su squery_pure SInv supdate_sim supdate_inv). Qed.

  Theorem strategy_indices_wellformed s cs :
    StronglySorted lt (fst (sq s cs)) /\ forall j, In j (fst (sq s cs)) -> (j < length cs)%nat.
  Proof. apply (x_query_indices_wellformed si sq squery_pure). Qed.

  (* ---- lazy creation of the manager is invisible: whichever call comes first creates the same state ---- *)
  Variable init : (W * S)%type.
  Notation lq := (lquery mquery wstep inp init).
  Notation lu := (lupdate mupdate wstep inp init).

  Fixpoint lrun (s : option (W * S)) (h : list (@xop C)) : list (list nat) * option (W * S) :=
    match h with
    | [] => ([], s)
    | XQuery cs :: t => let '(o, s') := lq s cs in let '(os, sf) := lrun s' t in (o :: os, sf)
    | XUpdate cs idx :: t => lrun (lu s cs idx) t
    end.

  Theorem lazy_creation_invisible (h : list (@xop C)) : forall s,
    fst (lrun s h) = fst (xrun sq su (force init s) h) /\
    force init (snd (lrun s h)) = snd (xrun sq su (force init s) h).
  Proof.
    induction h as [|o t IH]; intros s; [split; reflexivity|].
    destruct o as [cs|cs idx]; cbn [lrun xrun].
    - unfold lquery. destruct (sq (force init s) cs) as [o s'] eqn:E.
      specialize (IH (Some s')). cbn [force] in IH.
      destruct (lrun (Some s') t) as [os sf]. destruct (xrun sq su s' t) as [os' sf'].
      cbn [fst snd] in *. destruct IH as [IH1 IH2]. split; congruence.
    - unfold lupdate. specialize (IH (Some (su (force init s) cs idx))). cbn [force] in IH. exact IH.
  Qed.
End StrategyProofs.
