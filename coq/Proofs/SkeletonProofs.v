(* The canonical query skeleton (utilities = full(n, nan); utilities[mapping] = scores;
   simple_batch(utilities)) produces, for EVERY score vector, tie pattern and noise, a trace the
   acceptor accepts -- hence (PoolProofs) a valid batch with the documented utility rows.
   This closes the gap between the selection primitive (C18) and the query-level contracts
   (C01 / C02 / C14) for all strategies built on the skeleton. *)
From Coq Require Import ZArith List Bool Lia Arith Sorted.
From V Require Import Base.OptOrder Model.Sel Model.PoolQuery Proofs.SelProofs Proofs.PoolProofs.
Import ListNotations.
Open Scope Z_scope.

(* ---------- set_at / scatter ---------- *)
Lemma set_at_length u : forall i v, length (set_at u i v) = length u.
Proof. induction u as [|x t IH]; intros [|i] v; cbn; try reflexivity. rewrite IH. reflexivity. Qed.

Lemma set_at_nth u : forall i v q, (i < length u)%nat ->
  nth q (set_at u i v) None = if Nat.eqb q i then v else nth q u None.
Proof.
  induction u as [|x t IH]; intros i v q Hi; [cbn in Hi; lia|].
  destruct i as [|i]; destruct q as [|q]; cbn; try reflexivity.
  apply IH. cbn in Hi. lia.
Qed.

Lemma count_nonnan_cons x t : count_nonnan (x :: t) = ((if is_nan x then 0 else 1) + count_nonnan t)%nat.
Proof. unfold count_nonnan. cbn [filter]. destruct (is_nan x); reflexivity. Qed.

Lemma count_nonnan_set_at u : forall i v, (i < length u)%nat -> nth i u None = None -> is_nan v = false ->
  count_nonnan (set_at u i v) = S (count_nonnan u).
Proof.
  induction u as [|x t IH]; intros i v Hi Hn Hv; [cbn in Hi; lia|].
  destruct i as [|i]; cbn [set_at nth] in *.
  - subst x. rewrite !count_nonnan_cons, Hv. reflexivity.
  - rewrite !count_nonnan_cons. rewrite IH; [lia| cbn in Hi; lia|exact Hn|exact Hv].
Qed.

Lemma scatter_length cs : forall scores u, length (scatter cs scores u) = length u.
Proof.
  induction cs as [|m mt IH]; intros [|s st] u; cbn [scatter]; try reflexivity.
  rewrite IH, set_at_length. reflexivity.
Qed.

Definition nonnan (v : val) : Prop := is_nan v = false.

Lemma scatter_count cs : forall scores u,
  length scores = length cs -> NoDup cs -> Forall (fun i => (i < length u)%nat) cs ->
  (forall m, In m cs -> nth m u None = None) -> Forall nonnan scores ->
  count_nonnan (scatter cs scores u) = (count_nonnan u + length cs)%nat.
Proof.
  induction cs as [|m mt IH]; intros scores u Hl Hnd Hlt Hnone Hs.
  - destruct scores; cbn [scatter length]; rewrite Nat.add_0_r; reflexivity.
  - destruct scores as [|s st]; [cbn in Hl; lia|].
    inversion Hnd as [|? ? Hm Hnd']; subst. inversion Hlt as [|? ? Hm_lt Hlt']; subst. inversion Hs as [|? ? Hs1 Hs']; subst.
    cbn [scatter length]. rewrite IH.
    + rewrite count_nonnan_set_at; [lia|exact Hm_lt|apply Hnone; left; reflexivity|exact Hs1].
    + cbn in Hl. lia.
    + exact Hnd'.
    + rewrite set_at_length. exact Hlt'.
    + intros q Hq. rewrite set_at_nth by exact Hm_lt.
      destruct (Nat.eqb_spec q m) as [->|_]; [contradiction|]. apply Hnone. right. exact Hq.
    + exact Hs'.
Qed.

Lemma scatter_is_nan cs : forall scores u q,
  length scores = length cs -> Forall (fun i => (i < length u)%nat) cs -> Forall nonnan scores ->
  is_nan (nth q (scatter cs scores u) None) = if memb q cs then false else is_nan (nth q u None).
Proof.
  induction cs as [|m mt IH]; intros scores u q Hl Hlt Hs.
  - destruct scores; reflexivity.
  - destruct scores as [|s st]; [cbn in Hl; lia|].
    inversion Hlt as [|? ? Hm_lt Hlt']; subst. inversion Hs as [|? ? Hs1 Hs']; subst.
    cbn [scatter]. rewrite IH; [|cbn in Hl; lia|rewrite set_at_length; exact Hlt'|exact Hs'].
    unfold memb. cbn [existsb]. fold (memb q mt).
    destruct (memb q mt); [rewrite orb_true_r; reflexivity|]. rewrite orb_false_r.
    rewrite set_at_nth by exact Hm_lt. destruct (Nat.eqb q m); [exact Hs1|reflexivity].
Qed.

Lemma nth_repeat_None n q : nth q (repeat (@None Z) n) None = None.
Proof. revert q. induction n as [|n IH]; intros [|q]; cbn; try reflexivity. apply IH. Qed.

Lemma count_nonnan_repeat_None n : count_nonnan (repeat (@None Z) n) = 0%nat.
Proof. induction n as [|n IH]; [reflexivity|]. cbn [repeat]. rewrite count_nonnan_cons. exact IH. Qed.

(* ---------- rows with the documented NaN pattern are accepted ---------- *)
Lemma nan_pattern_intro cs prev row : forall j0,
  (forall j, (j < length row)%nat -> is_nan (nth j row None) = negb (memb (j0 + j) cs) || memb (j0 + j) prev) ->
  nan_pattern_from cs prev row j0 = true.
Proof.
  induction row as [|v t IH]; intros j0 H; [reflexivity|].
  cbn [nan_pattern_from]. apply andb_true_intro. split.
  - specialize (H 0%nat). cbn in H. rewrite Nat.add_0_r in H. rewrite H by lia. apply eqb_reflx.
  - apply IH. intros j Hj. specialize (H (S j)). cbn [nth length] in H.
    replace (S j0 + j)%nat with (j0 + S j)%nat by lia. apply H. lia.
Qed.

Section Rows.
  Variable cs : list nat.
  Variable U : list val.
  Hypothesis HU : forall j, is_nan (nth j U None) = negb (memb j cs).

  Lemma psteps_from_rows : forall (t : list step) prev,
    Forall (step_ok (length U)) t ->
    (forall i s, nth_error t i = Some s -> snd s = mask_all U (prev ++ firstn i (map fst t))) ->
    psteps_ok SelMax cs prev (length U) t = true.
  Proof.
    induction t as [|[p row] rest IH]; intros prev Hok Hrows; [reflexivity|].
    inversion Hok as [|? ? Hs Hok']; subst.
    cbn [psteps_ok]. apply andb_true_intro. split.
    - pose proof (Hrows 0%nat (p, row) eq_refl) as Hrow. cbn [snd firstn] in Hrow. rewrite app_nil_r in Hrow.
      destruct Hs as [Hlen [Hp [m [Hmax Hnth]]]].
      unfold pstep_ok. rewrite Hnth, Hmax.
      rewrite (proj2 (Nat.eqb_eq _ _) Hlen), (proj2 (Nat.ltb_lt _ _) Hp). cbn [andb].
      rewrite nan_pattern_intro.
      + cbn. apply Z.eqb_refl.
      + intros j _. cbn [Nat.add]. rewrite Hrow, mask_all_nth. fold (memb j prev).
        destruct (memb j prev); [rewrite orb_true_r; reflexivity|]. rewrite orb_false_r. apply HU.
    - apply IH; [exact Hok'|].
      intros i s Hi. rewrite (Hrows (S i) s Hi). cbn [map fst firstn]. rewrite <- app_assoc. reflexivity.
  Qed.
End Rows.

(* ---------- the theorem ---------- *)
Definition scores_ok (lab : list bool) (c : cand) (scores : list val) : Prop :=
  length scores = length (cand_set lab c) /\ Forall nonnan scores.

Definition cand_wf (lab : list bool) (c : cand) : Prop :=
  NoDup (cand_set lab c) /\ Forall (fun i => (i < ncols lab c)%nat) (cand_set lab c).

Lemma skeleton_utilities lab c scores :
  scores_ok lab c scores -> cand_wf lab c ->
  let U := scatter (cand_set lab c) scores (repeat None (ncols lab c)) in
  length U = ncols lab c /\ count_nonnan U = length (cand_set lab c) /\
  forall j, is_nan (nth j U None) = negb (memb j (cand_set lab c)).
Proof.
  intros [Hl Hs] [Hnd Hlt] U. unfold U.
  assert (Hlt' : Forall (fun i => (i < length (repeat (@None Z) (ncols lab c)))%nat) (cand_set lab c))
    by (rewrite repeat_length; exact Hlt).
  split; [rewrite scatter_length, repeat_length; reflexivity|]. split.
  - rewrite scatter_count; try assumption.
    + rewrite count_nonnan_repeat_None. reflexivity.
    + intros m _. apply nth_repeat_None.
  - intros j. rewrite scatter_is_nan by assumption. rewrite nth_repeat_None.
    destruct (memb j (cand_set lab c)); reflexivity.
Qed.

Theorem skeleton_accepted lab c scores noises bs :
  scores_ok lab c scores -> cand_wf lab c ->
  noises_ok (ncols lab c) (expected_k bs lab c) noises ->
  accepts_pool SelMax lab c bs (skeleton lab c scores noises bs) = true.
Proof.
  intros Hsc Hwf Hn.
  destruct (skeleton_utilities lab c scores Hsc Hwf) as [HlenU [HcntU HnanU]].
  unfold skeleton. set (U := scatter (cand_set lab c) scores (repeat None (ncols lab c))) in *.
  set (k := expected_k bs lab c) in *.
  assert (Hk : Nat.min k (count_nonnan U) = k) by (unfold k, expected_k; rewrite HcntU; lia).
  assert (Hn' : noises_ok (length U) (Nat.min k (count_nonnan U)) noises) by (rewrite Hk, HlenU; exact Hn).
  destruct (simple_batch_max_spec U noises k Hn') as [Hlen [_ [Hsteps [_ Hrows]]]].
  unfold accepts_pool. fold k. unfold step in *. rewrite Hlen, Hk, Nat.eqb_refl. cbn [andb].
  rewrite <- HlenU. apply (psteps_from_rows (cand_set lab c) U HnanU _ []); [exact Hsteps|].
  intros i s Hi. cbn [app].
  set (t := simple_batch_max U noises k) in *.
  pose proof (map_nth_error snd _ _ Hi) as Hi'.
  rewrite Hrows in Hi'. rewrite nth_error_map in Hi'.
  destruct (nth_error (seq 0 (length (map fst t))) i) as [j|] eqn:Ej; [|discriminate].
  assert (j = i).
  { assert (Hlt : (i < length (seq 0 (length (map fst t))))%nat) by (apply nth_error_Some; congruence).
    rewrite seq_length in Hlt. pose proof (nth_error_nth' (seq 0 (length (map fst t))) 0%nat (n := i)) as Hn2.
    rewrite seq_length in Hn2. specialize (Hn2 Hlt). rewrite seq_nth in Hn2 by exact Hlt. cbn in Hn2. congruence. }
  subst j. cbn in Hi'. injection Hi' as Hi'. symmetry. exact Hi'.
Qed.

(* corollary: the skeleton returns a valid batch with the documented utility rows *)
Corollary skeleton_valid_batch lab c scores noises bs :
  scores_ok lab c scores -> cand_wf lab c ->
  noises_ok (ncols lab c) (expected_k bs lab c) noises ->
  let picks := map fst (skeleton lab c scores noises bs) in
  length picks = expected_k bs lab c /\ NoDup picks /\ Forall (fun p => In p (cand_set lab c)) picks.
Proof.
  intros H1 H2 H3. exact (accepts_valid_batch SelMax lab c bs _ (skeleton_accepted lab c scores noises bs H1 H2 H3)).
Qed.

(* candidate sets are well formed for candidates=None, feature rows, and index arrays in range *)
Lemma unl_from_lt lab : forall s, Forall (fun i => (i < s + length lab)%nat) (unl_from lab s).
Proof.
  induction lab as [|b t IH]; intros s; [constructor|].
  cbn [unl_from length]. specialize (IH (S s)).
  assert (H : Forall (fun i => (i < s + S (length t))%nat) (unl_from t (S s))).
  { rewrite Forall_forall in *. intros x Hx. specialize (IH x Hx). lia. }
  destruct b; [exact H|constructor; [lia|exact H]].
Qed.

Lemma unl_from_ge lab : forall s x, In x (unl_from lab s) -> (s <= x)%nat.
Proof.
  induction lab as [|b t IH]; intros s x H; [destruct H|].
  cbn [unl_from] in H. destruct b; [apply IH in H; lia|].
  destruct H as [->|H]; [lia|apply IH in H; lia].
Qed.

Lemma unl_from_nodup lab : forall s, NoDup (unl_from lab s).
Proof.
  induction lab as [|b t IH]; intros s; [constructor|].
  cbn [unl_from]. destruct b; [apply IH|]. constructor; [|apply IH].
  intros H. apply unl_from_ge in H. lia.
Qed.

Lemma ins_nat_sorted x l : StronglySorted lt l -> StronglySorted lt (ins_nat x l).
Proof.
  induction l as [|y t IH]; intros Hs; cbn [ins_nat]; [constructor; constructor|].
  inversion Hs as [|? ? Hs' Hy]; subst.
  destruct (x <? y)%nat eqn:E1.
  - apply Nat.ltb_lt in E1. constructor; [exact Hs|]. constructor; [exact E1|].
    rewrite Forall_forall in *. intros z Hz. specialize (Hy z Hz). lia.
  - destruct (x =? y)%nat eqn:E2; [exact Hs|].
    apply Nat.ltb_ge in E1. apply Nat.eqb_neq in E2.
    constructor; [apply IH; exact Hs'|].
    rewrite Forall_forall in *. intros z Hz. apply ins_nat_in in Hz. destruct Hz as [->|Hz]; [lia|apply Hy; exact Hz].
Qed.

Lemma uniq_sort_sorted l : StronglySorted lt (uniq_sort l).
Proof. induction l as [|x t IH]; [constructor|]. unfold uniq_sort in *. cbn [fold_right]. apply ins_nat_sorted. exact IH. Qed.

Lemma sorted_lt_nodup l : StronglySorted lt l -> NoDup l.
Proof.
  induction 1 as [|x l Hs IH Hx]; constructor; [|exact IH].
  intros Hin. rewrite Forall_forall in Hx. specialize (Hx x Hin). lia.
Qed.

Theorem cand_wf_all lab c :
  (forall l, c = CIdx l -> Forall (fun i => (i < length lab)%nat) l) -> cand_wf lab c.
Proof.
  intros H. destruct c as [|l|m]; unfold cand_wf; cbn [cand_set ncols].
  - split; [apply unl_from_nodup|]. exact (unl_from_lt lab 0).
  - split; [apply sorted_lt_nodup, uniq_sort_sorted|].
    specialize (H l eq_refl). rewrite Forall_forall in *. intros x Hx.
    apply (cand_idx_members l lab) in Hx. apply H. exact Hx.
  - split; [apply seq_NoDup|]. rewrite Forall_forall. intros x Hx. apply in_seq in Hx. lia.
Qed.
