From Coq Require Import ZArith List Bool Lia Sorted.
From V Require Import Model.Label.
Import ListNotations.
Open Scope Z_scope.

(* ---------- predicates ---------- *)

Lemma is_unlabeled_length ml y : length (is_unlabeled ml y) = length y.
Proof. apply map_length. Qed.

Lemma is_labeled_length ml y : length (is_labeled ml y) = length y.
Proof. unfold is_labeled. rewrite map_length. apply map_length. Qed.

Lemma is_unlabeled_nth ml y i : (i < length y)%nat ->
  nth i (is_unlabeled ml y) false = (ml =? nth i y 0).
Proof.
  intros H. unfold is_unlabeled.
  rewrite (nth_indep _ false (ml =? 0)) by (rewrite map_length; exact H).
  apply (map_nth (Z.eqb ml)).
Qed.

Lemma is_labeled_nth ml y i : (i < length y)%nat ->
  nth i (is_labeled ml y) false = negb (nth i (is_unlabeled ml y) false).
Proof.
  intros H. unfold is_labeled.
  rewrite (nth_indep _ false (negb false)) by (rewrite map_length, is_unlabeled_length; exact H).
  apply (map_nth negb).
Qed.

Lemma marks_exactly_sentinel ml y i : (i < length y)%nat ->
  (nth i (is_unlabeled ml y) false = true <-> nth i y 0 = ml) /\
  (nth i (is_labeled ml y) false = true <-> nth i y 0 <> ml).
Proof.
  intros H. rewrite is_labeled_nth, is_unlabeled_nth by exact H.
  destruct (ml =? nth i y 0) eqn:E; cbn; split; split; intros; try discriminate; try lia; try reflexivity.
Qed.

(* ---------- index enumeration ---------- *)

Lemma true_indices_from_spec m : forall s i,
  In i (true_indices_from m s) <-> (s <= i)%nat /\ nth (i - s) m false = true.
Proof.
  induction m as [|b t IH]; intros s i; cbn [true_indices_from].
  - cbn. split; [tauto|]. intros [_ H]. destruct (i - s)%nat; discriminate.
  - destruct b; cbn [In]; rewrite IH.
    + split.
      * intros [E|[H1 H2]].
        -- subst. split; [lia|]. replace (i - i)%nat with O by lia. reflexivity.
        -- split; [lia|]. replace (i - s)%nat with (S (i - S s)) by lia. exact H2.
      * intros [H1 H2]. destruct (Nat.eq_dec s i) as [E|NE]; [left; exact E|right].
        split; [lia|]. replace (i - s)%nat with (S (i - S s)) in H2 by lia. exact H2.
    + split.
      * intros [H1 H2]. split; [lia|]. replace (i - s)%nat with (S (i - S s)) by lia. exact H2.
      * intros [H1 H2]. destruct (Nat.eq_dec s i) as [E|NE].
        -- subst. replace (i - i)%nat with O in H2 by lia. discriminate.
        -- split; [lia|]. replace (i - s)%nat with (S (i - S s)) in H2 by lia. exact H2.
Qed.

Lemma true_indices_spec m i : In i (true_indices m) <-> nth i m false = true.
Proof.
  unfold true_indices. rewrite true_indices_from_spec. rewrite Nat.sub_0_r. split; [tauto|]. intros; split; [lia|assumption].
Qed.

Lemma true_indices_from_sorted m : forall s, StronglySorted lt (true_indices_from m s).
Proof.
  induction m as [|b t IH]; intros s; cbn [true_indices_from]; [constructor|].
  destruct b; [|apply IH].
  constructor; [apply IH|].
  rewrite Forall_forall. intros i Hi. apply true_indices_from_spec in Hi. lia.
Qed.

Lemma true_indices_sorted m : StronglySorted lt (true_indices m).
Proof. apply true_indices_from_sorted. Qed.

Lemma true_indices_lt m i : In i (true_indices m) -> (i < length m)%nat.
Proof.
  intros H. apply true_indices_spec in H.
  destruct (Nat.lt_ge_cases i (length m)) as [L|G]; [exact L|].
  rewrite nth_overflow in H by exact G. discriminate.
Qed.

(* 2-D *)
Definition lexlt (p q : nat * nat) : Prop :=
  (fst p < fst q)%nat \/ (fst p = fst q /\ (snd p < snd q)%nat).

Lemma true_indices2_from_spec m : forall s i j,
  In (i, j) (true_indices2_from m s) <-> (s <= i)%nat /\ nth j (nth (i - s) m []) false = true.
Proof.
  induction m as [|r t IH]; intros s i j; cbn [true_indices2_from].
  - cbn. split; [tauto|]. intros [_ H]. destruct (i - s)%nat; destruct j; discriminate.
  - rewrite in_app_iff, IH, in_map_iff. split.
    + intros [[j' [E Hj]]|[H1 H2]].
      * injection E as E1 E2. subst. split; [lia|]. replace (i - i)%nat with O by lia.
        cbn [nth]. apply true_indices_spec. exact Hj.
      * split; [lia|]. replace (i - s)%nat with (S (i - S s)) by lia. exact H2.
    + intros [H1 H2]. destruct (Nat.eq_dec s i) as [E|NE].
      * left. subst. replace (i - i)%nat with O in H2 by lia. cbn [nth] in H2.
        exists j. split; [reflexivity|apply true_indices_spec; exact H2].
      * right. split; [lia|]. replace (i - s)%nat with (S (i - S s)) in H2 by lia. exact H2.
Qed.

Lemma true_indices2_spec m i j :
  In (i, j) (true_indices2 m) <-> nth j (nth i m []) false = true.
Proof.
  unfold true_indices2. rewrite true_indices2_from_spec, Nat.sub_0_r. split; [tauto|]. intros; split; [lia|assumption].
Qed.

Lemma StronglySorted_app {A} (R : A -> A -> Prop) l1 l2 :
  StronglySorted R l1 -> StronglySorted R l2 ->
  (forall x y, In x l1 -> In y l2 -> R x y) -> StronglySorted R (l1 ++ l2).
Proof.
  induction l1 as [|a l1 IH]; intros H1 H2 H; cbn; [exact H2|].
  inversion H1 as [|? ? Hs Hf]; subst. constructor.
  - apply IH; [exact Hs|exact H2|]. intros x y Hx Hy. apply H; [right; exact Hx|exact Hy].
  - rewrite Forall_forall. intros y Hy. apply in_app_iff in Hy. destruct Hy as [Hy|Hy].
    + rewrite Forall_forall in Hf. apply Hf. exact Hy.
    + apply H; [left; reflexivity|exact Hy].
Qed.

Lemma StronglySorted_map_pair i (l : list nat) :
  StronglySorted lt l -> StronglySorted lexlt (map (fun j => (i, j)) l).
Proof.
  induction 1 as [|a l Hs IH Hf]; cbn; constructor; [exact IH|].
  rewrite Forall_forall in *. intros p Hp. apply in_map_iff in Hp. destruct Hp as [j [E Hj]]. subst p.
  right. cbn. split; [reflexivity|apply Hf; exact Hj].
Qed.

Lemma true_indices2_from_sorted m : forall s, StronglySorted lexlt (true_indices2_from m s).
Proof.
  induction m as [|r t IH]; intros s; cbn [true_indices2_from]; [constructor|].
  apply StronglySorted_app.
  - apply StronglySorted_map_pair. apply true_indices_sorted.
  - apply IH.
  - intros x [i j] Hx Hy. apply in_map_iff in Hx. destruct Hx as [j' [E _]]. subst x.
    apply true_indices2_from_spec in Hy. left. cbn. lia.
Qed.

(* ---------- encoder ---------- *)

Lemma insert_u_in x l z : In z (insert_u x l) <-> z = x \/ In z l.
Proof.
  induction l as [|y t IH]; cbn; [intuition|].
  destruct (x <? y) eqn:E1; cbn; [intuition|].
  destruct (x =? y) eqn:E2; cbn.
  - apply Z.eqb_eq in E2. subst. intuition.
  - rewrite IH. intuition.
Qed.

Lemma insert_u_sorted x l : StronglySorted Z.lt l -> StronglySorted Z.lt (insert_u x l).
Proof.
  induction 1 as [|y t Hs IH Hf]; cbn; [repeat constructor|].
  destruct (x <? y) eqn:E1.
  - constructor; [constructor; assumption|].
    constructor; [lia|]. rewrite Forall_forall in *. intros z Hz. specialize (Hf z Hz). lia.
  - destruct (x =? y) eqn:E2; [constructor; assumption|].
    constructor; [exact IH|].
    rewrite Forall_forall in *. intros z Hz. apply insert_u_in in Hz. destruct Hz as [Hz|Hz]; [lia|apply Hf; exact Hz].
Qed.

Lemma sort_dedupe_sorted l : StronglySorted Z.lt (sort_dedupe l).
Proof. induction l as [|x t IH]; cbn; [constructor|apply insert_u_sorted; exact IH]. Qed.

Lemma sort_dedupe_in l z : In z (sort_dedupe l) <-> In z l.
Proof.
  induction l as [|x t IH]; cbn; [tauto|]. rewrite insert_u_in, IH. intuition.
Qed.

Lemma sorted_lt_nodup l : StronglySorted Z.lt l -> NoDup l.
Proof.
  induction 1 as [|y t Hs IH Hf]; constructor; [|exact IH].
  intros Hin. rewrite Forall_forall in Hf. specialize (Hf y Hin). lia.
Qed.

Lemma index_of_some x l i : index_of x l = Some i -> nth_error l i = Some x.
Proof.
  revert i; induction l as [|y t IH]; intros i; cbn; [discriminate|].
  destruct (x =? y) eqn:E.
  - intros H. injection H as H. subst. apply Z.eqb_eq in E. subst. reflexivity.
  - destruct (index_of x t) as [j|]; cbn; [|discriminate]. intros H. injection H as H. subst. cbn. apply IH. reflexivity.
Qed.

Lemma index_of_in x l : In x l -> exists i, index_of x l = Some i /\ (i < length l)%nat.
Proof.
  induction l as [|y t IH]; cbn; [tauto|].
  intros H. destruct (x =? y) eqn:E; [exists O; split; [reflexivity|lia]|].
  destruct H as [H|H]; [subst; rewrite Z.eqb_refl in E; discriminate|].
  destruct (IH H) as [i [Hi Hl]]. exists (S i). rewrite Hi. split; [reflexivity|lia].
Qed.

Lemma index_of_nth l i x : NoDup l -> nth_error l i = Some x -> index_of x l = Some i.
Proof.
  revert i; induction l as [|y t IH]; intros i Hnd H; [destruct i; discriminate|].
  inversion Hnd as [|? ? Hnin Hnd']; subst.
  destruct i as [|i]; cbn in *.
  - injection H as H. subst. rewrite Z.eqb_refl. reflexivity.
  - destruct (x =? y) eqn:E.
    + apply Z.eqb_eq in E. subst. exfalso. apply Hnin. eapply nth_error_In. exact H.
    + rewrite (IH i Hnd' H). reflexivity.
Qed.

(* the sorted classes are mapped to 0..K-1 *)
Lemma transform_classes_is_range cls ml :
  NoDup cls -> ~ In ml cls ->
  enc_transform cls ml cls = Some (map Z.of_nat (seq 0 (length cls))).
Proof.
  intros Hnd Hml. unfold enc_transform.
  assert (H : forall pre suf, cls = pre ++ suf ->
            opt_all (map (enc_one cls ml) suf) = Some (map Z.of_nat (seq (length pre) (length suf)))).
  { intros pre suf; revert pre; induction suf as [|v suf IH]; intros pre E; [reflexivity|].
    cbn [map opt_all length seq]. unfold enc_one at 1.
    assert (Hv : In v cls) by (rewrite E; apply in_app_iff; right; left; reflexivity).
    destruct (ml =? v) eqn:Em; [apply Z.eqb_eq in Em; subst; contradiction|].
    assert (Hn : nth_error cls (length pre) = Some v).
    { rewrite E. rewrite nth_error_app2 by lia. rewrite Nat.sub_diag. reflexivity. }
    rewrite (index_of_nth cls _ v Hnd Hn). cbn [option_map].
    specialize (IH (pre ++ [v])). rewrite app_length in IH. cbn [length] in IH.
    replace (length pre + 1)%nat with (S (length pre)) in IH by lia.
    rewrite IH by (rewrite <- app_assoc; exact E). reflexivity. }
  apply (H [] cls). reflexivity.
Qed.

Lemma enc_one_dec cls ml v :
  ~ In ml cls -> (v = ml \/ In v cls) ->
  exists c, enc_one cls ml v = Some c /\ dec_one cls ml c = Some v /\
            (c = -1 <-> v = ml) /\ -1 <= c < Z.of_nat (length cls).
Proof.
  intros Hml Hv. unfold enc_one. destruct (ml =? v) eqn:E.
  - apply Z.eqb_eq in E. subst v. exists (-1). unfold dec_one. cbn. repeat split; try reflexivity; lia.
  - destruct Hv as [Hv|Hv]; [subst; rewrite Z.eqb_refl in E; discriminate|].
    destruct (index_of_in v cls Hv) as [i [Hi Hl]]. rewrite Hi. cbn.
    exists (Z.of_nat i). unfold dec_one.
    assert (Z.of_nat i =? -1 = false) as -> by lia.
    assert (Z.of_nat i <? 0 = false) as -> by lia.
    rewrite Nat2Z.id.
    split; [reflexivity|]. split; [apply index_of_some; exact Hi|].
    split; [split; [lia|intros; subst; rewrite Z.eqb_refl in E; discriminate]|lia].
Qed.

Lemma roundtrip cls ml y :
  ~ In ml cls -> Forall (fun v => v = ml \/ In v cls) y ->
  exists codes, enc_transform cls ml y = Some codes /\
    enc_inverse cls ml codes = Some y /\
    length codes = length y /\
    Forall (fun c => -1 <= c < Z.of_nat (length cls)) codes /\
    (forall i, (i < length y)%nat -> (nth i codes 0 = -1 <-> nth i y 0 = ml)).
Proof.
  intros Hml Hy. unfold enc_transform, enc_inverse.
  induction Hy as [|v y Hv Hy IH].
  - exists []. cbn. split; [reflexivity|]. split; [reflexivity|]. split; [reflexivity|].
    split; [constructor|]. intros i Hi. lia.
  - destruct IH as [codes [H1 [H2 [H3 [H4 H5]]]]].
    destruct (enc_one_dec cls ml v Hml Hv) as [c [Hc [Hd [Hm Hr]]]].
    exists (c :: codes). cbn [map opt_all]. rewrite Hc, H1. cbn [option_map map opt_all].
    rewrite Hd, H2. cbn [option_map length].
    split; [reflexivity|]. split; [reflexivity|]. split; [lia|].
    split; [constructor; assumption|].
    intros i Hi. destruct i as [|i]; cbn [nth]; [exact Hm|]. apply H5. lia.
Qed.

(* fit with no explicit class list: every label of y is covered *)
Lemma fit_covers_y ml y :
  ~ In ml (enc_fit None ml y) /\ Forall (fun v => v = ml \/ In v (enc_fit None ml y)) y.
Proof.
  unfold enc_fit. split.
  - rewrite sort_dedupe_in, filter_In. intros [_ H]. rewrite Z.eqb_refl in H. discriminate.
  - rewrite Forall_forall. intros v Hv. destruct (Z.eq_dec v ml) as [E|NE]; [left; exact E|right].
    rewrite sort_dedupe_in, filter_In. split; [exact Hv|]. apply negb_true_iff. lia.
Qed.

Lemma enc_fit_sorted classes ml y : StronglySorted Z.lt (enc_fit classes ml y).
Proof. destruct classes; apply sort_dedupe_sorted. Qed.
