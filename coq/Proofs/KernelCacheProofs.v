(* Every entry of the kernel cache that is not NaN is the kernel value of its two samples - after
   ANY sequence of precompute calls (any index lists, any labeled / unlabeled filters); hence a
   lookup either raises or returns exactly the kernel matrix the classifier would compute itself
   (for a symmetric kernel). *)
From Coq Require Import ZArith List Bool Lia.
From V Require Import Base.OptOrder Model.PoolQuery Model.KernelCache Proofs.SkeletonProofs.
Import ListNotations.
Open Scope Z_scope.

Section KCacheProofs.
  Variable k : nat -> nat -> Z.

  Definition cinv (c : cache) : Prop := forall i j v, cget c i j = Some v -> v = k i j.

  Lemma nth_repeat_rows a m : forall i,
    nth i (repeat (repeat (@None Z) a) m) [] = repeat None a \/ nth i (repeat (repeat (@None Z) a) m) [] = [].
  Proof.
    induction m as [|m IH]; intros i; [right; destruct i; reflexivity|].
    destruct i as [|i]; cbn [repeat nth]; [left; reflexivity|apply IH].
  Qed.

  Lemma cinv_empty n : cinv (empty_cache n).
  Proof.
    intros i j v H. unfold cget, empty_cache in H.
    destruct (nth_repeat_rows n n i) as [E|E]; rewrite E in H.
    - rewrite nth_repeat_None in H. discriminate.
    - destruct j; discriminate.
  Qed.

  Lemma set_at_nth_gen (u : list val) : forall i v q,
    nth q (set_at u i v) None = if Nat.eqb q i && Nat.ltb i (length u) then v else nth q u None.
  Proof.
    induction u as [|x t IH]; intros i v q; [destruct i, q; cbn; try reflexivity; rewrite ?andb_false_r; reflexivity|].
    destruct i as [|i], q as [|q]; cbn [set_at nth length]; try reflexivity.
    rewrite IH. cbn [Nat.eqb]. replace (S i <? S (length t))%nat with (i <? length t)%nat by reflexivity. reflexivity.
  Qed.

  Lemma write_row_spec i pred : forall r q v,
    (forall v', nth q r None = Some v' -> v' = k i q) ->
    nth q (write_row k i pred r) None = Some v -> v = k i q.
  Proof.
    induction pred as [|j t IH]; intros r q v Hr H; cbn [write_row fold_left] in H; [apply Hr; exact H|].
    apply (IH (set_at r j (Some (k i j))) q v); [|exact H].
    intros v' Hv'. rewrite set_at_nth_gen in Hv'.
    destruct (Nat.eqb q j && Nat.ltb j (length r)) eqn:E.
    - apply andb_prop in E. destruct E as [E _]. apply Nat.eqb_eq in E. subst q. congruence.
    - apply Hr. exact Hv'.
  Qed.

  Lemma set_row_nth (c : cache) : forall i f q,
    nth q (set_row c i f) [] = if Nat.eqb q i && Nat.ltb i (length c) then f (nth i c []) else nth q c [].
  Proof.
    induction c as [|r t IH]; intros i f q; [destruct i, q; cbn; try reflexivity; rewrite ?andb_false_r; reflexivity|].
    destruct i as [|i], q as [|q]; cbn [set_row nth length]; try reflexivity.
    rewrite IH. cbn [Nat.eqb]. replace (S i <? S (length t))%nat with (i <? length t)%nat by reflexivity. reflexivity.
  Qed.

  Lemma write_block_inv fit pred : forall c, cinv c -> cinv (write_block k c fit pred).
  Proof.
    induction fit as [|i t IH]; intros c Hc; [exact Hc|].
    cbn [write_block fold_left]. apply IH.
    intros a b v H. unfold cget in H. rewrite set_row_nth in H.
    destruct (Nat.eqb a i && Nat.ltb i (length c)) eqn:E.
    - apply andb_prop in E. destruct E as [E _]. apply Nat.eqb_eq in E. subst a.
      apply (write_row_spec i pred (nth i c []) b v); [|exact H].
      intros v' Hv'. apply (Hc i b v'). exact Hv'.
    - apply (Hc a b v). exact H.
  Qed.

  Theorem precompute_inv lab c idx_fit idx_pred pf pp :
    cinv c -> cinv (precompute k lab c idx_fit idx_pred pf pp).
  Proof.
    intros Hc. unfold precompute.
    destruct (pselect lab pf (uniq_sort idx_fit)) as [|a ta]; [exact Hc|].
    destruct (pselect lab pp (uniq_sort idx_pred)) as [|b tb]; [exact Hc|].
    apply write_block_inv. exact Hc.
  Qed.

  (* any history of precompute calls *)
  Definition pcall := (list nat * list nat * pfilter * pfilter)%type.
  Definition run_calls (lab : list bool) (c : cache) (h : list pcall) : cache :=
    fold_left (fun acc '(f, p, pf, pp) => precompute k lab acc f p pf pp) h c.

  Theorem cache_sound lab n (h : list pcall) : cinv (run_calls lab (empty_cache n) h).
  Proof.
    unfold run_calls. generalize (cinv_empty n). generalize (empty_cache n).
    induction h as [|[[[f p] pf] pp] t IH]; intros c Hc; [exact Hc|].
    cbn [fold_left]. apply IH. apply precompute_inv. exact Hc.
  Qed.

  Lemma all_some_spec (l : list val) (r : list Z) : all_some l = Some r -> l = map Some r.
  Proof.
    revert r. induction l as [|v t IH]; intros r H; cbn [all_some fold_right] in H.
    - injection H as <-. reflexivity.
    - fold (all_some t) in H. destruct v as [x|]; [|discriminate]. destruct (all_some t) as [rt|]; [|discriminate].
      injection H as <-. cbn [map]. rewrite (IH rt eq_refl). reflexivity.
  Qed.

  (* a lookup that does not raise returns the kernel values of (train sample, query sample) *)
  Theorem lookup_sound (c : cache) (train query : list nat) (P : list (list Z)) :
    cinv c -> lookup c train query = Some P ->
    P = map (fun q => map (fun t => k t q) train) query.
  Proof.
    intros Hc. revert P. induction query as [|q qs IH]; intros P H; cbn [lookup fold_right] in H.
    - injection H as <-. reflexivity.
    - fold (lookup c train qs) in H.
      destruct (all_some (map (fun t => cget c t q) train)) as [r|] eqn:Er; [|discriminate].
      destruct (lookup c train qs) as [rest|]; [|discriminate]. injection H as <-.
      cbn [map]. rewrite (IH rest eq_refl). f_equal.
      apply all_some_spec in Er. clear IH.
      revert r Er. induction train as [|t ts IHt]; intros r Er; destruct r as [|x r]; cbn [map] in *; try discriminate; [reflexivity|].
      injection Er as E1 E2. rewrite (IHt r E2). f_equal. apply (Hc t q x). exact E1.
  Qed.

  (* the speed-up never changes a prediction: with a symmetric kernel the matrix handed to the
     classifier is the one it would compute itself, after any history of precompute calls *)
  Theorem speed_up_transparent lab n (h : list pcall) (train query : list nat) (P : list (list Z)) :
    (forall i j, k i j = k j i) ->
    lookup (run_calls lab (empty_cache n) h) train query = Some P -> P = direct k train query.
  Proof.
    intros Hsym H. rewrite (lookup_sound _ train query P (cache_sound lab n h) H). unfold direct.
    apply map_ext. intros q. apply map_ext. intros t. apply Hsym.
  Qed.
End KCacheProofs.
