(* Structural theorems about Model/Zliobaite.v, for an arbitrary Num instance
   (hence also for binary64): purity of query, update = per-instance
   simulation.  Histories / chunking follow by Proofs/StreamGeneric.v. *)
From Coq Require Import ZArith List Bool Lia Sorted.
From V Require Import Base.Num Model.StreamCore Model.Zliobaite Proofs.StreamGeneric.
Import ListNotations.

Definition zkind_eq_dec_random (k : zkind) : {k = ZRandom} + {k <> ZRandom}.
Proof. destruct k; (left; reflexivity) || (right; discriminate). Defined.

Section ZlP.
Context {F : Type} `{Num F}.
Variable k : zkind.
Variable p : @zparams F.

Lemma zstate_eta (s : @zstate F) : {| u_t := u_t s; theta := theta s; cur := cur s |} = s.
Proof. destruct s; reflexivity. Qed.

(* the query loop is the per-instance semantics run on the temporaries;
   it touches only the generator position of the object *)
Lemma qloop_iter : forall xs s tu tth i,
  qloop k p s tu tth xs i =
  (indices_from (fst (iter k p {| u_t := tu; theta := tth; cur := cur s |} xs)) i,
   {| u_t := u_t s; theta := theta s;
      cur := cur (snd (iter k p {| u_t := tu; theta := tth; cur := cur s |} xs)) |}).
Proof.
  unfold iter.
  induction xs as [|x rest IH]; intros s tu tth i.
  - cbn. rewrite zstate_eta. reflexivity.
  - cbn [qloop giter]. unfold inst at 1 3. cbn [u_t theta cur].
    destruct (budget_left p tu) eqn:Hb.
    + destruct (decide k p tth (cur s) x) as [[smp tth'] c'] eqn:Hd.
      rewrite IH. cbn [u_t theta cur].
      destruct (giter (inst k p) {| u_t := decay p tu smp; theta := tth'; cur := c' |} rest) as [bs sf] eqn:Hi.
      cbn [fst snd indices_from]. destruct smp; reflexivity.
    + rewrite IH. cbn [u_t theta cur].
      destruct (giter (inst k p) {| u_t := decay p tu false; theta := tth; cur := idle k (cur s) |} rest) as [bs sf] eqn:Hi.
      cbn [fst snd indices_from]. reflexivity.
Qed.

(* C03: query returns the state it was given, and its result is the
   per-instance simulation *)
Theorem zquery_pure (s : zstate) (xs : list zin) :
  zquery k p s xs = (indices_from (fst (giter (inst k p) s xs)) 0, s).
Proof.
  unfold zquery. rewrite qloop_iter. unfold iter. rewrite zstate_eta. cbn [u_t theta]. rewrite zstate_eta. reflexivity.
Qed.

(* ---- update commits exactly what the per-instance semantics computes ---- *)
Definition with_cur (s : @zstate F) (c : nat) : zstate := {| u_t := u_t s; theta := theta s; cur := c |}.

Lemma commit_inst_nonrandom s x : k <> ZRandom ->
  commit k p s (fst (inst k p s x)) = snd (inst k p s x).
Proof.
  intros Hk. unfold inst, commit.
  destruct k; try congruence; cbn [decide idle];
    destruct (budget_left p (u_t s)) eqn:Hb; cbn [fst snd]; try reflexivity.
  destruct (fltb (draw p (cur s)) (zp_v p)) eqn:Hv; cbn [fst snd]; reflexivity.
Qed.

Lemma fold_commit_nonrandom xs : k <> ZRandom -> forall s,
  fold_left (commit k p) (fst (giter (inst k p) s xs)) s = snd (giter (inst k p) s xs).
Proof.
  intros Hk. induction xs as [|x rest IH]; intros s; [reflexivity|].
  cbn [giter]. pose proof (commit_inst_nonrandom s x Hk) as Hc.
  destruct (inst k p s x) as [b s1]. cbn [fst snd] in Hc.
  specialize (IH s1). destruct (giter (inst k p) s1 rest) as [bs s2]. cbn [fst snd fold_left] in *.
  rewrite Hc. exact IH.
Qed.

Lemma fold_commit_random xs : k = ZRandom -> forall s c0,
  fold_left (commit k p) (fst (giter (inst k p) s xs)) (with_cur s c0) = with_cur (snd (giter (inst k p) s xs)) c0 /\
  cur (snd (giter (inst k p) s xs)) = (cur s + length xs)%nat.
Proof.
  intros Hk. induction xs as [|x rest IH]; intros s c0; [cbn; split; [reflexivity|lia]|].
  cbn [giter].
  assert (Hc : commit k p (with_cur s c0) (fst (inst k p s x)) = with_cur (snd (inst k p s x)) c0 /\
               cur (snd (inst k p s x)) = S (cur s)).
  { unfold inst, commit, with_cur. rewrite Hk. cbn [decide idle u_t theta cur].
    destruct (budget_left p (u_t s)); cbn [fst snd u_t theta cur]; split; reflexivity. }
  destruct (inst k p s x) as [b s1]. cbn [fst snd] in Hc. destruct Hc as [Hc1 Hc2].
  specialize (IH s1 c0). destruct (giter (inst k p) s1 rest) as [bs s2]. cbn [fst snd fold_left length] in *.
  rewrite Hc1. destruct IH as [IH1 IH2]. split; [exact IH1|lia].
Qed.

(* C10: update(query(...)) = the instances processed one at a time *)
Theorem zupdate_simulates (s : zstate) (xs : list zin) :
  zupdate k p s (length xs) (fst (zquery k p s xs)) = snd (giter (inst k p) s xs).
Proof.
  rewrite zquery_pure. cbn [fst]. unfold zupdate.
  rewrite <- (giter_length (inst k p) xs s). rewrite bits_of_indices. rewrite (giter_length (inst k p) xs s).
  destruct (zkind_eq_dec_random k) as [E|NE].
  - destruct (fold_commit_random xs E s (cur s + length xs)) as [H1 H2].
    rewrite E in *. fold (with_cur s (cur s + length xs)). rewrite H1.
    unfold with_cur. rewrite <- H2. apply zstate_eta.
  - rewrite <- (fold_commit_nonrandom xs NE s). destruct k; try congruence; reflexivity.
Qed.

End ZlP.
