(* BalancedIncrementalQuantileFilter: the two bridging facts, for every arithmetic and every
   quantile oracle; StreamGenericX then yields purity, idempotence, chunking invariance and
   well-formed indices (C03, C10). *)
From Coq Require Import ZArith Arith List Bool Lia.
From V Require Import Base.Num Model.StreamCore Model.SlidingWindow Model.Biqf
  Proofs.SlidingWindowProofs Proofs.StreamGeneric Proofs.StreamGenericX.
Import ListNotations.

Section BiqfP.
Context {F : Type} `{Num F}.
Variable quant : Z -> list F -> F.
Variable p : bparams (F := F).

Lemma b_qloop_giter : forall xs obs que hist i,
  b_qloop quant p obs que hist xs i =
  indices_from (fst (giter (b_inst quant p) {| b_obs := obs; b_que := que; b_hist := hist |} xs)) i.
Proof.
  induction xs as [|u rest IH]; intros obs que hist i; [reflexivity|].
  cbn [b_qloop giter b_inst b_obs b_que b_hist].
  set (smp := b_decide quant p (obs + 1) que (b_push (bq_w p) hist u) u).
  rewrite IH.
  destruct (giter (b_inst quant p) _ rest) as [bs sf] eqn:E. cbn [fst indices_from].
  destruct smp; reflexivity.
Qed.

Theorem b_query_pure s xs :
  b_query quant p s xs = (indices_from (fst (giter (b_inst quant p) s xs)) 0, s).
Proof. unfold b_query. rewrite b_qloop_giter. destruct s; reflexivity. Qed.

Lemma count_bits_cons b bs : count_bits (b :: bs) = ((if b then 1 else 0) + count_bits bs)%Z.
Proof. unfold count_bits. cbn [filter]. destruct b; cbn [length]; lia. Qed.

(* the history never holds more than w entries (deque(maxlen=w)) *)
Definition b_wf (s : bstate (F := F)) : Prop := (length (b_hist s) <= bq_w p)%nat.

Lemma lastn_short {A} w (l : list A) : (length l <= w)%nat -> lastn w l = l.
Proof. intros Hl. unfold lastn. replace (length l - w)%nat with 0%nat by lia. reflexivity. Qed.

Lemma b_inst_wf s u : b_wf (snd (b_inst quant p s u)).
Proof. unfold b_wf, b_inst, b_push. cbn [snd b_hist]. rewrite lastn_length. lia. Qed.

Lemma b_giter_state : forall xs s, b_wf s ->
  snd (giter (b_inst quant p) s xs) =
  {| b_obs := (b_obs s + Z.of_nat (length xs))%Z;
     b_que := (b_que s + count_bits (fst (giter (b_inst quant p) s xs)))%Z;
     b_hist := lastn (bq_w p) (b_hist s ++ xs) |}.
Proof.
  induction xs as [|u rest IH]; intros s Hwf.
  - cbn [giter fst snd length]. rewrite app_nil_r. rewrite lastn_short by exact Hwf.
    destruct s as [o q h]. cbn [b_obs b_que b_hist]. unfold count_bits. cbn. f_equal; lia.
  - cbn [giter]. destruct (b_inst quant p s u) as [b s1] eqn:E1.
    assert (Hwf1 : b_wf s1) by (pose proof (b_inst_wf s u) as W; rewrite E1 in W; exact W).
    specialize (IH s1 Hwf1).
    destruct (giter (b_inst quant p) s1 rest) as [bs sf] eqn:E2. cbn [fst snd] in *.
    rewrite IH. unfold b_inst in E1. injection E1 as Eb Es. subst s1. cbn [b_obs b_que b_hist].
    rewrite count_bits_cons. unfold b_push. rewrite lastn_app_lastn. rewrite <- app_assoc. cbn [app length].
    subst b. f_equal; [lia|destruct (b_decide _ _ _ _ _ _); lia].
Qed.

Theorem b_update_sim s xs : b_wf s ->
  b_update p s xs (fst (b_query quant p s xs)) = snd (giter (b_inst quant p) s xs).
Proof.
  intros Hwf. rewrite b_query_pure. cbn [fst]. rewrite b_giter_state by exact Hwf.
  unfold b_update. f_equal. f_equal. f_equal.
  rewrite <- (giter_length (b_inst quant p) xs s). apply bits_of_indices.
Qed.

Theorem b_update_wf s xs idx : b_wf (b_update p s xs idx).
Proof. unfold b_wf, b_update. cbn [b_hist]. rewrite lastn_length. lia. Qed.

End BiqfP.
