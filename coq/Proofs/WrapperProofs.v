From Coq Require Import ZArith List Bool Lia Arith.
From V Require Import Base.OptOrder Model.PoolQuery Model.Wrappers Proofs.SelProofs.
Import ListNotations.
Open Scope Z_scope.

(* ---------- array_split ---------- *)
Definition nsum (l : list nat) : nat := fold_right Nat.add 0%nat l.

Lemma split_by_concat {A} : forall sizes (l : list A),
  concat (split_by sizes l) = firstn (nsum sizes) l.
Proof.
  induction sizes as [|s t IH]; intros l; [reflexivity|].
  cbn [split_by concat nsum fold_right]. rewrite IH. fold (nsum t).
  rewrite <- (firstn_skipn s l) at 3. rewrite firstn_app.
  destruct (Nat.le_ge_cases s (length l)) as [L|G].
  - rewrite firstn_length_le by exact L. replace (s + nsum t - s)%nat with (nsum t) by lia.
    rewrite firstn_firstn. replace (Nat.min (s + nsum t) s) with s by lia. reflexivity.
  - rewrite (firstn_all2 (n := s + nsum t)) by (rewrite firstn_length; lia).
    rewrite (skipn_all2 l) by exact G. rewrite !firstn_nil. rewrite app_nil_r. reflexivity.
Qed.

Lemma ind_sum r : forall k s,
  nsum (map (fun i => if (i <? r)%nat then 1%nat else 0%nat) (seq s k)) = (Nat.min (s + k) r - Nat.min s r)%nat.
Proof.
  induction k as [|k IH]; intros s; [cbn; lia|].
  cbn [seq map nsum fold_right]. fold (nsum (map (fun i => if (i <? r)%nat then 1%nat else 0%nat) (seq (S s) k))).
  rewrite IH. destruct (s <? r)%nat eqn:E; [apply Nat.ltb_lt in E|apply Nat.ltb_ge in E]; lia.
Qed.

Lemma nsum_map_add (f g : nat -> nat) l : nsum (map (fun i => (f i + g i)%nat) l) = (nsum (map f l) + nsum (map g l))%nat.
Proof. induction l as [|x l IH]; [reflexivity|]. cbn [map nsum fold_right] in *. fold (nsum (map (fun i => (f i + g i)%nat) l)). fold (nsum (map f l)). fold (nsum (map g l)). lia. Qed.

Lemma nsum_const c l : nsum (map (fun _ : nat => c) l) = (length l * c)%nat.
Proof. induction l as [|x l IH]; [reflexivity|]. cbn [map nsum fold_right length] in *. fold (nsum (map (fun _ : nat => c) l)). lia. Qed.

Lemma split_sizes_sum n k : (0 < k)%nat -> nsum (split_sizes n k) = n.
Proof.
  intros Hk. unfold split_sizes.
  rewrite (nsum_map_add (fun _ => (n / k)%nat) (fun i => if (i <? n mod k)%nat then 1%nat else 0%nat)).
  rewrite nsum_const, seq_length, ind_sum.
  pose proof (Nat.mod_upper_bound n k ltac:(lia)). pose proof (Nat.div_mod n k ltac:(lia)).
  replace (Nat.min (0 + k) (n mod k))%nat with (n mod k)%nat by lia. cbn [Nat.min]. nia.
Qed.

(* the chunks handed to the workers partition the candidates, in order, for every job count *)
Theorem array_split_partition {A} (l : list A) (k : nat) : (0 < k)%nat ->
  concat (array_split l k) = l /\ length (array_split l k) = k.
Proof.
  intros Hk. unfold array_split. split.
  - rewrite split_by_concat, split_sizes_sum by exact Hk. apply firstn_all.
  - assert (H : forall sizes (m : list A), length (split_by sizes m) = length sizes)
      by (induction sizes as [|s t IH]; intros m; [reflexivity|cbn; rewrite IH; reflexivity]).
    rewrite H. unfold split_sizes. rewrite map_length, seq_length. reflexivity.
Qed.

(* ---------- sub-sample size ---------- *)
Theorem sub_size_le mc n : (sub_size mc n <= n)%nat.
Proof. destruct mc; cbn; lia. Qed.

Theorem sub_size_frac_ceil p q n :
  (Z.pos p <= Z.pos q) ->
  let k := Z.of_nat (sub_size (MFrac p q) n) in
  Z.of_nat n * Z.pos p <= k * Z.pos q /\ (k - 1) * Z.pos q < Z.of_nat n * Z.pos p \/ n = 0%nat.
Proof.
  intros Hpq. cbn [sub_size]. unfold ceil_div.
  destruct n as [|n]; [right; reflexivity|left].
  set (a := Z.of_nat (S n) * Z.pos p). set (b := Z.pos q).
  assert (Ha : 0 < a) by (unfold a; apply Z.mul_pos_pos; lia). assert (Hb : 0 < b) by (unfold b; lia).
  pose proof (Z.div_mod (a + b - 1) b ltac:(lia)) as D. pose proof (Z.mod_pos_bound (a + b - 1) b Hb) as M.
  assert (Hc : (a + b - 1) / b <= Z.of_nat (S n)).
  { assert ((a + b - 1) / b < Z.of_nat (S n) + 1); [|lia]. apply Z.div_lt_upper_bound; [lia|]. unfold a, b. nia. }
  assert (Hc0 : 0 <= (a + b - 1) / b) by (apply Z.div_pos; lia).
  rewrite Nat2Z.inj_min. rewrite Z2Nat.id by exact Hc0.
  rewrite Z.min_l by exact Hc. nia.
Qed.

(* ---------- ordinal ranks ---------- *)
Lemma pos_before_irrefl l p : pos_before l p p = false.
Proof. unfold pos_before. rewrite Z.ltb_irrefl, Z.eqb_refl, Nat.ltb_irrefl. reflexivity. Qed.

(* rankdata(method="ordinal") preserves the strict order of the values *)
Theorem ordinal_rank_order_preserving l i j :
  (i < length l)%nat -> (j < length l)%nat -> nth i l 0 < nth j l 0 ->
  (nth i (ordinal_rank l) 0 < nth j (ordinal_rank l) 0)%nat.
Proof.
  intros Hi Hj Hlt. unfold ordinal_rank.
  rewrite !nth_map_seq by assumption. unfold rank_at.
  set (Fi := filter (fun q => pos_before l q i) (seq 0 (length l))).
  set (Fj := filter (fun q => pos_before l q j) (seq 0 (length l))).
  assert (Hnd : NoDup (i :: Fi)).
  { constructor.
    - unfold Fi. rewrite filter_In. intros [_ H]. rewrite pos_before_irrefl in H. discriminate.
    - unfold Fi. apply NoDup_filter. apply seq_NoDup. }
  assert (Hinc : incl (i :: Fi) Fj).
  { intros q [E|Hq].
    - subst q. unfold Fj. rewrite filter_In. split; [apply in_seq; lia|].
      unfold pos_before. apply orb_true_iff. left. apply Z.ltb_lt. exact Hlt.
    - unfold Fi in Hq. rewrite filter_In in Hq. destruct Hq as [Hs Hb].
      unfold Fj. rewrite filter_In. split; [exact Hs|].
      unfold pos_before in *. apply orb_true_iff. left. apply Z.ltb_lt.
      apply orb_true_iff in Hb. destruct Hb as [Hb|Hb]; [apply Z.ltb_lt in Hb; lia|].
      apply andb_prop in Hb. destruct Hb as [Hb _]. apply Z.eqb_eq in Hb. lia. }
  pose proof (NoDup_incl_length Hnd Hinc) as L. cbn [length] in L. lia.
Qed.

(* ranks are a permutation-like assignment: distinct positions get distinct ranks *)
Theorem ordinal_rank_injective l i j :
  (i < length l)%nat -> (j < length l)%nat -> i <> j ->
  nth i (ordinal_rank l) 0%nat <> nth j (ordinal_rank l) 0%nat.
Proof.
  intros Hi Hj Hij.
  assert (T : forall a b, (a < length l)%nat -> (b < length l)%nat -> pos_before l a b = true ->
              (nth a (ordinal_rank l) 0 < nth b (ordinal_rank l) 0)%nat).
  { intros a b Ha Hb Hab. unfold ordinal_rank. rewrite !nth_map_seq by assumption. unfold rank_at.
    set (Fa := filter (fun q => pos_before l q a) (seq 0 (length l))).
    set (Fb := filter (fun q => pos_before l q b) (seq 0 (length l))).
    assert (Hnd : NoDup (a :: Fa)).
    { constructor; [unfold Fa; rewrite filter_In; intros [_ H]; rewrite pos_before_irrefl in H; discriminate|].
      unfold Fa. apply NoDup_filter. apply seq_NoDup. }
    assert (Hinc : incl (a :: Fa) Fb).
    { intros q [E|Hq].
      - subst q. unfold Fb. rewrite filter_In. split; [apply in_seq; lia|exact Hab].
      - unfold Fa in Hq. rewrite filter_In in Hq. destruct Hq as [Hs Hq].
        unfold Fb. rewrite filter_In. split; [exact Hs|].
        unfold pos_before in *. apply orb_true_iff in Hab. apply orb_true_iff in Hq. apply orb_true_iff.
        destruct Hab as [Hab|Hab]; destruct Hq as [Hq|Hq];
          repeat match goal with
                 | H : (_ <? _) = true |- _ => apply Z.ltb_lt in H
                 | H : (_ && _) = true |- _ => apply andb_prop in H; destruct H
                 | H : (_ =? _) = true |- _ => apply Z.eqb_eq in H
                 | H : (_ <? _)%nat = true |- _ => apply Nat.ltb_lt in H
                 end.
        + left. apply Z.ltb_lt. lia.
        + left. apply Z.ltb_lt. lia.
        + left. apply Z.ltb_lt. lia.
        + right. apply andb_true_intro. split; [apply Z.eqb_eq; lia|apply Nat.ltb_lt; lia]. }
    pose proof (NoDup_incl_length Hnd Hinc) as L. cbn [length] in L. lia. }
  assert (D : pos_before l i j = true \/ pos_before l j i = true).
  { unfold pos_before. destruct (Z.lt_trichotomy (nth i l 0) (nth j l 0)) as [L|[E|G]].
    - left. apply orb_true_iff. left. apply Z.ltb_lt. exact L.
    - destruct (Nat.lt_trichotomy i j) as [L|[E'|G]]; [|contradiction|].
      + left. apply orb_true_iff. right. apply andb_true_intro. split; [apply Z.eqb_eq; exact E|apply Nat.ltb_lt; exact L].
      + right. apply orb_true_iff. right. apply andb_true_intro. split; [apply Z.eqb_eq; lia|apply Nat.ltb_lt; exact G].
    - right. apply orb_true_iff. left. apply Z.ltb_lt. lia. }
  destruct D as [D|D]; [pose proof (T i j Hi Hj D)|pose proof (T j i Hj Hi D)]; lia.
Qed.

(* ---- the forcing step of SingleAnnotatorWrapper._get_order_preserving_s_query ----
   the sample the wrapped strategy ranked first in this step is lifted to max + 1 before the ranks are taken: whatever the sign
   and magnitude of the utilities, it receives the highest rank of the row (= the number of entries) *)
Lemma fold_max_ub (low : Z) (l : list Z) : forall q, (q < length l)%nat -> nth q l 0 <= fold_right Z.max low l.
Proof.
  induction l as [|x t IH]; intros q Hq; cbn in *; [lia|].
  destruct q; [lia|]. specialize (IH q ltac:(lia)). lia.
Qed.

Definition bump (low : Z) (filled : list Z) (forced : nat) : list Z :=
  map (fun iv : nat * Z => if Nat.eqb (fst iv) forced then fold_right Z.max low filled + 1 else snd iv)
      (combine (seq 0 (length filled)) filled).

Lemma bump_length low filled forced : length (bump low filled forced) = length filled.
Proof. unfold bump. rewrite map_length, combine_length, seq_length. lia. Qed.

Lemma nth_map_dflt {A B} (f : A -> B) (l : list A) : forall j d d', (j < length l)%nat -> nth j (map f l) d' = f (nth j l d).
Proof. induction l as [|x t IH]; intros j d d' Hj; cbn in *; [lia|]. destruct j; [reflexivity|]. apply IH. lia. Qed.

Lemma bump_nth low filled forced q : (q < length filled)%nat ->
  nth q (bump low filled forced) 0 = if Nat.eqb q forced then fold_right Z.max low filled + 1 else nth q filled 0.
Proof.
  intros Hq. unfold bump.
  rewrite (nth_map_dflt _ _ q (O, 0)) by (rewrite combine_length, seq_length; lia).
  rewrite combine_nth by (rewrite seq_length; reflexivity).
  rewrite seq_nth by exact Hq. cbn [fst snd Nat.add]. reflexivity.
Qed.

Theorem forced_sample_gets_top_rank (low : Z) (filled : list Z) (forced : nat) :
  (forced < length filled)%nat ->
  nth forced (ordinal_rank (bump low filled forced)) O = length filled.
Proof.
  intros Hf. unfold ordinal_rank. rewrite bump_length. rewrite nth_map_seq by exact Hf. unfold rank_at. rewrite bump_length.
  set (F := filter (fun q => pos_before (bump low filled forced) q forced) (seq 0 (length filled))).
  assert (HF : forall q, In q F <-> In q (seq 0 (length filled)) /\ q <> forced).
  { intros q. unfold F. rewrite filter_In. split.
    - intros [Hs Hb]. split; [exact Hs|]. intros ->. rewrite pos_before_irrefl in Hb. discriminate.
    - intros [Hs Hne]. split; [exact Hs|]. apply in_seq in Hs. unfold pos_before.
      rewrite (bump_nth low filled forced q) by lia. rewrite (bump_nth low filled forced forced) by lia.
      rewrite Nat.eqb_refl. destruct (Nat.eqb q forced) eqn:E; [apply Nat.eqb_eq in E; contradiction|].
      apply orb_true_iff. left. apply Z.ltb_lt. pose proof (fold_max_ub low filled q ltac:(lia)). lia. }
  assert (Hlen : S (length F) = length filled).
  { assert (Hnd : NoDup (forced :: F)).
    { constructor; [rewrite HF; intros [_ H]; congruence|]. unfold F. apply NoDup_filter, seq_NoDup. }
    assert (H1 : incl (forced :: F) (seq 0 (length filled))).
    { intros q [<-|Hq]; [apply in_seq; lia|]. apply HF in Hq. tauto. }
    assert (H2 : incl (seq 0 (length filled)) (forced :: F)).
    { intros q Hq. destruct (Nat.eq_dec q forced) as [->|Hne]; [left; reflexivity|right; apply HF; tauto]. }
    pose proof (NoDup_incl_length Hnd H1) as L1. pose proof (NoDup_incl_length (seq_NoDup (length filled) 0) H2) as L2.
    rewrite seq_length in *. cbn [length] in *. lia. }
  exact Hlen.
Qed.
