From Coq Require Import List Arith Lia.
From V Require Import Model.SlidingWindow.
Import ListNotations.

Lemma lastn_length {A} w (l : list A) : length (lastn w l) = Nat.min w (length l).
Proof. unfold lastn. rewrite skipn_length. lia. Qed.

Lemma lastn_prefix_irrelevant {A} w (pre m : list A) : w <= length m -> lastn w (pre ++ m) = lastn w m.
Proof.
  intros H. unfold lastn. rewrite app_length, skipn_app.
  rewrite (skipn_all2 pre) by lia. cbn [app]. f_equal. lia.
Qed.

Lemma lastn_app_lastn {A} w (a b : list A) : lastn w (lastn w a ++ b) = lastn w (a ++ b).
Proof.
  destruct (Nat.le_gt_cases (length a) w) as [L|G].
  - unfold lastn at 2. replace (length a - w) with 0 by lia. reflexivity.
  - assert (Hs : length (lastn w a) = w) by (rewrite lastn_length; lia).
    rewrite <- (firstn_skipn (length a - w) a) at 2. fold (lastn w a).
    rewrite <- app_assoc. symmetry. apply lastn_prefix_irrelevant.
    rewrite app_length, Hs. lia.
Qed.

(* the window always is the last w samples of everything given since the last fit *)
Theorem window_is_last_w w : forall ops win acc,
  win = lastn w acc -> fold_left (sw_step w) ops win = lastn w (since_last_fit ops acc).
Proof.
  induction ops as [|o ops IH]; intros win acc H; [exact H|].
  cbn [fold_left since_last_fit]. destruct o as [b|b]; cbn [sw_step].
  - apply IH. reflexivity.
  - apply IH. rewrite H. apply lastn_app_lastn.
Qed.

Corollary sw_run_spec w ops : sw_run w ops = lastn w (since_last_fit ops []).
Proof. unfold sw_run. apply window_is_last_w. unfold lastn. reflexivity. Qed.

(* ---- parameters that change between calls, only_labeled, weights (round I) ---- *)
Lemma lastn_map {A B} (f : A -> B) w (l : list A) : map f (lastn w l) = lastn w (map f l).
Proof. unfold lastn. rewrite map_length. symmetry. apply skipn_map. Qed.

Lemma lastn_Forall {A} (P : A -> Prop) w (l : list A) : Forall P l -> Forall P (lastn w l).
Proof.
  intros H. unfold lastn. rewrite <- (firstn_skipn (length l - w) l) in H.
  apply Forall_app in H. apply H.
Qed.

Lemma keepl_labeled l : Forall (fun p : nat * bool => snd p = true) (keepl true l).
Proof. cbn. apply Forall_forall. intros p Hp. apply filter_In in Hp. apply Hp. Qed.

(* the window never holds more than the CURRENT window_size samples *)
Theorem swx_length_bound s c s' : swx_step s c = Some s' -> length (xwindow s') <= xw c.
Proof.
  unfold swx_step. destruct (xweights (if xfit c then xempty else s)) as [wl|], (xwt c);
    intros H; inversion H; subst; cbn; rewrite lastn_length; apply Nat.le_min_l.
Qed.

(* the weights window, when there is one, stores the weights of exactly the samples of the window,
   in the same order *)
Definition xaligned (s : xwin) : Prop :=
  match xweights s with Some wl => wl = map fst (xwindow s) | None => True end.

Theorem swx_weights_aligned s c s' : xaligned s -> swx_step s c = Some s' -> xaligned s'.
Proof.
  unfold swx_step, xaligned. intros Ha.
  assert (Hb : match xweights (if xfit c then xempty else s) with
               | Some wl => wl = map fst (xwindow (if xfit c then xempty else s)) | None => True end)
    by (destruct (xfit c); [reflexivity | exact Ha]).
  destruct (xweights (if xfit c then xempty else s)) as [wl|], (xwt c);
    intros H; inversion H; subst; cbn; try exact I.
  rewrite lastn_map, map_app. reflexivity.
Qed.

Theorem swx_run_invariant : forall cs s s', xaligned s -> swx_run s cs = Some s' -> xaligned s'.
Proof.
  induction cs as [|c cs IH]; intros s s' Ha H; cbn in H.
  - inversion H; subst; exact Ha.
  - destruct (swx_step s c) as [s1|] eqn:E; [|discriminate].
    apply (IH s1); [eapply swx_weights_aligned; eassumption | exact H].
Qed.

(* fit starts from scratch: whatever the object was given (or configured with) before is irrelevant *)
Theorem swx_fit_forgets s1 s2 c : xfit c = true -> swx_step s1 c = swx_step s2 c.
Proof. intros H. unfold swx_step. rewrite H. reflexivity. Qed.

Theorem swx_history_before_fit_irrelevant : forall pre s c cs s1,
  xfit c = true -> swx_run s pre = Some s1 -> swx_run s (pre ++ c :: cs) = swx_run xempty (c :: cs).
Proof.
  induction pre as [|p pre IH]; intros s c cs s1 Hc H; cbn in H.
  - cbn. rewrite (swx_fit_forgets s xempty c Hc). reflexivity.
  - cbn. destruct (swx_step s p) as [s2|]; [|discriminate]. apply (IH s2 c cs s1 Hc H).
Qed.

(* only_labeled on every call: nothing unlabeled ever sits in the window; in particular a fit on
   unlabeled samples only leaves it empty *)
Theorem swx_only_labeled s c s' :
  Forall (fun p => snd p = true) (xwindow s) -> xol c = true -> swx_step s c = Some s' ->
  Forall (fun p => snd p = true) (xwindow s').
Proof.
  intros Hs Hol. unfold swx_step. rewrite Hol.
  assert (Hb : Forall (fun p : nat * bool => snd p = true) (xwindow (if xfit c then xempty else s)))
    by (destruct (xfit c); [constructor | exact Hs]).
  destruct (xweights (if xfit c then xempty else s)) as [wl|], (xwt c);
    intros H; inversion H; subst; cbn [xwindow];
    apply lastn_Forall, Forall_app; split; try exact Hb; apply keepl_labeled.
Qed.

Theorem swx_fit_unlabeled_only_empties s c s' :
  xfit c = true -> xol c = true -> Forall (fun p => snd p = false) (xs c) -> swx_step s c = Some s' ->
  xwindow s' = [].
Proof.
  intros Hf Hol Hu. unfold swx_step. rewrite Hf, Hol. cbn [xempty xweights xwindow app].
  assert (Hk : keepl true (xs c) = []).
  { cbn. induction (xs c) as [|p l IH]; [reflexivity|]. inversion Hu as [|? ? Hp Hl]; subst.
    cbn. rewrite Hp. apply IH, Hl. }
  rewrite Hk. destruct (xwt c); intros H; inversion H; subst; cbn; unfold lastn; destruct (0 - xw c); reflexivity.
Qed.

(* constant parameters: the richer model is the old one on the filtered batches *)
Theorem swx_constant_params_window w ol : forall cs s s',
  Forall (fun c => xw c = w /\ xol c = ol) cs -> swx_run s cs = Some s' ->
  xwindow s' = fold_left (sw_step_gen w) (map (fun c => (xfit c, keepl ol (xs c))) cs) (xwindow s).
Proof.
  induction cs as [|c cs IH]; intros s s' Hall H; cbn in H.
  - inversion H; subst; reflexivity.
  - inversion Hall as [|? ? [Hw Ho] Hr]; subst. destruct (swx_step s c) as [s1|] eqn:E; [|discriminate].
    cbn [map fold_left]. rewrite (IH s1 s' Hr H). f_equal.
    unfold swx_step in E. unfold sw_step_gen. cbn [fst snd].
    destruct (xfit c); cbn [xempty xweights xwindow app] in *;
      [destruct (xwt c) | destruct (xweights s), (xwt c)]; inversion E; subst; reflexivity.
Qed.

(* the code as it was written: after window_size was lowered through set_params, partial_fit kept
   more samples than the current window_size (recorded and repaired) *)
Theorem swa_shrunk_window_overfull_refuted :
  exists st c, let st' := swa_step st c in xw c < length (fst st').
Proof.
  exists ([(0, true); (1, true); (2, true); (3, true)], 4),
         {| xfit := false; xw := 2; xol := false; xs := [(4, true)]; xwt := false |}.
  vm_compute. lia.
Qed.
