From Coq Require Import List Arith Lia.
From V Require Import Model.SlidingWindow.
Import ListNotations.

Lemma lastn_length {A} w (l : list A) : length (lastn w l) = Nat.min w (length l).
Proof. unfold lastn. rewrite skipn_length. lia. Qed.

Lemma lastn_prefix_irrelevant {A} w (pre m : list A) : w <= length m -> lastn w (pre ++ m) = lastn w m.
Proof.
  intros H. unfold lastn. rewrite app_length, skipn_app.
  rewrite (skipn_all2 pre) by lia. cbn [app]. f_equal. lia.
Qed.

Lemma lastn_app_lastn {A} w (a b : list A) : lastn w (lastn w a ++ b) = lastn w (a ++ b).
Proof.
  destruct (Nat.le_gt_cases (length a) w) as [L|G].
  - unfold lastn at 2. replace (length a - w) with 0 by lia. reflexivity.
  - assert (Hs : length (lastn w a) = w) by (rewrite lastn_length; lia).
    rewrite <- (firstn_skipn (length a - w) a) at 2. fold (lastn w a).
    rewrite <- app_assoc. symmetry. apply lastn_prefix_irrelevant.
    rewrite app_length, Hs. lia.
Qed.

(* the window always is the last w samples of everything given since the last fit *)
Theorem window_is_last_w w : forall ops win acc,
  win = lastn w acc -> fold_left (sw_step w) ops win = lastn w (since_last_fit ops acc).
Proof.
  induction ops as [|o ops IH]; intros win acc H; [exact H|].
  cbn [fold_left since_last_fit]. destruct o as [b|b]; cbn [sw_step].
  - apply IH. reflexivity.
  - apply IH. rewrite H. apply lastn_app_lastn.
Qed.

Corollary sw_run_spec w ops : sw_run w ops = lastn w (since_last_fit ops []).
Proof. unfold sw_run. apply window_is_last_w. unfold lastn. reflexivity. Qed.
