(* C04, exact arithmetic: DensityBasedSplit <= b*n + 1; PeriodicSampling and
   StreamRandomSampling(allow_exceeding_budget=False) <= b*n. *)
From Coq Require Import ZArith QArith List Bool Lia Lqa.
From V Require Import Base.Num Model.StreamCore Model.StreamCounters Proofs.ZlBound.
Import ListNotations.
Open Scope Q_scope.

Lemma inj_succ z : inject_Z (z + 1) == inject_Z z + 1.
Proof. rewrite inject_Z_plus. reflexivity. Qed.

Lemma fltb_Q a b : @fltb Q NumQ a b = true <-> a < b.
Proof.
  cbn [fltb NumQ]. rewrite negb_true_iff. split.
  - intros Hn. apply Qnot_le_lt. intros Hle. apply Qle_bool_iff in Hle. congruence.
  - intros Hlt. destruct (Qle_bool b a) eqn:E; [|reflexivity]. apply Qle_bool_iff in E. lra.
Qed.

Lemma fleb_Q a b : @fleb Q NumQ a b = true <-> a <= b.
Proof. cbn [fleb NumQ]. apply Qle_bool_iff. Qed.

(* ---------------- DensityBasedSplit ---------------- *)
Section DS.
Variable p : @dparams Q.
Let b := dp_b p.
Hypothesis Hb : 0 <= b.

Lemma d_left_guard u t : (0 <= t)%Z -> d_left p u (t + 1) = true -> inject_Z u < b * inject_Z (t + 1).
Proof.
  intros Ht Hl. unfold d_left in Hl. apply fltb_Q in Hl. cbn [fdiv fofZ NumQ] in Hl. fold b in Hl.
  assert (Hpos : 0 < inject_Z (t + 1)) by (change 0 with (inject_Z 0); rewrite <- Zlt_Qlt; lia).
  assert (E : inject_Z u / inject_Z (t + 1) * inject_Z (t + 1) < b * inject_Z (t + 1))
    by (apply Qmult_lt_compat_r; assumption).
  assert (E2 : inject_Z u / inject_Z (t + 1) * inject_Z (t + 1) == inject_Z u).
  { unfold Qdiv. rewrite <- Qmult_assoc. rewrite (Qmult_comm (/ _)). rewrite Qmult_inv_r; [ring|].
    apply Qnot_eq_sym. apply Qlt_not_eq. exact Hpos. }
  rewrite E2 in E. exact E.
Qed.

Lemma d_bound_iter : forall xs s,
  (0 <= d_t s)%Z -> inject_Z (d_u s) <= b * inject_Z (d_t s) + 1 ->
  let r := giter (d_inst p) s xs in
  (0 <= d_t (snd r))%Z /\ inject_Z (d_u (snd r)) <= b * inject_Z (d_t (snd r)) + 1 /\
  d_t (snd r) = (d_t s + Z.of_nat (length xs))%Z /\
  inject_Z (d_u (snd r)) == inject_Z (d_u s) + cnt (fst r).
Proof.
  induction xs as [|x rest IH]; intros s Ht Hu; cbv zeta.
  - cbn [giter fst snd cnt length]. repeat split; try assumption; try lia. ring.
  - cbn [giter]. destruct (d_inst p s x) as [g s1] eqn:E.
    assert (Hs1 : (0 <= d_t s1)%Z /\ inject_Z (d_u s1) <= b * inject_Z (d_t s1) + 1 /\
                  d_t s1 = (d_t s + 1)%Z /\ inject_Z (d_u s1) == inject_Z (d_u s) + (if g then 1 else 0)).
    { unfold d_inst in E. destruct (d_left p (d_u s) (d_t s + 1)) eqn:Hl.
      - injection E as Eg Es. subst s1. cbn [d_u d_t d_theta]. rewrite Eg.
        pose proof (d_left_guard _ _ Ht Hl) as G.
        split; [lia|]. split; [|split; [reflexivity|]].
        + destruct g; [rewrite inj_succ; lra|lra].
        + destruct g; [rewrite inj_succ; ring|ring].
      - injection E as Eg Es. subst s1 g. cbn [d_u d_t d_theta].
        split; [lia|]. split; [|split; [reflexivity|ring]].
        rewrite inj_succ. assert (0 <= b * 1) by lra. lra. }
    destruct Hs1 as [A1 [A2 [A3 A4]]].
    specialize (IH s1 A1 A2). cbv zeta in IH.
    destruct (giter (d_inst p) s1 rest) as [bs s2]. cbn [fst snd cnt length] in *.
    destruct IH as [I1 [I2 [I3 I4]]]. split; [exact I1|]. split; [exact I2|]. split; [lia|].
    rewrite I4, A4. ring.
Qed.

Theorem density_split_bound (s : dstate) (xs : list din) :
  d_u s = 0%Z -> d_t s = 0%Z ->
  cnt (fst (giter (d_inst p) s xs)) <= b * qlen xs + 1.
Proof.
  intros Hu Ht.
  assert (H0 : (0 <= d_t s)%Z) by lia.
  assert (H1 : inject_Z (d_u s) <= b * inject_Z (d_t s) + 1) by (rewrite Hu, Ht; change (inject_Z 0) with 0; lra).
  pose proof (d_bound_iter xs s H0 H1) as B. cbv zeta in B. destruct B as [_ [B2 [B3 B4]]].
  rewrite B3, Ht in B2. rewrite Hu in B4. unfold qlen. cbn [Z.add] in B2.
  change (inject_Z 0) with 0 in B4. lra.
Qed.
End DS.

(* ---------------- Periodic / StreamRandomSampling(allow = false) ---------------- *)
Section CB.
Variable k : ckind.
Variable p : @cparams Q.
Let b := cp_b p.
Hypothesis Hb : 0 <= b.
Hypothesis Hk : k = CPeriodic \/ k = CRandom false.

Lemma c_decide_guard obs' q u : c_decide k p obs' q u = true -> inject_Z q + 1 <= inject_Z obs' * b.
Proof.
  unfold c_decide. cbn [fsub fmul fofZ NumQ]. fold b.
  destruct Hk as [E|E]; subst k.
  - intros Hd. apply fleb_Q in Hd. unfold fone in Hd. cbn [fofZ NumQ] in Hd.
    change (inject_Z 1) with 1 in Hd. lra.
  - cbn [orb]. intros Hd. apply andb_prop in Hd. destruct Hd as [Hd _]. apply fltb_Q in Hd.
    unfold fone in Hd. cbn [fofZ NumQ] in Hd. change (inject_Z 1) with 1 in Hd. lra.
Qed.

Lemma c_bound_iter : forall xs s,
  inject_Z (c_q s) <= b * inject_Z (c_obs s) ->
  let r := giter (c_inst k p) s xs in
  inject_Z (c_q (snd r)) <= b * inject_Z (c_obs (snd r)) /\
  c_obs (snd r) = (c_obs s + Z.of_nat (length xs))%Z /\
  inject_Z (c_q (snd r)) == inject_Z (c_q s) + cnt (fst r).
Proof.
  induction xs as [|x rest IH]; intros s Hq; cbv zeta.
  - cbn [giter fst snd cnt length]. repeat split; try assumption; try lia. ring.
  - cbn [giter]. destruct (c_inst k p s x) as [g s1] eqn:E.
    assert (Hs1 : inject_Z (c_q s1) <= b * inject_Z (c_obs s1) /\ c_obs s1 = (c_obs s + 1)%Z /\
                  inject_Z (c_q s1) == inject_Z (c_q s) + (if g then 1 else 0)).
    { unfold c_inst in E. injection E as Eg Es. rewrite Eg in Es. subst s1. cbn [c_obs c_q c_cur].
      split; [|split; [reflexivity|destruct g; [rewrite inj_succ|]; ring]].
      destruct g.
      - apply c_decide_guard in Eg. rewrite (inj_succ (c_q s)). lra.
      - rewrite inj_succ. assert (0 <= b * 1) by lra. lra. }
    destruct Hs1 as [A1 [A2 A3]].
    specialize (IH s1 A1). cbv zeta in IH.
    destruct (giter (c_inst k p) s1 rest) as [bs s2]. cbn [fst snd cnt length] in *.
    destruct IH as [I1 [I2 I3]]. split; [exact I1|]. split; [lia|].
    rewrite I3, A3. ring.
Qed.

Theorem counter_bound (s : cstate) (xs : list unit) :
  c_obs s = 0%Z -> c_q s = 0%Z ->
  cnt (fst (giter (c_inst k p) s xs)) <= b * qlen xs.
Proof.
  intros Ho Hq.
  assert (H1 : inject_Z (c_q s) <= b * inject_Z (c_obs s)) by (rewrite Ho, Hq; change (inject_Z 0) with 0; lra).
  pose proof (c_bound_iter xs s H1) as B. cbv zeta in B. destruct B as [B1 [B2 B3]].
  rewrite B2, Ho in B1. rewrite Hq in B3. unfold qlen. cbn [Z.add] in B1.
  change (inject_Z 0) with 0 in B3. lra.
Qed.
End CB.
