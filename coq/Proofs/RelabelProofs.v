(* C09: the label encoder is invariant under strictly increasing relabelings of the classes and
   does not depend on which value represents missing labels. *)
From Coq Require Import ZArith List Bool Lia Sorted.
From V Require Import Model.Label Proofs.LabelProofs.
Import ListNotations.
Open Scope Z_scope.

Section Relabel.
Variable f : Z -> Z.
Hypothesis f_mono : forall a b, a < b -> f a < f b.

Lemma f_inj a b : f a = f b -> a = b.
Proof.
  intros E. destruct (Z.lt_trichotomy a b) as [L|[Eq|G]]; [|exact Eq|].
  - apply f_mono in L. lia.
  - apply f_mono in G. lia.
Qed.

Lemma f_ltb a b : (f a <? f b) = (a <? b).
Proof.
  destruct (a <? b) eqn:E.
  - apply Z.ltb_lt in E. apply Z.ltb_lt. apply f_mono. exact E.
  - apply Z.ltb_ge in E. apply Z.ltb_ge. destruct (Z.eq_dec a b) as [->|N]; [lia|].
    assert (b < a) by lia. apply f_mono in H. lia.
Qed.

Lemma f_eqb a b : (f a =? f b) = (a =? b).
Proof.
  destruct (a =? b) eqn:E.
  - apply Z.eqb_eq in E. subst. apply Z.eqb_refl.
  - apply Z.eqb_neq in E. apply Z.eqb_neq. intros H. apply f_inj in H. contradiction.
Qed.

Lemma insert_u_map x l : insert_u (f x) (map f l) = map f (insert_u x l).
Proof.
  induction l as [|y t IH]; [reflexivity|]. cbn [map insert_u]. rewrite f_ltb, f_eqb.
  destruct (x <? y); [reflexivity|]. destruct (x =? y); [reflexivity|]. cbn [map]. rewrite IH. reflexivity.
Qed.

Lemma sort_dedupe_map l : sort_dedupe (map f l) = map f (sort_dedupe l).
Proof.
  induction l as [|x t IH]; [reflexivity|]. cbn [map sort_dedupe fold_right].
  fold (sort_dedupe (map f t)). fold (sort_dedupe t). rewrite IH. apply insert_u_map.
Qed.

Lemma index_of_map x l : index_of (f x) (map f l) = index_of x l.
Proof.
  induction l as [|y t IH]; [reflexivity|]. cbn [map index_of]. rewrite f_eqb, IH. reflexivity.
Qed.

Lemma filter_map_labeled ml y :
  filter (fun v => negb (f ml =? v)) (map f y) = map f (filter (fun v => negb (ml =? v)) y).
Proof.
  induction y as [|v t IH]; [reflexivity|]. cbn [map filter]. rewrite f_eqb.
  destruct (negb (ml =? v)); cbn [map]; rewrite IH; reflexivity.
Qed.

(* classes_ of the relabelled problem = relabelled classes_ *)
Theorem enc_fit_relabel classes ml y :
  enc_fit (option_map (map f) classes) (f ml) (map f y) = map f (enc_fit classes ml y).
Proof.
  destruct classes as [cs|]; cbn [enc_fit option_map]; [apply sort_dedupe_map|].
  rewrite filter_map_labeled. apply sort_dedupe_map.
Qed.

(* the encoded array is IDENTICAL: everything computed from encoded labels is unchanged *)
Theorem enc_transform_relabel cls ml y :
  enc_transform (map f cls) (f ml) (map f y) = enc_transform cls ml y.
Proof.
  unfold enc_transform. f_equal. rewrite map_map. apply map_ext. intros v.
  unfold enc_one. rewrite f_eqb, index_of_map. reflexivity.
Qed.

(* predictions are the re-encoded originals *)
Lemma dec_one_relabel cls ml c : dec_one (map f cls) (f ml) c = option_map f (dec_one cls ml c).
Proof.
  unfold dec_one. destruct (c =? -1); [reflexivity|]. destruct (c <? 0); [reflexivity|].
  rewrite nth_error_map. reflexivity.
Qed.

Theorem enc_inverse_relabel cls ml codes :
  enc_inverse (map f cls) (f ml) codes = option_map (map f) (enc_inverse cls ml codes).
Proof.
  unfold enc_inverse. induction codes as [|c t IH]; [reflexivity|].
  cbn [map opt_all]. rewrite IH, dec_one_relabel.
  destruct (dec_one cls ml c) as [v|]; cbn [option_map]; [|reflexivity].
  destruct (opt_all (map (dec_one cls ml) t)) as [l|]; reflexivity.
Qed.
End Relabel.

(* which value represents a missing label is irrelevant: only WHICH entries are missing matters *)
Theorem sentinel_irrelevant cls ml ml' y y' :
  length y = length y' ->
  (forall i, (i < length y)%nat ->
     (nth i y 0 = ml <-> nth i y' 0 = ml') /\ (nth i y 0 <> ml -> nth i y' 0 = nth i y 0)) ->
  enc_transform cls ml y = enc_transform cls ml' y'.
Proof.
  unfold enc_transform. revert y'. induction y as [|v t IH]; intros [|v' t'] Hl H; cbn in Hl; try lia; [reflexivity|].
  cbn [map opt_all].
  assert (E : enc_one cls ml v = enc_one cls ml' v').
  { destruct (H O ltac:(cbn; lia)) as [H1 H2]. cbn [nth] in H1, H2. unfold enc_one.
    destruct (ml =? v) eqn:E1.
    - apply Z.eqb_eq in E1. symmetry in E1. apply H1 in E1. subst v'. rewrite Z.eqb_refl. reflexivity.
    - apply Z.eqb_neq in E1. assert (Hv : v <> ml) by lia. rewrite (H2 Hv).
      destruct (ml' =? v) eqn:E2; [|reflexivity]. apply Z.eqb_eq in E2. exfalso. apply Hv. apply H1. rewrite (H2 Hv). lia. }
  rewrite E. rewrite (IH t'); [reflexivity|lia|].
  intros i Hi. specialize (H (S i) ltac:(cbn; lia)). cbn [nth] in H. exact H.
Qed.
