(* Canonical query tails are accepted for every score vector; every deviation the description
   language can express is refuted by a witness (so the table predicate is not stricter than
   the property needs). *)
From Coq Require Import ZArith List Bool Lia.
From V Require Import Base.OptOrder Model.Sel Model.PoolQuery Model.SkelDsl
  Proofs.SelProofs Proofs.PoolProofs Proofs.SkeletonProofs.
Import ListNotations.
Open Scope Z_scope.

Lemma canonical_inv s : canonical s = true ->
  sk_fill s = FNan /\ sk_tgt s = TMapping /\ sk_bs s = BValidated /\ sk_len s = LCols.
Proof.
  unfold canonical. destruct (sk_fill s), (sk_tgt s), (sk_bs s), (sk_len s); intros H; try discriminate.
  repeat split.
Qed.

Lemma canonical_run s lab c scores noises bs :
  canonical s = true -> run_skel s lab c scores noises bs = skeleton lab c scores noises bs.
Proof.
  intros H. destruct (canonical_inv s H) as [Hf [Ht [Hb Hl]]].
  unfold run_skel, skeleton. rewrite Hf, Ht, Hb, Hl. reflexivity.
Qed.

Theorem canonical_accepted s lab c scores noises bs :
  canonical s = true ->
  scores_ok lab c scores -> cand_wf lab c ->
  noises_ok (ncols lab c) (expected_k bs lab c) noises ->
  accepts_pool SelMax lab c bs (run_skel s lab c scores noises bs) = true.
Proof.
  intros H H1 H2 H3. rewrite canonical_run by exact H. apply skeleton_accepted; assumption.
Qed.

(* every site of a table whose check succeeded *)
Theorem table_sites_accepted (sites : list skel) :
  forallb canonical sites = true ->
  forall s, In s sites -> forall lab c scores noises bs,
  (forall l, c = CIdx l -> Forall (fun i => (i < length lab)%nat) l) ->
  length scores = length (cand_set lab c) -> Forall (fun v => is_nan v = false) scores ->
  noises_ok (ncols lab c) (expected_k bs lab c) noises ->
  let t := run_skel s lab c scores noises bs in
  accepts_pool SelMax lab c bs t = true /\
  length (map fst t) = expected_k bs lab c /\ NoDup (map fst t) /\
  Forall (fun p => In p (cand_set lab c)) (map fst t).
Proof.
  intros Hall s Hin lab c scores noises bs Hc Hl Hs Hn t.
  rewrite forallb_forall in Hall. specialize (Hall s Hin).
  assert (Hacc : accepts_pool SelMax lab c bs t = true).
  { apply canonical_accepted; [exact Hall|split; assumption|apply cand_wf_all; exact Hc|exact Hn]. }
  split; [exact Hacc|]. exact (accepts_valid_batch SelMax lab c bs t Hacc).
Qed.

(* ---- the deviations are real: each one produces a rejected trace on some input ---- *)
Definition mk f t b l := {| sk_fill := f; sk_tgt := t; sk_bs := b; sk_len := l; sk_none_identity := true; sk_validated := true |}.

Definition w_lab := [true; false; false; true; false].
Definition w_noise : list (list Z) := [[1; 2; 3; 4; 5]; [5; 4; 3; 2; 1]; [1; 2; 3; 4; 5]; [1; 2; 3; 4; 5]; [1; 2; 3; 4; 5]; [1; 2; 3; 4; 5]].

(* zero fill: a labeled non-candidate wins against negative scores *)
Example fill_zero_refuted :
  let t := run_skel (mk FZero TMapping BValidated LCols) w_lab CNone [Some (-3); Some (-2); Some (-1)] w_noise 1 in
  accepts_pool SelMax w_lab CNone 1 t = false /\ batch_ok w_lab CNone 1 (map fst t) = false.
Proof. vm_compute. split; reflexivity. Qed.

(* -inf fill: rows carry numbers at non-candidates, and a batch larger than the scores reaches them *)
Example fill_neginf_refuted :
  let t := run_skel (mk FNegInf TMapping BRaw LCols) w_lab CNone [Some 3; Some 2; Some 1] w_noise 5 in
  accepts_pool SelMax w_lab CNone 5 t = false /\ batch_ok w_lab CNone 5 (map fst t) = false.
Proof. vm_compute. split; reflexivity. Qed.

(* scores written at the leading positions instead of through the mapping *)
Example prefix_target_refuted :
  let t := run_skel (mk FNan TPrefix BValidated LCols) w_lab CNone [Some 3; Some 2; Some 1] w_noise 2 in
  accepts_pool SelMax w_lab CNone 2 t = false /\ batch_ok w_lab CNone 2 (map fst t) = false.
Proof. vm_compute. split; reflexivity. Qed.

(* array sized by the number of candidates although indices refer to X *)
Example short_array_refuted :
  let t := run_skel (mk FNan TMapping BValidated LCands) w_lab CNone [Some 1; Some 2; Some 3] w_noise 3 in
  accepts_pool SelMax w_lab CNone 3 t = false.
Proof. vm_compute. reflexivity. Qed.

(* with a canonical array the raw batch size is harmless only because simple_batch clips itself;
   the description still demands the validated one (the documented contract of _validate_data) *)
Example raw_bs_same_picks :
  map fst (run_skel (mk FNan TMapping BRaw LCols) w_lab CNone [Some 1; Some 2; Some 3] w_noise 5) =
  map fst (run_skel (mk FNan TMapping BValidated LCols) w_lab CNone [Some 1; Some 2; Some 3] w_noise 5).
Proof. vm_compute. reflexivity. Qed.
