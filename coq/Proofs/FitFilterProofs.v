From Coq Require Import ZArith List Bool Lia Permutation.
From V Require Import Model.FitFilter.
Import ListNotations.
Open Scope Z_scope.

(* inserting or deleting an unlabeled row anywhere (whatever its weight) leaves the labeled subset unchanged *)
Theorem subset_ignores_unlabeled_row d1 d2 i w :
  labeled_subset (d1 ++ (i, None, w) :: d2) = labeled_subset (d1 ++ d2).
Proof. unfold labeled_subset. rewrite !filter_app. cbn. reflexivity. Qed.

(* more generally: two data sets with the same labeled rows in the same order have the same labeled subset *)
Theorem subset_depends_on_labeled_rows_only d d' :
  filter is_lab d = filter is_lab d' -> labeled_subset d = labeled_subset d'.
Proof. intros H. exact H. Qed.

Lemma labeled_subset_all_labeled d : Forall (fun r => is_lab r = true) (labeled_subset d).
Proof. unfold labeled_subset. apply Forall_forall. intros r Hr. apply filter_In in Hr. tauto. Qed.

Lemma labeled_subset_idem d : labeled_subset (labeled_subset d) = labeled_subset d.
Proof.
  unfold labeled_subset. induction d as [|r d IH]; [reflexivity|]. cbn [filter].
  destruct (is_lab r) eqn:E; [cbn [filter]; rewrite E, IH; reflexivity|exact IH].
Qed.

(* the wrapper around ANY estimator: the fitted model is the estimator applied to the labeled subset,
   hence invariant under adding / removing unlabeled samples and under their weights *)
Section AnyEstimator.
  Variable model : Type.
  Variable est : list row -> model.
  Definition wrapper_fit (d : list row) : model := est (labeled_subset d).

  Theorem wrapper_ignores_unlabeled d1 d2 i w :
    wrapper_fit (d1 ++ (i, None, w) :: d2) = wrapper_fit (d1 ++ d2).
  Proof. unfold wrapper_fit. rewrite subset_ignores_unlabeled_row. reflexivity. Qed.

  Theorem wrapper_equals_fit_on_subset d : wrapper_fit d = wrapper_fit (labeled_subset d).
  Proof. unfold wrapper_fit. rewrite labeled_subset_idem. reflexivity. Qed.
End AnyEstimator.

(* kernel learners: unlabeled rows have zero votes, so the frequency estimate equals the one
   computed from the labeled subset - and, being a sum, does not depend on the row order *)
Theorem kernel_freq_ignores_unlabeled K c d : kernel_freq K c d = kernel_freq K c (labeled_subset d).
Proof.
  unfold labeled_subset. induction d as [|r d IH]; [reflexivity|].
  cbn [kernel_freq filter]. destruct (is_lab r) eqn:E.
  - cbn [kernel_freq]. rewrite IH. reflexivity.
  - rewrite IH. unfold is_lab in E. unfold vote. destruct (rlabel r); [discriminate|]. lia.
Qed.

Theorem kernel_freq_order_irrelevant K c d d' : Permutation d d' -> kernel_freq K c d = kernel_freq K c d'.
Proof. induction 1; cbn [kernel_freq]; lia. Qed.
