(* Theorems about the cognitive dual query strategies as written (Model/Cognitive.v). *)
From Coq Require Import ZArith Arith List Bool Lia Sorted.
From V Require Import Base.OptOrder Model.StreamCore Model.Cognitive Proofs.StreamGeneric.
Import ListNotations.
Local Open Scope nat_scope.

Lemma map2_length {A B C} (f : A -> B -> C) : forall l m, length (map2 f l m) = Nat.min (length l) (length m).
Proof. induction l as [|a l IH]; intros [|b m]; cbn; auto. Qed.

Lemma remove_nth_length {A} : forall (l : list A) n, n < length l -> length (remove_nth n l) = pred (length l).
Proof.
  induction l as [|x l IH]; intros n Hn; cbn in *; [lia|].
  destruct n; [reflexivity|]. cbn. rewrite IH by lia. destruct l; cbn in *; lia.
Qed.

Lemma argmin_first_lt : forall l, l <> [] -> argmin_first l < length l.
Proof.
  induction l as [|x l IH]; intros H; [congruence|]. cbn.
  destruct (forallb _ l) eqn:E; [lia|].
  destruct l as [|y l]; [cbn in E; discriminate|]. specialize (IH ltac:(discriminate)). cbn in *. lia.
Qed.

Section CogP.
  Variable d : nat -> nat -> Z.
  Variable strength : nat -> nat -> Z.
  Variable cws thr : nat.

  (* the four lists describe the same window entries; the window never holds more than
     cognition_window_size + 1 instances *)
  Definition winv (w : cog) : Prop :=
    length (cth w) = length (cw w) /\ length (ctx w) = length (cw w) /\
    length (cmind w) = length (cw w) /\ length (cw w) <= S cws.

  Lemma winv0 : winv cog0.
  Proof. repeat split; cbn; lia. Qed.

  Lemma cog_ldf_step_inv w c : winv w -> winv (snd (cog_ldf_step d strength cws w c)).
  Proof.
    intros (H1 & H2 & H3 & H4). unfold cog_ldf_step.
    destruct (cw w) as [|x0 xt] eqn:Ecw.
    - cbn [length] in *. destruct (Nat.ltb cws 0) eqn:E; [apply Nat.ltb_lt in E; lia|].
      cbn. destruct (cth w); [|discriminate]. destruct (ctx w); [|discriminate]. destruct (cmind w); [|discriminate].
      repeat split; cbn; lia.
    - set (dist := map (fun x => d x c) (x0 :: xt)).
      set (nn := map2 (vlt) dist (cmind w)).
      assert (Ld : length dist = length (x0 :: xt)) by (unfold dist; apply map_length).
      assert (Ln : length nn = length (x0 :: xt)) by (unfold nn; rewrite map2_length; lia).
      set (th1 := map2 _ (cth w) nn). set (tx1 := map2 _ (ctx w) nn).
      set (md1 := map2 _ (combine dist (cmind w)) nn ++ _).
      assert (L1 : length th1 = length (x0 :: xt)) by (unfold th1; rewrite map2_length; lia).
      assert (L2 : length tx1 = length (x0 :: xt)) by (unfold tx1; rewrite map2_length; lia).
      assert (L3 : length md1 = S (length (x0 :: xt))).
      { unfold md1. rewrite app_length, map2_length, combine_length. change (length [Some (zminl (map (fun x => d x c) xt) (d x0 c))]) with 1. lia. }
      set (s := map2 _ th1 tx1).
      assert (Ls : length s = length (x0 :: xt)) by (unfold s; rewrite map2_length; lia).
      destruct (Nat.ltb cws (length (x0 :: xt))) eqn:E.
      + assert (Hr : argmin_first s < length s).
        { apply argmin_first_lt. intros Hs. rewrite Hs in Ls. cbn in Ls. lia. }
        cbn [snd cw cth ctx cmind]. unfold winv. cbn [cw cth ctx cmind].
        rewrite !app_length, !remove_nth_length by lia. cbn [length] in *. repeat split; lia.
      + apply Nat.ltb_ge in E.
        cbn [snd cw cth ctx cmind]. unfold winv. cbn [cw cth ctx cmind].
        rewrite !app_length. cbn [length] in *. repeat split; lia.
  Qed.

  Lemma cog_ldf_step_ct w c : ct (snd (cog_ldf_step d strength cws w c)) = ct w.
  Proof.
    unfold cog_ldf_step. destruct (cw w); [|]; destruct (Nat.ltb cws _); reflexivity.
  Qed.

  Lemma tick_inv w : winv w -> winv (tick w).
  Proof. intros H; exact H. Qed.

  Lemma wloop_facts cs : forall w, winv w ->
    let r := wloop d strength cws thr w cs in
    winv (snd r) /\ length (fst r) = length cs /\ ct (snd r) = ct w + length cs.
  Proof.
    induction cs as [|c t IH]; intros w Hw; cbn [wloop]; [cbn; repeat split; [apply Hw ..|lia]|].
    destruct (cog_ldf_step d strength cws w c) as [ldf w1] eqn:E.
    assert (Hw1 : winv w1) by (change w1 with (snd (ldf, w1)); rewrite <- E; apply cog_ldf_step_inv, Hw).
    assert (Hc1 : ct w1 = ct w) by (change w1 with (snd (ldf, w1)); rewrite <- E; apply cog_ldf_step_ct).
    specialize (IH (tick w1) (tick_inv _ Hw1)). cbn zeta in IH.
    destruct (wloop d strength cws thr (tick w1) t) as [bs w2]. cbn [fst snd length] in *.
    destruct IH as (I1 & I2 & I3). repeat split; try apply I1; cbn [ct tick] in *; lia.
  Qed.

  (* every state reachable by update calls satisfies the window invariant, the clock counts the
     instances committed so far *)
  Section Manager.
    Context {M : Type}.
    Variable mdec : M -> nat -> bool.
    Variable mupd : M -> list (option nat) -> list nat -> option M.

    Notation cog_query := (cog_query d strength cws thr mdec).
    Notation cog_update := (cog_update d strength cws thr mupd).

    (* C03: query gives back exactly the state it was handed *)
    Theorem cog_query_restores s cs : snd (cog_query s cs) = s.
    Proof. unfold Cognitive.cog_query. destruct s as [w m]. destruct (wloop _ _ _ _ w cs). reflexivity. Qed.

    Theorem cog_query_idempotent s cs : cog_query (snd (cog_query s cs)) cs = cog_query s cs.
    Proof. rewrite cog_query_restores. reflexivity. Qed.

    (* C10: indices strictly increasing and in range *)
    Theorem cog_query_indices_wellformed s cs :
      StronglySorted lt (fst (cog_query s cs)) /\ forall j, In j (fst (cog_query s cs)) -> j < length cs.
    Proof.
      unfold Cognitive.cog_query. destruct s as [w m]. destruct (wloop _ _ _ _ w cs) as [bs w'] eqn:E. cbn [fst].
      destruct (indices_from_sorted (map2 (fun (b : bool) (c : nat) => b && mdec m c) bs cs) 0) as [H1 H2].
      split; [exact H1|]. intros j Hj. specialize (H2 j Hj). rewrite map2_length in H2. lia.
    Qed.

    Theorem cog_update_inv ffb w m cs idx s' : winv w -> cog_update ffb (w, m) cs idx = Some s' ->
      winv (fst s') /\ ct (fst s') = ct w + length cs.
    Proof.
      intros Hw. unfold Cognitive.cog_update. pose proof (wloop_facts cs w Hw) as F. cbn zeta in F.
      destruct (wloop _ _ _ _ w cs) as [bs w']. cbn [fst snd] in F.
      destruct (mupd m _ idx); [|discriminate]. intros E; inversion E; subst. cbn [fst]. tauto.
    Qed.

    Lemma new_candidates_full_length : forall bs cs, length bs = length cs ->
      length (new_candidates true bs cs) = length cs.
    Proof.
      induction bs as [|b bs IH]; intros [|c cs] H; cbn in *; try lia.
      unfold new_candidates in *. cbn [combine flat_map fst snd]. rewrite app_length, IH by lia.
      destruct b; cbn; lia.
    Qed.
  End Manager.


  (* ---- histories of query / update calls (update may be handed any indices) ---- *)
  Section Histories.
    Context {M : Type}.
    Variable mdec : M -> nat -> bool.
    Variable mupd : M -> list (option nat) -> list nat -> option M.
    Variable ffb : bool.

    Inductive cog_op := CQ (cs : list nat) | CU (cs : list nat) (idx : list nat).
    Definition cog_is_update (o : cog_op) : bool := match o with CU _ _ => true | CQ _ => false end.
    Definition cog_committed (o : cog_op) : nat := match o with CU cs _ => length cs | CQ _ => 0 end.

    Fixpoint cog_hrun (s : cog_state) (h : list cog_op) : option cog_state :=
      match h with
      | [] => Some s
      | CQ cs :: t => cog_hrun (snd (cog_query d strength cws thr mdec s cs)) t
      | CU cs idx :: t =>
          match cog_update d strength cws thr mupd ffb s cs idx with
          | Some s' => cog_hrun s' t
          | None => None
          end
      end.

    (* C03: queries that are not committed leave no trace in any later state *)
    Theorem cog_extra_queries_invisible h : forall s, cog_hrun s h = cog_hrun s (filter cog_is_update h).
    Proof.
      induction h as [|o t IH]; intros s; [reflexivity|]. destruct o as [cs|cs idx]; cbn [cog_hrun filter cog_is_update].
      - rewrite cog_query_restores. apply IH.
      - destruct (cog_update _ _ _ _ _ _ s cs idx); [apply IH|reflexivity].
    Qed.

    (* every reachable state: the four window lists are aligned, the window is bounded, the clock
       counts exactly the committed instances *)
    Theorem cog_reachable_invariant h : forall s s', winv (fst s) -> cog_hrun s h = Some s' ->
      winv (fst s') /\ ct (fst s') = ct (fst s) + list_sum (map cog_committed h).
    Proof.
      induction h as [|o t IH]; intros s s' Hs E; cbn [cog_hrun] in E.
      - inversion E; subst. cbn. split; [exact Hs|lia].
      - destruct o as [cs|cs idx].
        + rewrite cog_query_restores in E. destruct (IH s s' Hs E) as [I1 I2]. split; [exact I1|]. cbn. exact I2.
        + destruct s as [w m]. destruct (cog_update _ _ _ _ _ _ (w, m) cs idx) as [s1|] eqn:Eu; [|discriminate].
          cbn [fst] in Hs. pose proof (cog_update_inv mdec mupd ffb w m cs idx s1 Hs Eu) as [J1 J2].
          destruct (IH s1 s' J1 E) as [I1 I2]. split; [exact I1|]. cbn [fst] in *. cbn [map cog_committed]. unfold list_sum in *. cbn [fold_right]. lia.
    Qed.
  End Histories.

  (* With force_full_budget=True the manager receives a list as long as the chunk, so update accepts
     every result of query (the manager checks indices against the list it is given) *)
  Theorem cog_ffb_update_accepts (mdec : nat -> nat -> bool) w m cs : winv w ->
    cog_update d strength cws thr idx_manager_upd true (w, m) cs
      (fst (cog_query d strength cws thr mdec (w, m) cs)) <> None.
  Proof.
    intros Hw. pose proof (cog_query_indices_wellformed mdec (w, m) cs) as [_ Hr].
    unfold Cognitive.cog_update. pose proof (wloop_facts cs w Hw) as F. cbn zeta in F.
    destruct (wloop _ _ _ _ w cs) as [bs w'] eqn:E. cbn [fst snd] in F.
    unfold idx_manager_upd. rewrite new_candidates_full_length by tauto.
    destruct (forallb _ _) eqn:Ef; [discriminate|].
    exfalso. assert (forallb (fun i => Nat.ltb i (length cs)) (fst (cog_query d strength cws thr mdec (w, m) cs)) = true).
    { apply forallb_forall. intros j Hj. apply Nat.ltb_lt. apply Hr, Hj. }
    congruence.
  Qed.

  (* ... and so it does, whatever force_full_budget, when the stream is processed one instance at a time *)
  Theorem cog_single_instance_accepts (mdec : nat -> nat -> bool) ffb w m c :
    cog_inst d strength cws thr mdec idx_manager_upd ffb (w, m) c <> None.
  Proof.
    unfold cog_inst, Cognitive.cog_query, Cognitive.cog_update. cbn [wloop].
    destruct (cog_ldf_step d strength cws w c) as [ldf w1] eqn:E. cbn [map2 indices_from fst snd wloop]. rewrite E.
    cbn [new_candidates combine flat_map fst snd].
    destruct (Nat.leb thr ldf); cbn [andb].
    - destruct (mdec m c); cbn; discriminate.
    - cbn. destruct ffb; cbn; discriminate.
  Qed.
End CogP.

(* ---- what the code as written does NOT guarantee (recorded findings) ---- *)

(* force_full_budget=False: a chunk in which a later instance passes the density test while an
   earlier one does not makes update raise on query's own result *)
Theorem cog_update_rejects_own_query_refuted :
  exists (d : nat -> nat -> Z) (strength : nat -> nat -> Z) (cws thr : nat) (mdec : nat -> nat -> bool) (s : cog_state) (cs : list nat),
    cog_update d strength cws thr idx_manager_upd false s cs (fst (cog_query d strength cws thr mdec s cs)) = None.
Proof.
  exists (fun i j => Z.abs (nth i [0; 10; 9] 0 - nth j [0; 10; 9] 0)%Z),
         (fun th age => (- Z.of_nat age)%Z), 5, 1, (fun _ _ => true), (cog0, 0), [0; 1; 2].
  vm_compute. reflexivity.
Qed.

(* every instance of a chunk is judged against the same manager state: a manager with one label left
   grants two labels within one chunk, but only one when the same instances arrive one at a time *)
Definition one_left_dec (m : nat) (_ : nat) : bool := Nat.ltb m 1.

Fixpoint cog_one_by_one (d : nat -> nat -> Z) (strength : nat -> nat -> Z) (cws thr : nat) (s : @cog_state nat) (cs : list nat) : list bool :=
  match cs with
  | [] => []
  | c :: t => match cog_inst d strength cws thr one_left_dec idx_manager_upd true s c with
              | Some (b, s') => b :: cog_one_by_one d strength cws thr s' t
              | None => []
              end
  end.

Theorem cog_chunk_overspends_refuted :
  exists (d : nat -> nat -> Z) (strength : nat -> nat -> Z) (cws thr : nat) (cs : list nat),
    fst (cog_query d strength cws thr one_left_dec (cog0, 0) cs) = [0; 1; 2] /\
    cog_one_by_one d strength cws thr (cog0, 0) cs = [true; false; false].
Proof.
  exists (fun i j => 1%Z), (fun th age => (- Z.of_nat age)%Z), 5, 0, [0; 1; 2].
  vm_compute. split; reflexivity.
Qed.
