From Coq Require Import ZArith QArith Lqa Lia.
From V Require Import Base.Num Model.Nix.
Open Scope Q_scope.

(* exact-arithmetic instance *)
Definition combineQ := @combine Q NumQ.
Definition scale_sqQ := @scale_sq Q NumQ.

Lemma sq_nonneg (d : Q) : 0 <= d * d.
Proof. destruct (Qlt_le_dec d 0) as [L|G]; [|apply Qmult_le_0_compat; assumption].
  assert (E : d * d == (- d) * (- d)) by ring. rewrite E. apply Qmult_le_0_compat; lra. Qed.

(* the posterior is well formed: with non-negative prior/update parameters and positive total
   kappa and nu, no denominator vanishes, sigma_sq and the predictive scale^2 are non-negative *)
Theorem posterior_wellformed k1 n1 m1 s1 k2 n2 m2 s2 :
  0 <= k1 -> 0 <= n1 -> 0 <= s1 -> 0 <= k2 -> 0 <= n2 -> 0 <= s2 -> 0 < k1 + k2 -> 0 < n1 + n2 ->
  let '(kc, nc, mc, sc) := combineQ (k1, n1, m1, s1) (k2, n2, m2, s2) in
  0 < kc /\ 0 < nc /\ 0 <= sc /\ 0 <= scale_sqQ (kc, nc, mc, sc).
Proof.
  intros Hk1 Hn1 Hs1 Hk2 Hn2 Hs2 Hk Hn. unfold combineQ, combine, scale_sqQ, scale_sq.
  cbn [fadd fsub fmul fdiv fofZ NumQ].
  set (kc := k1 + k2). set (nc := n1 + n2). set (d := m1 - m2).
  assert (Hsc : 0 <= (n1 * s1 + n2 * s2 + k1 * k2 * (d * d) / kc) / nc).
  { apply Qle_shift_div_l; [exact Hn|]. rewrite Qmult_0_l.
    assert (0 <= n1 * s1) by (apply Qmult_le_0_compat; assumption).
    assert (0 <= n2 * s2) by (apply Qmult_le_0_compat; assumption).
    assert (0 <= k1 * k2 * (d * d) / kc).
    { apply Qle_shift_div_l; [exact Hk|]. rewrite Qmult_0_l.
      assert (0 <= k1 * k2) by (apply Qmult_le_0_compat; assumption).
      pose proof (sq_nonneg d). apply Qmult_le_0_compat; assumption. }
    lra. }
  split; [exact Hk|]. split; [exact Hn|]. split; [exact Hsc|].
  apply Qmult_le_0_compat; [|exact Hsc].
  apply Qle_shift_div_l; [exact Hk|]. rewrite Qmult_0_l. change (inject_Z 1) with 1. unfold kc. lra.
Qed.

(* without data (update parameters all zero) the posterior is the prior *)
Theorem no_data_is_prior k1 n1 m1 s1 : 0 < k1 -> 0 < n1 ->
  let '(kc, nc, mc, sc) := combineQ (k1, n1, m1, s1) (0, 0, 0, 0) in
  kc == k1 /\ nc == n1 /\ mc == m1 /\ sc == s1.
Proof.
  intros Hk Hn. unfold combineQ, combine. cbn [fadd fsub fmul fdiv NumQ].
  split; [ring|]. split; [ring|]. split; field; lra.
Qed.
