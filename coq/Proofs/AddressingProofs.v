(* C08: the index algebra every strategy routes its numbers through does not depend on how the
   candidates are addressed. *)
From Coq Require Import ZArith List Bool Lia Arith Sorted.
From V Require Import Base.OptOrder Model.Sel Model.PoolQuery Proofs.SelProofs Proofs.PoolProofs Proofs.PoolLoopsProofs.
Import ListNotations.
Close Scope Z_scope.

(* ---------- candidates=None  ==  candidates=<indices of the unlabeled samples> ---------- *)
Lemma unl_from_sorted lab : forall s, StronglySorted lt (unl_from lab s).
Proof.
  induction lab as [|b t IH]; intros s; cbn [unl_from]; [constructor|].
  destruct b; [apply IH|]. constructor; [apply IH|].
  rewrite Forall_forall. intros i Hi. apply unl_from_spec in Hi. lia.
Qed.

Lemma uniq_sort_sorted_id l : StronglySorted lt l -> uniq_sort l = l.
Proof.
  induction 1 as [|x t Hs IH Hf]; [reflexivity|].
  cbn [uniq_sort fold_right]. fold (uniq_sort t). rewrite IH.
  destruct t as [|y t']; [reflexivity|]. cbn [ins_nat].
  inversion Hf as [|? ? Hxy _]; subst. assert ((x <? y) = true) as -> by (apply Nat.ltb_lt; exact Hxy). reflexivity.
Qed.

Theorem none_eq_unlabeled_indices lab : cand_set lab (CIdx (cand_set lab CNone)) = cand_set lab CNone.
Proof. cbn [cand_set]. apply uniq_sort_sorted_id. apply unl_from_sorted. Qed.

(* ... and any permutation / duplication of that index list addresses the same candidates *)
Theorem index_order_irrelevant lab l l' : (forall i, In i l <-> In i l') ->
  forall i, In i (cand_set lab (CIdx l)) <-> In i (cand_set lab (CIdx l')).
Proof. intros H i. rewrite !cand_idx_members. apply H. Qed.

(* ---------- utilities are scattered to the sample's own position ---------- *)
Lemma set_at_length u i v : length (set_at u i v) = length u.
Proof. revert i; induction u as [|x u IH]; intros [|i]; cbn; try reflexivity. f_equal. apply IH. Qed.

Lemma set_at_nth u i v j : (i < length u)%nat ->
  nth j (set_at u i v) None = if Nat.eqb j i then v else nth j u None.
Proof.
  revert i j; induction u as [|x u IH]; intros i j Hi; [cbn in Hi; lia|].
  destruct i as [|i], j as [|j]; cbn; try reflexivity. apply IH. cbn in Hi. lia.
Qed.

Lemma scatter_length cs : forall sc u, length (scatter cs sc u) = length u.
Proof.
  induction cs as [|c cs IH]; intros [|s sc] u; cbn [scatter]; try reflexivity.
  rewrite IH. apply set_at_length.
Qed.

Lemma scatter_nth (f : nat -> val) : forall cs u j,
  NoDup cs -> Forall (fun c => (c < length u)%nat) cs ->
  nth j (scatter cs (map f cs) u) None = if memb j cs then f j else nth j u None.
Proof.
  induction cs as [|c cs IH]; intros u j Hnd Hf; [reflexivity|].
  inversion Hnd as [|? ? Hn Hnd']; subst. inversion Hf as [|? ? Hc Hf']; subst.
  cbn [map scatter]. rewrite IH; [|exact Hnd'|rewrite Forall_forall in *; intros x Hx; rewrite set_at_length; apply Hf'; exact Hx].
  cbn [memb existsb]. fold (memb j cs).
  destruct (memb j cs) eqn:Em.
  - rewrite orb_true_r. reflexivity.
  - rewrite orb_false_r. rewrite set_at_nth by exact Hc.
    destruct (Nat.eqb j c) eqn:E; [apply Nat.eqb_eq in E; subst; reflexivity|reflexivity].
Qed.

(* the utility reported for sample j is the score of sample j -- whatever the candidate set is:
   restricting the candidates leaves the utilities of the remaining ones unchanged *)
Theorem restriction (f : nat -> val) n cs cs' j :
  NoDup cs -> NoDup cs' -> Forall (fun c => (c < n)%nat) cs -> Forall (fun c => (c < n)%nat) cs' ->
  In j cs -> In j cs' ->
  nth j (scatter cs (map f cs) (repeat None n)) None = nth j (scatter cs' (map f cs') (repeat None n)) None.
Proof.
  intros H1 H2 H3 H4 Hj Hj'.
  rewrite !scatter_nth; try assumption; try (rewrite repeat_length; assumption).
  apply memb_In in Hj. apply memb_In in Hj'. rewrite Hj, Hj'. reflexivity.
Qed.

Theorem non_candidates_nan (f : nat -> val) n cs j :
  NoDup cs -> Forall (fun c => (c < n)%nat) cs -> ~ In j cs ->
  nth j (scatter cs (map f cs) (repeat None n)) None = None.
Proof.
  intros H1 H2 Hj. rewrite scatter_nth; try assumption; [|rewrite repeat_length; exact H2].
  apply memb_false in Hj. rewrite Hj. destruct (Nat.lt_ge_cases j n) as [L|G].
  - apply nth_repeat.
  - apply nth_overflow. rewrite repeat_length. exact G.
Qed.

(* ---------- Quire: position among the unlabeled samples ---------- *)
Fixpoint count_unl_before (lab : list bool) (s : nat) : nat :=
  match lab, s with
  | _, O => O
  | [], _ => O
  | b :: t, S s' => ((if b then 0 else 1) + count_unl_before t s')%nat
  end.

Fixpoint pos_of (x : nat) (l : list nat) : nat :=
  match l with [] => O | y :: t => if Nat.eqb x y then O else S (pos_of x t) end.

Lemma pos_of_unl lab : forall off s, nth_error lab s = Some false ->
  pos_of (off + s) (unl_from lab off) = count_unl_before lab s.
Proof.
  induction lab as [|b t IH]; intros off s Hs; [destruct s; discriminate|].
  destruct s as [|s]; cbn in Hs.
  - injection Hs as ->. cbn [unl_from pos_of count_unl_before]. rewrite Nat.add_0_r, Nat.eqb_refl. reflexivity.
  - cbn [unl_from count_unl_before]. replace (off + S s)%nat with (S off + s)%nat by lia.
    destruct b; [apply (IH (S off) s Hs)|].
    cbn [pos_of]. assert ((S off + s =? off)%nat = false) as -> by (apply Nat.eqb_neq; lia).
    rewrite (IH (S off) s Hs). reflexivity.
Qed.

(* with candidates=None the position of a sample in the candidate list IS its position among the
   unlabeled samples (the row/column Quire must delete) *)
Theorem quire_position_none lab s : nth_error lab s = Some false ->
  pos_of s (cand_set lab CNone) = count_unl_before lab s.
Proof. intros H. cbn [cand_set]. apply (pos_of_unl lab 0 s H). Qed.

(* ... but not for a restricted candidate list: the positions differ (the defect that was repaired) *)
Example quire_position_subset_differs :
  let lab := [false; false; false; true] in
  pos_of 2 (cand_set lab (CIdx [2])) = 0%nat /\ count_unl_before lab 2 = 2%nat.
Proof. vm_compute. split; reflexivity. Qed.

(* ---------- feature rows vs indices: same utilities for the same samples ---------- *)
(* candidates given as feature rows: the utilities ARE the candidate scores (identity scatter) *)
Lemma scatter_identity (s : list val) : scatter (seq 0 (length s)) s (repeat None (length s)) = s.
Proof.
  assert (H : forall (pre s : list val),
             scatter (seq (length pre) (length s)) s (pre ++ repeat None (length s)) = pre ++ s).
  { intros pre s0. revert pre. induction s0 as [|x t IH]; intros pre; [cbn; rewrite app_nil_r; reflexivity|].
    cbn [length seq scatter repeat].
    assert (E : set_at (pre ++ None :: repeat None (length t)) (length pre) x = (pre ++ [x]) ++ repeat None (length t)).
    { clear IH. induction pre as [|p pre IHp]; cbn; [reflexivity|]. rewrite IHp. reflexivity. }
    rewrite E. specialize (IH (pre ++ [x])). rewrite app_length in IH. cbn [length] in IH.
    replace (length pre + 1)%nat with (S (length pre)) in IH by lia.
    rewrite IH, <- app_assoc. reflexivity. }
  exact (H [] s).
Qed.

(* the score of the i-th candidate sits at position mapping[i] when candidates are indices and at
   position i when they are feature rows *)
Theorem rows_vs_indices (f : nat -> val) n cs i :
  NoDup cs -> Forall (fun c => (c < n)%nat) cs -> (i < length cs)%nat ->
  nth (nth i cs O) (scatter cs (map f cs) (repeat None n)) None =
  nth i (scatter (seq 0 (length cs)) (map f cs) (repeat None (length cs))) None.
Proof.
  intros Hnd Hlt Hi.
  rewrite scatter_nth by (try assumption; rewrite repeat_length; assumption).
  assert (Hin : In (nth i cs O) cs) by (apply nth_In; exact Hi).
  apply memb_In in Hin. rewrite Hin.
  replace (length cs) with (length (map f cs)) by apply map_length.
  rewrite scatter_identity.
  rewrite (nth_indep _ None (f O)) by (rewrite map_length; exact Hi).
  rewrite map_nth. reflexivity.
Qed.

(* ---------- a unique best candidate is selected whatever the tie-breaking noise ---------- *)
Theorem unique_best_selected (a : list val) (noise : list Z) (m : Z) (p : nat) :
  noise_ok (length a) noise -> nanmax a = Some m ->
  (forall q, (q < length a)%nat -> nth q a None = Some m -> q = p) ->
  rand_argmax a noise = p.
Proof.
  intros Hn Hm Hu. destruct (rand_argmax_optimal a noise m Hn Hm) as [Hlt Hv]. apply Hu; assumption.
Qed.

(* hence: with a unique best candidate, indices and feature rows select the same sample *)
Theorem same_selection_when_unique (f : nat -> val) n cs nz nz' m i :
  NoDup cs -> Forall (fun c => (c < n)%nat) cs -> (i < length cs)%nat ->
  f (nth i cs O) = Some m ->
  (forall j, (j < length cs)%nat -> forall k, f (nth j cs O) = Some k -> (k < m)%Z \/ j = i) ->
  noise_ok n nz -> noise_ok (length cs) nz' ->
  rand_argmax (scatter cs (map f cs) (repeat None n)) nz = nth i cs O /\
  rand_argmax (scatter (seq 0 (length cs)) (map f cs) (repeat None (length cs))) nz' = i.
Proof.
  intros Hnd Hlt Hi Hfi Hbest Hnz Hnz'.
  assert (Hlt' : Forall (fun c => (c < length (repeat (@None Z) n))%nat) cs) by (rewrite repeat_length; exact Hlt).
  set (U := scatter cs (map f cs) (repeat None n)).
  assert (HU : forall q, nth q U None = if memb q cs then f q else None).
  { intros q. unfold U. rewrite scatter_nth by assumption. destruct (memb q cs); [reflexivity|].
    destruct (Nat.lt_ge_cases q n); [apply nth_repeat|apply nth_overflow; rewrite repeat_length; assumption]. }
  assert (HlenU : length U = n) by (unfold U; rewrite scatter_length, repeat_length; reflexivity).
  assert (Hin : In (nth i cs O) cs) by (apply nth_In; exact Hi).
  assert (Hmax : nanmax U = Some m).
  { apply nanmax_char.
    - assert (E : nth (nth i cs O) U None = Some m) by (rewrite HU; apply memb_In in Hin; rewrite Hin; exact Hfi).
      rewrite <- E. apply nth_In. rewrite HlenU. rewrite Forall_forall in Hlt. apply Hlt. exact Hin.
    - intros k Hk. destruct (In_nth _ _ None Hk) as [q [Hq Hqv]]. rewrite HU in Hqv.
      destruct (memb q cs) eqn:Eq; [|discriminate]. apply memb_In in Eq.
      destruct (In_nth _ _ O Eq) as [j [Hj Hjq]]. subst q.
      destruct (Hbest j Hj k Hqv) as [Hl | ->]; [lia|]. rewrite Hfi in Hqv. injection Hqv as <-. lia. }
  split.
  - apply (unique_best_selected U nz m); [rewrite HlenU; exact Hnz|exact Hmax|].
    intros q Hq Hqv. rewrite HU in Hqv. destruct (memb q cs) eqn:Eq; [|discriminate]. apply memb_In in Eq.
    destruct (In_nth _ _ O Eq) as [j [Hj Hjq]]. subst q.
    destruct (Hbest j Hj m Hqv) as [Hl | ->]; [lia|reflexivity].
  - replace (length cs) with (length (map f cs)) by apply map_length. rewrite scatter_identity.
    assert (Hn2 : forall j, (j < length cs)%nat -> nth j (map f cs) None = f (nth j cs O)).
    { intros j Hj. rewrite (nth_indep _ None (f O)) by (rewrite map_length; exact Hj). apply map_nth. }
    apply (unique_best_selected (map f cs) nz' m); [rewrite map_length; exact Hnz'| |].
    + apply nanmax_char.
      * rewrite <- Hfi, <- (Hn2 i Hi). apply nth_In. rewrite map_length. exact Hi.
      * intros k Hk. apply in_map_iff in Hk. destruct Hk as [c [Hc Hcin]].
        destruct (In_nth _ _ O Hcin) as [j [Hj Hjc]]. subst c.
        destruct (Hbest j Hj k Hc) as [Hl | ->]; [lia|]. rewrite Hfi in Hc. injection Hc as <-. lia.
    + intros q Hq Hqv. rewrite map_length in Hq. rewrite (Hn2 q Hq) in Hqv.
      destruct (Hbest q Hq m Hqv) as [Hl | ->]; [lia|reflexivity].
Qed.

(* ---------- reordering the rows of (X, y) reorders the utilities accordingly ---------- *)
Theorem permutation_equivariance (f : nat -> val) (pi : nat -> nat) n cs cs' j :
  NoDup cs -> NoDup cs' -> Forall (fun c => (c < n)%nat) cs -> Forall (fun c => (c < n)%nat) cs' ->
  (forall i, In i cs' <-> In (pi i) cs) -> (j < n)%nat -> (pi j < n)%nat ->
  nth j (scatter cs' (map (fun i => f (pi i)) cs') (repeat None n)) None =
  nth (pi j) (scatter cs (map f cs) (repeat None n)) None.
Proof.
  intros H1 H2 H3 H4 Hpi Hj Hpj.
  rewrite (scatter_nth (fun i => f (pi i))) by (try assumption; rewrite repeat_length; assumption).
  rewrite (scatter_nth f) by (try assumption; rewrite repeat_length; assumption).
  destruct (memb j cs') eqn:E.
  - apply memb_In in E. apply Hpi in E. apply memb_In in E. rewrite E. reflexivity.
  - destruct (memb (pi j) cs) eqn:E'.
    + apply memb_In in E'. apply Hpi in E'. apply memb_In in E'. congruence.
    + rewrite !nth_repeat; reflexivity.
Qed.
