(* C08: the index algebra every strategy routes its numbers through does not depend on how the
   candidates are addressed. *)
From Coq Require Import ZArith List Bool Lia Arith Sorted.
From V Require Import Base.OptOrder Model.Sel Model.PoolQuery Proofs.PoolProofs.
Import ListNotations.
Close Scope Z_scope.

(* ---------- candidates=None  ==  candidates=<indices of the unlabeled samples> ---------- *)
Lemma unl_from_sorted lab : forall s, StronglySorted lt (unl_from lab s).
Proof.
  induction lab as [|b t IH]; intros s; cbn [unl_from]; [constructor|].
  destruct b; [apply IH|]. constructor; [apply IH|].
  rewrite Forall_forall. intros i Hi. apply unl_from_spec in Hi. lia.
Qed.

Lemma uniq_sort_sorted_id l : StronglySorted lt l -> uniq_sort l = l.
Proof.
  induction 1 as [|x t Hs IH Hf]; [reflexivity|].
  cbn [uniq_sort fold_right]. fold (uniq_sort t). rewrite IH.
  destruct t as [|y t']; [reflexivity|]. cbn [ins_nat].
  inversion Hf as [|? ? Hxy _]; subst. assert ((x <? y) = true) as -> by (apply Nat.ltb_lt; exact Hxy). reflexivity.
Qed.

Theorem none_eq_unlabeled_indices lab : cand_set lab (CIdx (cand_set lab CNone)) = cand_set lab CNone.
Proof. cbn [cand_set]. apply uniq_sort_sorted_id. apply unl_from_sorted. Qed.

(* ... and any permutation / duplication of that index list addresses the same candidates *)
Theorem index_order_irrelevant lab l l' : (forall i, In i l <-> In i l') ->
  forall i, In i (cand_set lab (CIdx l)) <-> In i (cand_set lab (CIdx l')).
Proof. intros H i. rewrite !cand_idx_members. apply H. Qed.

(* ---------- utilities are scattered to the sample's own position ---------- *)
Lemma set_at_length u i v : length (set_at u i v) = length u.
Proof. revert i; induction u as [|x u IH]; intros [|i]; cbn; try reflexivity. f_equal. apply IH. Qed.

Lemma set_at_nth u i v j : (i < length u)%nat ->
  nth j (set_at u i v) None = if Nat.eqb j i then v else nth j u None.
Proof.
  revert i j; induction u as [|x u IH]; intros i j Hi; [cbn in Hi; lia|].
  destruct i as [|i], j as [|j]; cbn; try reflexivity. apply IH. cbn in Hi. lia.
Qed.

Lemma scatter_length cs : forall sc u, length (scatter cs sc u) = length u.
Proof.
  induction cs as [|c cs IH]; intros [|s sc] u; cbn [scatter]; try reflexivity.
  rewrite IH. apply set_at_length.
Qed.

Lemma scatter_nth (f : nat -> val) : forall cs u j,
  NoDup cs -> Forall (fun c => (c < length u)%nat) cs ->
  nth j (scatter cs (map f cs) u) None = if memb j cs then f j else nth j u None.
Proof.
  induction cs as [|c cs IH]; intros u j Hnd Hf; [reflexivity|].
  inversion Hnd as [|? ? Hn Hnd']; subst. inversion Hf as [|? ? Hc Hf']; subst.
  cbn [map scatter]. rewrite IH; [|exact Hnd'|rewrite Forall_forall in *; intros x Hx; rewrite set_at_length; apply Hf'; exact Hx].
  cbn [memb existsb]. fold (memb j cs).
  destruct (memb j cs) eqn:Em.
  - rewrite orb_true_r. reflexivity.
  - rewrite orb_false_r. rewrite set_at_nth by exact Hc.
    destruct (Nat.eqb j c) eqn:E; [apply Nat.eqb_eq in E; subst; reflexivity|reflexivity].
Qed.

(* the utility reported for sample j is the score of sample j -- whatever the candidate set is:
   restricting the candidates leaves the utilities of the remaining ones unchanged *)
Theorem restriction (f : nat -> val) n cs cs' j :
  NoDup cs -> NoDup cs' -> Forall (fun c => (c < n)%nat) cs -> Forall (fun c => (c < n)%nat) cs' ->
  In j cs -> In j cs' ->
  nth j (scatter cs (map f cs) (repeat None n)) None = nth j (scatter cs' (map f cs') (repeat None n)) None.
Proof.
  intros H1 H2 H3 H4 Hj Hj'.
  rewrite !scatter_nth; try assumption; try (rewrite repeat_length; assumption).
  apply memb_In in Hj. apply memb_In in Hj'. rewrite Hj, Hj'. reflexivity.
Qed.

Theorem non_candidates_nan (f : nat -> val) n cs j :
  NoDup cs -> Forall (fun c => (c < n)%nat) cs -> ~ In j cs ->
  nth j (scatter cs (map f cs) (repeat None n)) None = None.
Proof.
  intros H1 H2 Hj. rewrite scatter_nth; try assumption; [|rewrite repeat_length; exact H2].
  apply memb_false in Hj. rewrite Hj. destruct (Nat.lt_ge_cases j n) as [L|G].
  - apply nth_repeat.
  - apply nth_overflow. rewrite repeat_length. exact G.
Qed.

(* ---------- Quire: position among the unlabeled samples ---------- *)
Fixpoint count_unl_before (lab : list bool) (s : nat) : nat :=
  match lab, s with
  | _, O => O
  | [], _ => O
  | b :: t, S s' => ((if b then 0 else 1) + count_unl_before t s')%nat
  end.

Fixpoint pos_of (x : nat) (l : list nat) : nat :=
  match l with [] => O | y :: t => if Nat.eqb x y then O else S (pos_of x t) end.

Lemma pos_of_unl lab : forall off s, nth_error lab s = Some false ->
  pos_of (off + s) (unl_from lab off) = count_unl_before lab s.
Proof.
  induction lab as [|b t IH]; intros off s Hs; [destruct s; discriminate|].
  destruct s as [|s]; cbn in Hs.
  - injection Hs as ->. cbn [unl_from pos_of count_unl_before]. rewrite Nat.add_0_r, Nat.eqb_refl. reflexivity.
  - cbn [unl_from count_unl_before]. replace (off + S s)%nat with (S off + s)%nat by lia.
    destruct b; [apply (IH (S off) s Hs)|].
    cbn [pos_of]. assert ((S off + s =? off)%nat = false) as -> by (apply Nat.eqb_neq; lia).
    rewrite (IH (S off) s Hs). reflexivity.
Qed.

(* with candidates=None the position of a sample in the candidate list IS its position among the
   unlabeled samples (the row/column Quire must delete) *)
Theorem quire_position_none lab s : nth_error lab s = Some false ->
  pos_of s (cand_set lab CNone) = count_unl_before lab s.
Proof. intros H. cbn [cand_set]. apply (pos_of_unl lab 0 s H). Qed.

(* ... but not for a restricted candidate list: the positions differ (the defect that was repaired) *)
Example quire_position_subset_differs :
  let lab := [false; false; false; true] in
  pos_of 2 (cand_set lab (CIdx [2])) = 0%nat /\ count_unl_before lab 2 = 2%nat.
Proof. vm_compute. split; reflexivity. Qed.
