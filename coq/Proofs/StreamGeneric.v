(* Generic consequences of the two bridging facts every stream model proves:
   (P) query returns the per-instance simulation and the unchanged state,
   (U) update applied to query's result yields the per-instance final state. *)
From Coq Require Import Arith List Bool Lia Sorted.
From V Require Import Model.StreamCore.
Import ListNotations.

Lemma indices_from_ge bs : forall i j, In j (indices_from bs i) -> (i <= j)%nat.
Proof.
  induction bs as [|b t IH]; intros i j Hj; cbn in Hj; [tauto|].
  destruct b; [destruct Hj as [E|Hj]; [lia|]|]; apply IH in Hj; lia.
Qed.

Lemma bits_of_skip n : forall idx i j, (j < i)%nat -> bits_of n (j :: idx) i = bits_of n idx i.
Proof.
  induction n as [|n IH]; intros idx i j Hj; [reflexivity|].
  cbn [bits_of existsb]. rewrite IH by lia.
  assert (Nat.eqb i j = false) as -> by (apply Nat.eqb_neq; lia). reflexivity.
Qed.

Lemma bits_of_indices bs : forall i, bits_of (length bs) (indices_from bs i) i = bs.
Proof.
  induction bs as [|b t IH]; intros i; [reflexivity|].
  cbn [length bits_of indices_from]. destruct b.
  - cbn [existsb]. rewrite Nat.eqb_refl. cbn. f_equal. rewrite bits_of_skip by lia. apply IH.
  - f_equal; [|apply IH].
    destruct (existsb (Nat.eqb i) (indices_from t (S i))) eqn:E; [|reflexivity].
    apply existsb_exists in E. destruct E as [j [Hj Ej]]. apply Nat.eqb_eq in Ej. subst j.
    apply indices_from_ge in Hj. lia.
Qed.

Lemma indices_from_sorted bs : forall i,
  StronglySorted lt (indices_from bs i) /\
  forall j, In j (indices_from bs i) -> (i <= j < i + length bs)%nat.
Proof.
  induction bs as [|b t IH]; intros i; cbn [indices_from length]; [split; [constructor|intros j []]|].
  destruct (IH (S i)) as [H1 H2]. destruct b.
  - split.
    + constructor; [exact H1|]. rewrite Forall_forall. intros j Hj. specialize (H2 j Hj). lia.
    + intros j [E|Hj]; [lia|]. specialize (H2 j Hj). lia.
  - split; [exact H1|]. intros j Hj. specialize (H2 j Hj). lia.
Qed.

Section Gen.
Context {S I : Type}.
Variable inst : S -> I -> bool * S.
Variable query : S -> list I -> list nat * S.
Variable update : S -> nat -> list nat -> S.

Lemma giter_length xs : forall s, length (fst (giter inst s xs)) = length xs.
Proof.
  induction xs as [|x rest IH]; intros s; [reflexivity|].
  cbn [giter]. destruct (inst s x) as [b s1]. specialize (IH s1).
  destruct (giter inst s1 rest) as [bs s2]. cbn in *. lia.
Qed.

Theorem giter_app xs ys s :
  giter inst s (xs ++ ys) =
  (fst (giter inst s xs) ++ fst (giter inst (snd (giter inst s xs)) ys),
   snd (giter inst (snd (giter inst s xs)) ys)).
Proof.
  revert s; induction xs as [|x rest IH]; intros s.
  - cbn. destruct (giter inst s ys); reflexivity.
  - cbn [app giter]. destruct (inst s x) as [b s1]. rewrite IH.
    destruct (giter inst s1 rest) as [bs s2]. cbn [fst snd].
    destruct (giter inst s2 ys) as [bs' s3]. reflexivity.
Qed.

Hypothesis query_pure : forall s xs, query s xs = (indices_from (fst (giter inst s xs)) 0, s).
Hypothesis update_sim : forall s xs, update s (length xs) (fst (query s xs)) = snd (giter inst s xs).

(* ---- histories of interleaved query / update calls (C03) ---- *)
Inductive gop := OQuery (xs : list I) | OUpdate (n : nat) (idx : list nat).
Definition is_update (o : gop) : bool := match o with OUpdate _ _ => true | OQuery _ => false end.

Fixpoint grun (s : S) (h : list gop) : list (list nat) * S :=
  match h with
  | [] => ([], s)
  | OQuery xs :: t =>
      let '(o, s') := query s xs in
      let '(os, sf) := grun s' t in (o :: os, sf)
  | OUpdate n idx :: t => grun (update s n idx) t
  end.

Theorem extra_queries_invisible (h : list gop) : forall s,
  snd (grun s h) = snd (grun s (filter is_update h)).
Proof.
  induction h as [|o t IH]; intros s; [reflexivity|].
  destruct o as [xs|n idx]; cbn [grun filter is_update].
  - rewrite query_pure. specialize (IH s). destruct (grun s t) as [os sf]. exact IH.
  - apply IH.
Qed.

Theorem query_results_depend_on_updates_only (h1 h2 : list gop) (xs : list I) : forall s,
  fst (grun s (h1 ++ OQuery xs :: h2)) =
  fst (grun s h1) ++ fst (query (snd (grun s (filter is_update h1))) xs)
                     :: fst (grun (snd (grun s (filter is_update h1))) h2).
Proof.
  induction h1 as [|o t IH]; intros s.
  - cbn [app grun filter fst snd]. rewrite query_pure. destruct (grun s h2); reflexivity.
  - destruct o as [ys|n idx]; cbn [app grun filter is_update].
    + rewrite query_pure. specialize (IH s).
      destruct (grun s (t ++ OQuery xs :: h2)) as [os sf]. destruct (grun s t) as [os' sf'].
      cbn [fst] in *. rewrite IH. reflexivity.
    + apply IH.
Qed.

Theorem query_idempotent (s : S) (xs : list I) : query (snd (query s xs)) xs = query s xs.
Proof. rewrite (query_pure s xs). cbn [snd]. apply query_pure. Qed.

(* ---- chunking invariance (C10) ---- *)
Fixpoint process (s : S) (chunks : list (list I)) : list bool * S :=
  match chunks with
  | [] => ([], s)
  | c :: t =>
      let idx := fst (query s c) in
      let '(bs, sf) := process (update s (length c) idx) t in
      (bits_of (length c) idx 0 ++ bs, sf)
  end.

Theorem chunking_invariance (chunks : list (list I)) : forall s,
  process s chunks = giter inst s (concat chunks).
Proof.
  induction chunks as [|c t IH]; intros s; [reflexivity|].
  cbn [process concat]. rewrite update_sim. rewrite IH. rewrite giter_app.
  rewrite (query_pure s c). cbn [fst].
  replace (bits_of (length c) (indices_from (fst (giter inst s c)) 0) 0) with (fst (giter inst s c)).
  2:{ rewrite <- (giter_length c s). symmetry. apply bits_of_indices. }
  destruct (giter inst (snd (giter inst s c)) (concat t)); reflexivity.
Qed.

(* update accepts what query returned: strictly increasing indices in range *)
Theorem query_indices_wellformed (s : S) (xs : list I) :
  StronglySorted lt (fst (query s xs)) /\
  forall j, In j (fst (query s xs)) -> (j < length xs)%nat.
Proof.
  rewrite query_pure. cbn [fst]. destruct (indices_from_sorted (fst (giter inst s xs)) 0) as [H1 H2].
  split; [exact H1|]. intros j Hj. specialize (H2 j Hj). rewrite giter_length in H2. lia.
Qed.

End Gen.
