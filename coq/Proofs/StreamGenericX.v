(* The generic consequences of StreamGeneric.v for machines whose update also receives the
   instances themselves (BalancedIncrementalQuantileFilter.update(candidates, queried_indices,
   utilities)).  Same two bridging facts, same conclusions. *)
From Coq Require Import Arith List Bool Lia Sorted.
From V Require Import Model.StreamCore Proofs.StreamGeneric.
Import ListNotations.

Section GenX.
Context {S I : Type}.
Variable inst : S -> I -> bool * S.
Variable query : S -> list I -> list nat * S.
Variable update : S -> list I -> list nat -> S.

Hypothesis query_pure : forall s xs, query s xs = (indices_from (fst (giter inst s xs)) 0, s).
(* a state invariant that update establishes (e.g. "the bounded history holds at most w entries") *)
Variable Inv : S -> Prop.
Hypothesis update_sim : forall s xs, Inv s -> update s xs (fst (query s xs)) = snd (giter inst s xs).
Hypothesis update_inv : forall s xs idx, Inv (update s xs idx).

Inductive xop := XQuery (xs : list I) | XUpdate (xs : list I) (idx : list nat).
Definition x_is_update (o : xop) : bool := match o with XUpdate _ _ => true | XQuery _ => false end.

Fixpoint xrun (s : S) (h : list xop) : list (list nat) * S :=
  match h with
  | [] => ([], s)
  | XQuery xs :: t =>
      let '(o, s') := query s xs in
      let '(os, sf) := xrun s' t in (o :: os, sf)
  | XUpdate xs idx :: t => xrun (update s xs idx) t
  end.

Theorem x_extra_queries_invisible (h : list xop) : forall s,
  snd (xrun s h) = snd (xrun s (filter x_is_update h)).
Proof.
  induction h as [|o t IH]; intros s; [reflexivity|].
  destruct o as [xs|xs idx]; cbn [xrun filter x_is_update].
  - rewrite query_pure. specialize (IH s). destruct (xrun s t) as [os sf]. exact IH.
  - apply IH.
Qed.

Theorem x_query_results_depend_on_updates_only (h1 h2 : list xop) (xs : list I) : forall s,
  fst (xrun s (h1 ++ XQuery xs :: h2)) =
  fst (xrun s h1) ++ fst (query (snd (xrun s (filter x_is_update h1))) xs)
                     :: fst (xrun (snd (xrun s (filter x_is_update h1))) h2).
Proof.
  induction h1 as [|o t IH]; intros s.
  - cbn [app xrun filter fst snd]. rewrite query_pure. destruct (xrun s h2); reflexivity.
  - destruct o as [ys|ys idx]; cbn [app xrun filter x_is_update].
    + rewrite query_pure. specialize (IH s).
      destruct (xrun s (t ++ XQuery xs :: h2)) as [os sf]. destruct (xrun s t) as [os' sf'].
      cbn [fst] in *. rewrite IH. reflexivity.
    + apply IH.
Qed.

Theorem x_query_idempotent (s : S) (xs : list I) : query (snd (query s xs)) xs = query s xs.
Proof. rewrite (query_pure s xs). cbn [snd]. apply query_pure. Qed.

Fixpoint xprocess (s : S) (chunks : list (list I)) : list bool * S :=
  match chunks with
  | [] => ([], s)
  | c :: t =>
      let idx := fst (query s c) in
      let '(bs, sf) := xprocess (update s c idx) t in
      (bits_of (length c) idx 0 ++ bs, sf)
  end.

Theorem x_chunking_invariance (chunks : list (list I)) : forall s, Inv s ->
  xprocess s chunks = giter inst s (concat chunks).
Proof.
  induction chunks as [|c t IH]; intros s Hs; [reflexivity|].
  cbn [xprocess concat]. rewrite IH by apply update_inv. rewrite update_sim by exact Hs. rewrite (giter_app inst).
  rewrite (query_pure s c). cbn [fst].
  replace (bits_of (length c) (indices_from (fst (giter inst s c)) 0) 0) with (fst (giter inst s c)).
  2:{ rewrite <- (giter_length inst c s). symmetry. apply bits_of_indices. }
  destruct (giter inst (snd (giter inst s c)) (concat t)); reflexivity.
Qed.

Theorem x_query_indices_wellformed (s : S) (xs : list I) :
  StronglySorted lt (fst (query s xs)) /\
  forall j, In j (fst (query s xs)) -> (j < length xs)%nat.
Proof.
  rewrite query_pure. cbn [fst]. destruct (indices_from_sorted (fst (giter inst s xs)) 0) as [H1 H2].
  split; [exact H1|]. intros j Hj. specialize (H2 j Hj). rewrite (giter_length inst) in H2. lia.
Qed.

End GenX.
