From Coq Require Import ZArith List Bool Lia Arith Permutation.
From V Require Import Base.OptOrder Model.Sel Model.PoolQuery Model.MultiAnnot Proofs.SelProofs Proofs.PoolProofs Proofs.SkeletonProofs.
Import ListNotations.
Open Scope Z_scope.

Lemma pair_eqb_eq p q : pair_eqb p q = true <-> p = q.
Proof.
  destruct p as [a b], q as [c d]. unfold pair_eqb. cbn. rewrite andb_true_iff, !Nat.eqb_eq.
  split; [intros [-> ->]; reflexivity|intros E; injection E; auto].
Qed.

Lemma pmemb_In p l : pmemb p l = true <-> In p l.
Proof.
  unfold pmemb. rewrite existsb_exists. split.
  - intros [q [Hq E]]. apply pair_eqb_eq in E. subst. exact Hq.
  - intros H. exists p. split; [exact H|apply pair_eqb_eq; reflexivity].
Qed.

(* ---------- acceptor => distinct, available pairs ---------- *)
Lemma mstep_pick A nr na prev p s :
  mstep_ok A nr na prev (p, s) = true -> avail_at A p = true /\ ~ In p prev.
Proof.
  unfold mstep_ok. intros H.
  apply andb_prop in H. destruct H as [H H5]. apply andb_prop in H. destruct H as [H H4].
  apply andb_prop in H. destruct H as [H H3]. apply andb_prop in H. destruct H as [H1 H2].
  unfold slice_shape_ok in H1. apply andb_prop in H1. destruct H1 as [Hl Hr].
  apply Nat.eqb_eq in Hl. apply Nat.ltb_lt in H2. apply Nat.ltb_lt in H3.
  destruct (at2 s p) as [v|] eqn:Ev; [|discriminate].
  destruct p as [i j]. cbn [fst snd] in *.
  unfold slice_nan_ok in H4. rewrite forallb_forall in H4.
  assert (Hi : In i (seq 0 (length s))) by (apply in_seq; lia).
  specialize (H4 i Hi). rewrite forallb_forall in H4.
  assert (Hrow : length (nth i s []) = na).
  { rewrite forallb_forall in Hr. apply Nat.eqb_eq. apply Hr. apply nth_In. lia. }
  assert (Hj : In j (seq 0 (length (nth i s [])))) by (apply in_seq; lia).
  specialize (H4 j Hj). cbn beta zeta in H4. rewrite Ev in H4. cbn [is_nan] in H4.
  destruct (avail_at A (i, j)) eqn:Ea; cbn [negb orb] in H4; [|discriminate].
  split; [reflexivity|]. intros Hin. apply pmemb_In in Hin. rewrite Hin in H4. discriminate.
Qed.

Lemma msteps_picks A nr na : forall t prev,
  msteps_ok A nr na prev t = true ->
  Forall (fun p => avail_at A p = true /\ ~ In p prev) (map fst t) /\ NoDup (map fst t).
Proof.
  induction t as [|[p s] rest IH]; intros prev H; [split; constructor|].
  cbn [msteps_ok] in H. apply andb_prop in H. destruct H as [H1 H2].
  apply mstep_pick in H1. destruct H1 as [Ha Hp]. cbn [fst] in H2.
  destruct (IH _ H2) as [F N]. cbn [map fst]. split.
  - constructor; [split; assumption|].
    rewrite Forall_forall in *. intros q Hq. destruct (F q Hq) as [Fa Fp]. split; [exact Fa|].
    intros Hin. apply Fp. apply in_or_app. left. exact Hin.
  - constructor; [|exact N]. intros Hin. rewrite Forall_forall in F. destruct (F p Hin) as [_ Fp].
    apply Fp. apply in_or_app. right. left. reflexivity.
Qed.

Theorem accepts_pairs_valid A na k t :
  accepts_pairs A na k t = true ->
  length (map fst t) = k /\ NoDup (map fst t) /\ Forall (fun p => avail_at A p = true) (map fst t).
Proof.
  unfold accepts_pairs. intros H. apply andb_prop in H. destruct H as [H1 H2].
  apply Nat.eqb_eq in H1. destruct (msteps_picks _ _ _ _ _ H2) as [F N].
  split; [rewrite map_length; exact H1|]. split; [exact N|].
  rewrite Forall_forall in *. intros p Hp. apply (F p Hp).
Qed.

(* utilities are NaN at unavailable pairs and at pairs selected in earlier steps *)
Lemma msteps_nth A nr na : forall t prev,
  msteps_ok A nr na prev t = true ->
  forall i st, nth_error t i = Some st -> mstep_ok A nr na (prev ++ firstn i (map fst t)) st = true.
Proof.
  induction t as [|s0 rest IH]; intros prev H i st Hi; [destruct i; discriminate|].
  cbn [msteps_ok] in H. apply andb_prop in H. destruct H as [H1 H2].
  destruct i as [|i]; cbn in Hi.
  - injection Hi as Hi. subst st. cbn [firstn]. rewrite app_nil_r. exact H1.
  - cbn [map firstn]. specialize (IH _ H2 i st Hi). rewrite <- app_assoc in IH. exact IH.
Qed.

Theorem accepts_pairs_nan A na k t :
  accepts_pairs A na k t = true ->
  forall i p s, nth_error t i = Some (p, s) ->
  forall q, (fst q < length s)%nat -> (snd q < length (nth (fst q) s []))%nat ->
  (avail_at A q = false \/ In q (firstn i (map fst t))) -> at2 s q = None.
Proof.
  unfold accepts_pairs. intros H i p s Hi q Hq1 Hq2 Hc.
  apply andb_prop in H. destruct H as [_ H2].
  pose proof (msteps_nth _ _ _ _ _ H2 i (p, s) Hi) as Hs. cbn [app] in Hs.
  unfold mstep_ok in Hs.
  apply andb_prop in Hs. destruct Hs as [Hs _]. apply andb_prop in Hs. destruct Hs as [_ H4].
  unfold slice_nan_ok in H4. rewrite forallb_forall in H4.
  destruct q as [a b]. cbn [fst snd] in *.
  assert (Ha : In a (seq 0 (length s))) by (apply in_seq; lia).
  specialize (H4 a Ha). rewrite forallb_forall in H4.
  assert (Hb : In b (seq 0 (length (nth a s [])))) by (apply in_seq; lia).
  specialize (H4 b Hb). cbn beta zeta in H4.
  destruct Hc as [Hc|Hc].
  - rewrite Hc in H4. cbn [negb orb] in H4. destruct (at2 s (a, b)); [discriminate|reflexivity].
  - apply pmemb_In in Hc. rewrite Hc in H4. rewrite orb_true_r in H4. destruct (at2 s (a, b)); [discriminate|reflexivity].
Qed.

(* ---------- number of candidate pairs = number of available pairs ---------- *)
Lemma count_true_cons r m : count_true (r :: m) = (length (filter (fun b : bool => b) r) + count_true m)%nat.
Proof. reflexivity. Qed.

Lemma filter_repeat_true na : length (filter (fun b : bool => b) (repeat true na)) = na.
Proof. induction na as [|m IHm]; [reflexivity|]. cbn. rewrite IHm. reflexivity. Qed.

Lemma count_true_const na (l : list nat) : count_true (map (fun _ => repeat true na) l) = (length l * na)%nat.
Proof.
  induction l as [|x l IH]; [reflexivity|]. cbn [map length]. rewrite count_true_cons, IH, filter_repeat_true. lia.
Qed.

Lemma rows_with_missing_ge y : forall s i, In i (rows_with_missing y s) -> (s <= i)%nat.
Proof.
  induction y as [|r t IH]; intros s i Hi; [destruct Hi|].
  cbn [rows_with_missing] in Hi. destruct (any_true r); [destruct Hi as [E|Hi]; [lia|]|]; apply IH in Hi; lia.
Qed.

Lemma filter_no_true r : any_true r = false -> length (filter (fun b : bool => b) r) = 0%nat.
Proof.
  unfold any_true. induction r as [|b r' IHr]; intros E; [reflexivity|]. cbn in E. destruct b; [discriminate|]. cbn. apply IHr. exact E.
Qed.

Lemma count_true_rows_with_missing y : forall s,
  count_true (map (fun i => nth (i - s) y []) (rows_with_missing y s)) = count_true y.
Proof.
  induction y as [|r t IH]; intros s; [reflexivity|].
  assert (Hshift : map (fun i => nth (i - s) (r :: t) []) (rows_with_missing t (S s)) =
                   map (fun i => nth (i - S s) t []) (rows_with_missing t (S s))).
  { apply map_ext_in. intros i Hi. apply rows_with_missing_ge in Hi.
    replace (i - s)%nat with (S (i - S s)) by lia. reflexivity. }
  cbn [rows_with_missing]. destruct (any_true r) eqn:E.
  - cbn [map]. rewrite Hshift. rewrite count_true_cons, IH. rewrite Nat.sub_diag. cbn [nth]. rewrite count_true_cons. reflexivity.
  - rewrite Hshift, IH. rewrite count_true_cons. rewrite (filter_no_true r E). reflexivity.
Qed.

(* ---------- rows of a boolean annotators matrix follow the sorted candidate indices ---------- *)
Lemma ins_key_perm p L : Permutation (ins_key p L) (p :: L).
Proof.
  induction L as [|q t IH]; cbn [ins_key]; [reflexivity|].
  destruct (fst p <=? fst q)%nat; [reflexivity|].
  etransitivity; [apply perm_skip, IH|apply perm_swap].
Qed.

Lemma isort_key_perm ps : Permutation (fold_right ins_key [] ps) ps.
Proof.
  induction ps as [|p ps IH]; cbn [fold_right]; [reflexivity|].
  etransitivity; [apply ins_key_perm|apply perm_skip, IH].
Qed.

Lemma map_snd_combine_seq (l : list nat) s : map snd (combine l (seq s (length l))) = seq s (length l).
Proof. revert s. induction l as [|x l IH]; intros s; [reflexivity|]. cbn. f_equal. apply IH. Qed.

Lemma stable_argsort_perm l : Permutation (stable_argsort l) (seq 0 (length l)).
Proof.
  unfold stable_argsort.
  etransitivity; [apply Permutation_map, isort_key_perm|]. rewrite map_snd_combine_seq. reflexivity.
Qed.

Lemma map_nth_seq_id {A} (m : list A) d : map (fun i => nth i m d) (seq 0 (length m)) = m.
Proof.
  induction m as [|x m IH]; [reflexivity|]. cbn [length seq map nth]. f_equal.
  rewrite <- seq_shift, map_map. exact IH.
Qed.

Lemma perm_rows_perm l m : length m = length l -> Permutation (perm_rows l m) m.
Proof.
  intros E. unfold perm_rows.
  etransitivity; [apply Permutation_map, stable_argsort_perm|]. rewrite <- E, map_nth_seq_id. reflexivity.
Qed.

Lemma count_true_perm a b : Permutation a b -> count_true a = count_true b.
Proof.
  induction 1 as [|x a b _ IH|x y a|a b c _ IH1 _ IH2]; [reflexivity| | |congruence].
  - rewrite !count_true_cons, IH. reflexivity.
  - rewrite !count_true_cons. lia.
Qed.

(* the number of candidate pairs is the number of True entries of the matrix the caller passed *)
Theorem n_pairs_matrix y c m :
  (forall l, c = CIdx l -> length m = length l) -> n_pairs y c (AMat m) = count_true m.
Proof.
  intros H. cbn [n_pairs]. destruct c as [|l|k]; cbn [mat_rows]; try reflexivity.
  apply count_true_perm, perm_rows_perm, H. reflexivity.
Qed.

Lemma ins_key_fst p L : ~ In (fst p) (map fst L) -> map fst (ins_key p L) = ins_nat (fst p) (map fst L).
Proof.
  induction L as [|q t IH]; intros Hn; cbn [ins_key map ins_nat]; [reflexivity|].
  cbn [map In] in Hn.
  destruct (fst p <=? fst q)%nat eqn:E1; destruct (fst p <? fst q)%nat eqn:E2.
  - reflexivity.
  - apply Nat.leb_le in E1. apply Nat.ltb_ge in E2. exfalso. apply Hn. left. lia.
  - apply Nat.leb_gt in E1. apply Nat.ltb_lt in E2. lia.
  - destruct (fst p =? fst q)%nat eqn:E3.
    + apply Nat.eqb_eq in E3. exfalso. apply Hn. left. symmetry. exact E3.
    + cbn [map]. f_equal. apply IH. intros Hin. apply Hn. right. exact Hin.
Qed.

Lemma isort_key_fst ps : NoDup (map fst ps) -> map fst (fold_right ins_key [] ps) = uniq_sort (map fst ps).
Proof.
  induction ps as [|p ps IH]; intros Hnd; [reflexivity|].
  cbn [map] in Hnd. inversion Hnd as [|x l Hx Hl]; subst.
  cbn [fold_right map]. unfold uniq_sort in *. cbn [fold_right].
  rewrite ins_key_fst.
  - rewrite IH by exact Hl. reflexivity.
  - intros Hin. apply Hx.
    apply (Permutation_in _ (Permutation_map fst (isort_key_perm ps))). exact Hin.
Qed.

Lemma map_fst_combine_seq (l : list nat) s : map fst (combine l (seq s (length l))) = l.
Proof. revert s. induction l as [|x l IH]; intros s; [reflexivity|]. cbn. f_equal. apply IH. Qed.

Lemma in_combine_seq_nth (l : list nat) : forall s v i,
  In (v, i) (combine l (seq s (length l))) -> (s <= i)%nat /\ nth (i - s) l 0%nat = v.
Proof.
  induction l as [|x l IH]; intros s v i H; [destruct H|].
  cbn in H. destruct H as [H|H].
  - injection H as -> ->. split; [lia|]. rewrite Nat.sub_diag. reflexivity.
  - apply IH in H. destruct H as [Hs Hn]. split; [lia|].
    replace (i - s)%nat with (S (i - S s)) by lia. exact Hn.
Qed.

(* the r-th entry of the stable argsort points at the r-th smallest candidate: row r of the
   permuted matrix is the row the caller gave for the candidate that is r-th after sorting *)
Theorem stable_argsort_sorts l :
  NoDup l -> map (fun i => nth i l 0%nat) (stable_argsort l) = uniq_sort l.
Proof.
  intros Hnd. unfold stable_argsort. rewrite map_map.
  transitivity (uniq_sort (map fst (combine l (seq 0 (length l))))); [|rewrite map_fst_combine_seq; reflexivity].
  rewrite <- isort_key_fst by (rewrite map_fst_combine_seq; exact Hnd).
  apply map_ext_in. intros [v i] Hin. cbn [snd fst].
  apply (Permutation_in _ (isort_key_perm _)) in Hin.
  apply in_combine_seq_nth in Hin. destruct Hin as [_ Hn]. rewrite Nat.sub_0_r in Hn. exact Hn.
Qed.

Theorem matrix_rows_follow_candidates l m r :
  NoDup l -> (r < length l)%nat ->
  exists j, (j < length l)%nat /\ nth j l 0%nat = nth r (uniq_sort l) 0%nat /\ nth r (perm_rows l m) [] = nth j m [].
Proof.
  intros Hnd Hr.
  pose proof (stable_argsort_sorts l Hnd) as Hs.
  pose proof (Permutation_length (stable_argsort_perm l)) as Hlen. rewrite seq_length in Hlen.
  exists (nth r (stable_argsort l) 0%nat). split; [|split].
  - assert (Hin : In (nth r (stable_argsort l) 0%nat) (stable_argsort l)) by (apply nth_In; lia).
    apply (Permutation_in _ (stable_argsort_perm l)) in Hin. apply in_seq in Hin. lia.
  - rewrite <- Hs.
    rewrite (nth_indep (map (fun i => nth i l 0%nat) (stable_argsort l)) 0%nat ((fun i => nth i l 0%nat) 0%nat))
      by (rewrite map_length; lia).
    rewrite (map_nth (fun i => nth i l 0%nat)). reflexivity.
  - unfold perm_rows.
    rewrite (nth_indep (map (fun i => nth i m []) (stable_argsort l)) [] ((fun i => nth i m []) 0%nat))
      by (rewrite map_length; lia).
    rewrite (map_nth (fun i => nth i m [])). reflexivity.
Qed.

(* partial: the index-array-of-annotators mode is validated by the exhaustive correspondence only *)
Theorem n_pairs_counts_available_partial y c a :
  (forall l, a <> AIdx l) -> n_pairs y c a = count_true (ma_avail y c a).
Proof.
  intros Ha. destruct a as [|l|m]; [|exfalso; apply (Ha l); reflexivity|reflexivity].
  destruct c as [|ci|m]; cbn [n_pairs ma_avail ma_rows].
  - symmetry. rewrite <- (count_true_rows_with_missing y 0). f_equal. apply map_ext. intros i. rewrite Nat.sub_0_r. reflexivity.
  - rewrite count_true_const. reflexivity.
  - rewrite count_true_const, seq_length. reflexivity.
Qed.

(* ---------- _n_to_assign_annotators ---------- *)
Definition le_all (a b : list nat) : Prop := Forall2 (fun x y => (x <= y)%nat) a b.

Lemma nsum_le a b : le_all a b -> (nsum a <= nsum b)%nat.
Proof. induction 1 as [|x y a b Hxy Hab IH]; [reflexivity|]. cbn [nsum fold_right]. fold (nsum a). fold (nsum b). lia. Qed.

Lemma bump_props nmax : forall cur, le_all cur nmax ->
  le_all (map2 (fun m c => Nat.min m (S c)) nmax cur) nmax /\
  le_all cur (map2 (fun m c => Nat.min m (S c)) nmax cur) /\
  ((nsum cur < nsum nmax)%nat -> (nsum cur < nsum (map2 (fun m c => Nat.min m (S c)) nmax cur))%nat).
Proof.
  induction nmax as [|m nmax IH]; intros cur H; inversion H; subst.
  - cbn. repeat split; try constructor. lia.
  - destruct (IH _ H4) as [I1 [I2 I3]]. cbn [map2 nsum fold_right].
    repeat split.
    + constructor; [lia|exact I1].
    + constructor; [lia|exact I2].
    + intros Hlt. fold (nsum l) in *. fold (nsum nmax) in *. fold (nsum (map2 (fun m c => Nat.min m (S c)) nmax l)).
      pose proof (nsum_le _ _ I2). pose proof (nsum_le _ _ H4).
      destruct (Nat.eq_dec x m) as [E|NE]; [subst; assert (nsum l < nsum nmax)%nat by lia; specialize (I3 H2); lia|lia].
Qed.

(* the loop terminates whenever the chosen samples offer enough pairs; the result reaches the
   batch size, never exceeds availability and never goes below the requested count *)
Theorem n_to_assign_terminates bs nmax : forall fuel cur,
  le_all cur nmax -> (bs <= nsum nmax)%nat -> (bs <= nsum cur + fuel)%nat ->
  exists r, n_to_assign_loop fuel bs nmax cur = Some r /\ (bs <= nsum r)%nat /\ le_all r nmax /\ le_all cur r.
Proof.
  induction fuel as [|f IH]; intros cur Hle Hbs Hf; cbn [n_to_assign_loop].
  - assert ((bs <=? nsum cur)%nat = true) as -> by (apply Nat.leb_le; lia).
    exists cur. repeat split; try assumption; try lia. clear. induction cur; constructor; [lia|assumption].
  - destruct (bs <=? nsum cur)%nat eqn:E.
    + apply Nat.leb_le in E. exists cur. repeat split; try assumption. clear. induction cur; constructor; [lia|assumption].
    + apply Nat.leb_gt in E. destruct (bump_props nmax cur Hle) as [B1 [B2 B3]].
      assert (Hlt : (nsum cur < nsum nmax)%nat) by lia. specialize (B3 Hlt).
      destruct (IH _ B1 Hbs ltac:(lia)) as [r [R1 [R2 [R3 R4]]]].
      exists r. repeat split; try assumption.
      clear -B2 R4. revert B2 R4. generalize (map2 (fun m c => Nat.min m (S c)) nmax cur) as mid. intros mid B2 R4.
      revert r R4. induction B2; intros r R4; inversion R4; subst; constructor; [lia|]. apply IHB2. assumption.
Qed.

(* ... and as written it does not terminate otherwise: no amount of fuel suffices *)
Theorem n_to_assign_diverges bs nmax : forall fuel cur,
  le_all cur nmax -> (nsum nmax < bs)%nat -> n_to_assign_loop fuel bs nmax cur = None.
Proof.
  induction fuel as [|f IH]; intros cur Hle Hlt; cbn [n_to_assign_loop];
    pose proof (nsum_le _ _ Hle);
    (assert ((bs <=? nsum cur)%nat = false) as -> by (apply Nat.leb_gt; lia)); [reflexivity|].
  apply IH; [|exact Hlt]. apply (bump_props nmax cur Hle).
Qed.

(* ---------- annotators given as an index array: the clipped pair count is the number of available pairs ---------- *)
Lemma filter_memb_length (l : list nat) (na : nat) :
  Forall (fun j => (j < na)%nat) l ->
  length (filter (fun j => memb j l) (seq 0 na)) = length (uniq_sort l).
Proof.
  intros Hlt.
  assert (N1 : NoDup (filter (fun j => memb j l) (seq 0 na))) by (apply NoDup_filter, seq_NoDup).
  assert (N2 : NoDup (uniq_sort l)) by (apply sorted_lt_nodup, uniq_sort_sorted).
  apply Nat.le_antisymm; apply NoDup_incl_length; try assumption; intros x Hx.
  - apply filter_In in Hx. destruct Hx as [_ Hm]. apply memb_In in Hm. apply (cand_idx_members l [] x). exact Hm.
  - apply (cand_idx_members l [] x) in Hx. apply filter_In. split.
    + apply in_seq. rewrite Forall_forall in Hlt. specialize (Hlt x Hx). lia.
    + apply memb_In. exact Hx.
Qed.

Lemma idx_row_count na l : Forall (fun j => (j < na)%nat) l ->
  length (filter (fun b : bool => b) (idx_row na l)) = length (uniq_sort l).
Proof.
  intros H. rewrite <- (filter_memb_length l na H). unfold idx_row.
  generalize (seq 0 na). intros s. induction s as [|x t IH]; [reflexivity|].
  cbn [map filter]. destruct (memb x l); cbn [length]; rewrite IH; reflexivity.
Qed.

Lemma count_true_const_row (r : list bool) (rows : list nat) :
  count_true (map (fun _ => r) rows) = (length rows * length (filter (fun b : bool => b) r))%nat.
Proof. induction rows as [|x t IH]; [reflexivity|]. cbn [map length]. rewrite count_true_cons, IH. lia. Qed.

Theorem n_pairs_annotator_indices y c l :
  Forall (fun j => (j < n_annot y)%nat) l ->
  n_pairs y c (AIdx l) = count_true (ma_avail y c (AIdx l)).
Proof.
  intros H. unfold n_pairs, ma_avail. rewrite count_true_const_row, idx_row_count by exact H.
  destruct c as [|ci|m]; cbn [ma_rows]; rewrite ?seq_length; reflexivity.
Qed.

(* all three ways of giving annotators *)
Theorem n_pairs_counts_available y c a :
  (forall l, a = AIdx l -> Forall (fun j => (j < n_annot y)%nat) l) ->
  n_pairs y c a = count_true (ma_avail y c a).
Proof.
  intros Ha. destruct a as [|l|m].
  - apply n_pairs_counts_available_partial. intros l; discriminate.
  - apply n_pairs_annotator_indices. apply Ha. reflexivity.
  - apply n_pairs_counts_available_partial. intros l; discriminate.
Qed.
