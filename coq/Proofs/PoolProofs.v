(* Theorems about the pool acceptor and the active-learning loop (C01, C02, C14). *)
From Coq Require Import ZArith List Bool Lia Arith.
From V Require Import Base.OptOrder Model.Sel Model.PoolQuery Proofs.SelProofs.
Import ListNotations.
Open Scope Z_scope.

Lemma memb_In x l : memb x l = true <-> In x l.
Proof.
  unfold memb. rewrite existsb_exists. split.
  - intros [y [Hy E]]. apply Nat.eqb_eq in E. subst. exact Hy.
  - intros H. exists x. split; [exact H|apply Nat.eqb_refl].
Qed.

Lemma memb_false x l : memb x l = false <-> ~ In x l.
Proof.
  rewrite <- memb_In. destruct (memb x l); split; intros H.
  - discriminate.
  - exfalso. apply H. reflexivity.
  - intros E. discriminate.
  - reflexivity.
Qed.

Lemma memb_app x l m : memb x (l ++ m) = memb x l || memb x m.
Proof. unfold memb. apply existsb_app. Qed.

(* ---------- the NaN pattern of a row ---------- *)
Lemma nan_pattern_nth cs prev row : forall j0 j,
  nan_pattern_from cs prev row j0 = true -> (j < length row)%nat ->
  is_nan (nth j row None) = negb (memb (j0 + j) cs) || memb (j0 + j) prev.
Proof.
  induction row as [|v t IH]; intros j0 j H Hj; [cbn in Hj; lia|].
  cbn [nan_pattern_from] in H. apply andb_prop in H. destruct H as [H1 H2].
  destruct j as [|j]; cbn [nth].
  - rewrite Nat.add_0_r. apply eqb_prop in H1. exact H1.
  - replace (j0 + S j)%nat with (S j0 + j)%nat by lia. apply IH; [exact H2|cbn in Hj; lia].
Qed.

(* ---------- one step ---------- *)
Definition step_spec (mode : selmode) (cs prev : list nat) (n : nat) (s : step) : Prop :=
  let '(p, row) := s in
  length row = n /\ (p < n)%nat /\
  (forall j, (j < n)%nat -> (nth j row None = None <-> (~ In j cs \/ In j prev))) /\
  exists v, nth p row None = Some v /\
    match mode with
    | SelMax => nanmax row = Some v
    | SelSampling => 0 < v
    end.

Lemma step_ok_spec mode cs prev n s : pstep_ok mode cs prev n s = true -> step_spec mode cs prev n s.
Proof.
  destruct s as [p row]. unfold pstep_ok, step_spec. intros H.
  apply andb_prop in H. destruct H as [H H4]. apply andb_prop in H. destruct H as [H H3].
  apply andb_prop in H. destruct H as [H1 H2].
  apply Nat.eqb_eq in H1. apply Nat.ltb_lt in H2.
  split; [exact H1|]. split; [exact H2|]. split.
  - intros j Hj. rewrite <- H1 in Hj. pose proof (nan_pattern_nth cs prev row 0 j H3 Hj) as E. cbn [Nat.add] in E.
    destruct (nth j row None) as [v|] eqn:Ev; cbn [is_nan] in E.
    + split; [discriminate|]. intros [Hc|Hp].
      * apply memb_false in Hc. rewrite Hc in E. cbn in E. discriminate.
      * apply memb_In in Hp. rewrite Hp in E. rewrite orb_true_r in E. discriminate.
    + split; [|reflexivity]. intros _. symmetry in E. apply orb_prop in E. destruct E as [E|E].
      * left. apply memb_false. apply negb_true_iff. exact E.
      * right. apply memb_In. exact E.
  - destruct (nth p row None) as [v|] eqn:Ev; [|discriminate]. exists v. split; [reflexivity|].
    destruct mode.
    + destruct (nanmax row) as [m|]; cbn [veqb] in H4; [|discriminate]. apply Z.eqb_eq in H4. congruence.
    + apply Z.ltb_lt. exact H4.
Qed.

Lemma step_spec_pick mode cs prev n p row :
  step_spec mode cs prev n (p, row) -> In p cs /\ ~ In p prev.
Proof.
  intros [H1 [H2 [H3 [v [Hv _]]]]].
  specialize (H3 p H2). rewrite Hv in H3.
  split.
  - destruct (in_dec Nat.eq_dec p cs) as [I|NI]; [exact I|]. exfalso.
    assert (Some v = None) by (apply H3; left; exact NI). discriminate.
  - intros Hp. assert (Some v = None) by (apply H3; right; exact Hp). discriminate.
Qed.

(* ---------- all steps ---------- *)
Lemma steps_ok_spec mode cs n : forall t prev,
  psteps_ok mode cs prev n t = true ->
  forall i s, nth_error t i = Some s -> step_spec mode cs (prev ++ firstn i (map fst t)) n s.
Proof.
  induction t as [|s0 rest IH]; intros prev H i s Hi; [destruct i; discriminate|].
  cbn [psteps_ok] in H. apply andb_prop in H. destruct H as [H1 H2].
  destruct i as [|i]; cbn in Hi.
  - injection Hi as Hi. subst s. cbn [firstn]. rewrite app_nil_r. apply step_ok_spec. exact H1.
  - cbn [map firstn]. specialize (IH _ H2 i s Hi). rewrite <- app_assoc in IH. exact IH.
Qed.

Lemma steps_ok_picks mode cs n : forall t prev,
  psteps_ok mode cs prev n t = true ->
  Forall (fun p => In p cs /\ ~ In p prev) (map fst t) /\ NoDup (map fst t).
Proof.
  induction t as [|[p row] rest IH]; intros prev H; [split; constructor|].
  cbn [psteps_ok] in H. apply andb_prop in H. destruct H as [H1 H2].
  apply step_ok_spec in H1. apply step_spec_pick in H1. destruct H1 as [Hc Hp].
  destruct (IH _ H2) as [F N]. cbn [map fst]. split.
  - constructor; [split; assumption|].
    rewrite Forall_forall in *. intros q Hq. destruct (F q Hq) as [Fc Fp]. split; [exact Fc|].
    intros Hin. apply Fp. apply in_or_app. left. exact Hin.
  - constructor; [|exact N].
    intros Hin. rewrite Forall_forall in F. destruct (F p Hin) as [_ Fp]. apply Fp.
    apply in_or_app. right. left. reflexivity.
Qed.

(* C01: an accepted trace is a valid batch *)
Theorem accepts_valid_batch mode lab c bs t :
  accepts_pool mode lab c bs t = true ->
  length (map fst t) = expected_k bs lab c /\
  NoDup (map fst t) /\
  Forall (fun p => In p (cand_set lab c)) (map fst t).
Proof.
  unfold accepts_pool. intros H. apply andb_prop in H. destruct H as [H1 H2].
  apply Nat.eqb_eq in H1. destruct (steps_ok_picks _ _ _ _ _ H2) as [F N].
  split; [rewrite map_length; exact H1|]. split; [exact N|].
  rewrite Forall_forall in *. intros p Hp. apply (F p Hp).
Qed.

(* C02: in an accepted trace row i is NaN exactly at the non-selectable
   positions, a number at the pick, which is a maximum / has positive mass *)
Theorem accepts_rows mode lab c bs t :
  accepts_pool mode lab c bs t = true ->
  forall i s, nth_error t i = Some s ->
  step_spec mode (cand_set lab c) (firstn i (map fst t)) (ncols lab c) s.
Proof.
  unfold accepts_pool. intros H i s Hi. apply andb_prop in H. destruct H as [_ H2].
  exact (steps_ok_spec _ _ _ _ _ H2 i s Hi).
Qed.

(* ---------- candidate sets ---------- *)
Lemma unl_from_spec lab : forall s i,
  In i (unl_from lab s) <-> (s <= i)%nat /\ nth_error lab (i - s) = Some false.
Proof.
  induction lab as [|b t IH]; intros s i; cbn [unl_from].
  - cbn. split; [tauto|]. intros [_ H]. destruct (i - s)%nat; discriminate.
  - destruct b; cbn [In]; rewrite ?IH.
    + split.
      * intros [H1 H2]. split; [lia|]. replace (i - s)%nat with (S (i - S s)) by lia. exact H2.
      * intros [H1 H2]. destruct (Nat.eq_dec s i) as [E|NE].
        -- subst. rewrite Nat.sub_diag in H2. discriminate.
        -- split; [lia|]. replace (i - s)%nat with (S (i - S s)) in H2 by lia. exact H2.
    + split.
      * intros [E|[H1 H2]].
        -- subst. split; [lia|]. rewrite Nat.sub_diag. reflexivity.
        -- split; [lia|]. replace (i - s)%nat with (S (i - S s)) by lia. exact H2.
      * intros [H1 H2]. destruct (Nat.eq_dec s i) as [E|NE]; [left; exact E|right].
        split; [lia|]. replace (i - s)%nat with (S (i - S s)) in H2 by lia. exact H2.
Qed.

(* candidates=None: exactly the unlabeled samples -- a labeled sample is never a candidate *)
Theorem cand_none_unlabeled lab i :
  In i (cand_set lab CNone) <-> nth_error lab i = Some false.
Proof.
  cbn [cand_set]. rewrite unl_from_spec. rewrite Nat.sub_0_r. split; [tauto|]. intros; split; [lia|assumption].
Qed.

Lemma ins_nat_in x l z : In z (ins_nat x l) <-> z = x \/ In z l.
Proof.
  induction l as [|y t IH]; cbn [ins_nat].
  - cbn [In]. split; [intros [E|[]]; left; symmetry; exact E|intros [E|[]]; left; symmetry; exact E].
  - destruct (x <? y)%nat eqn:E1.
    + cbn [In]. split; [intros [E|H]; [left; symmetry; exact E|right; exact H]|intros [E|H]; [left; symmetry; exact E|right; exact H]].
    + destruct (x =? y)%nat eqn:E2.
      * apply Nat.eqb_eq in E2. subst y. split; [intros H; right; exact H|].
        intros [E|H]; [subst z; left; reflexivity|exact H].
      * cbn [In]. rewrite IH. cbn [In]. tauto.
Qed.

Theorem cand_idx_members l lab i : In i (cand_set lab (CIdx l)) <-> In i l.
Proof.
  cbn [cand_set]. unfold uniq_sort. induction l as [|x t IH]; cbn [fold_right In]; [tauto|].
  rewrite ins_nat_in, IH. split; [intros [E|H]; [left; symmetry; exact E|right; exact H]|intros [E|H]; [left; symmetry; exact E|right; exact H]].
Qed.

Theorem cand_feat_members m lab i : In i (cand_set lab (CFeat m)) <-> (i < m)%nat.
Proof. cbn [cand_set]. rewrite in_seq. lia. Qed.

(* ---------- the active-learning loop (C14) ---------- *)
Lemma nodupb_n_NoDup l : nodupb_n l = true -> NoDup l.
Proof.
  induction l as [|x t IH]; cbn; intros H; [constructor|].
  apply andb_prop in H. destruct H as [H1 H2]. constructor; [|apply IH; exact H2].
  apply memb_false. apply negb_true_iff. exact H1.
Qed.

Lemma remove_all_in u b x : In x (remove_all u b) <-> In x u /\ ~ In x b.
Proof.
  unfold remove_all. rewrite filter_In. rewrite negb_true_iff, memb_false. tauto.
Qed.

Lemma remove_all_nodup u b : NoDup u -> NoDup (remove_all u b).
Proof. intros H. unfold remove_all. apply NoDup_filter. exact H. Qed.

Lemma remove_all_length u : forall b,
  NoDup u -> NoDup b -> (forall x, In x b -> In x u) ->
  length (remove_all u b) = (length u - length b)%nat.
Proof.
  induction u as [|y t IH]; intros b Hu Hb Hsub.
  - destruct b as [|z b']; [reflexivity|]. exfalso. apply (Hsub z). left. reflexivity.
  - inversion Hu as [|? ? Hnin Hu']; subst. cbn [remove_all filter].
    destruct (memb y b) eqn:E; cbn [negb].
    + apply memb_In in E.
      destruct (in_split _ _ E) as [b1 [b2 Eb]]. subst b.
      assert (Hb' : NoDup (b1 ++ b2)) by (apply NoDup_remove_1 in Hb; exact Hb).
      assert (Hny : ~ In y (b1 ++ b2)) by (apply NoDup_remove_2 in Hb; exact Hb).
      assert (Hsub' : forall x, In x (b1 ++ b2) -> In x t).
      { intros x Hx. assert (Hx' : In x (b1 ++ y :: b2)) by (apply in_app_iff in Hx; apply in_app_iff; cbn; tauto).
        destruct (Hsub x Hx') as [Ey|Ht]; [subst; contradiction|exact Ht]. }
      assert (Eq : filter (fun x => negb (memb x (b1 ++ y :: b2))) t = filter (fun x => negb (memb x (b1 ++ b2))) t).
      { apply filter_ext_in. intros x Hx. f_equal.
        assert (x <> y) by (intro; subst; contradiction).
        rewrite !memb_app. cbn [memb existsb]. fold (memb x b2).
        assert (Nat.eqb x y = false) as -> by (apply Nat.eqb_neq; assumption). reflexivity. }
      fold (remove_all t (b1 ++ y :: b2)). unfold remove_all at 1. rewrite Eq. fold (remove_all t (b1 ++ b2)).
      rewrite (IH (b1 ++ b2) Hu' Hb' Hsub'). rewrite !app_length. cbn [length]. lia.
    + cbn [length]. apply memb_false in E.
      assert (Hsub' : forall x, In x b -> In x t).
      { intros x Hx. destruct (Hsub x Hx) as [Ey|Ht]; [subst; contradiction|exact Ht]. }
      fold (remove_all t b). rewrite (IH b Hu' Hb Hsub').
      assert (length b <= length t)%nat by (apply NoDup_incl_length; [exact Hb|exact Hsub']). lia.
Qed.

Lemma NoDup_app_intro {A} (l m : list A) :
  NoDup l -> NoDup m -> (forall x, In x l -> In x m -> False) -> NoDup (l ++ m).
Proof.
  induction l as [|a l IH]; intros Hl Hm Hd; [exact Hm|].
  inversion Hl as [|? ? Hn Hl']; subst. cbn. constructor.
  - intros Hin. apply in_app_iff in Hin. destruct Hin as [Hin|Hin]; [contradiction|].
    apply (Hd a); [left; reflexivity|exact Hin].
  - apply IH; [exact Hl'|exact Hm|]. intros x Hx Hx'. apply (Hd x); [right; exact Hx|exact Hx'].
Qed.

Lemma batch_valid_spec b u bt : batch_valid b u bt = true ->
  NoDup bt /\ (forall x, In x bt -> In x u) /\ length bt = Nat.min b (length u).
Proof.
  unfold batch_valid. intros H. apply andb_prop in H. destruct H as [H H3]. apply andb_prop in H. destruct H as [H1 H2].
  split; [apply nodupb_n_NoDup; exact H1|]. split.
  - rewrite forallb_forall in H2. intros x Hx. apply memb_In. apply H2. exact Hx.
  - apply Nat.eqb_eq. exact H3.
Qed.

(* every valid run: batches pairwise disjoint, inside the initial pool, pool
   partitioned into queried and remaining samples, remaining = u - min(u, b*k) *)
Theorem loop_spec b : forall batches u,
  NoDup u -> loop_valid b u batches = true ->
  NoDup (concat batches) /\
  (forall x, In x u <-> (In x (concat batches) \/ In x (loop_remaining u batches))) /\
  (forall x, In x (concat batches) -> ~ In x (loop_remaining u batches)) /\
  length (loop_remaining u batches) = (length u - Nat.min (length u) (b * length batches))%nat.
Proof.
  induction batches as [|bt rest IH]; intros u Hu H.
  - cbn. split; [constructor|]. split; [intros x; tauto|]. split; [intros x []|lia].
  - cbn [loop_valid] in H. apply andb_prop in H. destruct H as [Hv Hr].
    destruct (batch_valid_spec _ _ _ Hv) as [Hnd [Hsub Hlen]].
    pose proof (remove_all_nodup u bt Hu) as Hu'.
    destruct (IH _ Hu' Hr) as [I1 [I2 [I3 I4]]].
    cbn [concat loop_remaining length].
    split.
    + apply NoDup_app_intro; [exact Hnd|exact I1|].
      intros x Hx Hx'. assert (In x (remove_all u bt)) by (apply I2; left; exact Hx').
      apply remove_all_in in H. tauto.
    + split; [|split].
      * intros x. rewrite in_app_iff. split.
        -- intros Hx. destruct (in_dec Nat.eq_dec x bt) as [Ib|Nb]; [left; left; exact Ib|].
           assert (In x (remove_all u bt)) by (apply remove_all_in; tauto).
           apply I2 in H. tauto.
        -- intros [[Hb|Hc]|Hrm].
           ++ apply Hsub. exact Hb.
           ++ assert (In x (remove_all u bt)) by (apply I2; left; exact Hc). apply remove_all_in in H. tauto.
           ++ assert (In x (remove_all u bt)) by (apply I2; right; exact Hrm). apply remove_all_in in H. tauto.
      * intros x Hx Hrm. apply in_app_iff in Hx. destruct Hx as [Hb|Hc].
        -- assert (In x (remove_all u bt)) by (apply I2; right; exact Hrm). apply remove_all_in in H. tauto.
        -- exact (I3 x Hc Hrm).
      * rewrite I4. rewrite (remove_all_length u bt Hu Hnd Hsub). rewrite Hlen. lia.
Qed.

(* the boolean statement of C01 and its meaning; an accepted trace satisfies it *)
Lemma NoDup_nodupb_n l : NoDup l -> nodupb_n l = true.
Proof.
  induction 1 as [|x l Hn Hnd IH]; [reflexivity|]. cbn [nodupb_n].
  apply andb_true_intro. split; [|exact IH]. apply negb_true_iff. apply memb_false. exact Hn.
Qed.

Theorem batch_ok_spec lab c bs picks :
  batch_ok lab c bs picks = true <->
  (length picks = expected_k bs lab c /\ NoDup picks /\ Forall (fun p => In p (cand_set lab c)) picks).
Proof.
  unfold batch_ok. split.
  - intros H. apply andb_prop in H. destruct H as [H H3]. apply andb_prop in H. destruct H as [H1 H2].
    split; [apply Nat.eqb_eq; exact H1|]. split; [apply nodupb_n_NoDup; exact H2|].
    rewrite Forall_forall. rewrite forallb_forall in H3. intros p Hp. apply memb_In. apply H3. exact Hp.
  - intros [H1 [H2 H3]]. rewrite H1, Nat.eqb_refl. rewrite (NoDup_nodupb_n _ H2). cbn [andb].
    apply forallb_forall. intros p Hp. apply memb_In. rewrite Forall_forall in H3. apply H3. exact Hp.
Qed.

Theorem accepts_batch_ok mode lab c bs t :
  accepts_pool mode lab c bs t = true -> batch_ok lab c bs (map fst t) = true.
Proof. intros H. apply batch_ok_spec. apply (accepts_valid_batch mode). exact H. Qed.
