(* Bridging facts (query = per-instance simulation, pure; update = commit of the
   simulation) for Model/StreamCounters.v, any Num instance. *)
From Coq Require Import ZArith List Bool Lia.
From V Require Import Base.Num Model.StreamCore Model.StreamCounters Proofs.StreamGeneric.
Import ListNotations.

Section CP.
Context {F : Type} `{Num F}.

(* ---------------- DensityBasedSplitBudgetManager ---------------- *)
Variable dp : @dparams F.

Lemma d_qloop_iter : forall xs tu tt tth i,
  d_qloop dp tu tt tth xs i =
  indices_from (fst (giter (d_inst dp) {| d_u := tu; d_t := tt; d_theta := tth |} xs)) i.
Proof.
  induction xs as [|x rest IH]; intros tu tt tth i; [reflexivity|].
  cbn [d_qloop giter]. unfold d_inst at 1. cbn [d_u d_t d_theta].
  destruct (d_left dp tu (tt + 1)) eqn:Hl.
  - set (smp := fltb (fsub fone (d_util x)) (fmul tth (d_eta x))).
    rewrite IH.
    destruct (giter (d_inst dp) {| d_u := if smp then (tu + 1)%Z else tu; d_t := (tt + 1)%Z; d_theta := d_adapt dp tth smp |} rest) as [bs sf].
    cbn [fst indices_from]. destruct smp; reflexivity.
  - rewrite IH.
    destruct (giter (d_inst dp) {| d_u := tu; d_t := (tt + 1)%Z; d_theta := tth |} rest) as [bs sf].
    reflexivity.
Qed.

Theorem d_query_pure (s : dstate) (xs : list din) :
  d_query dp s xs = (indices_from (fst (giter (d_inst dp) s xs)) 0, s).
Proof. unfold d_query. rewrite d_qloop_iter. destruct s; reflexivity. Qed.

Lemma d_commit_inst s x : d_commit dp s (fst (d_inst dp s x)) = snd (d_inst dp s x).
Proof.
  unfold d_commit, d_inst. destruct (d_left dp (d_u s) (d_t s + 1)) eqn:Hl; cbn [fst snd]; reflexivity.
Qed.

Lemma d_fold_commit xs : forall s,
  fold_left (d_commit dp) (fst (giter (d_inst dp) s xs)) s = snd (giter (d_inst dp) s xs).
Proof.
  induction xs as [|x rest IH]; intros s; [reflexivity|].
  cbn [giter]. pose proof (d_commit_inst s x) as Hc.
  destruct (d_inst dp s x) as [b s1]. cbn [fst snd] in Hc.
  specialize (IH s1). destruct (giter (d_inst dp) s1 rest) as [bs s2]. cbn [fst snd fold_left] in *.
  rewrite Hc. exact IH.
Qed.

Theorem d_update_simulates (s : dstate) (xs : list din) :
  d_update dp s (length xs) (fst (d_query dp s xs)) = snd (giter (d_inst dp) s xs).
Proof.
  rewrite d_query_pure. cbn [fst]. unfold d_update.
  rewrite <- (giter_length (d_inst dp) xs s). rewrite bits_of_indices. apply d_fold_commit.
Qed.

(* ---------------- StreamRandomSampling / PeriodicSampling ---------------- *)
Variable ck : ckind.
Variable cp : @cparams F.

Lemma c_utils_S c n : c_utils ck cp c (S n) =
  (match ck with CRandom _ => c_draw cp c | CPeriodic => fofZ 0 end) ::
  c_utils ck cp (match ck with CRandom _ => S c | CPeriodic => c end) n.
Proof. unfold c_utils. destruct ck; reflexivity. Qed.

Lemma c_qloop_iter : forall n obs q c i,
  c_qloop ck cp obs q (c_utils ck cp c n) i =
  indices_from (fst (giter (c_inst ck cp) {| c_obs := obs; c_q := q; c_cur := c |} (repeat tt n))) i.
Proof.
  induction n as [|n IH]; intros obs q c i.
  - unfold c_utils. destruct ck; reflexivity.
  - rewrite c_utils_S. cbn [c_qloop repeat giter]. unfold c_inst at 1. cbn [c_obs c_q c_cur].
    set (u := match ck with CRandom _ => c_draw cp c | CPeriodic => fofZ 0 end).
    set (d := c_decide ck cp (obs + 1) q u).
    rewrite IH.
    destruct (giter (c_inst ck cp)
      {| c_obs := (obs + 1)%Z; c_q := if d then (q + 1)%Z else q;
         c_cur := match ck with CRandom _ => S c | CPeriodic => c end |} (repeat tt n)) as [bs sf].
    cbn [fst indices_from]. destruct d; reflexivity.
Qed.

Definition c_query_l (s : cstate) (xs : list unit) := c_query ck cp s (length xs).

Lemma repeat_tt (xs : list unit) : xs = repeat tt (length xs).
Proof. induction xs as [|[] t IH]; cbn; [reflexivity|f_equal; exact IH]. Qed.

Theorem c_query_pure (s : cstate) (xs : list unit) :
  c_query_l s xs = (indices_from (fst (giter (c_inst ck cp) s xs)) 0, s).
Proof.
  unfold c_query_l, c_query. rewrite c_qloop_iter. rewrite <- repeat_tt.
  cbn [c_obs c_q]. destruct s; reflexivity.
Qed.

Lemma c_iter_state : forall xs s,
  c_obs (snd (giter (c_inst ck cp) s xs)) = (c_obs s + Z.of_nat (length xs))%Z /\
  c_q (snd (giter (c_inst ck cp) s xs)) = (c_q s + count_true (fst (giter (c_inst ck cp) s xs)))%Z /\
  c_cur (snd (giter (c_inst ck cp) s xs)) =
    match ck with CRandom _ => (c_cur s + length xs)%nat | CPeriodic => c_cur s end.
Proof.
  induction xs as [|x rest IH]; intros s.
  - cbn. unfold count_true. cbn. repeat split; try lia. destruct ck; lia.
  - cbn [giter]. destruct (c_inst ck cp s x) as [d s1] eqn:E.
    specialize (IH s1). destruct (giter (c_inst ck cp) s1 rest) as [bs s2]. cbn [fst snd length] in *.
    unfold c_inst in E. injection E as Ed Es. rewrite Ed in Es. subst s1. cbn [c_obs c_q c_cur] in IH.
    destruct IH as [I1 [I2 I3]]. rewrite I1, I2, I3. unfold count_true. cbn [filter].
    repeat split.
    + lia.
    + destruct d; cbn [length]; lia.
    + destruct ck; lia.
Qed.

Theorem c_update_simulates (s : cstate) (xs : list unit) :
  c_update ck cp s (length xs) (fst (c_query_l s xs)) = snd (giter (c_inst ck cp) s xs).
Proof.
  rewrite c_query_pure. cbn [fst]. unfold c_update.
  rewrite <- (giter_length (c_inst ck cp) xs s) at 2. rewrite bits_of_indices.
  destruct (c_iter_state xs s) as [I1 [I2 I3]].
  destruct (snd (giter (c_inst ck cp) s xs)) as [o q c]. cbn [c_obs c_q c_cur] in *.
  subst. reflexivity.
Qed.

End CP.
