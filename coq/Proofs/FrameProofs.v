From Coq Require Import List Bool Arith Lia.
From V Require Import Model.Frame.
Import ListNotations.

Lemma nmemb_In x l : nmemb x l = true <-> In x l.
Proof.
  unfold nmemb. rewrite existsb_exists. split.
  - intros [y [Hy E]]. apply Nat.eqb_eq in E. subst. exact Hy.
  - intros H. exists x. split; [exact H|apply Nat.eqb_refl].
Qed.

(* soundness: if frame_ok holds for parameter p, then EVERY finite sequence of effects drawn
   from the method's effect set (any order, repetition, omission -- all branches and loops)
   leaves p bound to the same cell with unchanged content *)
Section Sound.
Variable effs : list eff.
Variable p : nat.
Variable A : list nat.
Hypothesis HpA : nmemb p A = true.
Hypothesis Hclosed : closed effs A = true.
Hypothesis Hok : forallb (eff_ok p A) effs = true.

Definition inv (l0 v0 : nat) (st : store) : Prop :=
  env st p = l0 /\ ver st l0 = v0 /\ l0 < next st /\
  (forall a, env st a = l0 -> nmemb a A = true).

Lemma exec_preserves l0 v0 st e : In e effs -> inv l0 v0 st -> inv l0 v0 (exec st e).
Proof.
  intros He [H1 [H2 [H3 H4]]].
  pose proof (proj1 (forallb_forall _ _) Hok e He) as Oe.
  pose proof (proj1 (forallb_forall _ _) Hclosed e He) as Ce. cbv beta in Ce.
  destruct e as [a|a|d s|]; cbn [exec eff_ok] in *.
  - (* write a, a <> p *)
    apply negb_true_iff in Oe. apply Nat.eqb_neq in Oe.
    unfold inv, upd. cbn [env ver next].
    assert ((p =? a) = false) as -> by (apply Nat.eqb_neq; lia).
    repeat split; try assumption; try lia.
    intros b Hb. destruct (b =? a) eqn:E; [lia|apply H4; exact Hb].
  - (* mutate a, a not an alias of p *)
    apply negb_true_iff in Oe.
    unfold inv, upd. cbn [env ver next]. repeat split; try assumption.
    destruct (l0 =? env st a) eqn:E; [|exact H2].
    apply Nat.eqb_eq in E. symmetry in E. apply H4 in E. congruence.
  - (* alias d := s, d <> p *)
    apply negb_true_iff in Oe. apply Nat.eqb_neq in Oe.
    unfold inv, upd. cbn [env ver next].
    assert ((p =? d) = false) as -> by (apply Nat.eqb_neq; lia).
    repeat split; try assumption.
    intros b Hb. destruct (b =? d) eqn:E; [|apply H4; exact Hb].
    apply Nat.eqb_eq in E. subst b. apply H4 in Hb.
    rewrite Hb in Ce. cbn in Ce. exact Ce.
  - discriminate.
Qed.

Theorem frame_sound_gen l0 v0 : forall es st,
  Forall (fun e => In e effs) es -> inv l0 v0 st -> inv l0 v0 (exec_all st es).
Proof.
  induction es as [|e es IH]; intros st Hes Hi; [exact Hi|].
  inversion Hes as [|? ? He Hes']; subst. cbn [exec_all fold_left].
  apply IH; [exact Hes'|]. apply exec_preserves; assumption.
Qed.
End Sound.

(* initial stores: every attribute has its own cell *)
Definition fresh_store (st : store) : Prop :=
  (forall a b, env st a = env st b -> a = b) /\ (forall a, env st a < next st).

Theorem frame_sound effs p es st :
  frame_ok effs p = true -> fresh_store st -> Forall (fun e => In e effs) es ->
  env (exec_all st es) p = env st p /\ ver (exec_all st es) (env st p) = ver st (env st p).
Proof.
  intros Hf [Hinj Hlt] Hes. unfold frame_ok in Hf.
  apply andb_prop in Hf. destruct Hf as [Hf H3]. apply andb_prop in Hf. destruct Hf as [H1 H2].
  assert (Hi : inv p (alias_set effs p) (env st p) (ver st (env st p)) st).
  { unfold inv. repeat split; [apply Hlt|]. intros a Ha. apply Hinj in Ha. subst a. exact H1. }
  destruct (frame_sound_gen effs p (alias_set effs p) H2 H3 _ _ es st Hes Hi) as [E1 [E2 _]].
  split; assumption.
Qed.

Theorem table_ok_spec t : table_ok t = true ->
  forall c m q, In c t -> In m (fc_methods c) -> In q (fc_params c) -> frame_ok m q = true.
Proof.
  unfold table_ok, class_ok. intros H c m q Hc Hm Hq.
  rewrite forallb_forall in H. specialize (H c Hc). rewrite forallb_forall in H. specialize (H m Hm).
  rewrite forallb_forall in H. exact (H q Hq).
Qed.
