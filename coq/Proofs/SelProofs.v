(* Lemmas about Model/Sel.v (C18, reused by C01/C02/C07/C11/C17). *)
From Coq Require Import ZArith List Bool Lia Sorted.
From V Require Import Base.OptOrder Model.Sel.
Import ListNotations.
Open Scope Z_scope.

(* ---------- argmax_first ---------- *)

Lemma argmax_first_lt (l : list Z) : l <> [] -> (argmax_first l < length l)%nat.
Proof.
  induction l as [|x t IH]; intros Hne; [congruence|].
  cbn [argmax_first length].
  destruct (forallb (fun y => y <=? x) t) eqn:Hall; [lia|].
  destruct t as [|y t']; [cbn in Hall; discriminate|].
  assert (Ht : y :: t' <> []) by congruence.
  specialize (IH Ht). lia.
Qed.

Lemma argmax_first_max (l : list Z) (k : nat) :
  (k < length l)%nat -> nth k l 0 <= nth (argmax_first l) l 0.
Proof.
  revert k; induction l as [|x t IH]; intros k Hk; [cbn in Hk; lia|].
  cbn [argmax_first].
  destruct (forallb (fun y => y <=? x) t) eqn:Hall.
  - destruct k as [|k']; cbn [nth]; [lia|].
    rewrite forallb_forall in Hall.
    cbn [length] in Hk.
    assert (Hin : In (nth k' t 0) t) by (apply nth_In; lia).
    specialize (Hall _ Hin). lia.
  - cbn [nth].
    destruct k as [|k']; cbn [nth].
    + assert (Hex : exists y, In y t /\ x < y).
      { clear IH Hk. induction t as [|y t' IHt]; cbn in Hall; [discriminate|].
        destruct (y <=? x) eqn:Hyx; cbn in Hall.
        - destruct (IHt Hall) as [z [Hz1 Hz2]]. exists z; split; [right; exact Hz1|exact Hz2].
        - exists y; split; [left; reflexivity|lia]. }
      destruct Hex as [y [Hin Hxy]].
      destruct (In_nth _ _ 0 Hin) as [j [Hj Hnth]].
      specialize (IH j Hj). lia.
    + cbn [length] in Hk. apply IH. lia.
Qed.

Lemma argmax_first_first (l : list Z) (k : nat) :
  (k < argmax_first l)%nat -> nth k l 0 < nth (argmax_first l) l 0.
Proof.
  revert k; induction l as [|x t IH]; intros k Hk; [cbn in Hk; lia|].
  cbn [argmax_first] in *.
  destruct (forallb (fun y => y <=? x) t) eqn:Hall; [lia|].
  cbn [nth].
  destruct k as [|k']; cbn [nth].
  - assert (Hex : exists y, In y t /\ x < y).
    { clear IH Hk. induction t as [|y t' IHt]; cbn in Hall; [discriminate|].
      destruct (y <=? x) eqn:Hyx; cbn in Hall.
      - destruct (IHt Hall) as [z [Hz1 Hz2]]. exists z; split; [right; exact Hz1|exact Hz2].
      - exists y; split; [left; reflexivity|lia]. }
    destruct Hex as [y [Hin Hxy]].
    destruct (In_nth _ _ 0 Hin) as [j [Hj Hnth]].
    pose proof (argmax_first_max t j Hj). lia.
  - apply IH. lia.
Qed.

Lemma argmax_first_unique (l : list Z) (j : nat) :
  (j < length l)%nat ->
  (forall k, (k < length l)%nat -> k <> j -> nth k l 0 < nth j l 0) ->
  argmax_first l = j.
Proof.
  intros Hj Huniq.
  assert (Hne : l <> []) by (destruct l; [cbn in Hj; lia|congruence]).
  pose proof (argmax_first_lt l Hne) as Hlt.
  pose proof (argmax_first_max l j Hj) as Hmax.
  destruct (Nat.eq_dec (argmax_first l) j) as [E|NE]; [exact E|].
  specialize (Huniq _ Hlt NE). lia.
Qed.

(* ---------- map2 / nth ---------- *)

Lemma map2_length {A B C} (f : A -> B -> C) l m :
  length l = length m -> length (map2 f l m) = length l.
Proof.
  revert m; induction l as [|a l IH]; intros [|b m] H; cbn in *; try lia.
  rewrite IH; lia.
Qed.

Lemma nth_map2 {A B C} (f : A -> B -> C) l m k da db dc :
  length l = length m -> (k < length l)%nat ->
  nth k (map2 f l m) dc = f (nth k l da) (nth k m db).
Proof.
  revert m k; induction l as [|a l IH]; intros [|b m] k H Hk; cbn in *; try lia.
  destruct k as [|k]; [reflexivity|]. apply IH; lia.
Qed.

(* ---------- nanmax / nanmin ---------- *)

Lemma nanmax_cons v t : nanmax (v :: t) = vmax2 v (nanmax t).
Proof. reflexivity. Qed.
Lemma nanmin_cons v t : nanmin (v :: t) = vmin2 v (nanmin t).
Proof. reflexivity. Qed.

Lemma nanmax_none (l : list val) : nanmax l = None <-> Forall (fun v => v = None) l.
Proof.
  induction l as [|v t IH]; [split; auto|].
  rewrite nanmax_cons. split.
  - intros H. destruct v as [x|], (nanmax t) as [y|]; cbn in H; try discriminate.
    constructor; [reflexivity|]. apply IH. reflexivity.
  - intros H. inversion H as [|? ? Hv Ht]; subst. apply IH in Ht. rewrite Ht. reflexivity.
Qed.

Lemma nanmax_ub (l : list val) (k : Z) :
  In (Some k) l -> exists m, nanmax l = Some m /\ k <= m.
Proof.
  induction l as [|v t IH]; [cbn; tauto|].
  rewrite nanmax_cons. intros [Hv|Hin].
  - subst v. destruct (nanmax t) as [y|]; cbn; eexists; split; try reflexivity; lia.
  - destruct (IH Hin) as [m [Hm Hle]]. rewrite Hm.
    destruct v as [x|]; cbn; eexists; split; try reflexivity; lia.
Qed.

Lemma nanmax_in (l : list val) (m : Z) : nanmax l = Some m -> In (Some m) l.
Proof.
  revert m; induction l as [|v t IH]; intros m H; [cbn in H; discriminate|].
  rewrite nanmax_cons in H.
  destruct v as [x|], (nanmax t) as [y|] eqn:Ht; cbn in H.
  - injection H as H. destruct (Z.max_spec x y) as [[_ E]|[_ E]].
    + right. apply IH. congruence.
    + left. congruence.
  - left. exact H.
  - right. apply IH. exact H.
  - discriminate.
Qed.

Lemma nanmin_vopp (l : list val) : nanmin l = vopp (nanmax (map vopp l)).
Proof.
  induction l as [|v t IH]; [reflexivity|].
  cbn [map]. rewrite nanmin_cons, nanmax_cons, IH.
  destruct v as [x|], (nanmax (map vopp t)) as [y|]; cbn; try reflexivity; f_equal; lia.
Qed.

Lemma veqb_vopp a b : veqb (vopp a) (vopp b) = veqb a b.
Proof.
  destruct a as [x|], b as [y|]; cbn; try reflexivity.
  destruct (x =? y) eqn:E1, (- x =? - y) eqn:E2; lia.
Qed.

Lemma vopp_invol v : vopp (vopp v) = v.
Proof. destruct v; cbn; [f_equal; lia|reflexivity]. Qed.

Lemma masked_noise_vopp a t noise :
  masked_noise (map vopp a) (vopp t) noise = masked_noise a t noise.
Proof.
  unfold masked_noise. revert noise; induction a as [|x a IH]; intros [|n ns]; cbn; try reflexivity.
  rewrite veqb_vopp, IH. reflexivity.
Qed.

(* rand_argmin is rand_argmax on the negated array *)
Lemma rand_argmin_as_argmax a noise : rand_argmin a noise = rand_argmax (map vopp a) noise.
Proof.
  unfold rand_argmin, rand_argmax. rewrite nanmin_vopp.
  rewrite <- (masked_noise_vopp a). rewrite vopp_invol. reflexivity.
Qed.

(* ---------- rand_argmax ---------- *)

Definition noise_ok (n : nat) (noise : list Z) : Prop :=
  length noise = n /\ Forall (fun z => 0 < z) noise.

Lemma Forall_nth_pos (noise : list Z) k :
  Forall (fun z => 0 < z) noise -> (k < length noise)%nat -> 0 < nth k noise 0.
Proof.
  intros H Hk. rewrite Forall_forall in H. apply H. apply nth_In. exact Hk.
Qed.

Theorem rand_argmax_optimal (a : list val) (noise : list Z) (m : Z) :
  noise_ok (length a) noise -> nanmax a = Some m ->
  (rand_argmax a noise < length a)%nat /\ nth (rand_argmax a noise) a None = Some m.
Proof.
  intros [Hlen Hpos] Hm. unfold rand_argmax. rewrite Hm.
  set (ml := masked_noise a (Some m) noise).
  assert (Hml : length ml = length a) by (unfold ml, masked_noise; apply map2_length; lia).
  pose proof (nanmax_in a m Hm) as Hin.
  destruct (In_nth _ _ None Hin) as [i0 [Hi0 Hnth0]].
  assert (Hne : ml <> []) by (intro E; rewrite E in Hml; cbn in Hml; lia).
  pose proof (argmax_first_lt ml Hne) as Hj. rewrite Hml in Hj.
  split; [exact Hj|].
  assert (Hi0' : (i0 < length ml)%nat) by lia.
  pose proof (argmax_first_max ml i0 Hi0') as Hmax.
  unfold ml, masked_noise in Hmax.
  rewrite (nth_map2 _ a noise i0 None 0 0) in Hmax by lia.
  rewrite (nth_map2 _ a noise _ None 0 0) in Hmax by (fold (masked_noise a (Some m) noise); fold ml; lia).
  fold (masked_noise a (Some m) noise) in Hmax. fold ml in Hmax.
  rewrite Hnth0 in Hmax. cbn [veqb] in Hmax. rewrite Z.eqb_refl in Hmax.
  assert (Hp : 0 < nth i0 noise 0) by (apply Forall_nth_pos; [exact Hpos|lia]).
  destruct (nth (argmax_first ml) a None) as [x|] eqn:Hx; cbn [veqb] in Hmax.
  - destruct (x =? m) eqn:E; [f_equal; lia|lia].
  - lia.
Qed.

(* the value found dominates every non-NaN entry *)
Corollary rand_argmax_dominates (a : list val) (noise : list Z) (m k : Z) :
  noise_ok (length a) noise -> nanmax a = Some m -> In (Some k) a -> k <= m.
Proof.
  intros _ Hm Hin. destruct (nanmax_ub a k Hin) as [m' [Hm' Hle]]. congruence.
Qed.

Theorem rand_argmin_optimal (a : list val) (noise : list Z) (m : Z) :
  noise_ok (length a) noise -> nanmin a = Some m ->
  (rand_argmin a noise < length a)%nat /\ nth (rand_argmin a noise) a None = Some m
  /\ forall k, In (Some k) a -> m <= k.
Proof.
  intros Hn Hm. rewrite rand_argmin_as_argmax.
  rewrite nanmin_vopp in Hm.
  destruct (nanmax (map vopp a)) as [m'|] eqn:Hm'; cbn in Hm; [|discriminate].
  injection Hm as Hm.
  assert (Hn' : noise_ok (length (map vopp a)) noise) by (rewrite map_length; exact Hn).
  destruct (rand_argmax_optimal _ _ _ Hn' Hm') as [Hlt Hnth].
  rewrite map_length in Hlt.
  split; [exact Hlt|]. split.
  - change None with (vopp None) in Hnth. rewrite map_nth in Hnth.
    destruct (nth _ a None) as [x|]; cbn in Hnth; [|discriminate].
    f_equal. injection Hnth as Hnth. lia.
  - intros k Hk.
    assert (Hin : In (Some (- k)) (map vopp a)) by (change (Some (-k)) with (vopp (Some k)); apply in_map; exact Hk).
    destruct (nanmax_ub _ _ Hin) as [m2 [Hm2 Hle]]. rewrite Hm' in Hm2. injection Hm2 as Hm2. lia.
Qed.

(* all-NaN input: numpy's nanmax is NaN, the comparison is all False, argmax = 0 *)
Lemma rand_argmax_all_nan a noise :
  length noise = length a -> nanmax a = None -> rand_argmax a noise = O.
Proof.
  intros Hlen Hm. unfold rand_argmax. rewrite Hm.
  assert (Hz : forall l n, length n = length l -> masked_noise l None n = repeat 0 (length l)).
  { induction l as [|x l IH]; intros [|z n] H; cbn in *; try lia; [reflexivity|].
    destruct x; cbn; f_equal; apply IH; lia. }
  rewrite Hz by exact Hlen.
  assert (Hall : forall n, forallb (fun y => y <=? 0) (repeat 0 n) = true).
  { intros n. induction n as [|n IHn]; cbn; [reflexivity|exact IHn]. }
  destruct (length a) as [|n]; [reflexivity|]. cbn [repeat argmax_first].
  rewrite Hall. reflexivity.
Qed.

(* every tied maximum is reachable under some (positive) noise *)
Definition noise_at (n j : nat) : list Z :=
  map (fun k => if Nat.eqb k j then 2 else 1) (seq 0 n).

Lemma nth_map_seq {A} (f : nat -> A) n k d : (k < n)%nat -> nth k (map f (seq 0 n)) d = f k.
Proof.
  intros Hk. transitivity (nth k (map f (seq 0 n)) (f O)).
  - apply nth_indep. rewrite map_length, seq_length. lia.
  - rewrite map_nth. rewrite seq_nth by lia. reflexivity.
Qed.

Lemma noise_at_nth n j k : (k < n)%nat -> nth k (noise_at n j) 0 = if Nat.eqb k j then 2 else 1.
Proof. intros Hk. unfold noise_at. rewrite nth_map_seq by lia. reflexivity. Qed.

Lemma noise_at_ok n j : noise_ok n (noise_at n j).
Proof.
  split; [unfold noise_at; rewrite map_length, seq_length; reflexivity|].
  unfold noise_at. rewrite Forall_forall. intros z Hz. rewrite in_map_iff in Hz.
  destruct Hz as [k [Hk _]]. destruct (Nat.eqb k j); lia.
Qed.

Theorem every_tie_reachable (a : list val) (j : nat) (m : Z) :
  (j < length a)%nat -> nanmax a = Some m -> nth j a None = Some m ->
  exists noise, noise_ok (length a) noise /\ rand_argmax a noise = j.
Proof.
  intros Hj Hm Hnth. exists (noise_at (length a) j). split; [apply noise_at_ok|].
  unfold rand_argmax. rewrite Hm.
  destruct (noise_at_ok (length a) j) as [Hlen _].
  assert (Hml : length (masked_noise a (Some m) (noise_at (length a) j)) = length a)
    by (unfold masked_noise; apply map2_length; lia).
  apply argmax_first_unique; [lia|].
  intros k Hk Hkj. rewrite Hml in Hk. unfold masked_noise.
  rewrite (nth_map2 _ a _ k None 0 0) by lia.
  rewrite (nth_map2 _ a _ j None 0 0) by lia.
  rewrite Hnth. cbn [veqb]. rewrite Z.eqb_refl.
  rewrite !noise_at_nth by lia. rewrite Nat.eqb_refl.
  apply Nat.eqb_neq in Hkj. rewrite Hkj.
  destruct (veqb (nth k a None) (Some m)); lia.
Qed.

(* zero noise at the only maximum: the code returns a non-maximum (probability
   2^-53 per draw) -- the hypothesis noise > 0 is necessary *)
Example zero_noise_counterexample :
  rand_argmax [Some 1; Some 5] [3; 0] = O /\ nanmax [Some 1; Some 5] = Some 5.
Proof. vm_compute. split; reflexivity. Qed.

(* ---------- unravel ---------- *)

Lemma ravel_unravel (shape : list nat) (i : nat) :
  (i < fold_right Nat.mul 1 shape)%nat -> ravel shape (unravel shape i) = i.
Proof.
  revert i; induction shape as [|d rest IH]; intros i Hi; cbn in *; [lia|].
  set (p := fold_right Nat.mul 1%nat rest) in *.
  assert (Hp : p <> O) by (intro E; rewrite E in Hi; lia).
  rewrite IH by (apply Nat.mod_upper_bound; exact Hp).
  pose proof (Nat.div_mod i p Hp). lia.
Qed.

Lemma unravel_in_range (shape : list nat) (i : nat) :
  (i < fold_right Nat.mul 1 shape)%nat ->
  Forall2 (fun x d => (x < d)%nat) (unravel shape i) shape.
Proof.
  revert i; induction shape as [|d rest IH]; intros i Hi; cbn in *; [constructor|].
  set (p := fold_right Nat.mul 1%nat rest) in *.
  assert (Hp : p <> O) by (intro E; rewrite E in Hi; lia).
  constructor.
  - apply Nat.div_lt_upper_bound; [exact Hp|lia].
  - apply IH. apply Nat.mod_upper_bound. exact Hp.
Qed.

(* ---------- set_nan ---------- *)

Lemma set_nan_length u i : length (set_nan u i) = length u.
Proof. revert i; induction u as [|x u IH]; intros [|i]; cbn; try reflexivity. f_equal; apply IH. Qed.

Lemma set_nan_nth u i p :
  nth p (set_nan u i) None = if Nat.eqb p i then None else nth p u None.
Proof.
  revert i p; induction u as [|x u IH]; intros i p.
  - cbn. destruct p, (Nat.eqb _ i); reflexivity.
  - destruct i as [|i], p as [|p]; cbn; try reflexivity. apply IH.
Qed.

Lemma count_nonnan_set_nan u i x :
  (i < length u)%nat -> nth i u None = Some x ->
  count_nonnan u = S (count_nonnan (set_nan u i)).
Proof.
  unfold count_nonnan.
  revert i; induction u as [|y u IH]; intros i Hi Hx; [cbn in Hi; lia|].
  destruct i as [|i]; cbn in Hx |- *.
  - subst y. cbn. reflexivity.
  - cbn in Hi. destruct y; cbn; [f_equal|]; apply IH; try lia; exact Hx.
Qed.

Lemma count_nonnan_pos_nanmax u : (0 < count_nonnan u)%nat -> exists m, nanmax u = Some m.
Proof.
  intros H. destruct (nanmax u) as [m|] eqn:E; [eauto|].
  rewrite nanmax_none in E. exfalso.
  unfold count_nonnan in H. induction u as [|x u IH]; cbn in H; [lia|].
  inversion E as [|? ? Hx Hu]; subst. cbn in H. apply IH; assumption.
Qed.

(* ---------- simple_batch (max) ---------- *)

Definition noises_ok (n k : nat) (noises : list (list Z)) : Prop :=
  (k <= length noises)%nat /\ Forall (noise_ok n) noises.

Lemma noises_ok_tail n k nz rest : noises_ok n (S k) (nz :: rest) -> noise_ok n nz /\ noises_ok n k rest.
Proof.
  intros [Hl Hf]. inversion Hf; subst. cbn in Hl. split; [assumption|split; [lia|assumption]].
Qed.

Lemma loop_length k : forall u noises,
  (k <= count_nonnan u)%nat -> noises_ok (length u) k noises ->
  length (batch_max_loop u noises k) = k.
Proof.
  induction k as [|k IH]; intros u noises Hk Hn; [destruct noises; reflexivity|].
  destruct noises as [|nz rest]; [destruct Hn as [Hl _]; cbn in Hl; lia|].
  apply noises_ok_tail in Hn. destruct Hn as [Hnz Hrest].
  cbn [batch_max_loop length]. f_equal.
  destruct (count_nonnan_pos_nanmax u) as [m Hm]; [lia|].
  destruct (rand_argmax_optimal u nz m Hnz Hm) as [Hlt Hnth].
  apply IH.
  - rewrite (count_nonnan_set_nan u _ m Hlt Hnth) in Hk. lia.
  - rewrite set_nan_length. exact Hrest.
Qed.

(* each step picks a position holding the maximum of its (non all-NaN) row *)
Definition step_ok (n : nat) (s : nat * list val) : Prop :=
  let '(i, row) := s in
  length row = n /\ (i < n)%nat /\ exists m, nanmax row = Some m /\ nth i row None = Some m.

Lemma loop_steps_ok k : forall u noises,
  (k <= count_nonnan u)%nat -> noises_ok (length u) k noises ->
  Forall (step_ok (length u)) (batch_max_loop u noises k).
Proof.
  induction k as [|k IH]; intros u noises Hk Hn; [destruct noises; constructor|].
  destruct noises as [|nz rest]; [destruct Hn as [Hl _]; cbn in Hl; lia|].
  apply noises_ok_tail in Hn. destruct Hn as [Hnz Hrest].
  cbn [batch_max_loop].
  destruct (count_nonnan_pos_nanmax u) as [m Hm]; [lia|].
  destruct (rand_argmax_optimal u nz m Hnz Hm) as [Hlt Hnth].
  constructor.
  - cbn. repeat split; try assumption. exists m. split; assumption.
  - rewrite <- (set_nan_length u (rand_argmax u nz)). apply IH.
    + rewrite (count_nonnan_set_nan u _ m Hlt Hnth) in Hk. lia.
    + rewrite set_nan_length. exact Hrest.
Qed.

(* rows are successive maskings: a row entry is NaN or the original value *)
Lemma loop_rows_submask k : forall u noises s q,
  In s (batch_max_loop u noises k) ->
  nth q (snd s) None = None \/ nth q (snd s) None = nth q u None.
Proof.
  induction k as [|k IH]; intros u noises s q Hin; [destruct noises; cbn in Hin; tauto|].
  destruct noises as [|nz rest]; [cbn in Hin; tauto|].
  cbn [batch_max_loop] in Hin. destruct Hin as [E|Hin].
  - subst s. cbn. right. reflexivity.
  - destruct (IH _ _ s q Hin) as [H|H]; [left; exact H|].
    rewrite set_nan_nth in H. destruct (Nat.eqb q _); [left|right]; exact H.
Qed.

Lemma loop_picks_nonnan k : forall u noises p,
  (k <= count_nonnan u)%nat -> noises_ok (length u) k noises ->
  In p (map fst (batch_max_loop u noises k)) -> nth p u None <> None /\ (p < length u)%nat.
Proof.
  intros u noises p Hk Hn Hin.
  rewrite in_map_iff in Hin. destruct Hin as [[i row] [E Hin]]. cbn in E. subst i.
  pose proof (loop_steps_ok k u noises Hk Hn) as Hall.
  rewrite Forall_forall in Hall. specialize (Hall _ Hin). cbn in Hall.
  destruct Hall as [_ [Hlt [m [_ Hnth]]]].
  split; [|exact Hlt].
  destruct (loop_rows_submask k u noises _ p Hin) as [H|H]; cbn in H; congruence.
Qed.

Lemma loop_picks_nodup k : forall u noises,
  (k <= count_nonnan u)%nat -> noises_ok (length u) k noises ->
  NoDup (map fst (batch_max_loop u noises k)).
Proof.
  induction k as [|k IH]; intros u noises Hk Hn; [destruct noises; constructor|].
  destruct noises as [|nz rest]; [destruct Hn as [Hl _]; cbn in Hl; lia|].
  apply noises_ok_tail in Hn. destruct Hn as [Hnz Hrest].
  cbn [batch_max_loop map fst].
  destruct (count_nonnan_pos_nanmax u) as [m Hm]; [lia|].
  destruct (rand_argmax_optimal u nz m Hnz Hm) as [Hlt Hnth].
  assert (Hk' : (k <= count_nonnan (set_nan u (rand_argmax u nz)))%nat)
    by (rewrite (count_nonnan_set_nan u _ m Hlt Hnth) in Hk; lia).
  assert (Hrest' : noises_ok (length (set_nan u (rand_argmax u nz))) k rest)
    by (rewrite set_nan_length; exact Hrest).
  constructor; [|apply IH; assumption].
  intros Hin.
  destruct (loop_picks_nonnan k _ rest _ Hk' Hrest' Hin) as [Hnn _].
  rewrite set_nan_nth, Nat.eqb_refl in Hnn. congruence.
Qed.

(* value of the pick in its own row *)
Definition pick_val (s : nat * list val) : val := nth (fst s) (snd s) None.

Definition vge (a b : val) : Prop :=
  match a, b with Some x, Some y => y <= x | _, _ => False end.

Lemma loop_nonincreasing k : forall u noises,
  (k <= count_nonnan u)%nat -> noises_ok (length u) k noises ->
  StronglySorted vge (map pick_val (batch_max_loop u noises k)).
Proof.
  induction k as [|k IH]; intros u noises Hk Hn; [destruct noises; constructor|].
  destruct noises as [|nz rest]; [destruct Hn as [Hl _]; cbn in Hl; lia|].
  apply noises_ok_tail in Hn. destruct Hn as [Hnz Hrest].
  cbn [batch_max_loop map].
  destruct (count_nonnan_pos_nanmax u) as [m Hm]; [lia|].
  destruct (rand_argmax_optimal u nz m Hnz Hm) as [Hlt Hnth].
  set (i := rand_argmax u nz) in *.
  assert (Hk' : (k <= count_nonnan (set_nan u i))%nat)
    by (rewrite (count_nonnan_set_nan u _ m Hlt Hnth) in Hk; lia).
  assert (Hrest' : noises_ok (length (set_nan u i)) k rest)
    by (rewrite set_nan_length; exact Hrest).
  constructor; [apply IH; assumption|].
  rewrite Forall_forall. intros v Hv. rewrite in_map_iff in Hv.
  destruct Hv as [[p row] [E Hin]]. subst v. unfold pick_val at 1. cbn [fst snd]. rewrite Hnth.
  pose proof (loop_steps_ok k _ rest Hk' Hrest') as Hall.
  rewrite Forall_forall in Hall. specialize (Hall _ Hin). cbn in Hall.
  destruct Hall as [_ [Hp [m' [_ Hm']]]].
  unfold pick_val. cbn [fst snd]. rewrite Hm'. cbn.
  destruct (loop_rows_submask k _ rest _ p Hin) as [H|H]; cbn [snd] in H; [congruence|].
  rewrite set_nan_nth in H. destruct (Nat.eqb p i); [congruence|].
  rewrite Hm' in H.
  assert (Hin' : In (Some m') u).
  { rewrite H. apply nth_In. rewrite set_nan_length in Hp. exact Hp. }
  destruct (nanmax_ub u m' Hin') as [m2 [E2 Hle]]. congruence.
Qed.

(* rows: row s is u with the picks of steps < s masked *)
Fixpoint rows_of (u : list val) (picks : list nat) : list (list val) :=
  match picks with
  | [] => []
  | p :: ps => u :: rows_of (set_nan u p) ps
  end.

Lemma loop_rows k : forall u noises,
  map snd (batch_max_loop u noises k) = rows_of u (map fst (batch_max_loop u noises k)).
Proof.
  induction k as [|k IH]; intros u noises; [destruct noises; reflexivity|].
  destruct noises as [|nz rest]; [reflexivity|].
  cbn [batch_max_loop map fst snd rows_of]. f_equal. apply IH.
Qed.

Lemma rows_of_mask_all (u : list val) (picks : list nat) :
  rows_of u picks = map (fun s => mask_all u (firstn s picks)) (seq 0 (length picks)).
Proof.
  revert u; induction picks as [|p ps IH]; intros u; [reflexivity|].
  cbn [rows_of length seq map firstn mask_all]. f_equal.
  rewrite IH. rewrite <- seq_shift, map_map. apply map_ext. intros s. reflexivity.
Qed.

Lemma mask_all_nth u idx q :
  nth q (mask_all u idx) None = if existsb (Nat.eqb q) idx then None else nth q u None.
Proof.
  revert u; induction idx as [|i t IH]; intros u; cbn; [reflexivity|].
  rewrite IH, set_nan_nth. destruct (Nat.eqb q i); cbn; [destruct (existsb _ t)|]; reflexivity.
Qed.

(* ---------- simple_batch (proportional) ---------- *)

Lemma nodupb_NoDup l : nodupb l = true -> NoDup l.
Proof.
  induction l as [|x t IH]; cbn; intros H; [constructor|].
  apply andb_prop in H. destruct H as [H1 H2].
  constructor; [|apply IH; exact H2].
  intros Hin. apply negb_true_iff in H1.
  assert (existsb (Nat.eqb x) t = true) by (apply existsb_exists; exists x; split; [exact Hin|apply Nat.eqb_refl]).
  congruence.
Qed.

Lemma prop_rows_spec u : forall chosen prev,
  map fst (prop_rows u prev chosen) = chosen /\
  map snd (prop_rows u prev chosen) =
    map (fun s => mask_all u (prev ++ firstn s chosen)) (seq 0 (length chosen)).
Proof.
  induction chosen as [|c t IH]; intros prev; [split; reflexivity|].
  cbn [prop_rows map fst snd length seq firstn]. destruct (IH (prev ++ [c])) as [H1 H2].
  split; [f_equal; exact H1|].
  f_equal; [rewrite app_nil_r; reflexivity|].
  rewrite H2. rewrite <- seq_shift, map_map. apply map_ext. intros s.
  cbn [firstn]. rewrite <- app_assoc. reflexivity.
Qed.

(* ---------- packaged statements (restated in Props/C18.v) ---------- *)

Definition batch_max_spec (u : list val) (bs : nat) (t : list (nat * list val)) : Prop :=
  let picks := map fst t in
  length t = Nat.min bs (count_nonnan u) /\
  NoDup picks /\
  Forall (step_ok (length u)) t /\
  StronglySorted vge (map pick_val t) /\
  map snd t = map (fun s => mask_all u (firstn s picks)) (seq 0 (length picks)).

Lemma simple_batch_max_spec u noises bs :
  noises_ok (length u) (Nat.min bs (count_nonnan u)) noises ->
  batch_max_spec u bs (simple_batch_max u noises bs).
Proof.
  intros Hn. unfold batch_max_spec, simple_batch_max.
  set (k := Nat.min bs (count_nonnan u)) in *.
  assert (Hk : (k <= count_nonnan u)%nat) by (unfold k; lia).
  repeat split.
  - apply loop_length; assumption.
  - apply loop_picks_nodup; assumption.
  - apply loop_steps_ok; assumption.
  - apply loop_nonincreasing; assumption.
  - rewrite loop_rows. apply rows_of_mask_all.
Qed.

Definition batch_prop_spec (u : list val) (k : nat) (chosen : list nat) (t : list (nat * list val)) : Prop :=
  map fst t = chosen /\ length t = k /\ NoDup chosen /\
  Forall (fun c => (c < length u)%nat /\ positive (nth c u None) = true) chosen /\
  map snd t = map (fun s => mask_all u (firstn s chosen)) (seq 0 (length chosen)).

Lemma simple_batch_prop_spec u k chosen :
  choice_contract u k chosen = true ->
  batch_prop_spec u k chosen (simple_batch_prop u chosen).
Proof.
  intros H. unfold choice_contract in H.
  apply andb_prop in H. destruct H as [H H3]. apply andb_prop in H. destruct H as [H1 H2].
  unfold batch_prop_spec, simple_batch_prop.
  destruct (prop_rows_spec u chosen []) as [E1 E2].
  split; [exact E1|]. split.
  - rewrite <- (map_length fst), E1. apply Nat.eqb_eq. exact H1.
  - split; [apply nodupb_NoDup; exact H2|]. split.
    + rewrite Forall_forall. rewrite forallb_forall in H3. intros c Hc.
      specialize (H3 c Hc). apply andb_prop in H3. destruct H3 as [Ha Hb].
      split; [apply Nat.ltb_lt; exact Ha|exact Hb].
    + exact E2.
Qed.

Lemma rand_argmax_full a noise m :
  noise_ok (length a) noise -> nanmax a = Some m ->
  (rand_argmax a noise < length a)%nat /\ nth (rand_argmax a noise) a None = Some m /\
  forall k, In (Some k) a -> k <= m.
Proof.
  intros Hn Hm. destruct (rand_argmax_optimal a noise m Hn Hm) as [H1 H2].
  repeat split; try assumption. intros k Hk. eapply rand_argmax_dominates; eassumption.
Qed.

Lemma every_min_tie_reachable (a : list val) (j : nat) (m : Z) :
  (j < length a)%nat -> nanmin a = Some m -> nth j a None = Some m ->
  exists noise, noise_ok (length a) noise /\ rand_argmin a noise = j.
Proof.
  intros Hj Hm Hnth.
  rewrite nanmin_vopp in Hm.
  destruct (nanmax (map vopp a)) as [m'|] eqn:Hm'; cbn in Hm; [|discriminate].
  injection Hm as Hm.
  destruct (every_tie_reachable (map vopp a) j m') as [noise [Hn Hr]].
  - rewrite map_length; exact Hj.
  - exact Hm'.
  - change None with (vopp None). rewrite map_nth, Hnth. cbn. f_equal. lia.
  - exists noise. rewrite map_length in Hn. split; [exact Hn|].
    rewrite rand_argmin_as_argmax. exact Hr.
Qed.
