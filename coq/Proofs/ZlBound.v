(* C04 for the window-based managers: exact-arithmetic (Q) instance.
   Whatever the per-instance decision is (any utilities, any random draws, any
   adaptive threshold), a label is granted only when u/w < b, hence the number
   of grants among n instances is < b*n + n/w + b*w + 1. *)
From Coq Require Import ZArith QArith Qabs List Bool Lia Lqa.
From V Require Import Base.Num Model.StreamCore Model.Zliobaite.
Import ListNotations.
Open Scope Q_scope.

Fixpoint cnt (bs : list bool) : Q :=
  match bs with [] => 0 | b :: t => (if b then 1 else 0) + cnt t end.

Definition qlen {A} (l : list A) : Q := inject_Z (Z.of_nat (length l)).

Lemma qlen_cons {A} (x : A) l : qlen (x :: l) == 1 + qlen l.
Proof.
  unfold qlen. cbn [length]. rewrite Nat2Z.inj_succ. unfold Z.succ.
  rewrite inject_Z_plus. ring.
Qed.

Section Bound.
Variable k : zkind.
Variable p : @zparams Q.
Hypothesis Hw : (1 <= zp_w p)%Z.

Let W : Q := inject_Z (zp_w p).
Let iw : Q := / W.
Let b : Q := zp_b p.

Lemma W_pos : 0 < W.
Proof. unfold W. change 0 with (inject_Z 0). rewrite <- Zlt_Qlt. lia. Qed.

Lemma W_iw : W * iw == 1.
Proof. unfold iw. apply Qmult_inv_r. apply Qnot_eq_sym. apply Qlt_not_eq. apply W_pos. Qed.

Lemma iw_pos : 0 < iw.
Proof. unfold iw. apply Qinv_lt_0_compat. apply W_pos. Qed.

Lemma iw_le_1 : iw <= 1.
Proof.
  assert (H1 : 1 <= W) by (unfold W; change 1 with (inject_Z 1); rewrite <- Zle_Qle; lia).
  pose proof W_iw as E. pose proof iw_pos as P.
  assert (H2 : 1 * iw <= W * iw) by (apply Qmult_le_compat_r; lra).
  lra.
Qed.

Lemma ratio_eq : ratio p == 1 - iw.
Proof.
  unfold ratio. cbn [fdiv fofZ NumQ]. fold W. unfold Qdiv. fold iw.
  unfold Zminus. rewrite inject_Z_plus. fold W. change (inject_Z (-1)) with (-(1)).
  assert (E : (W + - (1)) * iw == W * iw - iw) by ring.
  rewrite E, W_iw. reflexivity.
Qed.

Lemma budget_left_iff u : budget_left p u = true <-> u * iw < b.
Proof.
  unfold budget_left. cbn [fltb fdiv fofZ NumQ]. fold W. unfold Qdiv. fold iw. fold b.
  rewrite negb_true_iff. split.
  - intros Hn. apply Qnot_le_lt. intros Hle. apply Qle_bool_iff in Hle. congruence.
  - intros Hlt. destruct (Qle_bool b (u * iw)) eqn:E; [|reflexivity].
    apply Qle_bool_iff in E. lra.
Qed.

Lemma decay_eq u g : decay p u g == u - u * iw + (if g then 1 else 0).
Proof.
  unfold decay, fbit. cbn [fadd fmul fofZ NumQ]. rewrite ratio_eq.
  destruct g; cbn; ring.
Qed.

(* one instance: the counter follows the decayed recurrence and a grant implies the guard *)
Lemma inst_step (s : zstate) (x : zin) :
  u_t (snd (inst k p s x)) == u_t s - u_t s * iw + (if fst (inst k p s x) then 1 else 0) /\
  (fst (inst k p s x) = true -> u_t s * iw < b).
Proof.
  unfold inst. destruct (budget_left p (u_t s)) eqn:Hb.
  - destruct (decide k p (theta s) (cur s) x) as [[smp th'] c']. cbn [fst snd u_t].
    split; [apply decay_eq|]. intros _. apply budget_left_iff. exact Hb.
  - cbn [fst snd u_t]. split; [apply decay_eq|discriminate].
Qed.

Lemma bound_iter : forall xs s,
  0 <= u_t s -> u_t s < b * W + 1 ->
  0 <= u_t (snd (iter k p s xs)) /\ u_t (snd (iter k p s xs)) < b * W + 1 /\
  cnt (fst (iter k p s xs)) - u_t (snd (iter k p s xs)) <= - u_t s + qlen xs * (b + iw).
Proof.
  unfold iter.
  induction xs as [|x rest IH]; intros s H0 H1.
  - cbn [giter fst snd cnt]. unfold qlen. cbn [length Z.of_nat]. change (inject_Z 0) with 0. repeat split; try assumption. lra.
  - cbn [giter]. destruct (inst_step s x) as [Hu Hg].
    destruct (inst k p s x) as [g s1] eqn:Hi. cbn [fst snd] in Hu, Hg.
    pose proof iw_pos as Hip. pose proof iw_le_1 as Hi1. pose proof W_iw as HWi. pose proof W_pos as HW.
    set (u := u_t s) in *. set (t := u * iw) in *.
    assert (Ht0 : 0 <= t) by (unfold t; apply Qmult_le_0_compat; lra).
    assert (Htu : t <= u).
    { unfold t. assert (E : u * iw <= u * 1) by (rewrite (Qmult_comm u iw), (Qmult_comm u 1); apply Qmult_le_compat_r; lra). lra. }
    assert (Htb : t <= b + iw).
    { assert (E : u * iw <= (b * W + 1) * iw) by (apply Qmult_le_compat_r; lra).
      assert (E2 : (b * W + 1) * iw == b * (W * iw) + iw) by ring.
      unfold t. rewrite E2, HWi in E. lra. }
    assert (Hs1 : 0 <= u_t s1 /\ u_t s1 < b * W + 1).
    { destruct g.
      - specialize (Hg eq_refl). fold t in Hg.
        assert (E : t * W < b * W) by (apply Qmult_lt_compat_r; lra).
        assert (E2 : t * W == u * (W * iw)) by (unfold t; ring).
        rewrite E2, HWi in E. lra.
      - lra. }
    destruct Hs1 as [Ha Hb'].
    specialize (IH s1 Ha Hb').
    destruct (giter (inst k p) s1 rest) as [bs s2]. cbn [fst snd cnt] in *.
    destruct IH as [I1 [I2 I3]]. split; [exact I1|]. split; [exact I2|].
    rewrite qlen_cons. destruct g; lra.
Qed.

(* grants among the first n instances, starting from the initial state u_t = 0 *)
Theorem zliobaite_bound (s : zstate) (xs : list zin) :
  u_t s == 0 -> 0 < b ->
  cnt (fst (iter k p s xs)) < b * qlen xs + qlen xs * iw + b * W + 1.
Proof.
  intros Hu Hb.
  assert (H0 : 0 <= u_t s) by lra.
  assert (H1 : u_t s < b * W + 1).
  { pose proof W_pos. assert (0 <= b * W) by (apply Qmult_le_0_compat; lra). lra. }
  destruct (bound_iter xs s H0 H1) as [I1 [I2 I3]]. lra.
Qed.

End Bound.
