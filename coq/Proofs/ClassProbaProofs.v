From Coq Require Import ZArith QArith List Bool Lia Lqa Sorted.
From V Require Import Base.OptOrder Model.Sel Model.Label Model.ClassProba Proofs.SelProofs Proofs.LabelProofs.
Import ListNotations.
Open Scope Q_scope.

Lemma nth_map' {A B} (f : A -> B) l n d d' : (n < length l)%nat -> nth n (map f l) d = f (nth n l d').
Proof. revert n; induction l as [|x l IH]; intros [|n] H; cbn in *; try lia; [reflexivity|]. apply IH. lia. Qed.

Lemma qsum_map_div (l : list Q) (s : Q) : ~ s == 0 -> qsum (map (fun x => x / s) l) == qsum l / s.
Proof.
  intros Hs. induction l as [|x l IH]; cbn [map qsum fold_right]; [field; exact Hs|].
  fold (qsum (map (fun x0 => x0 / s) l)). fold (qsum l). rewrite IH. field. exact Hs.
Qed.

Lemma qsum_repeat (c : Q) (n : nat) : qsum (repeat c n) == inject_Z (Z.of_nat n) * c.
Proof.
  induction n as [|n IH]; [cbn; ring|].
  cbn [repeat qsum fold_right]. fold (qsum (repeat c n)). rewrite IH.
  rewrite Nat2Z.inj_succ. unfold Z.succ. rewrite inject_Z_plus. ring.
Qed.

Lemma qsum_nonneg l : Forall (fun x => 0 <= x) l -> 0 <= qsum l.
Proof. induction 1 as [|x l Hx Hl IH]; cbn [qsum fold_right]; [lra|]. fold (qsum l). lra. Qed.

(* predict_proba of a frequency estimator: non-negative rows summing to one; uniform without mass *)
Theorem normalize_row_simplex K row : (0 < K)%nat -> length row = K -> Forall (fun x => 0 <= x) row ->
  length (normalize_row K row) = K /\ Forall (fun x => 0 <= x) (normalize_row K row) /\ qsum (normalize_row K row) == 1.
Proof.
  intros HK Hl Hf. unfold normalize_row. pose proof (qsum_nonneg row Hf) as Hs.
  destruct (Qle_bool (qsum row) 0) eqn:E.
  - split; [apply repeat_length|]. split.
    + apply Forall_forall. intros x Hx. apply repeat_spec in Hx. subst x. unfold Qle. cbn. lia.
    + rewrite qsum_repeat.
      assert (EK : Z.pos (Pos.of_nat K) = Z.of_nat K) by (rewrite <- positive_nat_Z, Nat2Pos.id by lia; reflexivity).
      unfold Qeq, Qmult, inject_Z. cbn [Qnum Qden]. rewrite Pos.mul_1_l, EK. lia.
  - assert (Hpos : 0 < qsum row).
    { apply Qnot_le_lt. intros H. apply Qle_bool_iff in H. congruence. }
    split; [rewrite map_length; exact Hl|]. split.
    + rewrite Forall_forall in *. intros x Hx. apply in_map_iff in Hx. destruct Hx as [y [Ey Hy]]. subst x.
      specialize (Hf y Hy). apply Qle_shift_div_l; [exact Hpos|]. lra.
    + rewrite qsum_map_div by lra. field. lra.
Qed.

Theorem normalize_row_uniform K row : qsum row == 0 -> normalize_row K row = repeat (1 # Pos.of_nat K) K.
Proof.
  intros H. unfold normalize_row. assert (Qle_bool (qsum row) 0 = true) as -> by (apply Qle_bool_iff; lra). reflexivity.
Qed.

(* cost matrix permutation: the entry for the classes ranked r and r' in the sorted order is the
   entry the user gave for these two classes (at their declared positions) *)
Theorem permute_cost_spec {A} (d : A) (declared : list Z) (C : list (list A)) p p' :
  NoDup declared -> (p < length declared)%nat -> (p' < length declared)%nat ->
  exists r r', index_of (nth p declared 0%Z) (sort_dedupe declared) = Some r /\
               index_of (nth p' declared 0%Z) (sort_dedupe declared) = Some r' /\
               nth r' (nth r (permute_cost d declared C) []) d = nth p' (nth p C []) d.
Proof.
  intros Hnd Hp Hp'.
  set (x := nth p declared 0%Z). set (x' := nth p' declared 0%Z).
  assert (Hx : In x (sort_dedupe declared)) by (apply sort_dedupe_in; apply nth_In; exact Hp).
  assert (Hx' : In x' (sort_dedupe declared)) by (apply sort_dedupe_in; apply nth_In; exact Hp').
  destruct (index_of_in x _ Hx) as [r [Hr Hrl]]. destruct (index_of_in x' _ Hx') as [r' [Hr' Hrl']].
  exists r, r'. split; [exact Hr|]. split; [exact Hr'|].
  assert (Ha : forall q y rr, (q < length declared)%nat -> y = nth q declared 0%Z ->
               index_of y (sort_dedupe declared) = Some rr -> nth rr (argsort declared) O = q).
  { intros q y rr Hq Ey Hrr. unfold argsort.
    assert (Hl : (rr < length (sort_dedupe declared))%nat).
    { apply index_of_some in Hrr. apply nth_error_Some. congruence. }
    rewrite (nth_map' _ _ _ _ 0%Z) by exact Hl. apply index_of_some in Hrr.
    rewrite (nth_error_nth _ _ _ Hrr).
    rewrite (index_of_nth declared q y Hnd); [reflexivity|].
    subst y. apply nth_error_nth'. exact Hq. }
  unfold permute_cost.
  assert (Hlen : length (argsort declared) = length (sort_dedupe declared)) by (unfold argsort; apply map_length).
  rewrite (nth_map' _ _ _ _ O) by (rewrite Hlen; exact Hrl).
  rewrite (nth_map' _ _ _ _ O) by (rewrite Hlen; exact Hrl').
  rewrite (Ha p x r Hp eq_refl Hr), (Ha p' x' r' Hp' eq_refl Hr'). reflexivity.
Qed.

(* the decision is a member of classes_ and minimises the expected cost (via C18) *)
Theorem decide_member_and_optimal cls keys noise m :
  length cls = length keys -> noise_ok (length keys) noise -> nanmin keys = Some m ->
  In (decide cls keys noise) cls /\ nth (rand_argmin keys noise) keys None = Some m /\
  forall k, In (Some k) keys -> (m <= k)%Z.
Proof.
  intros Hl Hn Hm. destruct (rand_argmin_optimal keys noise m Hn Hm) as [H1 [H2 H3]].
  split; [unfold decide; apply nth_In; lia|]. split; assumption.
Qed.
