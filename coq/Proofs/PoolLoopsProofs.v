(* The hand-written selection loops return accepted traces (hence valid batches with the
   documented utility rows) for EVERY distance / edge oracle. *)
From Coq Require Import ZArith List Bool Lia Arith.
From V Require Import Base.OptOrder Model.Sel Model.PoolQuery Model.PoolLoops
  Proofs.SelProofs Proofs.PoolProofs Proofs.SkeletonProofs.
Import ListNotations.
Open Scope Z_scope.

(* a candidate that has not been picked yet exists while |prev| < |cs| *)
Lemma fresh_candidate (cs prev : list nat) :
  NoDup cs -> (length prev < length cs)%nat -> exists x, In x cs /\ ~ In x prev.
Proof.
  intros Hnd Hlen.
  destruct (forallb (fun x => memb x prev) cs) eqn:E.
  - exfalso. rewrite forallb_forall in E.
    assert (Hincl : incl cs prev) by (intros x Hx; apply memb_In; apply E; exact Hx).
    pose proof (NoDup_incl_length Hnd Hincl). lia.
  - assert (H : exists x, In x cs /\ memb x prev = false).
    { clear Hnd Hlen. induction cs as [|c t IH]; [discriminate|].
      cbn [forallb] in E. destruct (memb c prev) eqn:Ec.
      - cbn in E. destruct (IH E) as [x [Hx Hm]]. exists x. split; [right; exact Hx|exact Hm].
      - exists c. split; [left; reflexivity|exact Ec]. }
    destruct H as [x [Hx Hm]]. exists x. split; [exact Hx|apply memb_false; exact Hm].
Qed.

Lemma nth_In_nonnan (row : list val) j : (j < length row)%nat -> is_nan (nth j row None) = false ->
  (0 < count_nonnan row)%nat.
Proof.
  revert j. induction row as [|v t IH]; intros j Hj Hn; [cbn in Hj; lia|].
  rewrite count_nonnan_cons. destruct j as [|j]; cbn [nth] in Hn.
  - rewrite Hn. lia.
  - cbn in Hj. specialize (IH j ltac:(lia) Hn). lia.
Qed.

Lemma memb_single j q : memb j [q] = Nat.eqb j q.
Proof. unfold memb. cbn. apply orb_false_r. Qed.

Section GenProof.
  Variable St : Type.
  Variable row_of : St -> list val.
  Variable next : St -> nat -> St.
  Variable cs : list nat.
  Variable n : nat.
  Variable Inv : St -> list nat -> Prop.
  Hypothesis Hcs_nd : NoDup cs.
  Hypothesis Hcs_lt : Forall (fun i => (i < n)%nat) cs.
  Hypothesis Hrow : forall s prev, Inv s prev ->
    length (row_of s) = n /\
    forall j, (j < n)%nat -> is_nan (nth j (row_of s) None) = negb (memb j cs) || memb j prev.
  Hypothesis Hnext : forall s prev p, Inv s prev -> In p cs -> ~ In p prev -> Inv (next s p) (prev ++ [p]).

  Theorem sel_loop_steps : forall k s prev noises,
    Inv s prev -> NoDup prev -> incl prev cs -> (k + length prev <= length cs)%nat ->
    noises_ok n k noises ->
    psteps_ok SelMax cs prev n (sel_loop St row_of next k s noises) = true /\
    length (sel_loop St row_of next k s noises) = k.
  Proof.
    induction k as [|k IH]; intros s prev noises HI Hnd Hincl Hk Hn.
    - destruct noises; cbn; split; reflexivity.
    - destruct noises as [|nz rest]; [destruct Hn as [Hl _]; cbn in Hl; lia|].
      apply noises_ok_tail in Hn. destruct Hn as [Hnz Hrest].
      cbn [sel_loop]. set (row := row_of s). set (p := rand_argmax row nz).
      destruct (Hrow s prev HI) as [Hlen Hpat]. fold row in Hlen, Hpat.
      destruct (fresh_candidate cs prev Hcs_nd ltac:(lia)) as [x [Hx Hxp]].
      assert (Hxn : (x < n)%nat) by (rewrite Forall_forall in Hcs_lt; apply Hcs_lt; exact Hx).
      assert (Hxv : is_nan (nth x row None) = false).
      { rewrite Hpat by exact Hxn. apply memb_In in Hx. apply memb_false in Hxp. rewrite Hx, Hxp. reflexivity. }
      assert (Hpos : (0 < count_nonnan row)%nat) by (apply (nth_In_nonnan row x); [lia|exact Hxv]).
      destruct (count_nonnan_pos_nanmax row Hpos) as [m Hm].
      assert (Hnz' : noise_ok (length row) nz) by (rewrite Hlen; exact Hnz).
      destruct (rand_argmax_optimal row nz m Hnz' Hm) as [Hp Hpv]. fold p in Hp, Hpv.
      rewrite Hlen in Hp.
      assert (Hpnan : negb (memb p cs) || memb p prev = false).
      { rewrite <- Hpat by exact Hp. rewrite Hpv. reflexivity. }
      apply orb_false_iff in Hpnan. destruct Hpnan as [Hpc Hpp].
      apply negb_false_iff in Hpc. apply memb_In in Hpc. apply memb_false in Hpp.
      specialize (IH (next s p) (prev ++ [p]) rest (Hnext s prev p HI Hpc Hpp)).
      destruct IH as [IH1 IH2].
      + apply NoDup_app_intro; [exact Hnd|constructor; [intros []|constructor]|].
        intros y Hy [Hy'|[]]. subst y. contradiction.
      + intros y Hy. apply in_app_or in Hy. destruct Hy as [Hy|[Hy|[]]]; [apply Hincl; exact Hy|subst y; exact Hpc].
      + rewrite app_length. cbn [length]. lia.
      + exact Hrest.
      + split; [|cbn [length]; rewrite IH2; reflexivity].
        cbn [psteps_ok fst]. apply andb_true_intro. split; [|exact IH1].
        unfold pstep_ok. rewrite Hpv, Hm.
        rewrite (proj2 (Nat.eqb_eq _ _) Hlen), (proj2 (Nat.ltb_lt _ _) Hp). cbn [andb].
        rewrite nan_pattern_intro.
        * cbn. apply Z.eqb_refl.
        * intros j Hj. cbn [Nat.add]. apply Hpat. lia.
  Qed.
End GenProof.

(* ------------------------------------------------------------------ CoreSet *)
Lemma nth_map_seq0 {A} (f : nat -> A) n j d : (j < n)%nat -> nth j (map f (seq 0 n)) d = f j.
Proof. intros H. apply nth_map_seq. exact H. Qed.

Section CoreSetProof.
  Variable d : nat -> nat -> Z.
  Variable w : nat.
  Variable mapping centers0 : list nat.
  Hypothesis Hdisj : forall j, In j mapping -> ~ In j centers0.   (* candidates are unlabeled *)

  Definition cs_inv (row : list val) (prev : list nat) : Prop :=
    length row = w /\
    forall j, (j < w)%nat -> is_nan (nth j row None) = negb (memb j mapping) || memb j prev.

  Lemma cs_row0_inv : cs_inv (cs_row0 d w mapping centers0) [].
  Proof.
    split; [unfold cs_row0; rewrite map_length, seq_length; reflexivity|].
    intros j Hj. unfold cs_row0. rewrite nth_map_seq0 by exact Hj.
    destruct (memb j mapping) eqn:Em; cbn [andb negb orb]; [|reflexivity].
    assert (Hc : memb j centers0 = false) by (apply memb_false; apply Hdisj; apply memb_In; exact Em).
    rewrite Hc. reflexivity.
  Qed.

  Lemma cs_next_inv row prev q : cs_inv row prev -> cs_inv (cs_row_next d w mapping row q) (prev ++ [q]).
  Proof.
    intros [Hl Hp]. split; [unfold cs_row_next; rewrite map_length, seq_length; reflexivity|].
    intros j Hj. unfold cs_row_next. rewrite nth_map_seq0 by exact Hj.
    rewrite memb_app, memb_single.
    specialize (Hp j Hj).
    destruct (memb j mapping) eqn:Em; cbn [andb negb orb] in *; [|reflexivity].
    destruct (Nat.eqb j q) eqn:Eq; cbn [negb].
    - rewrite orb_true_r. reflexivity.
    - rewrite orb_false_r. destruct (nth j row None) as [l|]; cbn [is_nan] in *.
      + rewrite <- Hp. destruct (all_zero row && (l =? 0)); reflexivity.
      + rewrite <- Hp. reflexivity.
  Qed.

  Theorem coreset_accepted k noises :
    NoDup mapping -> Forall (fun i => (i < w)%nat) mapping -> (k <= length mapping)%nat ->
    noises_ok w k noises ->
    psteps_ok SelMax mapping [] w (coreset_loop d w mapping centers0 k noises) = true /\
    length (coreset_loop d w mapping centers0 k noises) = k.
  Proof.
    intros Hnd Hlt Hk Hn. unfold coreset_loop.
    apply (sel_loop_steps (list val) (fun r => r) (cs_row_next d w mapping) mapping w cs_inv Hnd Hlt).
    - intros s prev HI. exact HI.
    - intros s prev p HI _ _. apply cs_next_inv. exact HI.
    - apply cs_row0_inv.
    - constructor.
    - intros x [].
    - cbn [length]. lia.
    - exact Hn.
  Qed.
End CoreSetProof.

(* ---------------------------------------------------------------- ProbCover *)
Lemma set_false_length l : forall i, length (set_false l i) = length l.
Proof. induction l as [|x t IH]; intros [|i]; cbn; try reflexivity. rewrite IH. reflexivity. Qed.

Lemma set_false_nth l : forall i j, nth j (set_false l i) false = if Nat.eqb j i then false else nth j l false.
Proof.
  induction l as [|x t IH]; intros i j.
  - destruct i, j; cbn; try reflexivity; destruct (Nat.eqb _ _); reflexivity.
  - destruct i as [|i], j as [|j]; cbn; try reflexivity. apply IH.
Qed.

Section ProbCoverProof.
  Variable cs : list nat.
  Variable n : nat.

  Definition pc_inv (st : pc_state) (prev : list nat) : Prop :=
    length (snd st) = n /\
    forall j, (j < n)%nat -> nth j (snd st) false = memb j cs && negb (memb j prev).

  Lemma pc_row_spec st prev : pc_inv st prev ->
    length (pc_row st) = n /\
    forall j, (j < n)%nat -> is_nan (nth j (pc_row st) None) = negb (memb j cs) || memb j prev.
  Proof.
    intros [Hl Hc]. unfold pc_row. rewrite map_length, seq_length. split; [exact Hl|].
    intros j Hj. rewrite Hl. rewrite nth_map_seq0 by exact Hj. rewrite (Hc j Hj).
    destruct (memb j cs), (memb j prev); reflexivity.
  Qed.

  Lemma pc_next_inv st prev p : pc_inv st prev -> pc_inv (pc_next st p) (prev ++ [p]).
  Proof.
    intros [Hl Hc]. unfold pc_next, pc_inv. cbn [snd]. rewrite set_false_length. split; [exact Hl|].
    intros j Hj. rewrite set_false_nth, memb_app, memb_single.
    rewrite (Hc j Hj). destruct (Nat.eqb j p); [rewrite orb_true_r, andb_false_r; reflexivity|].
    rewrite orb_false_r. reflexivity.
  Qed.

  Theorem probcover_accepted edges is_cand k noises :
    NoDup cs -> Forall (fun i => (i < n)%nat) cs -> (k <= length cs)%nat ->
    length is_cand = n -> (forall j, (j < n)%nat -> nth j is_cand false = memb j cs) ->
    noises_ok n k noises ->
    psteps_ok SelMax cs [] n (probcover_loop edges is_cand k noises) = true /\
    length (probcover_loop edges is_cand k noises) = k.
  Proof.
    intros Hnd Hlt Hk Hl Hc Hn. unfold probcover_loop.
    apply (sel_loop_steps pc_state pc_row pc_next cs n pc_inv Hnd Hlt).
    - intros s prev HI. apply pc_row_spec. exact HI.
    - intros s prev p HI _ _. apply pc_next_inv. exact HI.
    - split; [exact Hl|]. intros j Hj. cbn [snd]. rewrite (Hc j Hj). unfold memb at 2. cbn. rewrite andb_true_r. reflexivity.
    - constructor.
    - intros x [].
    - cbn [length]. lia.
    - exact Hn.
  Qed.
End ProbCoverProof.

(* ---------- user-level corollaries: valid batches ---------- *)
Lemma steps_valid_batch cs n t : psteps_ok SelMax cs [] n t = true ->
  NoDup (map fst t) /\ Forall (fun p => In p cs) (map fst t).
Proof.
  intros H. destruct (steps_ok_picks SelMax cs n t [] H) as [HF HN]. split; [exact HN|].
  rewrite Forall_forall in *. intros p Hp. destruct (HF p Hp) as [Hc _]. exact Hc.
Qed.

Theorem coreset_valid_batch (d : nat -> nat -> Z) (w : nat) (mapping centers0 : list nat) (k : nat) (noises : list (list Z)) :
  (forall j, In j mapping -> ~ In j centers0) ->
  NoDup mapping -> Forall (fun i => (i < w)%nat) mapping -> (k <= length mapping)%nat -> noises_ok w k noises ->
  let picks := map fst (coreset_loop d w mapping centers0 k noises) in
  length picks = k /\ NoDup picks /\ Forall (fun p => In p mapping) picks.
Proof.
  intros Hd Hnd Hlt Hk Hn picks.
  destruct (coreset_accepted d w mapping centers0 Hd k noises Hnd Hlt Hk Hn) as [Hs Hl].
  unfold picks. rewrite map_length. split; [exact Hl|]. exact (steps_valid_batch mapping w _ Hs).
Qed.

Theorem probcover_valid_batch (cs : list nat) (n : nat) (edges : list (list bool)) (is_cand : list bool) (k : nat) (noises : list (list Z)) :
  NoDup cs -> Forall (fun i => (i < n)%nat) cs -> (k <= length cs)%nat ->
  length is_cand = n -> (forall j, (j < n)%nat -> nth j is_cand false = memb j cs) -> noises_ok n k noises ->
  let picks := map fst (probcover_loop edges is_cand k noises) in
  length picks = k /\ NoDup picks /\ Forall (fun p => In p cs) picks.
Proof.
  intros Hnd Hlt Hk Hl Hc Hn picks.
  destruct (probcover_accepted cs n edges is_cand k noises Hnd Hlt Hk Hl Hc Hn) as [Hs Hlen].
  unfold picks. rewrite map_length. split; [exact Hlen|]. exact (steps_valid_batch cs n _ Hs).
Qed.

(* ---------- user-level corollaries: utility rows (C02) ---------- *)
Theorem coreset_rows (d : nat -> nat -> Z) (w : nat) (mapping centers0 : list nat) (k : nat) (noises : list (list Z)) :
  (forall j, In j mapping -> ~ In j centers0) ->
  NoDup mapping -> Forall (fun i => (i < w)%nat) mapping -> (k <= length mapping)%nat -> noises_ok w k noises ->
  let t := coreset_loop d w mapping centers0 k noises in
  forall i s, nth_error t i = Some s -> step_spec SelMax mapping (firstn i (map fst t)) w s.
Proof.
  intros Hd Hnd Hlt Hk Hn t i s Hi.
  destruct (coreset_accepted d w mapping centers0 Hd k noises Hnd Hlt Hk Hn) as [Hs _].
  exact (steps_ok_spec SelMax mapping w t [] Hs i s Hi).
Qed.

Theorem probcover_rows (cs : list nat) (n : nat) (edges : list (list bool)) (is_cand : list bool) (k : nat) (noises : list (list Z)) :
  NoDup cs -> Forall (fun i => (i < n)%nat) cs -> (k <= length cs)%nat ->
  length is_cand = n -> (forall j, (j < n)%nat -> nth j is_cand false = memb j cs) -> noises_ok n k noises ->
  let t := probcover_loop edges is_cand k noises in
  forall i s, nth_error t i = Some s -> step_spec SelMax cs (firstn i (map fst t)) n s.
Proof.
  intros Hnd Hlt Hk Hl Hc Hn t i s Hi.
  destruct (probcover_accepted cs n edges is_cand k noises Hnd Hlt Hk Hl Hc Hn) as [Hs _].
  exact (steps_ok_spec SelMax cs n t [] Hs i s Hi).
Qed.

(* =====================================================================================
   scatter / nanmax toolbox
   ===================================================================================== *)
Fixpoint index_of (q : nat) (l : list nat) : option nat :=
  match l with
  | [] => None
  | x :: t => if Nat.eqb q x then Some O else option_map S (index_of q t)
  end.

Lemma index_of_none q l : ~ In q l -> index_of q l = None.
Proof.
  induction l as [|x t IH]; intros H; [reflexivity|]. cbn [index_of].
  destruct (Nat.eqb_spec q x) as [->|Hne]; [exfalso; apply H; left; reflexivity|].
  rewrite IH; [reflexivity|]. intros Hin. apply H. right. exact Hin.
Qed.

Lemma index_of_some q l i : index_of q l = Some i -> (i < length l)%nat /\ nth i l O = q.
Proof.
  revert i. induction l as [|x t IH]; intros i H; [discriminate|]. cbn [index_of] in H.
  destruct (Nat.eqb_spec q x) as [->|Hne].
  - injection H as <-. cbn. split; [lia|reflexivity].
  - destruct (index_of q t) as [j|] eqn:E; [|discriminate]. cbn in H. injection H as <-.
    destruct (IH j eq_refl) as [H1 H2]. cbn. split; [lia|exact H2].
Qed.

Lemma index_of_nth l : NoDup l -> forall i, (i < length l)%nat -> index_of (nth i l O) l = Some i.
Proof.
  induction 1 as [|x t Hx Hnd IH]; intros i Hi; [cbn in Hi; lia|].
  destruct i as [|i]; cbn [nth index_of]; [rewrite Nat.eqb_refl; reflexivity|].
  cbn in Hi. assert (Hi' : (i < length t)%nat) by lia.
  destruct (Nat.eqb_spec (nth i t O) x) as [E|_].
  - exfalso. apply Hx. rewrite <- E. apply nth_In. exact Hi'.
  - rewrite IH by exact Hi'. reflexivity.
Qed.

Lemma index_of_In q l : In q l -> exists i, index_of q l = Some i.
Proof.
  induction l as [|x t IH]; intros H; [destruct H|]. cbn [index_of].
  destruct (Nat.eqb_spec q x) as [_|Hne]; [eexists; reflexivity|].
  destruct H as [->|H]; [contradiction|]. destruct (IH H) as [i Hi]. rewrite Hi. eexists. reflexivity.
Qed.

Lemma scatter_nth mapping : forall scores u q,
  NoDup mapping -> length scores = length mapping -> Forall (fun i => (i < length u)%nat) mapping ->
  nth q (scatter mapping scores u) None =
  match index_of q mapping with Some i => nth i scores None | None => nth q u None end.
Proof.
  induction mapping as [|m mt IH]; intros scores u q Hnd Hl Hlt.
  - destruct scores; reflexivity.
  - destruct scores as [|s st]; [cbn in Hl; lia|].
    inversion Hnd as [|? ? Hm Hnd']; subst. inversion Hlt as [|? ? Hm_lt Hlt']; subst.
    cbn [scatter index_of]. rewrite IH; [|exact Hnd'|cbn in Hl; lia|rewrite set_at_length; exact Hlt'].
    destruct (Nat.eqb_spec q m) as [->|Hne].
    + rewrite (index_of_none m mt Hm). rewrite set_at_nth by exact Hm_lt. rewrite Nat.eqb_refl. reflexivity.
    + destruct (index_of q mt) as [i|]; cbn [option_map nth]; [reflexivity|].
      rewrite set_at_nth by exact Hm_lt. destruct (Nat.eqb_spec q m); [contradiction|reflexivity].
Qed.

Lemma nanmax_char (l : list val) (v : Z) :
  In (Some v) l -> (forall k, In (Some k) l -> k <= v) -> nanmax l = Some v.
Proof.
  intros Hin Hub. destruct (nanmax_ub l v Hin) as [m [Hm Hle]].
  pose proof (nanmax_in l m Hm) as Hm_in. specialize (Hub m Hm_in). rewrite Hm. f_equal. lia.
Qed.

(* the scattered copy of a vector has the same maximum, attained at the image of the arg max *)
Lemma scatter_nanmax mapping scores n v i :
  NoDup mapping -> length scores = length mapping -> Forall (fun j => (j < n)%nat) mapping ->
  nanmax scores = Some v -> nth i scores None = Some v -> (i < length scores)%nat ->
  let row := scatter mapping scores (repeat None n) in
  nth (nth i mapping O) row None = Some v /\ nanmax row = Some v.
Proof.
  intros Hnd Hl Hlt Hm Hi Hil row.
  assert (Hlt' : Forall (fun j => (j < length (repeat (@None Z) n))%nat) mapping) by (rewrite repeat_length; exact Hlt).
  assert (Hp : nth (nth i mapping O) row None = Some v).
  { unfold row. rewrite scatter_nth by assumption. rewrite index_of_nth by (try exact Hnd; lia). exact Hi. }
  split; [exact Hp|]. apply nanmax_char.
  - rewrite <- Hp. apply nth_In. unfold row. rewrite scatter_length, repeat_length.
    rewrite Forall_forall in Hlt. apply Hlt. apply nth_In. lia.
  - intros k Hk. destruct (In_nth _ _ None Hk) as [q [Hq Hqv]]. unfold row in Hqv.
    rewrite scatter_nth in Hqv by assumption.
    destruct (index_of q mapping) as [j|] eqn:Ej.
    + destruct (nanmax_ub scores k) as [m' [Hm' Hle]].
      { rewrite <- Hqv. apply nth_In. apply index_of_some in Ej. lia. }
      rewrite Hm in Hm'. injection Hm' as <-. exact Hle.
    + rewrite nth_repeat_None in Hqv. discriminate.
Qed.

(* =====================================================================================
   loops masking an oracle row (Clue, DropQuery, DiscriminativeAL non-greedy, FourDs)
   ===================================================================================== *)
Section OracleLoopProof.
  Variable n : nat.
  Variable cs : list nat.
  Variable score : list nat -> list val.
  Hypothesis Hscore : forall prev, length (score prev) = length cs /\ Forall nonnan (score prev).

  Theorem oracle_loop_accepted k noises :
    NoDup cs -> Forall (fun i => (i < n)%nat) cs -> (k <= length cs)%nat -> noises_ok n k noises ->
    psteps_ok SelMax cs [] n (oracle_loop n cs score k noises) = true /\
    length (oracle_loop n cs score k noises) = k.
  Proof.
    intros Hnd Hlt Hk Hn. unfold oracle_loop.
    apply (sel_loop_steps (list nat) (ol_row n cs score) (fun prev p => prev ++ [p]) cs n
             (fun s prev => s = prev) Hnd Hlt).
    - intros s prev ->. destruct (Hscore prev) as [Hl Hs].
      assert (Hlt' : Forall (fun i => (i < length (repeat (@None Z) n))%nat) cs) by (rewrite repeat_length; exact Hlt).
      split.
      + unfold ol_row. rewrite <- (repeat_length (@None Z) n) at 2.
        rewrite <- (scatter_length cs (score prev) (repeat None n)).
        generalize (scatter cs (score prev) (repeat None n)). clear.
        induction prev as [|p t IH]; intros u; cbn [mask_all]; [reflexivity|]. rewrite IH, set_nan_length. reflexivity.
      + intros j _. unfold ol_row. rewrite mask_all_nth. fold (memb j prev).
        destruct (memb j prev); [rewrite orb_true_r; reflexivity|]. rewrite orb_false_r.
        rewrite scatter_is_nan by assumption. rewrite nth_repeat_None. destruct (memb j cs); reflexivity.
    - intros s prev p -> _ _. reflexivity.
    - reflexivity.
    - constructor.
    - intros x [].
    - cbn [length]. lia.
    - exact Hn.
  Qed.
End OracleLoopProof.

(* a NaN score row makes the loop repeat a pick (FourDs: diversity = 0/0 when all densities agree):
   the hypothesis `Forall nonnan` of the theorem is necessary *)
Example oracle_loop_nan_refuted :
  let score := fun prev : list nat => match prev with [] => [Some 1; Some 2; Some 3] | _ => [None; None; None] end in
  map fst (oracle_loop 3 [0; 1; 2]%nat score 3 [[1; 1; 1]; [1; 1; 1]; [1; 1; 1]]) = [2; 0; 0]%nat.
Proof. vm_compute. reflexivity. Qed.

(* =====================================================================================
   _greedy_sampling: compacted candidates
   ===================================================================================== *)
Fixpoint cnoises_ok (r k : nat) (noises : list (list Z)) : Prop :=
  match k with
  | O => True
  | S k' => match noises with
            | [] => False
            | nz :: rest => noise_ok r nz /\ cnoises_ok (r - 1) k' rest
            end
  end.

Lemma remove_nth_length {A} (l : list A) : forall i, (i < length l)%nat -> length (remove_nth i l) = (length l - 1)%nat.
Proof.
  induction l as [|x t IH]; intros i Hi; [cbn in Hi; lia|].
  destruct i as [|i]; cbn [remove_nth length]; [lia|]. cbn in Hi. rewrite IH by lia. lia.
Qed.

Lemma remove_nth_in (l : list nat) : forall i q, NoDup l -> (i < length l)%nat ->
  (In q (remove_nth i l) <-> In q l /\ q <> nth i l O).
Proof.
  induction l as [|x t IH]; intros i q Hnd Hi; [cbn in Hi; lia|].
  inversion Hnd as [|? ? Hx Hnd']; subst.
  destruct i as [|i]; cbn [remove_nth nth].
  - split.
    + intros H. split; [right; exact H|]. intros ->. contradiction.
    + intros [[->|H] Hne]; [contradiction|exact H].
  - cbn in Hi. assert (Hi' : (i < length t)%nat) by lia. specialize (IH i q Hnd' Hi').
    split.
    + intros [->|H].
      * split; [left; reflexivity|]. intros E. apply Hx. rewrite E. apply nth_In. exact Hi'.
      * apply IH in H. destruct H as [H1 H2]. split; [right; exact H1|exact H2].
    + intros [[->|H] Hne]; [left; reflexivity|]. right. apply IH. split; assumption.
Qed.

Lemma remove_nth_nodup (l : list nat) : forall i, NoDup l -> NoDup (remove_nth i l).
Proof.
  induction l as [|x t IH]; intros i Hnd; [destruct i; constructor|].
  inversion Hnd as [|? ? Hx Hnd']; subst.
  destruct i as [|i]; cbn [remove_nth]; [exact Hnd'|].
  constructor; [|apply IH; exact Hnd'].
  intros Hin. apply Hx. clear -Hin. revert i Hin. induction t as [|y t IH]; intros i Hin; [destruct i; destruct Hin|].
  destruct i as [|i]; cbn [remove_nth] in Hin; [right; exact Hin|].
  destruct Hin as [->|Hin]; [left; reflexivity|right; apply (IH i); exact Hin].
Qed.

Section CompactProof.
  Variable m : nat.
  Variable score : list nat -> list nat -> list val.
  Variable cs : list nat.
  Hypothesis Hscore : forall picked remaining,
    length (score picked remaining) = length remaining /\ Forall nonnan (score picked remaining).

  Theorem compact_loop_steps : forall k picked remaining noises,
    NoDup remaining -> Forall (fun i => (i < m)%nat) remaining ->
    (forall q, In q remaining <-> In q cs /\ ~ In q picked) ->
    (k <= length remaining)%nat -> cnoises_ok (length remaining) k noises ->
    psteps_ok SelMax cs picked m (compact_loop m score k picked remaining noises) = true /\
    length (compact_loop m score k picked remaining noises) = k.
  Proof.
    induction k as [|k IH]; intros picked remaining noises Hnd Hlt Hmem Hk Hn.
    - destruct noises; cbn; split; reflexivity.
    - destruct noises as [|nz rest]; [cbn in Hn; contradiction|]. cbn [cnoises_ok] in Hn. destruct Hn as [Hnz Hrest].
      cbn [compact_loop]. set (util := score picked remaining). set (i := rand_argmax util nz).
      destruct (Hscore picked remaining) as [Hul Hus]. fold util in Hul, Hus.
      assert (Hpos : (0 < count_nonnan util)%nat).
      { destruct util as [|u0 ut] eqn:Eu; [cbn in Hul; lia|]. inversion Hus as [|? ? Hu0 _]; subst.
        rewrite count_nonnan_cons. unfold nonnan in Hu0. rewrite Hu0. lia. }
      destruct (count_nonnan_pos_nanmax util Hpos) as [v Hv].
      assert (Hnz' : noise_ok (length util) nz) by (rewrite Hul; exact Hnz).
      destruct (rand_argmax_optimal util nz v Hnz' Hv) as [Hi Hiv]. fold i in Hi, Hiv.
      set (p := nth i remaining O).
      assert (Hir : (i < length remaining)%nat) by lia.
      assert (Hp_in : In p remaining) by (apply nth_In; exact Hir).
      destruct (scatter_nanmax remaining util m v i Hnd Hul Hlt Hv Hiv Hi) as [Hrow_p Hrow_max].
      fold p in Hrow_p. set (row := scatter remaining util (repeat None m)) in *.
      assert (Hpm : (p < m)%nat) by (rewrite Forall_forall in Hlt; apply Hlt; exact Hp_in).
      assert (Hlt' : Forall (fun j => (j < length (repeat (@None Z) m))%nat) remaining) by (rewrite repeat_length; exact Hlt).
      specialize (IH (picked ++ [p]) (remove_nth i remaining) rest).
      destruct IH as [IH1 IH2].
      + apply remove_nth_nodup. exact Hnd.
      + rewrite Forall_forall in *. intros q Hq. apply remove_nth_in in Hq; [|exact Hnd|exact Hir]. apply Hlt. tauto.
      + intros q. rewrite remove_nth_in by assumption. fold p. rewrite Hmem. rewrite in_app_iff. cbn [In].
        split; [intros [[H1 H2] H3]; split; [exact H1|]; intros [H|[H|[]]]; [contradiction|congruence]
               |intros [H1 H2]; split; [split; [exact H1|tauto]|intros ->; apply H2; right; left; reflexivity]].
      + rewrite remove_nth_length by exact Hir. lia.
      + rewrite remove_nth_length by exact Hir. exact Hrest.
      + split; [|cbn [length]; rewrite IH2; reflexivity].
        cbn [psteps_ok fst]. apply andb_true_intro. split; [|exact IH1].
        unfold pstep_ok. fold row. rewrite Hrow_p, Hrow_max.
        assert (Hlen : length row = m) by (unfold row; rewrite scatter_length, repeat_length; reflexivity).
        rewrite (proj2 (Nat.eqb_eq _ _) Hlen), (proj2 (Nat.ltb_lt _ _) Hpm). cbn [andb].
        rewrite nan_pattern_intro.
        * cbn. apply Z.eqb_refl.
        * intros j _. cbn [Nat.add]. unfold row. rewrite scatter_is_nan by assumption. rewrite nth_repeat_None.
          destruct (memb j remaining) eqn:Ej.
          -- apply memb_In in Ej. apply Hmem in Ej. destruct Ej as [E1 E2].
             apply memb_In in E1. apply memb_false in E2. rewrite E1, E2. reflexivity.
          -- cbn [is_nan]. apply memb_false in Ej.
             destruct (memb j cs) eqn:Ec; [|reflexivity]. destruct (memb j picked) eqn:Ep; [reflexivity|].
             exfalso. apply Ej. apply Hmem. split; [apply memb_In; exact Ec|apply memb_false; exact Ep].
  Qed.
End CompactProof.

Lemma gsx_score_ok d n_samples labeled cidx picked remaining :
  length (gsx_score d n_samples labeled cidx picked remaining) = length remaining /\
  Forall nonnan (gsx_score d n_samples labeled cidx picked remaining).
Proof.
  unfold gsx_score. split; [apply map_length|].
  rewrite Forall_forall. intros x Hx. apply in_map_iff in Hx. destruct Hx as [c [<- _]].
  destruct (labeled ++ map cidx picked); reflexivity.
Qed.

Lemma cnoises_ok_seq_lt m : Forall (fun i => (i < m)%nat) (seq 0 m).
Proof. rewrite Forall_forall. intros x Hx. apply in_seq in Hx. lia. Qed.

(* GreedySamplingX, candidate space: for every distance oracle *)
Theorem gsx_accepted d n_samples labeled cidx m k noises :
  (k <= m)%nat -> cnoises_ok m k noises ->
  psteps_ok SelMax (seq 0 m) [] m (gsx_loop d n_samples labeled cidx m k noises) = true /\
  length (gsx_loop d n_samples labeled cidx m k noises) = k.
Proof.
  intros Hk Hn. unfold gsx_loop.
  apply (compact_loop_steps m (gsx_score d n_samples labeled cidx) (seq 0 m)).
  - intros. apply gsx_score_ok.
  - apply seq_NoDup.
  - apply cnoises_ok_seq_lt.
  - intros q. tauto.
  - rewrite seq_length. exact Hk.
  - rewrite seq_length. exact Hn.
Qed.

(* =====================================================================================
   candidate space -> sample space (utilities[:, mapping] = utilities_cand; mapping[query_indices_cand])
   ===================================================================================== *)
Lemma is_nan_eq_iff (a : val) (b : bool) : (a = None <-> b = true) -> is_nan a = b.
Proof. destruct a, b; cbn; intros [H1 H2]; try reflexivity; [specialize (H2 eq_refl); discriminate|specialize (H1 eq_refl); discriminate]. Qed.

Theorem remap_accepted n mapping :
  NoDup mapping -> Forall (fun i => (i < n)%nat) mapping ->
  forall t prev,
  Forall (fun p => (p < length mapping)%nat) prev ->
  psteps_ok SelMax (seq 0 (length mapping)) prev (length mapping) t = true ->
  psteps_ok SelMax mapping (map (fun p => nth p mapping O) prev) n (remap n mapping t) = true.
Proof.
  intros Hnd Hlt. set (m := length mapping).
  assert (Hlt' : Forall (fun j => (j < length (repeat (@None Z) n))%nat) mapping) by (rewrite repeat_length; exact Hlt).
  induction t as [|[p row] rest IH]; intros prev Hprev H; [reflexivity|].
  cbn [psteps_ok] in H. apply andb_prop in H. destruct H as [H1 H2].
  apply step_ok_spec in H1. destruct H1 as [Hlen [Hp [Hpat [v [Hpv Hmax]]]]].
  cbn [remap map psteps_ok fst snd]. apply andb_true_intro. split.
  - destruct (scatter_nanmax mapping row n v p Hnd Hlen Hlt Hmax Hpv ltac:(lia)) as [Hq Hqmax].
    set (srow := scatter mapping row (repeat None n)) in *.
    unfold pstep_ok. rewrite Hq, Hqmax.
    assert (Hsl : length srow = n) by (unfold srow; rewrite scatter_length, repeat_length; reflexivity).
    assert (Hpn : (nth p mapping O < n)%nat) by (rewrite Forall_forall in Hlt; apply Hlt; apply nth_In; exact Hp).
    rewrite (proj2 (Nat.eqb_eq _ _) Hsl), (proj2 (Nat.ltb_lt _ _) Hpn). cbn [andb].
    rewrite nan_pattern_intro; [cbn; apply Z.eqb_refl|].
    intros j _. cbn [Nat.add]. subst srow. rewrite scatter_nth by assumption.
    destruct (index_of j mapping) as [i|] eqn:Ei.
    + destruct (index_of_some _ _ _ Ei) as [Him Hij]. fold m in Him.
      assert (Hjm : memb j mapping = true) by (apply memb_In; rewrite <- Hij; apply nth_In; exact Him).
      rewrite Hjm. cbn [negb orb]. apply is_nan_eq_iff. rewrite (Hpat i Him). split.
      * intros [Hc|Hin]; [exfalso; apply Hc; apply in_seq; lia|].
        apply memb_In. apply in_map_iff. exists i. split; [exact Hij|exact Hin].
      * intros Hm. right. apply memb_In in Hm. apply in_map_iff in Hm. destruct Hm as [p' [Hp' Hin]].
        rewrite Forall_forall in Hprev. pose proof (Hprev p' Hin) as Hp'm.
        assert (p' = i); [|subst; exact Hin].
        apply (proj1 (NoDup_nth mapping O) Hnd); [exact Hp'm|exact Him|congruence].
    + rewrite nth_repeat_None. cbn [is_nan].
      destruct (memb j mapping) eqn:Em; [|reflexivity].
      apply memb_In in Em. destruct (index_of_In j mapping Em) as [i Hi]. congruence.
  - specialize (IH (prev ++ [p])). rewrite map_app in IH. cbn [map] in IH. apply IH; [|exact H2].
    apply Forall_app. split; [exact Hprev|constructor; [exact Hp|constructor]].
Qed.

(* GreedySamplingX as returned for candidates = None / indices: for every distance oracle *)
Theorem gsx_remapped_accepted d n_samples labeled cidx n mapping k noises :
  NoDup mapping -> Forall (fun i => (i < n)%nat) mapping -> (k <= length mapping)%nat ->
  cnoises_ok (length mapping) k noises ->
  let t := remap n mapping (gsx_loop d n_samples labeled cidx (length mapping) k noises) in
  psteps_ok SelMax mapping [] n t = true /\ length t = k.
Proof.
  intros Hnd Hlt Hk Hn t.
  destruct (gsx_accepted d n_samples labeled cidx (length mapping) k noises Hk Hn) as [Hs Hl].
  split; [|unfold t, remap; rewrite map_length; exact Hl].
  exact (remap_accepted n mapping Hnd Hlt _ [] (Forall_nil _) Hs).
Qed.

(* ---------- user-level corollaries for the oracle / compacted loops ---------- *)
Theorem oracle_loop_valid_batch (n : nat) (cs : list nat) (score : list nat -> list val) (k : nat) (noises : list (list Z)) :
  (forall prev, length (score prev) = length cs /\ Forall (fun v => is_nan v = false) (score prev)) ->
  NoDup cs -> Forall (fun i => (i < n)%nat) cs -> (k <= length cs)%nat -> noises_ok n k noises ->
  let picks := map fst (oracle_loop n cs score k noises) in
  length picks = k /\ NoDup picks /\ Forall (fun p => In p cs) picks.
Proof.
  intros Hs Hnd Hlt Hk Hn picks.
  destruct (oracle_loop_accepted n cs score Hs k noises Hnd Hlt Hk Hn) as [H Hl].
  unfold picks. rewrite map_length. split; [exact Hl|]. exact (steps_valid_batch cs n _ H).
Qed.

Theorem oracle_loop_rows (n : nat) (cs : list nat) (score : list nat -> list val) (k : nat) (noises : list (list Z)) :
  (forall prev, length (score prev) = length cs /\ Forall (fun v => is_nan v = false) (score prev)) ->
  NoDup cs -> Forall (fun i => (i < n)%nat) cs -> (k <= length cs)%nat -> noises_ok n k noises ->
  let t := oracle_loop n cs score k noises in
  forall i s, nth_error t i = Some s -> step_spec SelMax cs (firstn i (map fst t)) n s.
Proof.
  intros Hs Hnd Hlt Hk Hn t i s Hi.
  destruct (oracle_loop_accepted n cs score Hs k noises Hnd Hlt Hk Hn) as [H _].
  exact (steps_ok_spec SelMax cs n t [] H i s Hi).
Qed.

Theorem gsx_valid_batch d n_samples labeled cidx n mapping k noises :
  NoDup mapping -> Forall (fun i => (i < n)%nat) mapping -> (k <= length mapping)%nat ->
  cnoises_ok (length mapping) k noises ->
  let picks := map fst (remap n mapping (gsx_loop d n_samples labeled cidx (length mapping) k noises)) in
  length picks = k /\ NoDup picks /\ Forall (fun p => In p mapping) picks.
Proof.
  intros Hnd Hlt Hk Hn picks.
  destruct (gsx_remapped_accepted d n_samples labeled cidx n mapping k noises Hnd Hlt Hk Hn) as [H Hl].
  unfold picks. rewrite map_length. split; [exact Hl|]. exact (steps_valid_batch mapping n _ H).
Qed.

Theorem gsx_rows d n_samples labeled cidx n mapping k noises :
  NoDup mapping -> Forall (fun i => (i < n)%nat) mapping -> (k <= length mapping)%nat ->
  cnoises_ok (length mapping) k noises ->
  let t := remap n mapping (gsx_loop d n_samples labeled cidx (length mapping) k noises) in
  forall i s, nth_error t i = Some s -> step_spec SelMax mapping (firstn i (map fst t)) n s.
Proof.
  intros Hnd Hlt Hk Hn t i s Hi.
  destruct (gsx_remapped_accepted d n_samples labeled cidx n mapping k noises Hnd Hlt Hk Hn) as [H _].
  exact (steps_ok_spec SelMax mapping n t [] H i s Hi).
Qed.

(* any candidate-space trace with the documented rows stays valid after the remapping *)
Theorem remap_valid_batch n mapping t :
  NoDup mapping -> Forall (fun i => (i < n)%nat) mapping ->
  psteps_ok SelMax (seq 0 (length mapping)) [] (length mapping) t = true ->
  psteps_ok SelMax mapping [] n (remap n mapping t) = true /\
  NoDup (map fst (remap n mapping t)) /\ Forall (fun p => In p mapping) (map fst (remap n mapping t)).
Proof.
  intros Hnd Hlt H. pose proof (remap_accepted n mapping Hnd Hlt t [] (Forall_nil _) H) as H'.
  split; [exact H'|]. exact (steps_valid_batch mapping n _ H').
Qed.

(* =====================================================================================
   TypiClust as written: the recorded findings are theorems about the model
   ===================================================================================== *)
(* 4 samples, sample 0 labeled (its cluster 0 is covered), candidates 1,2,3 all in cluster 1:
   after the first pick every cluster is covered, typicality is all ones and the unmasked
   rand_argmax returns an earlier pick again *)
Example typiclust_duplicates_refuted :
  exists picks, option_map (map fst)
    (typiclust 4 [1; 2; 3]%nat [0; 1; 1; 1]%nat (fun c j => 5) 1 (-1) 2 [0; 3] [1; 1; 9; 1; 1; 9; 1; 1; 9; 1; 1]) = Some picks
  /\ ~ NoDup picks.
Proof.
  eexists. split; [vm_compute; reflexivity|].
  intros H. inversion H as [|? ? Hn _]; subst. apply Hn. left. reflexivity.
Qed.

(* every cluster covered from the start: `cluster_sizes[cluster_id] = 0` has no cluster_id *)
Example typiclust_unbound_refuted :
  typiclust 3 [1; 2]%nat [0; 0; 0]%nat (fun c j => 5) 1 (-1) 1 [0; 0] [1; 1; 1; 1] = None.
Proof. vm_compute. reflexivity. Qed.

(* =====================================================================================
   sampling loops (Badge, Falcun): zeroed earlier picks + fallback to ones
   ===================================================================================== *)
Lemma zero_at_length l idx : length (zero_at l idx) = length l.
Proof. unfold zero_at. rewrite map_length, combine_length, seq_length. lia. Qed.

Lemma nth_map_default {A B} (f : A -> B) (l : list A) : forall j d d', (j < length l)%nat -> nth j (map f l) d' = f (nth j l d).
Proof. induction l as [|x t IH]; intros [|j] d d' H; cbn in *; try lia; [reflexivity|apply IH; lia]. Qed.

Lemma zero_at_nth l idx j : (j < length l)%nat ->
  nth j (zero_at l idx) 0 = if memb j idx then 0 else nth j l 0.
Proof.
  intros Hj. unfold zero_at.
  rewrite (nth_map_default _ _ j (O, 0)) by (rewrite combine_length, seq_length; lia).
  rewrite combine_nth by (rewrite seq_length; reflexivity).
  rewrite seq_nth by exact Hj. cbn [fst snd Nat.add]. reflexivity.
Qed.

Lemma sweights_length raw prev : length (sweights raw prev) = length raw.
Proof.
  unfold sweights. destruct (forallb _ _); rewrite zero_at_length; [apply repeat_length|reflexivity].
Qed.

Lemma sweights_prev_zero raw prev j : (j < length raw)%nat -> memb j prev = true -> nth j (sweights raw prev) 0 = 0.
Proof.
  intros Hj Hm. unfold sweights. destruct (forallb _ _).
  - rewrite zero_at_nth by (rewrite repeat_length; exact Hj). rewrite Hm. reflexivity.
  - rewrite zero_at_nth by exact Hj. rewrite Hm. reflexivity.
Qed.

Lemma nth_repeat_lt {A} (x d : A) n : forall j, (j < n)%nat -> nth j (repeat x n) d = x.
Proof. induction n as [|n IH]; intros [|j] H; cbn; try lia; [reflexivity|apply IH; lia]. Qed.

(* something can always be drawn while a candidate is left: choice never faces an all-zero vector *)
Theorem sweights_available raw prev j :
  Forall (fun v => 0 <= v) raw -> (j < length raw)%nat -> memb j prev = false ->
  exists i, (i < length raw)%nat /\ 0 < nth i (sweights raw prev) 0.
Proof.
  intros Hnn Hj Hm. unfold sweights. destruct (forallb (Z.eqb 0) (zero_at raw prev)) eqn:E.
  - exists j. split; [exact Hj|]. rewrite zero_at_nth by (rewrite repeat_length; exact Hj). rewrite Hm.
    rewrite nth_repeat_lt by exact Hj. lia.
  - assert (H : exists i, (i < length (zero_at raw prev))%nat /\ nth i (zero_at raw prev) 0 <> 0).
    { generalize (zero_at raw prev) E. clear. intros l. induction l as [|x t IH]; intros E; [discriminate|].
      cbn [forallb] in E. destruct (0 =? x) eqn:Ex.
      - cbn in E. destruct (IH E) as [i [Hi Hv]]. exists (S i). split; [cbn; lia|exact Hv].
      - exists O. split; [cbn; lia|]. cbn. apply Z.eqb_neq in Ex. lia. }
    destruct H as [i [Hi Hv]]. rewrite zero_at_length in Hi. exists i. split; [exact Hi|].
    rewrite zero_at_nth in * by exact Hi. destruct (memb i prev); [congruence|].
    rewrite Forall_forall in Hnn. assert (0 <= nth i raw 0) by (apply Hnn, nth_In; exact Hi). lia.
Qed.

Lemma srow_length raw prev : length (srow raw prev) = length raw.
Proof. unfold srow. rewrite map_length, combine_length, seq_length, sweights_length. lia. Qed.

Lemma srow_nth raw prev j : (j < length raw)%nat ->
  nth j (srow raw prev) None = if memb j prev then None else Some (nth j (sweights raw prev) 0).
Proof.
  intros Hj. unfold srow.
  rewrite (nth_map_default _ _ j (O, 0)) by (rewrite combine_length, seq_length, sweights_length; lia).
  rewrite combine_nth by (rewrite seq_length, sweights_length; reflexivity).
  rewrite seq_nth by exact Hj. cbn [fst snd Nat.add]. reflexivity.
Qed.

Lemma memb_seq j m : memb j (seq 0 m) = (j <? m)%nat.
Proof.
  destruct (j <? m)%nat eqn:E.
  - apply memb_In. apply in_seq. apply Nat.ltb_lt in E. lia.
  - apply memb_false. intros H. apply in_seq in H. apply Nat.ltb_ge in E. lia.
Qed.

Theorem sampling_trace_accepted m : forall raws picks prev,
  Forall (fun r => length r = m) raws ->
  contract_ok raws picks prev = true ->
  psteps_ok SelSampling (seq 0 m) prev m (sampling_trace raws picks prev) = true.
Proof.
  induction raws as [|r rt IH]; intros picks prev Hlen Hc; [destruct picks; reflexivity|].
  destruct picks as [|p pt]; [cbn in Hc; discriminate|].
  inversion Hlen as [|? ? Hr Hrt]; subst.
  cbn [contract_ok] in Hc. apply andb_prop in Hc. destruct Hc as [Hp Hc].
  cbn [sampling_trace psteps_ok fst]. apply andb_true_intro. split; [|apply IH; assumption].
  apply Z.ltb_lt in Hp.
  assert (Hpl : (p < length r)%nat).
  { destruct (Nat.lt_ge_cases p (length r)) as [L|G]; [exact L|].
    rewrite nth_overflow in Hp by (rewrite sweights_length; exact G). lia. }
  assert (Hpp : memb p prev = false).
  { destruct (memb p prev) eqn:E; [|reflexivity]. rewrite (sweights_prev_zero r prev p Hpl E) in Hp. lia. }
  unfold pstep_ok. rewrite srow_length, Nat.eqb_refl, (proj2 (Nat.ltb_lt _ _) Hpl). cbn [andb].
  rewrite srow_nth by exact Hpl. rewrite Hpp.
  rewrite nan_pattern_intro; [cbn [andb]; apply Z.ltb_lt; exact Hp|].
  intros j Hj. cbn [Nat.add]. rewrite srow_length in Hj. rewrite srow_nth by exact Hj.
  rewrite memb_seq, (proj2 (Nat.ltb_lt _ _) Hj). cbn [negb orb].
  destruct (memb j prev); reflexivity.
Qed.

(* user level: distinct candidates, each drawn with positive mass *)
Theorem sampling_valid_batch m raws picks :
  Forall (fun r => length r = m) raws -> contract_ok raws picks [] = true ->
  NoDup (map fst (sampling_trace raws picks [])) /\
  Forall (fun p => (p < m)%nat) (map fst (sampling_trace raws picks [])).
Proof.
  intros H1 H2. pose proof (sampling_trace_accepted m raws picks [] H1 H2) as H.
  destruct (steps_ok_picks SelSampling (seq 0 m) m _ [] H) as [HF HN]. split; [exact HN|].
  rewrite Forall_forall in *. intros p Hp. destruct (HF p Hp) as [Hin _]. apply in_seq in Hin. lia.
Qed.


(* =====================================================================================
   BatchBALD (greedy_selection=False), as written
   ===================================================================================== *)
Lemma noises_ok_repeat n k nz : noise_ok n nz -> noises_ok n k (repeat nz k).
Proof. intros H. split; [rewrite repeat_length; lia|]. apply Forall_forall. intros x Hx. apply repeat_spec in Hx. subst x. exact H. Qed.

(* the internal loop of batch_bald alone yields an accepted trace / a valid batch in candidate space *)
Theorem bald_internal_accepted (m : nat) (score : list nat -> list val) (k : nat) (noiseA : list Z) :
  (forall prev, length (score prev) = m /\ Forall nonnan (score prev)) -> (k <= m)%nat -> noise_ok m noiseA ->
  psteps_ok SelMax (seq 0 m) [] m (bald_internal m score k noiseA) = true /\ length (bald_internal m score k noiseA) = k.
Proof.
  intros Hs Hk Hn. unfold bald_internal. apply oracle_loop_accepted.
  - intros prev. rewrite seq_length. apply Hs.
  - apply seq_NoDup.
  - rewrite Forall_forall. intros i Hi. apply in_seq in Hi. lia.
  - rewrite seq_length. exact Hk.
  - apply noises_ok_repeat. exact Hn.
Qed.

(* a row with a unique maximiser: rand_argmax does not depend on the noise *)
Lemma rand_argmax_unique (a : list val) (noise : list Z) (v : Z) (j : nat) :
  noise_ok (length a) noise -> nanmax a = Some v ->
  (forall i, (i < length a)%nat -> nth i a None = Some v -> i = j) -> rand_argmax a noise = j.
Proof.
  intros Hn Hm Hu. destruct (rand_argmax_optimal a noise v Hn Hm) as [H1 H2]. apply Hu; assumption.
Qed.

(* one step of BatchBALD: the second tie-break (query, noise of the strategy's generator, sample space) selects the image of
   the first one (batch_bald, noise of RandomState(0), candidate space) whenever the row has a unique maximiser *)
Theorem bald_step_agrees (n : nat) (mapping : list nat) (r : list val) (nzA nzB : list Z) (v : Z) :
  NoDup mapping -> length r = length mapping -> Forall (fun j => (j < n)%nat) mapping ->
  noise_ok (length r) nzA -> noise_ok n nzB -> nanmax r = Some v ->
  let row := scatter mapping r (repeat None n) in
  (forall i j, (i < n)%nat -> (j < n)%nat -> nth i row None = Some v -> nth j row None = Some v -> i = j) ->
  rand_argmax row nzB = nth (rand_argmax r nzA) mapping O.
Proof.
  intros Hnd Hl Hlt HA HB Hm row Hu.
  destruct (rand_argmax_optimal r nzA v HA Hm) as [Hp Hpv].
  destruct (scatter_nanmax mapping r n v (rand_argmax r nzA) Hnd Hl Hlt Hm Hpv Hp) as [Hq Hrm]. fold row in Hq, Hrm.
  assert (Hlen : length row = n) by (unfold row; rewrite scatter_length, repeat_length; reflexivity).
  assert (Hin : (nth (rand_argmax r nzA) mapping O < n)%nat).
  { rewrite Forall_forall in Hlt. apply Hlt. apply nth_In. lia. }
  apply (rand_argmax_unique row nzB v); [rewrite Hlen; exact HB|exact Hrm|].
  intros i Hi Hiv. rewrite Hlen in Hi. apply (Hu i _ Hi Hin Hiv Hq).
Qed.

(* ... and does not otherwise: two tied candidates, the internal loop takes 1 then 0, query takes 0 twice *)
Example bald_two_tiebreaks_duplicate_refuted :
  let score := fun _ : list nat => [Some 5; Some 5] in
  let t := bald_trace 2 2 [0; 1]%nat score 2 [1; 2] [[2; 1]; [1; 1]] in
  map fst (bald_internal 2 score 2 [1; 2]) = [1; 0]%nat /\ map fst t = [0; 0]%nat /\
  psteps_ok SelMax [0; 1]%nat [] 2 t = false.
Proof. vm_compute. repeat split. Qed.


(* =====================================================================================
   RegressionTreeBasedAL (random / diversity), as written
   ===================================================================================== *)
(* whatever the tree, the quotas and the values are: the indices returned are pairwise distinct candidates and every row has the
   documented NaN pattern with an optimal pick - for as many steps as the schedule has (at most the number of candidates) *)
Theorem regtree_accepted (m : nat) (leaf_of : nat -> nat) (value : nat -> Z) (neg : Z) (sched : list nat) (noises : list (list Z)) :
  (length sched <= m)%nat -> noises_ok m (length sched) noises ->
  psteps_ok SelMax (seq 0 m) [] m (rt_loop m leaf_of value neg sched noises) = true /\
  length (rt_loop m leaf_of value neg sched noises) = length sched.
Proof.
  intros Hk Hn. unfold rt_loop.
  apply (sel_loop_steps rt_state (fun s => rt_row m leaf_of value neg (hd O (fst s)) (snd s)) (fun s p => (tl (fst s), snd s ++ [p]))
           (seq 0 m) m (fun s prev => snd s = prev)).
  - apply seq_NoDup.
  - rewrite Forall_forall. intros i Hi. apply in_seq in Hi. lia.
  - intros s prev E. split.
    + unfold rt_row. rewrite map_length, seq_length. reflexivity.
    + intros j Hj. unfold rt_row. rewrite nth_map_seq0 by exact Hj. rewrite E.
      assert (Hc : memb j (seq 0 m) = true) by (apply memb_In; apply in_seq; lia).
      rewrite Hc. cbn [negb orb]. destruct (memb j prev); [reflexivity|]. destruct (Nat.eqb (leaf_of j) (hd O (fst s))); reflexivity.
  - intros s prev p E _ _. cbn [snd]. rewrite E. reflexivity.
  - reflexivity.
  - constructor.
  - intros x [].
  - rewrite seq_length. cbn [length]. lia.
  - exact Hn.
Qed.

(* the number of indices returned is the length of the schedule, not batch_size: one candidate in leaf 0, quota 1 for leaf 0 and
   quota 1 for leaf 1 that holds no candidate -> the library's schedule is [0], one index is returned for batch_size 2; and a
   quota that exceeds the leaf's candidates makes the loop take a candidate of ANOTHER leaf whose utility is -inf *)
Example regtree_neg_inf_pick_refuted :
  let t := rt_loop 2 (fun j => j) (fun _ => 1) (-5) [0; 0]%nat [[1; 1]; [1; 1]] in
  map fst t = [0; 1]%nat /\ nth 1 (snd (nth 1 t (O, []))) None = Some (-5).
Proof. vm_compute. split; reflexivity. Qed.
