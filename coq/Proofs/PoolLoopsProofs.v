(* The hand-written selection loops return accepted traces (hence valid batches with the
   documented utility rows) for EVERY distance / edge oracle. *)
From Coq Require Import ZArith List Bool Lia Arith.
From V Require Import Base.OptOrder Model.Sel Model.PoolQuery Model.PoolLoops
  Proofs.SelProofs Proofs.PoolProofs Proofs.SkeletonProofs.
Import ListNotations.
Open Scope Z_scope.

(* a candidate that has not been picked yet exists while |prev| < |cs| *)
Lemma fresh_candidate (cs prev : list nat) :
  NoDup cs -> (length prev < length cs)%nat -> exists x, In x cs /\ ~ In x prev.
Proof.
  intros Hnd Hlen.
  destruct (forallb (fun x => memb x prev) cs) eqn:E.
  - exfalso. rewrite forallb_forall in E.
    assert (Hincl : incl cs prev) by (intros x Hx; apply memb_In; apply E; exact Hx).
    pose proof (NoDup_incl_length Hnd Hincl). lia.
  - assert (H : exists x, In x cs /\ memb x prev = false).
    { clear Hnd Hlen. induction cs as [|c t IH]; [discriminate|].
      cbn [forallb] in E. destruct (memb c prev) eqn:Ec.
      - cbn in E. destruct (IH E) as [x [Hx Hm]]. exists x. split; [right; exact Hx|exact Hm].
      - exists c. split; [left; reflexivity|exact Ec]. }
    destruct H as [x [Hx Hm]]. exists x. split; [exact Hx|apply memb_false; exact Hm].
Qed.

Lemma nth_In_nonnan (row : list val) j : (j < length row)%nat -> is_nan (nth j row None) = false ->
  (0 < count_nonnan row)%nat.
Proof.
  revert j. induction row as [|v t IH]; intros j Hj Hn; [cbn in Hj; lia|].
  rewrite count_nonnan_cons. destruct j as [|j]; cbn [nth] in Hn.
  - rewrite Hn. lia.
  - cbn in Hj. specialize (IH j ltac:(lia) Hn). lia.
Qed.

Lemma memb_single j q : memb j [q] = Nat.eqb j q.
Proof. unfold memb. cbn. apply orb_false_r. Qed.

Section GenProof.
  Variable St : Type.
  Variable row_of : St -> list val.
  Variable next : St -> nat -> St.
  Variable cs : list nat.
  Variable n : nat.
  Variable Inv : St -> list nat -> Prop.
  Hypothesis Hcs_nd : NoDup cs.
  Hypothesis Hcs_lt : Forall (fun i => (i < n)%nat) cs.
  Hypothesis Hrow : forall s prev, Inv s prev ->
    length (row_of s) = n /\
    forall j, (j < n)%nat -> is_nan (nth j (row_of s) None) = negb (memb j cs) || memb j prev.
  Hypothesis Hnext : forall s prev p, Inv s prev -> In p cs -> ~ In p prev -> Inv (next s p) (prev ++ [p]).

  Theorem sel_loop_steps : forall k s prev noises,
    Inv s prev -> NoDup prev -> incl prev cs -> (k + length prev <= length cs)%nat ->
    noises_ok n k noises ->
    psteps_ok SelMax cs prev n (sel_loop St row_of next k s noises) = true /\
    length (sel_loop St row_of next k s noises) = k.
  Proof.
    induction k as [|k IH]; intros s prev noises HI Hnd Hincl Hk Hn.
    - destruct noises; cbn; split; reflexivity.
    - destruct noises as [|nz rest]; [destruct Hn as [Hl _]; cbn in Hl; lia|].
      apply noises_ok_tail in Hn. destruct Hn as [Hnz Hrest].
      cbn [sel_loop]. set (row := row_of s). set (p := rand_argmax row nz).
      destruct (Hrow s prev HI) as [Hlen Hpat]. fold row in Hlen, Hpat.
      destruct (fresh_candidate cs prev Hcs_nd ltac:(lia)) as [x [Hx Hxp]].
      assert (Hxn : (x < n)%nat) by (rewrite Forall_forall in Hcs_lt; apply Hcs_lt; exact Hx).
      assert (Hxv : is_nan (nth x row None) = false).
      { rewrite Hpat by exact Hxn. apply memb_In in Hx. apply memb_false in Hxp. rewrite Hx, Hxp. reflexivity. }
      assert (Hpos : (0 < count_nonnan row)%nat) by (apply (nth_In_nonnan row x); [lia|exact Hxv]).
      destruct (count_nonnan_pos_nanmax row Hpos) as [m Hm].
      assert (Hnz' : noise_ok (length row) nz) by (rewrite Hlen; exact Hnz).
      destruct (rand_argmax_optimal row nz m Hnz' Hm) as [Hp Hpv]. fold p in Hp, Hpv.
      rewrite Hlen in Hp.
      assert (Hpnan : negb (memb p cs) || memb p prev = false).
      { rewrite <- Hpat by exact Hp. rewrite Hpv. reflexivity. }
      apply orb_false_iff in Hpnan. destruct Hpnan as [Hpc Hpp].
      apply negb_false_iff in Hpc. apply memb_In in Hpc. apply memb_false in Hpp.
      specialize (IH (next s p) (prev ++ [p]) rest (Hnext s prev p HI Hpc Hpp)).
      destruct IH as [IH1 IH2].
      + apply NoDup_app_intro; [exact Hnd|constructor; [intros []|constructor]|].
        intros y Hy [Hy'|[]]. subst y. contradiction.
      + intros y Hy. apply in_app_or in Hy. destruct Hy as [Hy|[Hy|[]]]; [apply Hincl; exact Hy|subst y; exact Hpc].
      + rewrite app_length. cbn [length]. lia.
      + exact Hrest.
      + split; [|cbn [length]; rewrite IH2; reflexivity].
        cbn [psteps_ok fst]. apply andb_true_intro. split; [|exact IH1].
        unfold pstep_ok. rewrite Hpv, Hm.
        rewrite (proj2 (Nat.eqb_eq _ _) Hlen), (proj2 (Nat.ltb_lt _ _) Hp). cbn [andb].
        rewrite nan_pattern_intro.
        * cbn. apply Z.eqb_refl.
        * intros j Hj. cbn [Nat.add]. apply Hpat. lia.
  Qed.
End GenProof.

(* ------------------------------------------------------------------ CoreSet *)
Lemma nth_map_seq0 {A} (f : nat -> A) n j d : (j < n)%nat -> nth j (map f (seq 0 n)) d = f j.
Proof. intros H. apply nth_map_seq. exact H. Qed.

Section CoreSetProof.
  Variable d : nat -> nat -> Z.
  Variable w : nat.
  Variable mapping centers0 : list nat.
  Hypothesis Hdisj : forall j, In j mapping -> ~ In j centers0.   (* candidates are unlabeled *)

  Definition cs_inv (row : list val) (prev : list nat) : Prop :=
    length row = w /\
    forall j, (j < w)%nat -> is_nan (nth j row None) = negb (memb j mapping) || memb j prev.

  Lemma cs_row0_inv : cs_inv (cs_row0 d w mapping centers0) [].
  Proof.
    split; [unfold cs_row0; rewrite map_length, seq_length; reflexivity|].
    intros j Hj. unfold cs_row0. rewrite nth_map_seq0 by exact Hj.
    destruct (memb j mapping) eqn:Em; cbn [andb negb orb]; [|reflexivity].
    assert (Hc : memb j centers0 = false) by (apply memb_false; apply Hdisj; apply memb_In; exact Em).
    rewrite Hc. reflexivity.
  Qed.

  Lemma cs_next_inv row prev q : cs_inv row prev -> cs_inv (cs_row_next d w mapping row q) (prev ++ [q]).
  Proof.
    intros [Hl Hp]. split; [unfold cs_row_next; rewrite map_length, seq_length; reflexivity|].
    intros j Hj. unfold cs_row_next. rewrite nth_map_seq0 by exact Hj.
    rewrite memb_app, memb_single.
    specialize (Hp j Hj).
    destruct (memb j mapping) eqn:Em; cbn [andb negb orb] in *; [|reflexivity].
    destruct (Nat.eqb j q) eqn:Eq; cbn [negb].
    - rewrite orb_true_r. reflexivity.
    - rewrite orb_false_r. destruct (nth j row None) as [l|]; cbn [is_nan] in *.
      + rewrite <- Hp. destruct (all_zero row && (l =? 0)); reflexivity.
      + rewrite <- Hp. reflexivity.
  Qed.

  Theorem coreset_accepted k noises :
    NoDup mapping -> Forall (fun i => (i < w)%nat) mapping -> (k <= length mapping)%nat ->
    noises_ok w k noises ->
    psteps_ok SelMax mapping [] w (coreset_loop d w mapping centers0 k noises) = true /\
    length (coreset_loop d w mapping centers0 k noises) = k.
  Proof.
    intros Hnd Hlt Hk Hn. unfold coreset_loop.
    apply (sel_loop_steps (list val) (fun r => r) (cs_row_next d w mapping) mapping w cs_inv Hnd Hlt).
    - intros s prev HI. exact HI.
    - intros s prev p HI _ _. apply cs_next_inv. exact HI.
    - apply cs_row0_inv.
    - constructor.
    - intros x [].
    - cbn [length]. lia.
    - exact Hn.
  Qed.
End CoreSetProof.

(* ---------------------------------------------------------------- ProbCover *)
Lemma set_false_length l : forall i, length (set_false l i) = length l.
Proof. induction l as [|x t IH]; intros [|i]; cbn; try reflexivity. rewrite IH. reflexivity. Qed.

Lemma set_false_nth l : forall i j, nth j (set_false l i) false = if Nat.eqb j i then false else nth j l false.
Proof.
  induction l as [|x t IH]; intros i j.
  - destruct i, j; cbn; try reflexivity; destruct (Nat.eqb _ _); reflexivity.
  - destruct i as [|i], j as [|j]; cbn; try reflexivity. apply IH.
Qed.

Section ProbCoverProof.
  Variable cs : list nat.
  Variable n : nat.

  Definition pc_inv (st : pc_state) (prev : list nat) : Prop :=
    length (snd st) = n /\
    forall j, (j < n)%nat -> nth j (snd st) false = memb j cs && negb (memb j prev).

  Lemma pc_row_spec st prev : pc_inv st prev ->
    length (pc_row st) = n /\
    forall j, (j < n)%nat -> is_nan (nth j (pc_row st) None) = negb (memb j cs) || memb j prev.
  Proof.
    intros [Hl Hc]. unfold pc_row. rewrite map_length, seq_length. split; [exact Hl|].
    intros j Hj. rewrite Hl. rewrite nth_map_seq0 by exact Hj. rewrite (Hc j Hj).
    destruct (memb j cs), (memb j prev); reflexivity.
  Qed.

  Lemma pc_next_inv st prev p : pc_inv st prev -> pc_inv (pc_next st p) (prev ++ [p]).
  Proof.
    intros [Hl Hc]. unfold pc_next, pc_inv. cbn [snd]. rewrite set_false_length. split; [exact Hl|].
    intros j Hj. rewrite set_false_nth, memb_app, memb_single.
    rewrite (Hc j Hj). destruct (Nat.eqb j p); [rewrite orb_true_r, andb_false_r; reflexivity|].
    rewrite orb_false_r. reflexivity.
  Qed.

  Theorem probcover_accepted edges is_cand k noises :
    NoDup cs -> Forall (fun i => (i < n)%nat) cs -> (k <= length cs)%nat ->
    length is_cand = n -> (forall j, (j < n)%nat -> nth j is_cand false = memb j cs) ->
    noises_ok n k noises ->
    psteps_ok SelMax cs [] n (probcover_loop edges is_cand k noises) = true /\
    length (probcover_loop edges is_cand k noises) = k.
  Proof.
    intros Hnd Hlt Hk Hl Hc Hn. unfold probcover_loop.
    apply (sel_loop_steps pc_state pc_row pc_next cs n pc_inv Hnd Hlt).
    - intros s prev HI. apply pc_row_spec. exact HI.
    - intros s prev p HI _ _. apply pc_next_inv. exact HI.
    - split; [exact Hl|]. intros j Hj. cbn [snd]. rewrite (Hc j Hj). unfold memb at 2. cbn. rewrite andb_true_r. reflexivity.
    - constructor.
    - intros x [].
    - cbn [length]. lia.
    - exact Hn.
  Qed.
End ProbCoverProof.

(* ---------- user-level corollaries: valid batches ---------- *)
Lemma steps_valid_batch cs n t : psteps_ok SelMax cs [] n t = true ->
  NoDup (map fst t) /\ Forall (fun p => In p cs) (map fst t).
Proof.
  intros H. destruct (steps_ok_picks SelMax cs n t [] H) as [HF HN]. split; [exact HN|].
  rewrite Forall_forall in *. intros p Hp. destruct (HF p Hp) as [Hc _]. exact Hc.
Qed.

Theorem coreset_valid_batch (d : nat -> nat -> Z) (w : nat) (mapping centers0 : list nat) (k : nat) (noises : list (list Z)) :
  (forall j, In j mapping -> ~ In j centers0) ->
  NoDup mapping -> Forall (fun i => (i < w)%nat) mapping -> (k <= length mapping)%nat -> noises_ok w k noises ->
  let picks := map fst (coreset_loop d w mapping centers0 k noises) in
  length picks = k /\ NoDup picks /\ Forall (fun p => In p mapping) picks.
Proof.
  intros Hd Hnd Hlt Hk Hn picks.
  destruct (coreset_accepted d w mapping centers0 Hd k noises Hnd Hlt Hk Hn) as [Hs Hl].
  unfold picks. rewrite map_length. split; [exact Hl|]. exact (steps_valid_batch mapping w _ Hs).
Qed.

Theorem probcover_valid_batch (cs : list nat) (n : nat) (edges : list (list bool)) (is_cand : list bool) (k : nat) (noises : list (list Z)) :
  NoDup cs -> Forall (fun i => (i < n)%nat) cs -> (k <= length cs)%nat ->
  length is_cand = n -> (forall j, (j < n)%nat -> nth j is_cand false = memb j cs) -> noises_ok n k noises ->
  let picks := map fst (probcover_loop edges is_cand k noises) in
  length picks = k /\ NoDup picks /\ Forall (fun p => In p cs) picks.
Proof.
  intros Hnd Hlt Hk Hl Hc Hn picks.
  destruct (probcover_accepted cs n edges is_cand k noises Hnd Hlt Hk Hl Hc Hn) as [Hs Hlen].
  unfold picks. rewrite map_length. split; [exact Hlen|]. exact (steps_valid_batch cs n _ Hs).
Qed.

(* ---------- user-level corollaries: utility rows (C02) ---------- *)
Theorem coreset_rows (d : nat -> nat -> Z) (w : nat) (mapping centers0 : list nat) (k : nat) (noises : list (list Z)) :
  (forall j, In j mapping -> ~ In j centers0) ->
  NoDup mapping -> Forall (fun i => (i < w)%nat) mapping -> (k <= length mapping)%nat -> noises_ok w k noises ->
  let t := coreset_loop d w mapping centers0 k noises in
  forall i s, nth_error t i = Some s -> step_spec SelMax mapping (firstn i (map fst t)) w s.
Proof.
  intros Hd Hnd Hlt Hk Hn t i s Hi.
  destruct (coreset_accepted d w mapping centers0 Hd k noises Hnd Hlt Hk Hn) as [Hs _].
  exact (steps_ok_spec SelMax mapping w t [] Hs i s Hi).
Qed.

Theorem probcover_rows (cs : list nat) (n : nat) (edges : list (list bool)) (is_cand : list bool) (k : nat) (noises : list (list Z)) :
  NoDup cs -> Forall (fun i => (i < n)%nat) cs -> (k <= length cs)%nat ->
  length is_cand = n -> (forall j, (j < n)%nat -> nth j is_cand false = memb j cs) -> noises_ok n k noises ->
  let t := probcover_loop edges is_cand k noises in
  forall i s, nth_error t i = Some s -> step_spec SelMax cs (firstn i (map fst t)) n s.
Proof.
  intros Hnd Hlt Hk Hl Hc Hn t i s Hi.
  destruct (probcover_accepted cs n edges is_cand k noises Hnd Hlt Hk Hl Hc Hn) as [Hs _].
  exact (steps_ok_spec SelMax cs n t [] Hs i s Hi).
Qed.
