From Coq Require Import ZArith QArith List Bool Lia Arith.
From V Require Import Base.OptOrder Model.Sel Model.Aggregation Proofs.SelProofs.
Import ListNotations.
Open Scope Z_scope.

Definition row_wf (K : nat) (row : list (option nat)) (w : list (option Z)) : Prop :=
  length row = length w /\ Forall (fun e => match e with Some c => (c < K)%nat | None => True end) row.

Lemma sum_where_app k a b wa wb : length a = length wa ->
  sum_where k (a ++ b) (wa ++ wb) = sum_where k a wa + sum_where k b wb.
Proof.
  revert wa; induction a as [|x a IH]; intros [|w wa] H; cbn in *; try lia.
  rewrite IH by lia. lia.
Qed.

Lemma off_row_length K i row : length (off_row K i row) = length row.
Proof. apply map_length. Qed.

Lemma w_row_length row w : length row = length w -> length (w_row row w) = length row.
Proof. intros H. unfold w_row. apply map2_length. exact H. Qed.

Lemma row_own K i c : forall row w, length row = length w ->
  sum_where (i * K + c) (off_row K i row) (w_row row w) = count_row c row w.
Proof.
  induction row as [|e row IH]; intros [|x w] H; cbn in *; try lia; try reflexivity.
  rewrite IH by lia. f_equal.
  destruct e as [c'|], x as [z|]; try (destruct (Nat.eqb _ _); reflexivity).
  destruct (Nat.eqb c' c) eqn:E.
  - apply Nat.eqb_eq in E. subst. rewrite Nat.eqb_refl. reflexivity.
  - apply Nat.eqb_neq in E. assert ((i * K + c' =? i * K + c)%nat = false) as -> by (apply Nat.eqb_neq; lia). reflexivity.
Qed.

Lemma row_other K i i' c : i' <> i -> (c < K)%nat -> forall row w, row_wf K row w ->
  sum_where (i * K + c) (off_row K i' row) (w_row row w) = 0.
Proof.
  intros Hi Hc. induction row as [|e row IH]; intros [|x w] [Hl Hf]; cbn in *; try lia; try reflexivity.
  inversion Hf as [|? ? He Hf']; subst.
  rewrite IH by (split; [lia|exact Hf']).
  destruct e as [c'|], x as [z|]; try (destruct (Nat.eqb _ _); reflexivity).
  assert ((i' * K + c' =? i * K + c)%nat = false) as ->; [|reflexivity].
  apply Nat.eqb_neq. intro E.
  assert (i' = i); [|contradiction].
  destruct (Nat.lt_trichotomy i' i) as [L|[Eq|G]]; [|exact Eq|]; exfalso; nia.
Qed.

Lemma sum_where_all K c : forall y w i0 i,
  Forall2 (row_wf K) y w -> (c < K)%nat -> (i0 <= i < i0 + length y)%nat ->
  sum_where (i * K + c) (off_all K i0 y) (w_all y w) = count_row c (nth (i - i0) y []) (nth (i - i0) w []).
Proof.
  induction y as [|r y IH]; intros w i0 i H Hc Hi; [cbn in Hi; lia|].
  inversion H as [|? wr ? wt Hr Ht]; subst. cbn [off_all w_all].
  destruct Hr as [Hl Hf].
  rewrite sum_where_app by (rewrite off_row_length, w_row_length; [reflexivity|exact Hl]).
  destruct (Nat.eq_dec i i0) as [E|NE].
  - subst. rewrite Nat.sub_diag. cbn [nth]. rewrite row_own by exact Hl.
    assert (Hz : forall y' w' j0, Forall2 (row_wf K) y' w' -> (i0 < j0)%nat ->
                 sum_where (i0 * K + c) (off_all K j0 y') (w_all y' w') = 0).
    { induction y' as [|r' y' IH']; intros w' j0 H' Hj; [reflexivity|].
      inversion H' as [|? wr' ? wt' Hr' Ht']; subst. cbn [off_all w_all]. destruct Hr' as [Hl' Hf'].
      rewrite sum_where_app by (rewrite off_row_length, w_row_length; [reflexivity|exact Hl']).
      rewrite row_other by (try lia; try exact Hc; split; assumption).
      rewrite IH' by (try exact Ht'; lia). reflexivity. }
    rewrite Hz by (try exact Ht; lia). lia.
  - rewrite row_other by (try lia; try exact Hc; split; assumption).
    cbn [length] in Hi. rewrite IH by (try exact Ht; try exact Hc; lia).
    replace (i - i0)%nat with (S (i - S i0)) by lia. cbn [nth]. lia.
Qed.

Lemma bincount_nth idx wts m k : (k < m)%nat -> nth k (bincount idx wts m) 0 = sum_where k idx wts.
Proof. intros H. unfold bincount. rewrite nth_map_seq by exact H. reflexivity. Qed.

Lemma bincount_length idx wts m : length (bincount idx wts m) = m.
Proof. unfold bincount. rewrite map_length, seq_length. reflexivity. Qed.

Lemma nth_firstn_lt {A} (d : A) : forall K (l : list A) c, (c < K)%nat -> nth c (firstn K l) d = nth c l d.
Proof.
  induction K as [|K IH]; intros l c Hc; [lia|].
  destruct l as [|x l]; [destruct c; reflexivity|]. cbn [firstn].
  destruct c as [|c]; [reflexivity|]. cbn [nth]. apply IH. lia.
Qed.

Lemma nth_skipn_add {A} (d : A) : forall K (l : list A) j, nth j (skipn K l) d = nth (K + j) l d.
Proof.
  induction K as [|K IH]; intros l j; [reflexivity|].
  destruct l as [|x l]; [cbn; destruct j; reflexivity|]. cbn [skipn Nat.add nth]. apply IH.
Qed.

Lemma chunks_nth {A} (d : A) K : forall n (l : list A) i c,
  (i < n)%nat -> (c < K)%nat ->
  nth c (nth i (chunks K n l) []) d = nth (i * K + c) l d.
Proof.
  induction n as [|n IH]; intros l i c Hi Hc; [lia|].
  cbn [chunks]. destruct i as [|i]; cbn [nth].
  - cbn [Nat.mul Nat.add]. apply nth_firstn_lt. exact Hc.
  - rewrite IH by (try exact Hc; lia). rewrite nth_skipn_add. f_equal. lia.
Qed.

(* C17: compute_vote_vectors = plain (weighted) counting, missing labels and NaN weights ignored *)
Theorem vote_vectors_count K y w i c :
  Forall2 (row_wf K) y w -> (i < length y)%nat -> (c < K)%nat ->
  nth c (nth i (vote_vectors K y w) []) 0 = count_row c (nth i y []) (nth i w []).
Proof.
  intros H Hi Hc. unfold vote_vectors.
  rewrite chunks_nth by assumption.
  rewrite bincount_nth by nia.
  rewrite (sum_where_all K c y w 0 i H Hc) by lia. rewrite Nat.sub_0_r. reflexivity.
Qed.

(* a missing label (or a NaN weight) contributes nothing to any class *)
Lemma count_row_missing c row w : count_row c (None :: row) w = count_row c row (tl w).
Proof. destruct w as [|x w]; cbn; [destruct row; reflexivity|lia]. Qed.

Lemma count_row_nonneg c : forall row w, Forall (fun x => match x with Some z => 0 <= z | None => True end) w ->
  0 <= count_row c row w.
Proof.
  induction row as [|e row IH]; intros [|x w] H; cbn; try lia.
  inversion H; subst. specialize (IH w H3).
  destruct e as [c'|], x as [z|]; try lia. destruct (Nat.eqb c' c); lia.
Qed.

(* majority_vote: a class with maximal vote for labeled samples, missing otherwise *)
Theorem majority_spec K : forall y w noise,
  (0 < K)%nat -> length y = length w ->
  Forall (noise_ok K) noise -> (length (filter has_label y) <= length noise)%nat ->
  length (majority K y w noise) = length y /\
  forall i, (i < length y)%nat ->
    match nth i (majority K y w noise) None with
    | None => has_label (nth i y []) = false
    | Some c => has_label (nth i y []) = true /\ (c < K)%nat /\
                forall c', (c' < K)%nat -> count_row c' (nth i y []) (nth i w []) <= count_row c (nth i y []) (nth i w [])
    end.
Proof.
  induction y as [|r y IH]; intros [|wr w] noise HK Hl Hn Hlen; cbn in Hl; try lia.
  - split; [reflexivity|]. intros i Hi. cbn in Hi. lia.
  - cbn [majority]. destruct (has_label r) eqn:Hr.
    + destruct noise as [|nz nt]; [cbn [filter] in Hlen; rewrite Hr in Hlen; cbn in Hlen; lia|].
      inversion Hn as [|? ? Hnz Hnt]; subst.
      assert (Hlen' : (length (filter has_label y) <= length nt)%nat) by (cbn [filter] in Hlen; rewrite Hr in Hlen; cbn in Hlen; lia).
      destruct (IH w nt HK ltac:(lia) Hnt Hlen') as [L S]. split; [cbn; lia|].
      intros [|i] Hi; cbn [nth].
      * set (votes := map (fun c => Some (count_row c r wr)) (seq 0 K)).
        assert (Hvl : length votes = K) by (unfold votes; rewrite map_length, seq_length; reflexivity).
        assert (Hex : exists m, nanmax votes = Some m).
        { destruct (nanmax votes) as [m|] eqn:E; [eauto|]. exfalso. rewrite nanmax_none in E.
          destruct K; [lia|]. unfold votes in E. cbn in E. inversion E; discriminate. }
        destruct Hex as [m Hm].
        assert (Hno : noise_ok (length votes) nz) by (rewrite Hvl; exact Hnz).
        destruct (rand_argmax_optimal votes nz m Hno Hm) as [H1 H2]. rewrite Hvl in H1.
        split; [exact Hr|]. split; [exact H1|].
        intros c' Hc'.
        assert (E1 : nth (rand_argmax votes nz) votes None = Some (count_row (rand_argmax votes nz) r wr)).
        { unfold votes at 2. rewrite nth_map_seq by exact H1. reflexivity. }
        rewrite E1 in H2. injection H2 as H2. rewrite H2.
        assert (Hin : In (Some (count_row c' r wr)) votes).
        { unfold votes. apply in_map_iff. exists c'. split; [reflexivity|apply in_seq; lia]. }
        destruct (nanmax_ub votes _ Hin) as [m' [Hm' Hle]]. congruence.
      * apply S. cbn in Hi. lia.
    + assert (Hlen' : (length (filter has_label y) <= length noise)%nat) by (cbn [filter] in Hlen; rewrite Hr in Hlen; exact Hlen).
      destruct (IH w noise HK ltac:(lia) Hn Hlen') as [L S]. split; [cbn; lia|].
      intros [|i] Hi; cbn [nth]; [exact Hr|]. apply S. cbn in Hi. lia.
Qed.

(* ext_confusion_matrix(normalize=None): entry (t, p) is the number of samples with true class t
   that the annotator labeled p; missing annotations are not counted *)
Theorem conf_matrix_counts K y_true pred t p : (t < K)%nat -> (p < K)%nat ->
  nth p (nth t (conf_matrix K y_true pred) []) 0 = conf_count t p y_true pred /\
  nth p (nth t (conf_norm 0 K (conf_matrix K y_true pred)) []) 0%Q = inject_Z (conf_count t p y_true pred).
Proof.
  intros Ht Hp. unfold conf_matrix.
  assert (E : nth p (nth t (map (fun t0 => map (fun p0 => conf_count t0 p0 y_true pred) (seq 0 K)) (seq 0 K)) []) 0
              = conf_count t p y_true pred).
  { rewrite nth_map_seq by exact Ht. rewrite nth_map_seq by exact Hp. reflexivity. }
  split; [exact E|].
  unfold conf_norm.
  set (cm := map (fun t0 => map (fun p0 => conf_count t0 p0 y_true pred) (seq 0 K)) (seq 0 K)) in *.
  assert (Hl : (t < length cm)%nat) by (unfold cm; rewrite map_length, seq_length; exact Ht).
  rewrite (nth_indep _ [] ((fun r => map (fun p0 => inject_Z (nth p0 r 0)) (seq 0 K)) [])) by (rewrite map_length; exact Hl).
  rewrite (map_nth (fun r => map (fun p0 => inject_Z (nth p0 r 0)) (seq 0 K))).
  rewrite nth_map_seq by exact Hp. rewrite E. reflexivity.
Qed.

Lemma conf_count_missing t p a y_true pred : conf_count t p (a :: y_true) (None :: pred) = conf_count t p y_true pred.
Proof. cbn. lia. Qed.
