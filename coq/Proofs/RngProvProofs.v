From Coq Require Import ZArith List Bool Lia.
From V Require Import Model.RngProv.
Import ListNotations.
Open Scope Z_scope.

(* a computation without draws from the global generator does not depend on its state *)
Theorem noninterference {A} (p : prog A) : no_global p ->
  forall own co g1 c1 g2 c2, run p own co g1 c1 = run p own co g2 c2.
Proof.
  induction 1 as [a|k Hk IH]; intros own co g1 c1 g2 c2; cbn [run]; [reflexivity|]. apply IH.
Qed.

(* twin objects: same program (same parameters and arguments), same own stream => same result,
   whatever the global generator holds; and a repeated call (generator re-derived: same cursor) too *)
Corollary twin_objects {A} (p : prog A) own co g1 c1 g2 c2 : no_global p ->
  run p own co g1 c1 = run p own co g2 c2.
Proof. intros H. apply noninterference. exact H. Qed.

(* a draw from the global generator CAN change the result: the hypothesis is necessary *)
Example global_draw_matters :
  exists (p : prog Z) own g1 g2, run p own 0 g1 0 <> run p own 0 g2 0.
Proof. exists (DrawGlobal (fun z => Ret z)), (fun _ => 0), (fun _ => 1), (fun _ => 2). cbn. discriminate. Qed.

Theorem derive_seed_range r m : 0 <= derive_seed r m < 2 ^ 31.
Proof. unfold derive_seed. apply Z.mod_pos_bound. lia. Qed.

Theorem derive_seed_function r1 m1 r2 m2 : r1 = r2 -> m1 = m2 -> derive_seed r1 m1 = derive_seed r2 m2.
Proof. intros -> ->. reflexivity. Qed.
