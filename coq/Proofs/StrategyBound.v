(* C04 at the level of a stream STRATEGY: a strategy that is a layer over a window-based budget manager (any utility
   oracle, any filter with its own state, NaN utilities for filtered instances) never obtains more labels than the
   manager's bound, however the stream is chunked - the strategy's decisions are the manager's decisions on SOME
   input stream of the same length. *)
From Coq Require Import ZArith QArith List Bool Lia.
From V Require Import Base.Num Model.StreamCore Model.Zliobaite Model.StreamStrategy
  Proofs.StreamGeneric Proofs.StreamGenericX Proofs.ZlProofs Proofs.ZlBound Proofs.StreamStrategyProofs.
Import ListNotations.
Open Scope Q_scope.

Lemma wrun_length {C W I : Type} (wstep : W -> C -> bool * W) (inp : bool -> C -> I) (cs : list C) :
  forall w, length (fst (wrun wstep inp w cs)) = length cs.
Proof.
  induction cs as [|c t IH]; intros w; [reflexivity|]. cbn [wrun]. destruct (wstep w c) as [p w1].
  specialize (IH w1). destruct (wrun wstep inp w1 t) as [xs w2]. cbn [fst length] in *. congruence.
Qed.

Theorem strategy_zliobaite_bound (k : zkind) (p : @zparams Q) (C W : Type) (wstep : W -> C -> bool * W)
        (inp : bool -> C -> zin) (w : W) (s : zstate) (chunks : list (list C)) :
  (1 <= zp_w p)%Z -> 0 < zp_b p -> u_t s == 0 ->
  let mu := fun m (xs : list zin) idx => zupdate k p m (length xs) idx in
  cnt (fst (xprocess (squery (zquery k p) wstep inp) (supdate mu wstep inp) (w, s) chunks)) <
  zp_b p * qlen (concat chunks) + qlen (concat chunks) * / inject_Z (zp_w p) + zp_b p * inject_Z (zp_w p) + 1.
Proof.
  intros Hw Hb Hu mu.
  rewrite (strategy_chunking_invariance (inst k p) (zquery k p) mu wstep inp (fun _ => True)).
  - rewrite (giter_sinst (inst k p) wstep inp). cbn [fst].
    pose proof (zliobaite_bound k p Hw s (fst (wrun wstep inp w (concat chunks))) Hu Hb) as B.
    unfold qlen in *. rewrite wrun_length in B. exact B.
  - apply zquery_pure.
  - intros m xs _. apply zupdate_simulates.
  - intros; exact I.
  - exact I.
Qed.
