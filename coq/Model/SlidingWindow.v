(* SlidingWindowClassifier (classifier/_wrapper.py): the training window after fit / partial_fit
   calls (C13c).  Rows are sample ids.  No proofs here. *)
From Coq Require Import List Arith.
Import ListNotations.

Definition lastn {A} (w : nat) (l : list A) : list A := skipn (length l - w) l.

Inductive swop := SFit (b : list nat) | SPartial (b : list nat).

(* deque(maxlen = w): fit refills, partial_fit extends *)
Definition sw_step (w : nat) (win : list nat) (o : swop) : list nat :=
  match o with
  | SFit b => lastn w b
  | SPartial b => lastn w (win ++ b)
  end.

Definition sw_run (w : nat) (ops : list swop) : list nat := fold_left (sw_step w) ops [].

(* the documented history: everything given since (and including) the last fit *)
Fixpoint since_last_fit (ops : list swop) (acc : list nat) : list nat :=
  match ops with
  | [] => acc
  | SFit b :: t => since_last_fit t b
  | SPartial b :: t => since_last_fit t (acc ++ b)
  end.

(* ---- the window with everything a caller can vary between two calls (round I) ----
   A sample is (id, labeled?).  Every call carries the CURRENT parameters (window_size and
   only_labeled may have been changed through set_params since the last call) and says whether
   sample weights were passed.  The weights window holds the ids of the samples whose weights it
   stores (None = sample_weight_train_ is None).

   swx_step models the code after the repair (the window is cut to the current window_size by
   every call); swa_step models the code AS IT WAS WRITTEN (the deques keep the maxlen they were
   created with until the next fit). *)
Record xcall := { xfit : bool; xw : nat; xol : bool; xs : list (nat * bool); xwt : bool }.

Definition keepl (ol : bool) (l : list (nat * bool)) : list (nat * bool) :=
  if ol then filter (fun p => snd p) l else l.

Record xwin := { xwindow : list (nat * bool); xweights : option (list nat) }.

Definition xempty : xwin := {| xwindow := []; xweights := Some [] |}.

(* None = the call raises (weights passed although the weights window is None: AttributeError) *)
Definition swx_step (s : xwin) (c : xcall) : option xwin :=
  let new := keepl (xol c) (xs c) in
  let base := if xfit c then xempty else s in
  match xweights base, xwt c with
  | None, true => None
  | Some wl, true => Some {| xwindow := lastn (xw c) (xwindow base ++ new);
                             xweights := Some (lastn (xw c) (wl ++ map fst new)) |}
  | _, false => Some {| xwindow := lastn (xw c) (xwindow base ++ new); xweights := None |}
  end.

Fixpoint swx_run (s : xwin) (cs : list xcall) : option xwin :=
  match cs with
  | [] => Some s
  | c :: t => match swx_step s c with Some s' => swx_run s' t | None => None end
  end.

(* the old step on (is_fit, batch) pairs *)
Definition sw_step_gen {A} (w : nat) (win : list A) (o : bool * list A) : list A :=
  if fst o then lastn w (snd o) else lastn w (win ++ snd o).

(* as written before the repair: state = window + the maxlen of the deques *)
Definition swa_step (st : list (nat * bool) * nat) (c : xcall) : list (nat * bool) * nat :=
  let new := keepl (xol c) (xs c) in
  if xfit c then (lastn (xw c) new, xw c)
  else (lastn (snd st) (fst st ++ new), snd st).
