(* SlidingWindowClassifier (classifier/_wrapper.py): the training window after fit / partial_fit
   calls (C13c).  Rows are sample ids.  No proofs here. *)
From Coq Require Import List Arith.
Import ListNotations.

Definition lastn {A} (w : nat) (l : list A) : list A := skipn (length l - w) l.

Inductive swop := SFit (b : list nat) | SPartial (b : list nat).

(* deque(maxlen = w): fit refills, partial_fit extends *)
Definition sw_step (w : nat) (win : list nat) (o : swop) : list nat :=
  match o with
  | SFit b => lastn w b
  | SPartial b => lastn w (win ++ b)
  end.

Definition sw_run (w : nat) (ops : list swop) : list nat := fold_left (sw_step w) ops [].

(* the documented history: everything given since (and including) the last fit *)
Fixpoint since_last_fit (ops : list swop) (acc : list nat) : list nat :=
  match ops with
  | [] => acc
  | SFit b :: t => since_last_fit t b
  | SPartial b :: t => since_last_fit t (acc ++ b)
  end.
