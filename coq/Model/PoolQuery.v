(* Pool query: candidate specification, expected batch size, the canonical
   skeleton (scatter scores through the mapping, then simple_batch) and the
   executable acceptor for traces recorded from the implementation
   (C01, C02, C14).  No proofs here. *)
From Coq Require Import ZArith List Bool Lia.
From V Require Import Base.OptOrder Model.Sel.
Import ListNotations.
Open Scope Z_scope.

Inductive cand :=
| CNone                      (* candidates=None: the unlabeled samples of (X, y) *)
| CIdx (l : list nat)        (* index array (any order, duplicates allowed) *)
| CFeat (m : nat).           (* m feature rows: positions 0..m-1 of the candidate matrix *)

Definition memb (x : nat) (l : list nat) : bool := existsb (Nat.eqb x) l.

(* labeled mask -> indices of unlabeled samples (unlabeled_indices) *)
Fixpoint unl_from (lab : list bool) (i : nat) : list nat :=
  match lab with
  | [] => []
  | b :: t => if b then unl_from t (S i) else i :: unl_from t (S i)
  end.

(* np.unique on an index array *)
Fixpoint ins_nat (x : nat) (l : list nat) : list nat :=
  match l with
  | [] => [x]
  | y :: t => if (x <? y)%nat then x :: l else if (x =? y)%nat then l else y :: ins_nat x t
  end.
Definition uniq_sort (l : list nat) : list nat := fold_right ins_nat [] l.

Definition cand_set (lab : list bool) (c : cand) : list nat :=
  match c with
  | CNone => unl_from lab 0
  | CIdx l => uniq_sort l
  | CFeat m => seq 0 m
  end.

(* number of utility columns *)
Definition ncols (lab : list bool) (c : cand) : nat :=
  match c with CFeat m => m | _ => length lab end.

(* _validate_data clips the batch size to the number of candidates *)
Definition expected_k (bs : nat) (lab : list bool) (c : cand) : nat :=
  Nat.min bs (length (cand_set lab c)).

Inductive selmode := SelMax | SelSampling.

(* one step of a recorded trace: the selected index and the utility row *)
Definition step := (nat * list val)%type.

(* row is NaN exactly at the positions that are not selectable at this step:
   non-candidates and earlier picks *)
Fixpoint nan_pattern_from (cs prev : list nat) (row : list val) (j : nat) : bool :=
  match row with
  | [] => true
  | v :: t =>
      Bool.eqb (is_nan v) (negb (memb j cs) || memb j prev) && nan_pattern_from cs prev t (S j)
  end.

Definition pstep_ok (mode : selmode) (cs prev : list nat) (n : nat) (s : step) : bool :=
  let '(p, row) := s in
  (length row =? n)%nat && (p <? n)%nat && nan_pattern_from cs prev row 0 &&
  match nth p row None with
  | None => false
  | Some v =>
      match mode with
      | SelMax => veqb (Some v) (nanmax row)
      | SelSampling => 0 <? v
      end
  end.

Fixpoint psteps_ok (mode : selmode) (cs prev : list nat) (n : nat) (t : list step) : bool :=
  match t with
  | [] => true
  | s :: rest => pstep_ok mode cs prev n s && psteps_ok mode cs (prev ++ [fst s]) n rest
  end.

Definition accepts_pool (mode : selmode) (lab : list bool) (c : cand) (bs : nat) (t : list step) : bool :=
  (length t =? expected_k bs lab c)%nat &&
  psteps_ok mode (cand_set lab c) [] (ncols lab c) t.

Fixpoint nodupb_n (l : list nat) : bool :=
  match l with
  | [] => true
  | x :: t => negb (memb x t) && nodupb_n t
  end.

(* the user-level statement of C01 as a boolean (evaluated on the returned indices) *)
Definition batch_ok (lab : list bool) (c : cand) (bs : nat) (picks : list nat) : bool :=
  (length picks =? expected_k bs lab c)%nat && nodupb_n picks &&
  forallb (fun p => memb p (cand_set lab c)) picks.

(* ---- the canonical skeleton ----
   utilities = np.full(n, nan); utilities[mapping] = scores; simple_batch(...) *)
Fixpoint set_at (u : list val) (i : nat) (v : val) : list val :=
  match u, i with
  | [], _ => []
  | _ :: t, O => v :: t
  | x :: t, S j => x :: set_at t j v
  end.

Fixpoint scatter (mapping : list nat) (scores : list val) (u : list val) : list val :=
  match mapping, scores with
  | m :: mt, s :: st => scatter mt st (set_at u m s)
  | _, _ => u
  end.

Definition skeleton (lab : list bool) (c : cand) (scores : list val) (noises : list (list Z)) (bs : nat)
  : list step :=
  let cs := cand_set lab c in
  let u := scatter cs scores (repeat None (ncols lab c)) in
  simple_batch_max u noises (expected_k bs lab c).

(* ---- the active-learning loop (C14): a cycle removes the batch from the pool ---- *)
Definition remove_all (u b : list nat) : list nat := filter (fun x => negb (memb x b)) u.

(* a batch is valid for the pool u: distinct, inside u, of size min b |u| *)
Definition batch_valid (b : nat) (u batch : list nat) : bool :=
  nodupb_n batch && forallb (fun x => memb x u) batch && (length batch =? Nat.min b (length u))%nat.

Fixpoint loop_valid (b : nat) (u : list nat) (batches : list (list nat)) : bool :=
  match batches with
  | [] => true
  | bt :: rest => batch_valid b u bt && loop_valid b (remove_all u bt) rest
  end.

Fixpoint loop_remaining (u : list nat) (batches : list (list nat)) : list nat :=
  match batches with
  | [] => u
  | bt :: rest => loop_remaining (remove_all u bt) rest
  end.
