(* The cognitive dual query strategies (skactiveml/stream/_density_uncertainty.py,
   CognitiveDualQueryStrategy and its four subclasses), modelled AS WRITTEN.

   State of the strategy: the cognition window (instances), per window entry the number of times
   it became a new nearest neighbour (theta_), the time of its last refresh (t_x_), its current
   nearest-neighbour distance (min_dist_), and the clock t_.  s_ (memory strength) and f_ are
   recomputed for every window entry inside _calculate_ldf before they are used, i.e. they carry no
   information from one call to the next and are not part of the model's state.

   Numeric layer (oracles): the distance between two instances (d), the order key of the memory
   strength np.exp(-(1 / (theta + 1)) * age) as numpy computes it (strength), the budget manager
   (an arbitrary machine mdec / mupd; query_by_utility of a manager does not change it).

   query asks the manager about every instance that passes the density test separately and never
   commits in between (so every instance of a chunk is judged against the same manager state),
   update hands the manager the FILTERED candidate list together with the UNFILTERED indices.
   No proofs here. *)
From Coq Require Import ZArith List Bool Arith.
From V Require Import Base.OptOrder Model.StreamCore.
Import ListNotations.
Local Open Scope nat_scope.

Section Cog.
  Variable d : nat -> nat -> Z.            (* distance oracle (instance ids) *)
  Variable strength : nat -> nat -> Z.     (* order key of exp(-(1/(theta+1)) * age) *)
  Variable cws : nat.                      (* cognition_window_size >= 1 *)
  Variable thr : nat.                      (* density_threshold >= 0 *)

  Record cog := { cw : list nat; cth : list nat; ctx : list nat; cmind : list val; ct : nat }.

  Definition cog0 : cog := {| cw := []; cth := []; ctx := []; cmind := []; ct := 0%nat |}.

  Definition vlt (x : Z) (m : val) : bool := match m with None => true | Some y => Z.ltb x y end.

  Fixpoint zminl (l : list Z) (acc : Z) : Z := match l with [] => acc | x :: t => zminl t (Z.min acc x) end.

  (* np.argmin: first index of the minimum *)
  Fixpoint argmin_first (l : list Z) : nat :=
    match l with
    | [] => O
    | x :: t => if forallb (fun y => Z.leb x y) t then O else S (argmin_first t)
    end.

  Fixpoint remove_nth {A} (n : nat) (l : list A) : list A :=
    match l, n with
    | [], _ => []
    | _ :: t, O => t
    | x :: t, S k => x :: remove_nth k t
    end.

  Definition cog_count_true (l : list bool) : nat := length (filter (fun b => b) l).

  (* _calculate_ldf([x_c]) : number of window entries whose nearest neighbour x_c becomes, and the
     window after x_c was inserted (the weakest entry is forgotten when the window is over-full) *)
  Definition cog_ldf_step (w : cog) (c : nat) : nat * cog :=
    let t0 := ct w in
    let '(ldf, th1, tx1, md1) :=
      match cw w with
      | [] => (0%nat, cth w, ctx w, cmind w ++ [None])
      | x0 :: xt =>
          let dist := map (fun x => d x c) (cw w) in
          let nn := map2 vlt dist (cmind w) in
          (cog_count_true nn,
           map2 (fun (th : nat) (b : bool) => if b then S th else th) (cth w) nn,
           map2 (fun (t : nat) (b : bool) => if b then t0 else t) (ctx w) nn,
           map2 (fun (dm : Z * val) (b : bool) => if b then Some (fst dm) else snd dm) (combine dist (cmind w)) nn
             ++ [Some (zminl (map (fun x => d x c) xt) (d x0 c))])
      end in
    let s := map2 (fun th t => strength th (t0 - t)) th1 tx1 in
    let '(cw2, th2, tx2, md2) :=
      if Nat.ltb cws (length (cw w))
      then let r := argmin_first s in (remove_nth r (cw w), remove_nth r th1, remove_nth r tx1, remove_nth r md1)
      else (cw w, th1, tx1, md1) in
    (ldf, {| cw := cw2 ++ [c]; cth := th2 ++ [0%nat]; ctx := tx2 ++ [t0]; cmind := md2; ct := t0 |}).

  Definition tick (w : cog) : cog := {| cw := cw w; cth := cth w; ctx := ctx w; cmind := cmind w; ct := S (ct w) |}.

  (* the loop shared by query and update: pass bit per instance, window afterwards *)
  Fixpoint wloop (w : cog) (cs : list nat) : list bool * cog :=
    match cs with
    | [] => ([], w)
    | c :: t =>
        let '(ldf, w1) := cog_ldf_step w c in
        let '(bs, w2) := wloop (tick w1) t in
        (Nat.leb thr ldf :: bs, w2)
    end.

  (* ---- the manager: any machine; mdec m c = "query_by_utility([u_c]) returned [0]" ---- *)
  Context {M : Type}.
  Variable mdec : M -> nat -> bool.
  (* update(candidates, queried_indices): per position Some c = an instance, None = NaN padding *)
  Variable mupd : M -> list (option nat) -> list nat -> option M.   (* None = raises *)

  Definition cog_state := (cog * M)%type.

  (* query: the window runs on self and is put back from the copies afterwards *)
  Definition cog_query (s : cog_state) (cs : list nat) : list nat * cog_state :=
    let '(w, m) := s in
    let saved := w in
    let '(bs, _) := wloop w cs in
    (indices_from (map2 (fun (b : bool) (c : nat) => b && mdec m c) bs cs) 0, (saved, m)).

  Definition new_candidates (ffb : bool) (bs : list bool) (cs : list nat) : list (option nat) :=
    flat_map (fun bc : bool * nat => if fst bc then [Some (snd bc)] else if ffb then [None] else []) (combine bs cs).

  Definition cog_update (ffb : bool) (s : cog_state) (cs : list nat) (idx : list nat) : option cog_state :=
    let '(w, m) := s in
    let '(bs, w') := wloop w cs in
    match mupd m (new_candidates ffb bs cs) idx with
    | Some m' => Some (w', m')
    | None => None
    end.

  (* reference: one instance at a time (query then update with a chunk of one) *)
  Definition cog_inst (ffb : bool) (s : cog_state) (c : nat) : option (bool * cog_state) :=
    let '(idx, s1) := cog_query s [c] in
    match cog_update ffb s1 [c] idx with
    | Some s2 => Some (match idx with [] => false | _ => true end, s2)
    | None => None
    end.
End Cog.

(* a manager that mirrors the index handling of the window-based managers: update raises when an
   index is not a position of the candidate list it was given (queried[queried_indices] = 1) *)
Definition idx_manager_upd (m : nat) (cands : list (option nat)) (idx : list nat) : option nat :=
  if forallb (fun i => Nat.ltb i (length cands)) idx then Some (m + length idx)%nat else None.
