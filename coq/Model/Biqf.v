(* Executable model of BalancedIncrementalQuantileFilter
   (stream/budgetmanager/_balanced_incremental_quantile_filter.py), generic in the arithmetic.
   The quantile np.quantile(window, 1 - budget) is an oracle [quant]; it receives the number of
   observed samples in addition to the window (numpy's quantile ignores it; the evaluation
   instance looks the value up in a table indexed by it).  No proofs here. *)
From Coq Require Import ZArith List Bool.
From V Require Import Base.Num Model.StreamCore Model.SlidingWindow.
Import ListNotations.

Section Biqf.
Context {F : Type} `{Num F}.
Variable quant : Z -> list F -> F.

Record bparams := { bq_b : F; bq_w : nat; bq_wtol : F }.
(* observed_samples_, queried_samples_, history_sorted_ (a deque(maxlen=w), oldest first) *)
Record bstate := { b_obs : Z; b_que : Z; b_hist : list F }.

(* deque(maxlen=w).append *)
Definition b_push (w : nat) (h : list F) (u : F) : list F := lastn w (h ++ [u]).

(* np.min / np.max of a non-empty window without NaN *)
Definition fmin_list (l : list F) : F :=
  match l with [] => fofZ 0 | x :: t => fold_left (fun m y => if fltb y m then y else m) t x end.
Definition fmax_list (l : list F) : F :=
  match l with [] => fofZ 0 | x :: t => fold_left (fun m y => if fltb m y then y else m) t x end.

Definition b_decide (p : bparams) (obs' que : Z) (hist' : list F) (u : F) : bool :=
  let theta := quant obs' hist' in
  let range := fsub (fmax_list hist') (fmin_list hist') in
  let acq_left := fsub (fmul (bq_b p) (fofZ obs')) (fofZ que) in
  let theta_bal := fsub theta (fmul range (fdiv acq_left (bq_wtol p))) in
  fleb theta_bal u.

(* query_by_utility: the loop over temporaries *)
Fixpoint b_qloop (p : bparams) (obs que : Z) (hist : list F) (xs : list F) (i : nat) : list nat :=
  match xs with
  | [] => []
  | u :: rest =>
      let obs' := (obs + 1)%Z in
      let hist' := b_push (bq_w p) hist u in
      let smp := b_decide p obs' que hist' u in
      let idx := b_qloop p obs' (if smp then que + 1 else que)%Z hist' rest (S i) in
      if smp then i :: idx else idx
  end.

Definition b_query (p : bparams) (s : bstate) (xs : list F) : list nat * bstate :=
  (b_qloop p (b_obs s) (b_que s) (b_hist s) xs 0, s).

Definition count_bits (bs : list bool) : Z := Z.of_nat (length (filter (fun b => b) bs)).

(* update(candidates, queried_indices, utilities) *)
Definition b_update (p : bparams) (s : bstate) (xs : list F) (idx : list nat) : bstate :=
  {| b_obs := (b_obs s + Z.of_nat (length xs))%Z;
     b_que := (b_que s + count_bits (bits_of (length xs) idx 0))%Z;
     b_hist := lastn (bq_w p) (b_hist s ++ xs) |}.

(* one instance at a time *)
Definition b_inst (p : bparams) (s : bstate) (u : F) : bool * bstate :=
  let obs' := (b_obs s + 1)%Z in
  let hist' := b_push (bq_w p) (b_hist s) u in
  let smp := b_decide p obs' (b_que s) hist' u in
  (smp, {| b_obs := obs'; b_que := if smp then (b_que s + 1)%Z else b_que s; b_hist := hist' |}).

End Biqf.
