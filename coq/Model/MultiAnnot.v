(* Multi-annotator pool query (C07): availability of (sample, annotator) pairs
   for the 3 x 3 ways of giving candidates x annotators (base.py:
   _validate_data, _transform_cand_annot), the per-sample annotator count loop
   (_n_to_assign_annotators) and the acceptor for recorded traces.  No proofs. *)
From Coq Require Import ZArith List Bool Lia.
From V Require Import Base.OptOrder Model.Sel Model.PoolQuery.
Import ListNotations.
Open Scope Z_scope.

Inductive annot :=
| ANone
| AIdx (l : list nat)                 (* annotator indices *)
| AMat (m : list (list bool)).        (* boolean availability matrix, one row per candidate *)

(* missing pattern of the label matrix: true = label still missing *)
Definition miss := list (list bool).

Definition any_true (r : list bool) : bool := existsb (fun b => b) r.

Fixpoint rows_with_missing (y : miss) (i : nat) : list nat :=
  match y with
  | [] => []
  | r :: t => if any_true r then i :: rows_with_missing t (S i) else rows_with_missing t (S i)
  end.

Definition n_annot (y : miss) : nat := length (hd [] y).

(* candidate samples (the mapping), in the order of the rows of A_cand *)
Definition ma_rows (y : miss) (c : cand) (a : annot) : list nat :=
  match c with
  | CFeat m => seq 0 m
  | CIdx l => uniq_sort l
  | CNone => match a with ANone => rows_with_missing y 0 | _ => seq 0 (length y) end
  end.

(* np.argsort(candidates, kind="stable"): positions of the given candidate indices in sorted order.
   _validate_data sorts the index candidates (check_indices) and re-orders the rows of a boolean
   annotators matrix along, so that row r of A_cand belongs to the r-th smallest candidate. *)
Fixpoint ins_key (p : nat * nat) (l : list (nat * nat)) : list (nat * nat) :=
  match l with
  | [] => [p]
  | q :: t => if (fst p <=? fst q)%nat then p :: l else q :: ins_key p t
  end.
Definition stable_argsort (l : list nat) : list nat :=
  map snd (fold_right ins_key [] (combine l (seq 0 (length l)))).
Definition perm_rows (l : list nat) (m : list (list bool)) : list (list bool) :=
  map (fun i => nth i m []) (stable_argsort l).
Definition mat_rows (c : cand) (m : list (list bool)) : list (list bool) :=
  match c with CIdx l => perm_rows l m | _ => m end.

Definition idx_row (na : nat) (l : list nat) : list bool := map (fun j => memb j l) (seq 0 na).

(* A_cand *)
Definition ma_avail (y : miss) (c : cand) (a : annot) : list (list bool) :=
  let rows := ma_rows y c a in
  match a with
  | AMat m => mat_rows c m
  | AIdx l => map (fun _ => idx_row (n_annot y) l) rows
  | ANone =>
      match c with
      | CNone => map (fun i => nth i y []) rows
      | _ => map (fun _ => repeat true (n_annot y)) rows
      end
  end.

Definition count_true (m : list (list bool)) : nat :=
  fold_right (fun r acc => (length (filter (fun b => b) r) + acc)%nat) 0%nat m.

(* n_candidate_pairs as computed by _validate_data *)
Definition n_pairs (y : miss) (c : cand) (a : annot) : nat :=
  match a with
  | AMat m => count_true (mat_rows c m)
  | AIdx l =>
      (match c with CNone => length y | CIdx ci => length (uniq_sort ci) | CFeat m => m end * length (uniq_sort l))%nat
  | ANone =>
      match c with
      | CNone => count_true y
      | CIdx ci => (length (uniq_sort ci) * n_annot y)%nat
      | CFeat m => (m * n_annot y)%nat
      end
  end.

Definition expected_pairs (bs : nat) (y : miss) (c : cand) (a : annot) : nat := Nat.min bs (n_pairs y c a).

(* ---- _n_to_assign_annotators with explicit fuel; None = fuel exhausted (the loop as
        written does not terminate when the chosen samples offer fewer pairs than batch_size) ---- *)
Definition nsum (l : list nat) : nat := fold_right Nat.add 0%nat l.

Fixpoint n_to_assign_loop (fuel bs : nat) (nmax cur : list nat) : option (list nat) :=
  if (bs <=? nsum cur)%nat then Some cur
  else match fuel with
       | O => None
       | S f => n_to_assign_loop f bs nmax (map2 (fun m c => Nat.min m (S c)) nmax cur)
       end.

Definition n_to_assign (fuel bs : nat) (nmax pref : list nat) : option (list nat) :=
  n_to_assign_loop fuel bs nmax (map2 Nat.min nmax pref).

(* ---- acceptor ---- *)
Definition pair := (nat * nat)%type.
Definition pair_eqb (p q : pair) : bool := Nat.eqb (fst p) (fst q) && Nat.eqb (snd p) (snd q).
Definition pmemb (p : pair) (l : list pair) : bool := existsb (pair_eqb p) l.

Definition slice := list (list val).     (* n_rows x n_annotators *)

Definition at2 (s : slice) (p : pair) : val := nth (snd p) (nth (fst p) s []) None.
Definition avail_at (A : list (list bool)) (p : pair) : bool := nth (snd p) (nth (fst p) A []) false.

Definition slice_max (s : slice) : val := nanmax (concat s).

(* NaN at least at unavailable pairs and at earlier picks *)
Definition slice_nan_ok (A : list (list bool)) (prev : list pair) (s : slice) : bool :=
  forallb (fun i =>
    forallb (fun j =>
      let p := (i, j) in
      if negb (avail_at A p) || pmemb p prev then is_nan (at2 s p) else true)
      (seq 0 (length (nth i s []))))
    (seq 0 (length s)).

Definition slice_shape_ok (nr na : nat) (s : slice) : bool :=
  (length s =? nr)%nat && forallb (fun r => (length r =? na)%nat) s.

Definition mstep_ok (A : list (list bool)) (nr na : nat) (prev : list pair) (st : pair * slice) : bool :=
  let '(p, s) := st in
  slice_shape_ok nr na s && (fst p <? nr)%nat && (snd p <? na)%nat &&
  slice_nan_ok A prev s &&
  match at2 s p with
  | None => false
  | Some v => veqb (Some v) (slice_max s)
  end.

Fixpoint msteps_ok (A : list (list bool)) (nr na : nat) (prev : list pair) (t : list (pair * slice)) : bool :=
  match t with
  | [] => true
  | st :: rest => mstep_ok A nr na prev st && msteps_ok A nr na (prev ++ [fst st]) rest
  end.

(* A : availability in the row space of the utilities (one row per column position of the
   returned utilities); k : expected number of pairs *)
Definition accepts_pairs (A : list (list bool)) (na k : nat) (t : list (pair * slice)) : bool :=
  (length t =? k)%nat && msteps_ok A (length A) na [] t.
