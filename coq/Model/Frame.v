(* Frame analysis (C05a, C13a): abstract effects of a method on the attributes of `self`
   and the decision "this method cannot change what get_params reports for parameter p".
   Attributes are numbered per class.  No proofs here. *)
From Coq Require Import List Bool Arith.
Import ListNotations.

Inductive eff :=
| EWrite (a : nat)              (* self.a = ... / del self.a / setattr *)
| EMutate (a : nat)             (* self.a[...] = ..., self.a.update(...), self.a.fit(...), ... *)
| EAlias (dst src : nat)        (* self.dst = self.src (also through locals / conditional expressions) *)
| EUnknown.                     (* construct the translator does not understand *)

Record fclass := { fc_params : list nat; fc_methods : list (list eff) }.

Definition nmemb (x : nat) (l : list nat) : bool := existsb (Nat.eqb x) l.

(* attributes that may denote the same object as p: closure of p under the alias edges *)
Definition alias_step (effs : list eff) (A : list nat) : list nat :=
  fold_right (fun e acc =>
    match e with
    | EAlias d s => if nmemb s acc && negb (nmemb d acc) then d :: acc else acc
    | _ => acc
    end) A effs.

Fixpoint alias_iter (fuel : nat) (effs : list eff) (A : list nat) : list nat :=
  match fuel with O => A | S f => alias_iter f effs (alias_step effs A) end.

Definition alias_set (effs : list eff) (p : nat) : list nat := alias_iter (S (length effs)) effs [p].

(* A is closed under the alias edges *)
Definition closed (effs : list eff) (A : list nat) : bool :=
  forallb (fun e => match e with EAlias d s => negb (nmemb s A) || nmemb d A | _ => true end) effs.

(* no effect of the method can rebind p or mutate an object p may denote *)
Definition eff_ok (p : nat) (A : list nat) (e : eff) : bool :=
  match e with
  | EWrite a => negb (Nat.eqb a p)
  | EMutate a => negb (nmemb a A)
  | EAlias d _ => negb (Nat.eqb d p)
  | EUnknown => false
  end.

Definition frame_ok (effs : list eff) (p : nat) : bool :=
  let A := alias_set effs p in
  nmemb p A && closed effs A && forallb (eff_ok p A) effs.

Definition class_ok (c : fclass) : bool :=
  forallb (fun m => forallb (frame_ok m) (fc_params c)) (fc_methods c).

Definition table_ok (t : list fclass) : bool := forallb class_ok t.

(* (class index, method index, parameter) triples that fail -- for error reports *)
Definition bad_entries (t : list fclass) : list (nat * nat * nat) :=
  concat (map (fun ci =>
    let c := nth ci t {| fc_params := []; fc_methods := [] |} in
    concat (map (fun mi =>
      let m := nth mi (fc_methods c) [] in
      map (fun p => (ci, mi, p)) (filter (fun p => negb (frame_ok m p)) (fc_params c)))
      (seq 0 (length (fc_methods c))))) (seq 0 (length t))).

(* ---- abstract store semantics the analysis is sound for ----
   attributes point to heap cells (so that two attributes can denote the same dict); a cell has
   a content version that every in-place mutation bumps *)
Record store := { env : nat -> nat; ver : nat -> nat; next : nat }.

Definition upd (f : nat -> nat) (k v : nat) : nat -> nat := fun x => if Nat.eqb x k then v else f x.

Definition exec (st : store) (e : eff) : store :=
  match e with
  | EWrite a => {| env := upd (env st) a (next st); ver := ver st; next := S (next st) |}
  | EMutate a => {| env := env st; ver := upd (ver st) (env st a) (S (ver st (env st a))); next := next st |}
  | EAlias d s => {| env := upd (env st) d (env st s); ver := ver st; next := next st |}
  | EUnknown => st
  end.

Definition exec_all (st : store) (es : list eff) : store := fold_left exec es st.
