(* Executable model of the window-based (Zliobaite-style) budget managers of
   skactiveml/stream/budgetmanager/_estimated_budget_zliobaite.py, generic in
   the arithmetic (Base/Num.v).  query_by_utility works on temporaries and
   restores the generator; update commits.  No proofs here. *)
From Coq Require Import ZArith List Bool.
From V Require Import Base.Num Model.StreamCore.
Import ListNotations.

Inductive zkind := ZFixed | ZVariable | ZRandVar | ZSplit | ZRandom.

Section Zl.
Context {F : Type} `{Num F}.

Record zparams := {
  zp_w : Z;        (* window size w >= 1 *)
  zp_b : F;        (* budget_ *)
  zp_s : F;        (* s (threshold step) *)
  zp_v : F;        (* v (SplitBudgetManager) *)
  zp_K : Z;        (* len(classes) (FixedUncertainty) *)
  zp_draws : list F;   (* the stream random_state_.random_sample() yields, absolute positions *)
}.

Record zstate := { u_t : F; theta : F; cur : nat }.

(* one instance: utility and, for RandomVariableUncertainty, the normal draw eta *)
Record zin := { util : F; eta : F }.

Definition one : F := fofZ 1.
Definition ratio (p : zparams) : F := fdiv (fofZ (zp_w p - 1)) (fofZ (zp_w p)).
Definition draw (p : zparams) (k : nat) : F := nth k (zp_draws p) (fofZ 0).
Definition budget_left (p : zparams) (u : F) : bool := fltb (fdiv u (fofZ (zp_w p))) (zp_b p).
Definition decay (p : zparams) (u : F) (b : bool) : F := fadd (fmul u (ratio p)) (fbit b).
Definition adapt (p : zparams) (th : F) (sample : bool) : F :=
  if sample then fmul th (fsub one (zp_s p)) else fmul th (fadd one (zp_s p)).
Definition fixed_theta (p : zparams) : F :=
  fadd (fdiv one (fofZ (zp_K p))) (fmul (zp_b p) (fsub one (fdiv one (fofZ (zp_K p))))).

(* the body executed for one instance *when budget is left*:
   returns (sample, new threshold, new generator position) *)
Definition decide (k : zkind) (p : zparams) (th : F) (c : nat) (x : zin) : bool * F * nat :=
  let conf := fsub one (util x) in
  match k with
  | ZFixed => (fleb conf (fixed_theta p), th, c)
  | ZVariable => let s := fltb conf th in (s, adapt p th s, c)
  | ZRandVar => let s := fltb conf (fmul th (eta x)) in (s, adapt p th s, c)
  | ZSplit =>
      if fltb (draw p c) (zp_v p)
      then (fleb (draw p (S c)) (zp_b p), th, S (S c))
      else let s := fltb conf th in (s, adapt p th s, S c)
  | ZRandom => (fleb (draw p c) (zp_b p) && negb (fisnan (util x)), th, S c)
  end.

(* RandomBudgetManager draws one uniform per instance whether or not budget is left *)
Definition idle (k : zkind) (c : nat) : nat := match k with ZRandom => S c | _ => c end.

(* ---- query_by_utility: loop over the chunk on temporaries tmp_u_t, tmp_theta;
        the generator (field cur of the state) is advanced by the loop and set
        back afterwards (get_state / set_state). ---- *)
Fixpoint qloop (k : zkind) (p : zparams) (s : zstate) (tu tth : F) (xs : list zin) (i : nat)
  : list nat * zstate :=
  match xs with
  | [] => ([], s)
  | x :: rest =>
      if budget_left p tu then
        let '(smp, tth', c') := decide k p tth (cur s) x in
        let s' := {| u_t := u_t s; theta := theta s; cur := c' |} in
        let '(idx, sf) := qloop k p s' (decay p tu smp) tth' rest (S i) in
        (if smp then i :: idx else idx, sf)
      else
        let s' := {| u_t := u_t s; theta := theta s; cur := idle k (cur s) |} in
        qloop k p s' (decay p tu false) tth rest (S i)
  end.

Definition zquery (k : zkind) (p : zparams) (s : zstate) (xs : list zin) : list nat * zstate :=
  let prior := cur s in
  let '(idx, s') := qloop k p s (u_t s) (theta s) xs 0 in
  (idx, {| u_t := u_t s'; theta := theta s'; cur := prior |}).

(* ---- update(candidates, queried_indices) ---- *)
(* commit of one instance given its queried bit (the loop body of update) *)
Definition commit (k : zkind) (p : zparams) (s : zstate) (q : bool) : zstate :=
  match k with
  | ZFixed => {| u_t := decay p (u_t s) q; theta := theta s; cur := cur s |}
  | ZVariable | ZRandVar =>
      let th := if budget_left p (u_t s) then adapt p (theta s) q else theta s in
      {| u_t := decay p (u_t s) q; theta := th; cur := cur s |}
  | ZSplit =>
      if budget_left p (u_t s) then
        if fltb (draw p (cur s)) (zp_v p)
        then {| u_t := decay p (u_t s) q; theta := theta s; cur := S (S (cur s)) |}
        else {| u_t := decay p (u_t s) q; theta := adapt p (theta s) q; cur := S (cur s) |}
      else {| u_t := decay p (u_t s) q; theta := theta s; cur := cur s |}
  | ZRandom => {| u_t := decay p (u_t s) q; theta := theta s; cur := cur s |}
  end.

Definition zupdate (k : zkind) (p : zparams) (s : zstate) (n : nat) (idx : list nat) : zstate :=
  let s0 := match k with
            | ZRandom => {| u_t := u_t s; theta := theta s; cur := cur s + n |}  (* random_sample(len(candidates)) *)
            | _ => s
            end in
  fold_left (commit k p) (bits_of n idx 0) s0.

(* ---- reference semantics: instances processed one at a time ---- *)
Definition inst (k : zkind) (p : zparams) (s : zstate) (x : zin) : bool * zstate :=
  if budget_left p (u_t s) then
    let '(smp, th', c') := decide k p (theta s) (cur s) x in
    (smp, {| u_t := decay p (u_t s) smp; theta := th'; cur := c' |})
  else (false, {| u_t := decay p (u_t s) false; theta := theta s; cur := idle k (cur s) |}).

Definition iter (k : zkind) (p : zparams) : zstate -> list zin -> list bool * zstate := giter (inst k p).

End Zl.
