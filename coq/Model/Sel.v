(* Executable model of skactiveml/utils/_selection.py (rand_argmax,
   rand_argmin, simple_batch).  No proofs here. *)
From Coq Require Import ZArith List Bool Lia.
From V Require Import Base.OptOrder.
Import ListNotations.
Open Scope Z_scope.

(* noise * (a == nanmax a): noise entries are the 53-bit numerators of
   random_state.random(a.shape); False * noise = 0. *)
Definition masked_noise (a : list val) (target : val) (noise : list Z) : list Z :=
  map2 (fun x n => if veqb x target then n else 0) a noise.

Definition rand_argmax (a : list val) (noise : list Z) : nat :=
  argmax_first (masked_noise a (nanmax a) noise).

Definition rand_argmin (a : list val) (noise : list Z) : nat :=
  argmax_first (masked_noise a (nanmin a) noise).

(* axis = 1 on a 2-D array (list of rows); axis = 0 is the same on the transpose *)
Definition rand_argmax_rows (a : list (list val)) (noise : list (list Z)) : list nat :=
  map2 rand_argmax a noise.
Definition rand_argmin_rows (a : list (list val)) (noise : list (list Z)) : list nat :=
  map2 rand_argmin a noise.

(* np.unravel_index (C order) *)
Fixpoint unravel (shape : list nat) (i : nat) : list nat :=
  match shape with
  | [] => []
  | _ :: rest =>
      let p := fold_right Nat.mul 1%nat rest in
      Nat.div i p :: unravel rest (Nat.modulo i p)
  end.

Fixpoint ravel (shape : list nat) (idx : list nat) : nat :=
  match shape, idx with
  | _ :: rest, i :: idx' => (i * fold_right Nat.mul 1%nat rest + ravel rest idx')%nat
  | _, _ => O
  end.

(* simple_batch(method="max") on the flattened utilities.  One noise vector per
   step (the harness supplies what random_state yields at each call).  Result:
   per step the pick and the utility row *before* masking. *)
Fixpoint batch_max_loop (u : list val) (noises : list (list Z)) (k : nat)
  : list (nat * list val) :=
  match k, noises with
  | S k', nz :: rest =>
      let i := rand_argmax u nz in
      (i, u) :: batch_max_loop (set_nan u i) rest k'
  | _, _ => []
  end.

Definition simple_batch_max (u : list val) (noises : list (list Z)) (bs : nat)
  : list (nat * list val) :=
  batch_max_loop u noises (Nat.min bs (count_nonnan u)).

(* simple_batch(method="proportional"): `chosen` is the result of
   random_state.choice(len(u), size=k, p=p, replace=False) (external oracle);
   row i is u with the first i chosen entries masked. *)
Fixpoint mask_all (u : list val) (idx : list nat) : list val :=
  match idx with
  | [] => u
  | i :: t => mask_all (set_nan u i) t
  end.

Fixpoint prop_rows (u : list val) (prev chosen : list nat) : list (nat * list val) :=
  match chosen with
  | [] => []
  | c :: t => (c, mask_all u prev) :: prop_rows u (prev ++ [c]) t
  end.

Definition simple_batch_prop (u : list val) (chosen : list nat) : list (nat * list val) :=
  prop_rows u [] chosen.

(* contract of numpy's choice(n, size=k, p, replace=False): k distinct indices
   < n, each with p > 0.  p_i > 0 iff u_i is a number > 0 when all weights are
   non-negative (key of +0.0 is 0). *)
Definition positive (v : val) : bool :=
  match v with Some k => 0 <? k | None => false end.

Fixpoint nodupb (l : list nat) : bool :=
  match l with
  | [] => true
  | x :: t => negb (existsb (Nat.eqb x) t) && nodupb t
  end.

Definition choice_contract (u : list val) (k : nat) (chosen : list nat) : bool :=
  (length chosen =? k)%nat && nodupb chosen &&
  forallb (fun c => (c <? length u)%nat && positive (nth c u None)) chosen.
