(* IndexClassifierWrapper (skactiveml/pool/utils.py): book-keeping of the training data of
   the current and of the stored base model under fit / partial_fit (C19).  A model state is
   the list of batches it has been shown (one batch after an emulated partial_fit = refit on
   the concatenation; several batches with native partial_fit).  No proofs here. *)
From Coq Require Import ZArith List Bool Lia.
From V Require Import Base.OptOrder Model.PoolQuery.
Import ListNotations.
Open Scope Z_scope.

(* (sample index, label code, weight or None when no weights are used) *)
Definition triple := (nat * Z * option Z)%type.
Definition batch := list triple.

Record wstate := {
  cur : option (list batch);      (* clf_   : None = not fitted *)
  base : option (list batch);     (* base_clf_ *)
}.

Record wcfg := {
  native_pf : bool;       (* use_partial_fit = hasattr(clf, "partial_fit") and not ignore_partial_fit *)
  unique : bool;          (* enforce_unique_samples *)
}.

Inductive wop :=
| OFit (b : batch) (set_base : bool)
| OPartial (b : batch) (use_base set_base : bool).

Inductive werr := ENotFitted | EDuplicate | EWeights.

Definition idxs (b : batch) : list nat := map (fun t => fst (fst t)) b.
Definition has_w (b : batch) : bool := match b with [] => true | t :: _ => match snd t with Some _ => true | None => false end end.

(* weights must be given for the stored data and for the added batch, or for neither
   (sample_weight_ is None or an array, also when every stored sample is replaced) *)
Definition weights_consistent (old add : batch) : bool :=
  match old, add with
  | [], _ | _, [] => true
  | _, _ => Bool.eqb (has_w old) (has_w add)
  end.

Definition step (c : wcfg) (s : wstate) (o : wop) : wstate + werr :=
  match o with
  | OFit b sb =>
      if unique c && negb (nodupb_n (idxs b)) then inr EDuplicate
      else inl {| cur := Some [b]; base := if sb then Some [b] else base s |}
  | OPartial b ub sb =>
      if unique c && negb (nodupb_n (idxs b)) then inr EDuplicate
      else
        match (if ub then base s else cur s) with
        | None => inr ENotFitted
        | Some start =>
            if native_pf c then
              let m := start ++ [b] in
              inl {| cur := Some m; base := if sb then Some m else base s |}
            else
              let old := concat start in
              let kept := if unique c then filter (fun t => negb (memb (fst (fst t)) (idxs b))) old else old in
              if weights_consistent old b then
                let m := [kept ++ b] in
                inl {| cur := Some m; base := if sb then Some m else base s |}
              else inr EWeights
        end
  end.

Fixpoint run (c : wcfg) (s : wstate) (ops : list wop) : wstate + werr :=
  match ops with
  | [] => inl s
  | o :: t => match step c s o with inl s' => run c s' t | inr e => inr e end
  end.

Definition init : wstate := {| cur := None; base := None |}.
