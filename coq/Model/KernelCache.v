(* The precomputed-kernel speed-up of IndexClassifierWrapper around ParzenWindowClassifier
   (skactiveml/pool/utils.py): pwc_K_ is an n x n matrix of NaN; precompute(idx_fit, idx_pred,
   fit_params, pred_params) writes pairwise_kernels(X[fit], X[pred]) into pwc_K_[ix_(fit, pred)];
   predict / predict_proba / predict_freq read P = pwc_K_[idx_, :][:, idx].T and raise if it
   contains NaN.  The kernel is an oracle k : sample -> sample -> value.  No proofs here. *)
From Coq Require Import ZArith List Bool.
From V Require Import Base.OptOrder Model.PoolQuery.
Import ListNotations.
Open Scope Z_scope.

Section KCache.
  Variable k : nat -> nat -> Z.

  Definition cache := list (list val).
  Definition empty_cache (n : nat) : cache := repeat (repeat None n) n.

  Fixpoint set_row (c : cache) (i : nat) (f : list val -> list val) : cache :=
    match c, i with
    | [], _ => []
    | r :: t, O => f r :: t
    | r :: t, S i' => r :: set_row t i' f
    end.

  (* pwc_K_[ix_(fit, pred)] = k(fit, pred) *)
  Definition write_row (i : nat) (pred : list nat) (r : list val) : list val :=
    fold_left (fun acc j => set_at acc j (Some (k i j))) pred r.
  Definition write_block (c : cache) (fit pred : list nat) : cache :=
    fold_left (fun acc i => set_row acc i (write_row i pred)) fit c.

  Inductive pfilter := PAll | PLabeled | PUnlabeled.
  Definition pselect (lab : list bool) (p : pfilter) (idx : list nat) : list nat :=
    match p with
    | PAll => idx
    | PLabeled => filter (fun i => nth i lab false) idx
    | PUnlabeled => filter (fun i => negb (nth i lab false)) idx
    end.

  (* check_indices sorts and de-duplicates; nothing is written when one side is empty *)
  Definition precompute (lab : list bool) (c : cache) (idx_fit idx_pred : list nat) (pf pp : pfilter) : cache :=
    let fit := pselect lab pf (uniq_sort idx_fit) in
    let pred := pselect lab pp (uniq_sort idx_pred) in
    match fit, pred with
    | [], _ => c
    | _, [] => c
    | _, _ => write_block c fit pred
    end.

  Definition cget (c : cache) (i j : nat) : val := nth j (nth i c []) None.

  (* P = pwc_K_[train, :][:, query].T : one row per query sample; None = the ValueError *)
  Definition all_some (l : list val) : option (list Z) :=
    fold_right (fun v acc => match v, acc with Some x, Some t => Some (x :: t) | _, _ => None end) (Some []) l.
  Definition lookup (c : cache) (train query : list nat) : option (list (list Z)) :=
    fold_right (fun q acc =>
                  match all_some (map (fun t => cget c t q) train), acc with
                  | Some r, Some rest => Some (r :: rest)
                  | _, _ => None
                  end) (Some []) query.

  (* what the classifier computes without the speed-up: pairwise_kernels(X[query], X[train]) *)
  Definition direct (train query : list nat) : list (list Z) :=
    map (fun q => map (fun t => k q t) train) query.
End KCache.
