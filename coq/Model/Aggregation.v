(* Model of skactiveml/utils/_aggregation.py (compute_vote_vectors,
   majority_vote) and _multi_annot.py (ext_confusion_matrix) on encoded labels:
   a label is [Some c] (class index c < K) or [None] (missing); weights are
   integers (the harness uses multiples of 1/8, scaled by 8) or [None] for a
   NaN weight.  No proofs here. *)
From Coq Require Import ZArith QArith List Bool.
From V Require Import Base.OptOrder Model.Sel.
Import ListNotations.
Open Scope Z_scope.

Notation lbl := (option nat) (only parsing).

(* np.bincount(idx, weights, minlength = m): entry k = sum of the weights at the positions holding k *)
Fixpoint sum_where (k : nat) (idx : list nat) (wts : list Z) : Z :=
  match idx, wts with
  | i :: it, w :: wt => (if Nat.eqb i k then w else 0) + sum_where k it wt
  | _, _ => 0
  end.
Definition bincount (idx : list nat) (wts : list Z) (m : nat) : list Z :=
  map (fun k => sum_where k idx wts) (seq 0 m).

(* as written: missing labels are set to class 0 and their weight to 0; NaN weights count 0;
   y_off = y + sample * n_classes *)
Definition off_row (K i : nat) (row : list lbl) : list nat :=
  map (fun e => match e with Some c => (i * K + c)%nat | None => (i * K + 0)%nat end) row.
Definition w_row (row : list lbl) (w : list (option Z)) : list Z :=
  map2 (fun e x => match e, x with Some _, Some z => z | _, _ => 0 end) row w.

Fixpoint off_all (K i : nat) (y : list (list lbl)) : list nat :=
  match y with [] => [] | r :: t => off_row K i r ++ off_all K (S i) t end.
Fixpoint w_all (y : list (list lbl)) (w : list (list (option Z))) : list Z :=
  match y, w with r :: t, wr :: wt => w_row r wr ++ w_all t wt | _, _ => [] end.

Fixpoint chunks {A} (K n : nat) (l : list A) : list (list A) :=
  match n with O => [] | S n' => firstn K l :: chunks K n' (skipn K l) end.

Definition vote_vectors (K : nat) (y : list (list lbl)) (w : list (list (option Z))) : list (list Z) :=
  chunks K (length y) (bincount (off_all K 0 y) (w_all y w) (length y * K)).

(* plain counting *)
Fixpoint count_row (c : nat) (row : list lbl) (w : list (option Z)) : Z :=
  match row, w with
  | e :: rt, x :: wt =>
      (match e, x with Some c', Some z => if Nat.eqb c' c then z else 0 | _, _ => 0 end) + count_row c rt wt
  | _, _ => 0
  end.

(* majority_vote on encoded labels: rand_argmax over the vote row of every sample that has
   at least one label; samples without any label stay missing.  One noise row per labeled sample. *)
Definition has_label (row : list lbl) : bool := existsb (fun e => match e with Some _ => true | None => false end) row.

Fixpoint majority (K : nat) (y : list (list lbl)) (w : list (list (option Z))) (noise : list (list Z)) : list lbl :=
  match y, w with
  | r :: t, wr :: wt =>
      if has_label r then
        match noise with
        | nz :: nt =>
            Some (rand_argmax (map (fun c => Some (count_row c r wr)) (seq 0 K)) nz) :: majority K t wt nt
        | [] => None :: majority K t wt []
        end
      else None :: majority K t wt noise
  | _, _ => []
  end.

(* ext_confusion_matrix: counts of (true class, predicted class) among the non-missing predictions
   of one annotator *)
Fixpoint conf_count (t p : nat) (y_true : list nat) (pred : list lbl) : Z :=
  match y_true, pred with
  | a :: at', e :: et =>
      (match e with Some b => if Nat.eqb a t && Nat.eqb b p then 1 else 0 | None => 0 end) + conf_count t p at' et
  | _, _ => 0
  end.
Definition conf_matrix (K : nat) (y_true : list nat) (pred : list lbl) : list (list Z) :=
  map (fun t => map (fun p => conf_count t p y_true pred) (seq 0 K)) (seq 0 K).

Definition zsum (l : list Z) : Z := fold_right Z.add 0 l.

(* normalisation modes: 0 = None, 1 = "true" (rows), 2 = "pred" (columns), 3 = "all";
   a zero denominator gives the documented fallback 1/K resp. 1/K^2 *)
Definition conf_norm (mode K : nat) (cm : list (list Z)) : list (list Q) :=
  let tot := zsum (map zsum cm) in
  let colsum p := zsum (map (fun r => nth p r 0) cm) in
  map (fun r =>
    map (fun p =>
      let v := nth p r 0 in
      match mode with
      | 0%nat => inject_Z v
      | 1%nat => if zsum r =? 0 then (1 # Pos.of_nat K)%Q else (inject_Z v / inject_Z (zsum r))%Q
      | 2%nat => if colsum p =? 0 then (1 # Pos.of_nat K)%Q else (inject_Z v / inject_Z (colsum p))%Q
      | _ => if tot =? 0 then (1 # Pos.of_nat (K * K))%Q else (inject_Z v / inject_Z tot)%Q
      end) (seq 0 K)) cm.
