(* Shared vocabulary of the stream models: per-instance semantics iterated over
   a chunk, queried-indices <-> decision bits. *)
From Coq Require Import List Bool.
Import ListNotations.

Section Core.
Context {S I : Type}.
Variable inst : S -> I -> bool * S.

(* instances processed one at a time: decisions and final state *)
Fixpoint giter (s : S) (xs : list I) : list bool * S :=
  match xs with
  | [] => ([], s)
  | x :: rest =>
      let '(b, s1) := inst s x in
      let '(bs, s2) := giter s1 rest in
      (b :: bs, s2)
  end.
End Core.

Fixpoint indices_from (bs : list bool) (i : nat) : list nat :=
  match bs with
  | [] => []
  | b :: t => if b then i :: indices_from t (S i) else indices_from t (S i)
  end.

(* queried = np.zeros(n); queried[queried_indices] = 1 *)
Fixpoint bits_of (n : nat) (idx : list nat) (i : nat) : list bool :=
  match n with
  | O => []
  | S n' => existsb (Nat.eqb i) idx :: bits_of n' idx (S i)
  end.
