(* Supervised learners ignore unlabeled samples (C12): the wrappers fit the wrapped estimator
   on the labeled subset only (order preserved), and the Parzen-window / kernel learners sum
   kernel-weighted votes in which unlabeled samples carry zero weight.  No proofs here. *)
From Coq Require Import ZArith List Bool.
Import ListNotations.
Open Scope Z_scope.

(* one training row: (sample id, label or None = missing, sample weight) *)
Definition row := (nat * option Z * Z)%type.
Definition rlabel (r : row) : option Z := snd (fst r).
Definition is_lab (r : row) : bool := match rlabel r with Some _ => true | None => false end.

(* X[is_lbld], y[is_lbld], sample_weight[is_lbld] *)
Definition labeled_subset (d : list row) : list row := filter is_lab d.

(* kernel frequency estimate for class c at a query point: sum_i K(i) * w_i * [y_i = c];
   K is the kernel value between the query point and training sample i (an oracle) *)
Definition vote (c : Z) (r : row) : Z :=
  match rlabel r with Some y => if y =? c then snd r else 0 | None => 0 end.

Fixpoint kernel_freq (K : nat -> Z) (c : Z) (d : list row) : Z :=
  match d with
  | [] => 0
  | r :: t => K (fst (fst r)) * vote c r + kernel_freq K c t
  end.
