(* Executable models of DensityBasedSplitBudgetManager (_threshold_budget.py),
   StreamRandomSampling and PeriodicSampling (_stream_baselines.py), generic in
   the arithmetic.  No proofs here. *)
From Coq Require Import ZArith List Bool.
From V Require Import Base.Num Model.StreamCore.
Import ListNotations.

Section Counters.
Context {F : Type} `{Num F}.

Definition fone : F := fofZ 1.

(* ------------------------------------------------------------------ *)
(* DensityBasedSplitBudgetManager: u_, t_ (integers), theta_; the normal
   draws eta are inputs (the generator is restored by query; update advances it
   by random_sample(len(candidates)), checked by the harness directly). *)
Record dparams := { dp_b : F; dp_s : F }.
Record dstate := { d_u : Z; d_t : Z; d_theta : F }.
Record din := { d_util : F; d_eta : F }.

Definition d_left (p : dparams) (u t : Z) : bool := fltb (fdiv (fofZ u) (fofZ t)) (dp_b p).
Definition d_adapt (p : dparams) (th : F) (sample : bool) : F :=
  if sample then fmul th (fsub fone (dp_s p)) else fmul th (fadd fone (dp_s p)).

Fixpoint d_qloop (p : dparams) (tu tt : Z) (tth : F) (xs : list din) (i : nat) : list nat :=
  match xs with
  | [] => []
  | x :: rest =>
      let tt' := (tt + 1)%Z in
      if d_left p tu tt' then
        let smp := fltb (fsub fone (d_util x)) (fmul tth (d_eta x)) in
        let idx := d_qloop p (if smp then tu + 1 else tu)%Z tt' (d_adapt p tth smp) rest (S i) in
        if smp then i :: idx else idx
      else d_qloop p tu tt' tth rest (S i)
  end.

Definition d_query (p : dparams) (s : dstate) (xs : list din) : list nat * dstate :=
  (d_qloop p (d_u s) (d_t s) (d_theta s) xs 0, s).

Definition d_commit (p : dparams) (s : dstate) (q : bool) : dstate :=
  let t' := (d_t s + 1)%Z in
  {| d_u := if q then (d_u s + 1)%Z else d_u s;
     d_t := t';
     d_theta := if d_left p (d_u s) t' then d_adapt p (d_theta s) q else d_theta s |}.

Definition d_update (p : dparams) (s : dstate) (n : nat) (idx : list nat) : dstate :=
  fold_left (d_commit p) (bits_of n idx 0) s.

Definition d_inst (p : dparams) (s : dstate) (x : din) : bool * dstate :=
  let t' := (d_t s + 1)%Z in
  if d_left p (d_u s) t' then
    let smp := fltb (fsub fone (d_util x)) (fmul (d_theta s) (d_eta x)) in
    (smp, {| d_u := if smp then (d_u s + 1)%Z else d_u s; d_t := t'; d_theta := d_adapt p (d_theta s) smp |})
  else (false, {| d_u := d_u s; d_t := t'; d_theta := d_theta s |}).

(* ------------------------------------------------------------------ *)
(* StreamRandomSampling / PeriodicSampling: observed_samples_, queried_samples_
   and (StreamRandomSampling) the generator position. *)
Inductive ckind := CRandom (allow_exceeding : bool) | CPeriodic.
Record cparams := { cp_b : F; cp_draws : list F }.
Record cstate := { c_obs : Z; c_q : Z; c_cur : nat }.

Definition c_draw (p : cparams) (k : nat) : F := nth k (cp_draws p) (fofZ 0).

(* decision for one instance given the already incremented tmp_observed_samples *)
Definition c_decide (k : ckind) (p : cparams) (obs' q : Z) (util : F) : bool :=
  let avail := fsub (fmul (fofZ obs') (cp_b p)) (fofZ q) in
  match k with
  | CRandom allow => (allow || fltb fone avail) && fleb (fsub fone (cp_b p)) util
  | CPeriodic => fleb fone avail
  end.

Fixpoint c_qloop (k : ckind) (p : cparams) (tobs tq : Z) (utils : list F) (i : nat) : list nat :=
  match utils with
  | [] => []
  | u :: rest =>
      let tobs' := (tobs + 1)%Z in
      let d := c_decide k p tobs' tq u in
      let idx := c_qloop k p tobs' (if d then tq + 1 else tq)%Z rest (S i) in
      if d then i :: idx else idx
  end.

(* utilities = random_state_.random_sample(n) (then set_state(prior)) resp. zeros *)
Definition c_utils (k : ckind) (p : cparams) (c n : nat) : list F :=
  match k with
  | CRandom _ => map (c_draw p) (seq c n)
  | CPeriodic => repeat (fofZ 0) n
  end.

Definition c_query (k : ckind) (p : cparams) (s : cstate) (n : nat) : list nat * cstate :=
  let prior := c_cur s in
  let advanced := match k with CRandom _ => (c_cur s + n)%nat | CPeriodic => c_cur s end in
  let s' := {| c_obs := c_obs s; c_q := c_q s; c_cur := advanced |} in
  (c_qloop k p (c_obs s) (c_q s) (c_utils k p prior n) 0,
   {| c_obs := c_obs s'; c_q := c_q s'; c_cur := prior |}).

Definition count_true (bs : list bool) : Z := Z.of_nat (length (filter (fun b => b) bs)).

Definition c_update (k : ckind) (p : cparams) (s : cstate) (n : nat) (idx : list nat) : cstate :=
  {| c_obs := (c_obs s + Z.of_nat n)%Z;
     c_q := (c_q s + count_true (bits_of n idx 0))%Z;
     c_cur := match k with CRandom _ => (c_cur s + n)%nat | CPeriodic => c_cur s end |}.

Definition c_inst (k : ckind) (p : cparams) (s : cstate) (_ : unit) : bool * cstate :=
  let obs' := (c_obs s + 1)%Z in
  let util := match k with CRandom _ => c_draw p (c_cur s) | CPeriodic => fofZ 0 end in
  let d := c_decide k p obs' (c_q s) util in
  (d, {| c_obs := obs'; c_q := if d then (c_q s + 1)%Z else c_q s;
         c_cur := match k with CRandom _ => S (c_cur s) | CPeriodic => c_cur s end |}).

End Counters.
