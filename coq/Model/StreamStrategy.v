(* Stream query strategies as a layer over a budget manager.

   A classifier-based stream strategy computes a utility per candidate (numeric layer, oracle),
   optionally filters the candidates with a sliding-window density test that has its own state
   (StreamDensityBasedAL: window_, min_dist_), hands the (NaN-masked) utilities to its budget manager
   and, in update, commits the window and the manager.  query works on copies of the window and
   restores them; the manager is created lazily by whichever of query / update runs first.
   No proofs here. *)
From Coq Require Import ZArith List Bool.
From V Require Import Base.OptOrder Model.StreamCore.
Import ListNotations.

Section Strategy.
  Context {S I C W : Type}.
  (* the budget manager *)
  Variable minst : S -> I -> bool * S.
  Variable mquery : S -> list I -> list nat * S.
  Variable mupdate : S -> list I -> list nat -> S.
  (* the filter: does the instance pass, and the filter state after seeing it *)
  Variable wstep : W -> C -> bool * W.
  (* the manager's input for an instance: its utility if it passed, NaN otherwise (plus its draws) *)
  Variable inp : bool -> C -> I.

  Fixpoint wrun (w : W) (cs : list C) : list I * W :=
    match cs with
    | [] => ([], w)
    | c :: t =>
        let '(p, w1) := wstep w c in
        let '(xs, w2) := wrun w1 t in
        (inp p c :: xs, w2)
    end.

  Definition sstate := (W * S)%type.

  (* query: the filter runs on copies (tmp_window, tmp_min_dist) that are thrown away *)
  Definition squery (s : sstate) (cs : list C) : list nat * sstate :=
    let '(w, m) := s in
    let '(idx, m') := mquery m (fst (wrun w cs)) in
    (idx, (w, m')).

  Definition supdate (s : sstate) (cs : list C) (idx : list nat) : sstate :=
    let '(w, m) := s in
    let '(xs, w') := wrun w cs in
    (w', mupdate m xs idx).

  (* one instance at a time *)
  Definition sinst (s : sstate) (c : C) : bool * sstate :=
    let '(w, m) := s in
    let '(p, w') := wstep w c in
    let '(b, m') := minst m (inp p c) in
    (b, (w', m')).

  (* lazy creation of the manager / windows: None until the first query or update *)
  Variable init : sstate.
  Definition force (s : option sstate) : sstate := match s with Some x => x | None => init end.
  Definition lquery (s : option sstate) (cs : list C) : list nat * option sstate :=
    let '(idx, s') := squery (force s) cs in (idx, Some s').
  Definition lupdate (s : option sstate) (cs : list C) (idx : list nat) : option sstate :=
    Some (supdate (force s) cs idx).
End Strategy.

(* ---- the density test of StreamDensityBasedAL (_calculate_ldf + window_.append) ----
   d : distance oracle between instance ids (order keys); deques bounded by maxlen *)
Section Density.
  Variable d : nat -> nat -> Z.
  Variable maxlen : nat.

  Definition push_bounded {A} (l : list A) (x : A) : list A :=
    let l' := l ++ [x] in
    if Nat.leb (length l') maxlen then l' else tl l'.

  Record dwin := { win : list nat; mind : list val }.   (* window_, min_dist_ (None = +inf) *)

  Definition vlt_inf (x : Z) (m : val) : bool := match m with None => true | Some y => Z.ltb x y end.

  Fixpoint zmin_list (l : list Z) (acc : Z) : Z := match l with [] => acc | x :: t => zmin_list t (Z.min acc x) end.

  Definition ldf_step (w : dwin) (c : nat) : bool * dwin :=
    match win w with
    | [] => (false, {| win := push_bounded (@nil nat) c; mind := push_bounded (mind w) None |})
    | x0 :: xt =>
        let dist := map (fun x => d x c) (win w) in
        let newnn := map2 vlt_inf dist (mind w) in
        let ldf := length (filter (fun b => b) newnn) in
        let mind1 := map2 (fun (dm : Z * val) (nn : bool) => if nn then Some (fst dm) else snd dm) (combine dist (mind w)) newnn in
        let mind2 := push_bounded mind1 (Some (zmin_list (map (fun x => d x c) xt) (d x0 c))) in
        (Nat.ltb 0 ldf, {| win := push_bounded (win w) c; mind := mind2 |})
    end.
End Density.
