(* Normal-inverse-chi-squared parameter combination of NICKernelRegressor (_combine_params) and
   the Student-t scale, generic in the arithmetic (C15).  No proofs here. *)
From Coq Require Import ZArith.
From V Require Import Base.Num.

Section Nix.
Context {F : Type} `{Num F}.

(* (kappa, nu, mu, sigma_sq) *)
Definition nix := (F * F * F * F)%type.

Definition combine (p1 p2 : nix) : nix :=
  let '(k1, n1, m1, s1) := p1 in
  let '(k2, n2, m2, s2) := p2 in
  let kc := fadd k1 k2 in
  let nc := fadd n1 n2 in
  let mc := fdiv (fadd (fmul k1 m1) (fmul k2 m2)) kc in
  let d := fsub m1 m2 in
  let scatter := fadd (fadd (fmul n1 s1) (fmul n2 s2)) (fdiv (fmul (fmul k1 k2) (fmul d d)) kc) in
  (kc, nc, mc, fdiv scatter nc).

(* scale^2 of the predictive Student-t distribution: (1 + kappa) / kappa * sigma_sq *)
Definition scale_sq (p : nix) : F :=
  let '(k, _, _, s) := p in fmul (fdiv (fadd (fofZ 1) k) k) s.
End Nix.
