(* Model of skactiveml/utils/_label.py and _label_encoder.py (C16, C09).
   Labels are order-preserving integer codes of the original Python objects
   (computed by the harness from Python-level equality / ordering); the
   missing-label sentinel is a code too. *)
From Coq Require Import ZArith List Bool Lia.
Import ListNotations.
Open Scope Z_scope.

(* --- check_missing_label: which (sentinel, array dtype) pairs are accepted --- *)
Inductive skind := SNum | SStr | SNone.            (* NaN is a number *)
Inductive dkind := DNum | DStr | DObj.

(* dtype of np.append(y.ravel(), missing_label) *)
Definition target_kind (y : dkind) (s : skind) : dkind :=
  match y, s with
  | DObj, _ => DObj
  | _, SNone => DObj
  | DNum, SNum => DNum
  | DStr, SStr => DStr
  | DNum, SStr => DStr
  | DStr, SNum => DStr
  end.

(* check_missing_label(missing_label, target_type) *)
Definition compatible (s : skind) (t : dkind) : bool :=
  match t, s with
  | DStr, SNum => false
  | DNum, SStr => false
  | DObj, SNum => false
  | DObj, SStr => false
  | _, _ => true
  end.

(* is_unlabeled accepts iff the sentinel is compatible with the *joint* dtype *)
Definition is_unlabeled_accepts (y : dkind) (s : skind) : bool :=
  compatible s (target_kind y s).

(* --- predicates --- *)
Definition is_unlabeled (ml : Z) (y : list Z) : list bool := map (Z.eqb ml) y.
Definition is_labeled (ml : Z) (y : list Z) : list bool := map negb (is_unlabeled ml y).

Fixpoint true_indices_from (m : list bool) (i : nat) : list nat :=
  match m with
  | [] => []
  | b :: t => if b then i :: true_indices_from t (S i) else true_indices_from t (S i)
  end.
Definition true_indices (m : list bool) : list nat := true_indices_from m 0.

Definition unlabeled_indices (ml : Z) (y : list Z) : list nat := true_indices (is_unlabeled ml y).
Definition labeled_indices (ml : Z) (y : list Z) : list nat := true_indices (is_labeled ml y).

(* 2-D: list of rows; np.argwhere enumerates (row, column) lexicographically *)
Definition is_unlabeled2 (ml : Z) (y : list (list Z)) : list (list bool) := map (is_unlabeled ml) y.
Definition is_labeled2 (ml : Z) (y : list (list Z)) : list (list bool) := map (is_labeled ml) y.

Fixpoint true_indices2_from (m : list (list bool)) (i : nat) : list (nat * nat) :=
  match m with
  | [] => []
  | r :: t => map (fun j => (i, j)) (true_indices r) ++ true_indices2_from t (S i)
  end.
Definition true_indices2 (m : list (list bool)) : list (nat * nat) := true_indices2_from m 0.
Definition unlabeled_indices2 ml y := true_indices2 (is_unlabeled2 ml y).
Definition labeled_indices2 ml y := true_indices2 (is_labeled2 ml y).

(* --- ExtLabelEncoder --- *)
Fixpoint insert_u (x : Z) (l : list Z) : list Z :=
  match l with
  | [] => [x]
  | y :: t => if x <? y then x :: l else if x =? y then l else y :: insert_u x t
  end.
(* np.unique : sorted, duplicates removed *)
Definition sort_dedupe (l : list Z) : list Z := fold_right insert_u [] l.

Fixpoint index_of (x : Z) (l : list Z) : option nat :=
  match l with
  | [] => None
  | y :: t => if x =? y then Some O else option_map S (index_of x t)
  end.

(* fit: classes_ = unique(given classes) or unique(labeled part of y) *)
Definition enc_fit (classes : option (list Z)) (ml : Z) (y : list Z) : list Z :=
  match classes with
  | Some cs => sort_dedupe cs
  | None => sort_dedupe (filter (fun v => negb (ml =? v)) y)
  end.

(* transform: None = the implementation raises (label not among the classes) *)
Definition enc_one (cls : list Z) (ml v : Z) : option Z :=
  if ml =? v then Some (-1) else option_map Z.of_nat (index_of v cls).

Fixpoint opt_all {A} (l : list (option A)) : option (list A) :=
  match l with
  | [] => Some []
  | None :: _ => None
  | Some x :: t => option_map (cons x) (opt_all t)
  end.

Definition enc_transform (cls : list Z) (ml : Z) (y : list Z) : option (list Z) :=
  opt_all (map (enc_one cls ml) y).

Definition dec_one (cls : list Z) (ml c : Z) : option Z :=
  if c =? -1 then Some ml
  else if c <? 0 then None else nth_error cls (Z.to_nat c).

Definition enc_inverse (cls : list Z) (ml : Z) (codes : list Z) : option (list Z) :=
  opt_all (map (dec_one cls ml) codes).
