(* A small description language for the tail of a pool strategy's query():

     X, y, candidates, batch_size, return_utilities = self._validate_data(...)
     X_cand, mapping = self._transform_candidates(candidates, X, y)
     ...scores...
     if mapping is None: utilities = scores
     else:               utilities = np.full(len(X), FILL); utilities[TARGET] = scores
     return simple_batch(utilities, RNG, batch_size=BS, ...)

   harness/translate/skeleton.py regenerates one [skel] term per `return simple_batch(...)`
   site of skactiveml/pool from the current source; [run_skel] gives the term its meaning
   (what the query tail computes for given scores); the theorems in Proofs/SkelDslProofs.v say
   that a canonical term yields an accepted trace for every score vector, and that each of
   the deviations the language can express is refuted by a concrete witness. *)
From Coq Require Import ZArith List Bool.
From V Require Import Base.OptOrder Model.Sel Model.PoolQuery.
Import ListNotations.
Open Scope Z_scope.

Inductive fillv := FNan | FZero | FNegInf | FOther.
(* where the scores are written: through the mapping, or at the leading positions *)
Inductive tgt := TMapping | TPrefix | TOther.
(* which batch size reaches simple_batch: the one clipped by _validate_data, or the raw argument *)
Inductive bsrc := BValidated | BRaw.
(* the array length: len(X) of the validated X (= number of columns), or the number of candidates *)
Inductive lsrc := LCols | LCands.

Record skel := { sk_fill : fillv; sk_tgt : tgt; sk_bs : bsrc; sk_len : lsrc;
                 sk_none_identity : bool;   (* `if mapping is None: utilities = scores` present (or mapping enforced) *)
                 sk_validated : bool }.     (* _validate_data and _transform_candidates feed the names used *)

Definition canonical (s : skel) : bool :=
  match sk_fill s, sk_tgt s, sk_bs s, sk_len s with
  | FNan, TMapping, BValidated, LCols => sk_none_identity s && sk_validated s
  | _, _, _, _ => false
  end.

Definition fill_val (f : fillv) : val :=
  match f with FNan => None | FZero => Some 0 | FNegInf => Some (-1000000) | FOther => Some 1 end.

Definition run_skel (s : skel) (lab : list bool) (c : cand) (scores : list val)
  (noises : list (list Z)) (bs : nat) : list step :=
  let cs := cand_set lab c in
  let n := match sk_len s with LCols => ncols lab c | LCands => length cs end in
  let base := repeat (fill_val (sk_fill s)) n in
  let u := match sk_tgt s with
           | TMapping => scatter cs scores base
           | _ => scatter (seq 0 (length scores)) scores base
           end in
  simple_batch_max u noises (match sk_bs s with BValidated => expected_k bs lab c | BRaw => bs end).
