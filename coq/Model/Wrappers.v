(* Wrapper strategies (C20): np.array_split chunking used by
   ParallelUtilityEstimationWrapper, the documented sub-sample size and utility
   placement of SubSamplingWrapper, and the ordinal rank transform of
   SingleAnnotatorWrapper._get_order_preserving_s_query.  No proofs here. *)
From Coq Require Import ZArith QArith List Bool Lia.
From V Require Import Base.OptOrder Model.PoolQuery.
Import ListNotations.
Open Scope Z_scope.

(* ---- np.array_split(a, k): the first n mod k sections have n/k + 1 elements ---- *)
Definition split_sizes (n k : nat) : list nat :=
  map (fun i => (n / k + (if (i <? n mod k)%nat then 1 else 0))%nat) (seq 0 k).

Fixpoint split_by {A} (sizes : list nat) (l : list A) : list (list A) :=
  match sizes with
  | [] => []
  | s :: t => firstn s l :: split_by t (skipn s l)
  end.

Definition array_split {A} (l : list A) (k : nat) : list (list A) := split_by (split_sizes (length l) k) l.

(* ---- SubSamplingWrapper: size of the sub-sample ---- *)
(* max_candidates given as an integer m, or as a fraction p/q in (0, 1] *)
Inductive maxcand := MInt (m : nat) | MFrac (p q : positive).

Definition ceil_div (a : Z) (b : positive) : Z := (a + Z.pos b - 1) / Z.pos b.

Definition sub_size (mc : maxcand) (ncand : nat) : nat :=
  match mc with
  | MInt m => Nat.min m ncand
  | MFrac p q => Nat.min (Z.to_nat (ceil_div (Z.of_nat ncand * Z.pos p) q)) ncand
  end.

(* what the wrapper documents, as a boolean on its output: subset of the candidates of the
   documented size, selection inside the subset, utilities = the wrapped strategy's value on the
   subset, -inf on other candidates, NaN on non-candidates (minf = key of -inf) *)
Definition row_placed (minf : Z) (cs subset : list nat) (inner row : list val) : bool :=
  forallb (fun j =>
    let v := nth j row None in
    if memb j subset then
      match v, nth j inner None with
      | None, None => true
      | Some a, Some b => a =? b
      | _, _ => false
      end
    else if memb j cs then match v with Some a => a =? minf | None => false end
    else is_nan v) (seq 0 (length row)).

Definition sub_ok (minf : Z) (mc : maxcand) (cs subset picks : list nat) (inner rows : list (list val)) : bool :=
  (length subset =? sub_size mc (length cs))%nat && nodupb_n subset &&
  forallb (fun s => memb s cs) subset &&
  forallb (fun p => memb p subset) picks && nodupb_n picks &&
  (length rows =? length picks)%nat && (length inner =? length rows)%nat &&
  forallb (fun ir => row_placed minf cs subset (fst ir) (snd ir)) (combine inner rows).

(* ---- scipy.stats.rankdata(method="ordinal"): 1 + #smaller + #equal-and-earlier ---- *)
Definition pos_before (l : list Z) (q p : nat) : bool :=
  (nth q l 0 <? nth p l 0) || ((nth q l 0 =? nth p l 0) && (q <? p)%nat).

Definition rank_at (l : list Z) (p : nat) : nat :=
  S (length (filter (fun q => pos_before l q p) (seq 0 (length l)))).

Definition ordinal_rank (l : list Z) : list nat := map (rank_at l) (seq 0 (length l)).

(* the wrapper's transform of one row of sample utilities: NaN -> -inf (lowest key), the sample
   ranked by the wrapped strategy at this step is forced above the maximum, then ordinal ranks;
   NaN entries stay NaN.  [low] must be below every key. *)
Definition rank_transform (low : Z) (row : list val) (forced : nat) : list (option nat) :=
  let filled := map (fun v => match v with Some k => k | None => low end) row in
  let mx := fold_right Z.max low filled in
  let bumped := map (fun iv => if Nat.eqb (fst iv) forced then mx + 1 else snd iv) (combine (seq 0 (length filled)) filled) in
  map (fun vr => match fst vr with Some _ => Some (snd vr) | None => None end) (combine row (ordinal_rank bumped)).
