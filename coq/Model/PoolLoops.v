(* Hand-written sequential selection loops of skactiveml.pool, with the numeric layer
   (distances, edge matrices) as an oracle.

   sel_loop     : the common shape `for b in range(batch_size): row = ...; idx = rand_argmax(row); state = ...`
   CoreSet      : skactiveml/pool/_core_set.py  k_greedy_center + _update_distances
   ProbCover    : skactiveml/pool/_prob_cover.py  the batch loop of ProbCover.query
   No proofs here. *)
From Coq Require Import ZArith List Bool.
From V Require Import Base.OptOrder Model.Sel Model.PoolQuery.
Import ListNotations.
Open Scope Z_scope.

Section GenLoop.
  Variable St : Type.
  Variable row_of : St -> list val.      (* utilities[b] computed from the loop state *)
  Variable next : St -> nat -> St.       (* state after selecting idx *)

  Fixpoint sel_loop (k : nat) (s : St) (noises : list (list Z)) : list step :=
    match k, noises with
    | S k', nz :: rest =>
        let row := row_of s in
        let p := rand_argmax row nz in
        (p, row) :: sel_loop k' (next s p) rest
    | _, _ => []
    end.
End GenLoop.

(* ------------------------------------------------------------------ CoreSet *)
Section CoreSet.
  Variable d : nat -> nat -> Z.          (* order key of the distance between samples i and j (>= 0) *)
  Variable w : nat.                      (* width of a utility row: len(X), or n_new_cand for feature rows *)
  Variable mapping : list nat.
  Variable centers0 : list nat.          (* labeled samples = initial cluster centers *)

  (* pairwise_distances_argmin_min(X, X[centers])[1][j]; zeros when there is no center *)
  Definition min_to_centers (j : nat) (cs : list nat) : Z :=
    match cs with
    | [] => 0
    | c :: t => fold_left (fun acc c' => Z.min acc (d j c')) t (d j c)
    end.

  (* _update_distances(X, centers0, mapping): NaN outside the mapping and at the centers *)
  Definition cs_row0 : list val :=
    map (fun j => if memb j mapping && negb (memb j centers0) then Some (min_to_centers j centers0) else None)
        (seq 0 w).

  (* np.nansum(latest) == 0 for non-negative entries *)
  Definition all_zero (row : list val) : bool :=
    forallb (fun v => match v with None => true | Some k => k =? 0 end) row.

  (* _update_distances(X, [q], mapping, latest): np.minimum propagates the NaN of earlier picks;
     when every remaining distance is 0 the zeros are replaced by inf first *)
  Definition cs_row_next (latest : list val) (q : nat) : list val :=
    let z := all_zero latest in
    map (fun j =>
           if memb j mapping && negb (Nat.eqb j q) then
             match nth j latest None with
             | None => None
             | Some l => if z && (l =? 0) then Some (d j q) else Some (Z.min l (d j q))
             end
           else None)
        (seq 0 w).

  Definition coreset_loop (k : nat) (noises : list (list Z)) : list step :=
    sel_loop (list val) (fun r => r) cs_row_next k cs_row0 noises.
End CoreSet.

(* ---------------------------------------------------------------- ProbCover *)
Section ProbCover.
  (* state: edges (row i = out-edges of sample i) and the candidate mask *)
  Definition pc_state := (list (list bool) * list bool)%type.

  Definition col_covered (edges : list (list bool)) (is_cand : list bool) (j : nat) : bool :=
    existsb (fun i => negb (nth i is_cand false) && nth j (nth i edges []) false) (seq 0 (length edges)).

  (* edges[:, is_covered] = False *)
  Definition pc_prune (st : pc_state) : list (list bool) :=
    let '(edges, is_cand) := st in
    map (fun r => map (fun j => nth j r false && negb (col_covered edges is_cand j)) (seq 0 (length r))) edges.

  Definition count_true (r : list bool) : Z := Z.of_nat (length (filter (fun b => b) r)).

  (* utilities[b][is_candidate] = edges[is_candidate].sum(axis=1) on a NaN-filled row *)
  Definition pc_row (st : pc_state) : list val :=
    let e := pc_prune st in
    map (fun i => if nth i (snd st) false then Some (count_true (nth i e [])) else None) (seq 0 (length (snd st))).

  Fixpoint set_false (l : list bool) (i : nat) : list bool :=
    match l, i with
    | [], _ => []
    | _ :: t, O => false :: t
    | x :: t, S j => x :: set_false t j
    end.

  Definition pc_next (st : pc_state) (idx : nat) : pc_state := (pc_prune st, set_false (snd st) idx).

  Definition probcover_loop (edges : list (list bool)) (is_cand : list bool) (k : nat) (noises : list (list Z))
    : list step :=
    sel_loop pc_state pc_row pc_next k (edges, is_cand) noises.
End ProbCover.
