(* Hand-written sequential selection loops of skactiveml.pool, with the numeric layer
   (distances, edge matrices) as an oracle.

   sel_loop     : the common shape `for b in range(batch_size): row = ...; idx = rand_argmax(row); state = ...`
   CoreSet      : skactiveml/pool/_core_set.py  k_greedy_center + _update_distances
   ProbCover    : skactiveml/pool/_prob_cover.py  the batch loop of ProbCover.query
   No proofs here. *)
From Coq Require Import ZArith List Bool.
From V Require Import Base.OptOrder Model.Sel Model.PoolQuery.
Import ListNotations.
Open Scope Z_scope.

Section GenLoop.
  Variable St : Type.
  Variable row_of : St -> list val.      (* utilities[b] computed from the loop state *)
  Variable next : St -> nat -> St.       (* state after selecting idx *)

  Fixpoint sel_loop (k : nat) (s : St) (noises : list (list Z)) : list step :=
    match k, noises with
    | S k', nz :: rest =>
        let row := row_of s in
        let p := rand_argmax row nz in
        (p, row) :: sel_loop k' (next s p) rest
    | _, _ => []
    end.
End GenLoop.

(* ------------------------------------------------------------------ CoreSet *)
Section CoreSet.
  Variable d : nat -> nat -> Z.          (* order key of the distance between samples i and j (>= 0) *)
  Variable w : nat.                      (* width of a utility row: len(X), or n_new_cand for feature rows *)
  Variable mapping : list nat.
  Variable centers0 : list nat.          (* labeled samples = initial cluster centers *)

  (* pairwise_distances_argmin_min(X, X[centers])[1][j]; zeros when there is no center *)
  Definition min_to_centers (j : nat) (cs : list nat) : Z :=
    match cs with
    | [] => 0
    | c :: t => fold_left (fun acc c' => Z.min acc (d j c')) t (d j c)
    end.

  (* _update_distances(X, centers0, mapping): NaN outside the mapping and at the centers *)
  Definition cs_row0 : list val :=
    map (fun j => if memb j mapping && negb (memb j centers0) then Some (min_to_centers j centers0) else None)
        (seq 0 w).

  (* np.nansum(latest) == 0 for non-negative entries *)
  Definition all_zero (row : list val) : bool :=
    forallb (fun v => match v with None => true | Some k => k =? 0 end) row.

  (* _update_distances(X, [q], mapping, latest): np.minimum propagates the NaN of earlier picks;
     when every remaining distance is 0 the zeros are replaced by inf first *)
  Definition cs_row_next (latest : list val) (q : nat) : list val :=
    let z := all_zero latest in
    map (fun j =>
           if memb j mapping && negb (Nat.eqb j q) then
             match nth j latest None with
             | None => None
             | Some l => if z && (l =? 0) then Some (d j q) else Some (Z.min l (d j q))
             end
           else None)
        (seq 0 w).

  Definition coreset_loop (k : nat) (noises : list (list Z)) : list step :=
    sel_loop (list val) (fun r => r) cs_row_next k cs_row0 noises.
End CoreSet.

(* ---------------------------------------------------------------- ProbCover *)
Section ProbCover.
  (* state: edges (row i = out-edges of sample i) and the candidate mask *)
  Definition pc_state := (list (list bool) * list bool)%type.

  Definition col_covered (edges : list (list bool)) (is_cand : list bool) (j : nat) : bool :=
    existsb (fun i => negb (nth i is_cand false) && nth j (nth i edges []) false) (seq 0 (length edges)).

  (* edges[:, is_covered] = False *)
  Definition pc_prune (st : pc_state) : list (list bool) :=
    let '(edges, is_cand) := st in
    map (fun r => map (fun j => nth j r false && negb (col_covered edges is_cand j)) (seq 0 (length r))) edges.

  Definition count_true (r : list bool) : Z := Z.of_nat (length (filter (fun b => b) r)).

  (* utilities[b][is_candidate] = edges[is_candidate].sum(axis=1) on a NaN-filled row *)
  Definition pc_row (st : pc_state) : list val :=
    let e := pc_prune st in
    map (fun i => if nth i (snd st) false then Some (count_true (nth i e [])) else None) (seq 0 (length (snd st))).

  Fixpoint set_false (l : list bool) (i : nat) : list bool :=
    match l, i with
    | [], _ => []
    | _ :: t, O => false :: t
    | x :: t, S j => x :: set_false t j
    end.

  Definition pc_next (st : pc_state) (idx : nat) : pc_state := (pc_prune st, set_false (snd st) idx).

  Definition probcover_loop (edges : list (list bool)) (is_cand : list bool) (k : nat) (noises : list (list Z))
    : list step :=
    sel_loop pc_state pc_row pc_next k (edges, is_cand) noises.
End ProbCover.

(* ------------------------------------------------ loops masking an oracle row *)
(* Clue / DropQuery (`utilities[b][mapping] = scores_b; utilities[b][query_indices] = nan`),
   DiscriminativeAL(greedy_selection=False) and FourDs (the same in candidate space, remapped):
   the scores of step b are an arbitrary function of the picks so far (refitted discriminator,
   b-th centroid, ...). *)
Section OracleLoop.
  Variable n : nat.
  Variable cs : list nat.
  Variable score : list nat -> list val.

  Definition ol_row (prev : list nat) : list val :=
    mask_all (scatter cs (score prev) (repeat None n)) prev.

  Definition oracle_loop (k : nat) (noises : list (list Z)) : list step :=
    sel_loop (list nat) ol_row (fun prev p => prev ++ [p]) k [] noises.
End OracleLoop.

(* --------------------------------------- _greedy_sampling: compacted candidates *)
(* skactiveml/pool/_greedy_sampling.py: the utilities of the not yet selected candidates form a
   compacted vector; rand_argmax runs on that vector (noise of its length), the winner is translated
   through not_selected_candidates and deleted from it. *)
Fixpoint remove_nth {A} (i : nat) (l : list A) : list A :=
  match l, i with
  | [], _ => []
  | _ :: t, O => t
  | x :: t, S j => x :: remove_nth j t
  end.

Section Compact.
  Variable m : nat.                                      (* number of candidates = row width *)
  Variable score : list nat -> list nat -> list val.     (* picked so far -> remaining -> compacted utilities *)

  Fixpoint compact_loop (k : nat) (picked remaining : list nat) (noises : list (list Z)) : list step :=
    match k, noises with
    | S k', nz :: rest =>
        let util := score picked remaining in
        let i := rand_argmax util nz in
        let p := nth i remaining O in
        (p, scatter remaining util (repeat None m))
          :: compact_loop k' (picked ++ [p]) (remove_nth i remaining) rest
    | _, _ => []
    end.
End Compact.

(* GreedySamplingX: utilities from a distance oracle d (cand position -> sample index -> distance);
   no labeled sample: minus the sum of the distances to all samples; otherwise the distance to the
   nearest labeled-or-selected sample.  cidx maps a candidate position to its index in X_all. *)
Section GSx.
  Variable d : nat -> nat -> Z.
  Variable n_samples : nat.             (* sample_indices = arange(len(X)) *)
  Variable labeled : list nat.          (* selected_indices at the start *)
  Variable cidx : nat -> nat.           (* candidate_indices[c] *)

  Definition gsx_score (picked remaining : list nat) : list val :=
    let sel := labeled ++ map cidx picked in
    map (fun c =>
           match sel with
           | [] => Some (- fold_left (fun acc s => acc + d c s) (seq 0 n_samples) 0)
           | s0 :: st => Some (fold_left (fun acc s => Z.min acc (d c s)) st (d c s0))
           end) remaining.

  Definition gsx_loop (m k : nat) (noises : list (list Z)) : list step :=
    compact_loop m gsx_score k [] (seq 0 m) noises.
End GSx.

(* candidate space -> sample space: utilities[:, mapping] = utilities_cand; query_indices = mapping[...] *)
Definition remap (n : nat) (mapping : list nat) (t : list step) : list step :=
  map (fun s => (nth (fst s) mapping O, scatter mapping (snd s) (repeat None n))) t.

(* ------------------------------------------ RegressionTreeBasedAL (random / diversity) *)
(* skactiveml/pool/_regression_tree_based_al.py, methods "random" and "diversity", AS WRITTEN: the leaves that hold candidates are
   visited in ascending order; leaf l is given n_k[l] steps; in every step a FRESH row of -inf gets the leaf's value (1 resp. the
   distance to the nearest labeled sample of the leaf) at the leaf's candidates and NaN at the earlier picks, the pick is
   rand_argmax of that row.  The schedule (leaf per step) is the numeric layer's business: its length is the number of returned
   indices, which is smaller than batch_size whenever a leaf with a positive quota holds no candidate (recorded finding); when a
   leaf's quota exceeds its candidates the maximum of the row is -inf and some other candidate is taken (recorded finding). *)
Section RegTree.
  Variable m : nat.
  Variable leaf_of : nat -> nat.
  Variable value : nat -> Z.
  Variable neg : Z.

  Definition rt_row (leaf : nat) (prev : list nat) : list val :=
    map (fun j => if memb j prev then None else if Nat.eqb (leaf_of j) leaf then Some (value j) else Some neg) (seq 0 m).

  Definition rt_state := (list nat * list nat)%type.      (* leaves of the remaining steps, picks so far *)

  Definition rt_loop (sched : list nat) (noises : list (list Z)) : list step :=
    sel_loop rt_state (fun s => rt_row (hd O (fst s)) (snd s)) (fun s p => (tl (fst s), snd s ++ [p]))
             (length sched) (sched, []) noises.
End RegTree.

(* ------------------------------------------------------------------ BatchBALD *)
(* skactiveml/pool/_bald.py, BatchBALD (greedy_selection=False) AS WRITTEN (recorded finding: duplicates under ties):
   batch_bald runs a masked oracle-row loop in candidate space whose picks are made by
   rand_argmax(utilities[i], random_state=0) - a fresh generator with the same seed in every step, hence the SAME
   noise vector each time; query() then scatters the rows into sample space and picks AGAIN, row by row, with
   rand_argmax(batch_utilities, axis=1, random_state=self.random_state_), i.e. with other noise.  The rows carry the
   NaN marks of the internal picks. *)
Section BatchBALD.
  Variable n m : nat.
  Variable mapping : list nat.
  Variable score : list nat -> list val.

  Definition bald_internal (k : nat) (noiseA : list Z) : list step :=
    oracle_loop m (seq 0 m) score k (repeat noiseA k).

  Definition bald_trace (k : nat) (noiseA : list Z) (noisesB : list (list Z)) : list step :=
    map2 (fun (s : step) (nb : list Z) =>
            let row := scatter mapping (snd s) (repeat None n) in (rand_argmax row nb, row))
         (bald_internal k noiseA) noisesB.
End BatchBALD.

(* ------------------------------------------------------------------ TypiClust *)
(* skactiveml/pool/_typi_clust.py, the batch loop AS WRITTEN (recorded findings: duplicates,
   UnboundLocalError): clusters are chosen by rand_argmax over their sizes (covered clusters have
   size 0); the sample is chosen by rand_argmax over typicality[mapping], which is NOT masked by the
   earlier picks; `cluster_sizes[cluster_id] = 0` fails when no cluster was ever chosen.
   Random numbers are consumed from one flat stream (numerators of random_state.random()). *)
Section TypiClust.
  Variable n : nat.
  Variable mapping : list nat.
  Variable clabel : list nat.                (* cluster label of every sample *)
  Variable typ : nat -> nat -> Z.            (* order key of the typicality of sample j inside cluster c *)
  Variable one_key neg_key : Z.              (* keys of 1.0 (all clusters covered) and of -inf (outside the cluster) *)

  Definition tc_typicality (cid : option nat) (j : nat) : val :=
    match cid with
    | None => Some one_key
    | Some c => if Nat.eqb (nth j clabel O) c then Some (typ c j) else Some neg_key
    end.

  Fixpoint set_zero (l : list Z) (i : nat) : list Z :=
    match l, i with
    | [], _ => []
    | _ :: t, O => 0 :: t
    | x :: t, S j => x :: set_zero t j
    end.

  Fixpoint tc_loop (k : nat) (sizes : list Z) (prev : list nat) (last : option nat) (stream : list Z)
    : option (list step) :=
    match k with
    | O => Some []
    | S k' =>
        let allz := forallb (Z.eqb 0) sizes in
        let '(cid, stream1) :=
            if allz then (None, stream)
            else (Some (rand_argmax (map Some sizes) (firstn (length sizes) stream)), skipn (length sizes) stream) in
        let tvec := map (tc_typicality cid) mapping in
        let i := rand_argmax tvec (firstn (length mapping) stream1) in
        let p := nth i mapping O in
        let row := mask_all (scatter mapping tvec (repeat None n)) prev in
        let last' := match cid with Some c => Some c | None => last end in
        match last' with
        | None => None                                   (* cluster_id is unbound: UnboundLocalError *)
        | Some c =>
            match tc_loop k' (set_zero sizes c) (prev ++ [p]) last' (skipn (length mapping) stream1) with
            | None => None
            | Some rest => Some ((p, row) :: rest)
            end
        end
    end.

  Definition typiclust (k : nat) (sizes : list Z) (stream : list Z) : option (list step) :=
    tc_loop k sizes [] None stream.
End TypiClust.

(* ------------------------------------------------ sampling loops (Badge, Falcun) *)
(* raw weights of the candidates at every step (numeric layer, oracle, >= 0); the picks of earlier
   steps get weight 0; if nothing is left, every candidate that is not an earlier pick gets weight 1;
   the sample is drawn by random_state.choice(p = weights / sum) - an oracle with the contract
   "never returns an entry of probability 0" (Badge's first pick is the arg max instead); the
   reported row is NaN at the earlier picks. *)
Section SamplingLoop.
  Definition zero_at (l : list Z) (idx : list nat) : list Z :=
    map (fun jv => if memb (fst jv) idx then 0 else snd jv) (combine (seq 0 (length l)) l).

  Definition sweights (raw : list Z) (prev : list nat) : list Z :=
    let r := zero_at raw prev in
    if forallb (Z.eqb 0) r then zero_at (repeat 1 (length raw)) prev else r.

  Definition srow (raw : list Z) (prev : list nat) : list val :=
    map (fun jv => if memb (fst jv) prev then None else Some (snd jv))
        (combine (seq 0 (length raw)) (sweights raw prev)).

  Fixpoint sampling_trace (raws : list (list Z)) (picks prev : list nat) : list step :=
    match raws, picks with
    | r :: rt, p :: pt => (p, srow r prev) :: sampling_trace rt pt (prev ++ [p])
    | _, _ => []
    end.

  (* the choice contract along the trace: the drawn candidate has positive weight *)
  Fixpoint contract_ok (raws : list (list Z)) (picks prev : list nat) : bool :=
    match raws, picks with
    | r :: rt, p :: pt => (0 <? nth p (sweights r prev) 0) && contract_ok rt pt (prev ++ [p])
    | [], [] => true
    | _, _ => false
    end.
End SamplingLoop.
