(* Random-number provenance (C06): a computation draws from its own generator (derived from
   random_state) and possibly from numpy's process-global generator.  No proofs here. *)
From Coq Require Import ZArith List Bool.
Import ListNotations.
Open Scope Z_scope.

Inductive prog (A : Type) : Type :=
| Ret (a : A)
| DrawOwn (k : Z -> prog A)
| DrawGlobal (k : Z -> prog A).
Arguments Ret {A}. Arguments DrawOwn {A}. Arguments DrawGlobal {A}.

(* generators: an immutable stream of draws and a cursor *)
Fixpoint run {A} (p : prog A) (own : nat -> Z) (co : nat) (glob : nat -> Z) (cg : nat) : A :=
  match p with
  | Ret a => a
  | DrawOwn k => run (k (own co)) own (S co) glob cg
  | DrawGlobal k => run (k (glob cg)) own co glob (S cg)
  end.

Inductive no_global {A} : prog A -> Prop :=
| NG_ret a : no_global (Ret a)
| NG_own k : (forall z, no_global (k z)) -> no_global (DrawOwn k).

(* check_random_state(random_state, seed_multiplier): a COPY of the given state yields r = randint(1, 2^31);
   the derived generator is RandomState((r * m) mod 2^31) with m = number of unlabeled samples + 1 *)
Definition derive_seed (r m : Z) : Z := (r * m) mod 2 ^ 31.

(* call sites the translator reports: (kind, listed as a known finding) *)
Definition site := (nat * bool)%type.
Definition sites_ok (t : list site) : bool := forallb (fun s => snd s) t.
