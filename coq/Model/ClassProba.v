(* Classifier outputs (C11): frequency normalisation with uniform fallback
   (ClassFrequencyEstimator.predict_proba), re-mapping of estimator probability columns onto
   classes_ (SklearnClassifier.predict_proba), permutation of the cost matrix to the sorted
   class order (SkactivemlClassifier._validate_data) and the cost-sensitive decision.
   Exact arithmetic (Q).  No proofs here. *)
From Coq Require Import ZArith QArith List Bool.
From V Require Import Base.OptOrder Model.Sel Model.Label.
Import ListNotations.
Open Scope Q_scope.

Definition qsum (l : list Q) : Q := fold_right Qplus 0 l.

(* P = freq + prior; rows with positive mass are normalised, zero rows become uniform *)
Definition normalize_row (K : nat) (row : list Q) : list Q :=
  let s := qsum row in
  if Qle_bool s 0 then repeat (1 # Pos.of_nat K) K else map (fun x => x / s) row.

Definition freq_proba (K : nat) (freq prior : list Q) : list Q :=
  normalize_row K (map2 Qplus freq prior).

(* columns of the wrapped estimator (classes est, a subset of the sorted classes cls) are placed
   at the positions of their classes; other columns are 0; a single estimator class gets mass 1 *)
Definition remap_row (cls est : list Z) (p : list Q) : list Q :=
  map (fun c => match index_of c est with
                | Some j => if (length est =? 1)%nat then 1 else nth j p 0
                | None => 0
                end) cls.

(* cost_matrix_ = cost_matrix[argsort(classes)][:, argsort(classes)] *)
Definition argsort (declared : list Z) : list nat :=
  map (fun v => match index_of v declared with Some i => i | None => O end) (sort_dedupe declared).

Definition permute_cost {A} (d : A) (declared : list Z) (C : list (list A)) : list (list A) :=
  map (fun i => map (fun j => nth j (nth i C []) d) (argsort declared)) (argsort declared).

(* expected cost of predicting class j: sum_i P_i * C_ij *)
Definition expected_costs (P : list Q) (C : list (list Q)) : list Q :=
  map (fun j => qsum (map2 (fun p row => p * nth j row 0) P C)) (seq 0 (length P)).

(* the decision: rand_argmin over the (order-key coded) expected costs, decoded to a class label *)
Definition decide (cls : list Z) (cost_keys : list val) (noise : list Z) : Z :=
  nth (rand_argmin cost_keys noise) cls 0%Z.
