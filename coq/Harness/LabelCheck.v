From Coq Require Import ZArith List Bool.
From V Require Import Model.Label Harness.Run.
Import ListNotations.
Open Scope Z_scope.

Definition nn_eqb (p q : nat * nat) : bool := Nat.eqb (fst p) (fst q) && Nat.eqb (snd p) (snd q).

(* (ml, y, is_unlabeled, is_labeled, unlabeled_indices, labeled_indices) *)
Definition pred_case := (Z * list Z * list bool * list bool * list nat * list nat)%type.
Definition check_pred (c : pred_case) : bool :=
  let '(ml, y, u, l, ui, li) := c in
  list_eqb Bool.eqb (is_unlabeled ml y) u && list_eqb Bool.eqb (is_labeled ml y) l &&
  list_eqb Nat.eqb (unlabeled_indices ml y) ui && list_eqb Nat.eqb (labeled_indices ml y) li.

Definition pred2_case := (Z * list (list Z) * list (list bool) * list (list bool) * list (nat * nat) * list (nat * nat))%type.
Definition check_pred2 (c : pred2_case) : bool :=
  let '(ml, y, u, l, ui, li) := c in
  list_eqb (list_eqb Bool.eqb) (is_unlabeled2 ml y) u && list_eqb (list_eqb Bool.eqb) (is_labeled2 ml y) l &&
  list_eqb nn_eqb (unlabeled_indices2 ml y) ui && list_eqb nn_eqb (labeled_indices2 ml y) li.

Definition sk_of (n : nat) : skind := match n with O => SNum | S O => SStr | _ => SNone end.
Definition dk_of (n : nat) : dkind := match n with O => DNum | S O => DStr | _ => DObj end.

(* (dtype kind, sentinel kind, is_unlabeled accepted, check_missing_label(target_type=dtype) accepted) *)
Definition acc_case := (nat * nat * bool * bool)%type.
Definition check_acc (c : acc_case) : bool :=
  let '(d, s, a1, a2) := c in
  Bool.eqb (is_unlabeled_accepts (dk_of d) (sk_of s)) a1 && Bool.eqb (compatible (sk_of s) (dk_of d)) a2.

Definition olz_eqb (a b : option (list Z)) : bool :=
  match a, b with
  | None, None => true
  | Some x, Some y => list_eqb Z.eqb x y
  | _, _ => false
  end.

(* (classes, ml, y_fit, classes_, y, transform(y), inverse(transform(y))) *)
Definition enc_case := (option (list Z) * Z * list Z * list Z * list Z * option (list Z) * option (list Z))%type.
Definition check_enc (c : enc_case) : bool :=
  let '(classes, ml, yfit, cls, y, tr, inv) := c in
  list_eqb Z.eqb (enc_fit classes ml yfit) cls &&
  olz_eqb (enc_transform cls ml y) tr &&
  match tr with
  | Some codes => olz_eqb (enc_inverse cls ml codes) inv
  | None => true
  end.
