From Coq Require Import ZArith List Bool.
From V Require Import Base.OptOrder Model.Sel Harness.Run.
Import ListNotations.
Open Scope Z_scope.

(* (is_max, flat array, shape, flat noise, expected multi-index) *)
Definition arg_case := (bool * list val * list nat * list Z * list nat)%type.
Definition check_arg (c : arg_case) : bool :=
  let '(is_max, a, shape, noise, expected) := c in
  let i := if is_max then rand_argmax a noise else rand_argmin a noise in
  list_eqb Nat.eqb (unravel shape i) expected.

(* (is_max, rows, noise rows, expected index per row) : axis=1 (axis=0 on the transpose) *)
Definition axis_case := (bool * list (list val) * list (list Z) * list nat)%type.
Definition check_axis (c : axis_case) : bool :=
  let '(is_max, rows, noise, expected) := c in
  list_eqb Nat.eqb (if is_max then rand_argmax_rows rows noise else rand_argmin_rows rows noise) expected.

(* (flat utilities, shape, noise per step, batch size, expected picks, expected rows) *)
Definition batch_case := (list val * list nat * list (list Z) * nat * list (list nat) * list (list val))%type.
Definition check_batch (c : batch_case) : bool :=
  let '(u, shape, noises, bs, picks, rows) := c in
  let t := simple_batch_max u noises bs in
  list_eqb (list_eqb Nat.eqb) (map (fun s => unravel shape (fst s)) t) picks &&
  list_eqb (list_eqb oz_eqb) (map snd t) rows.

(* (utilities, k, chosen (= numpy choice result), expected rows) *)
Definition prop_case := (list val * nat * list nat * list (list val))%type.
Definition check_prop (c : prop_case) : bool :=
  let '(u, k, chosen, rows) := c in
  choice_contract u k chosen &&
  list_eqb (list_eqb oz_eqb) (map snd (simple_batch_prop u chosen)) rows.
