From Coq Require Import List Bool Arith.
From V Require Import Model.SlidingWindow Harness.Run.
Import ListNotations.

Definition sw_of (p : bool * list nat) : swop := if fst p then SFit (snd p) else SPartial (snd p).

(* (window size, ops with the window observed after each op) *)
Definition win_case := (nat * list ((bool * list nat) * list nat))%type.
Fixpoint win_run (w : nat) (win : list nat) (ops : list ((bool * list nat) * list nat)) : bool :=
  match ops with
  | [] => true
  | (o, obs) :: t =>
      let win' := sw_step w win (sw_of o) in
      list_eqb Nat.eqb win' obs && win_run w win' t
  end.
Definition check_win (c : win_case) : bool := let '(w, ops) := c in win_run w [] ops.
