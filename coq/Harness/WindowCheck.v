From Coq Require Import List Bool Arith.
From V Require Import Model.SlidingWindow Harness.Run.
Import ListNotations.

Definition sw_of (p : bool * list nat) : swop := if fst p then SFit (snd p) else SPartial (snd p).

(* (window size, ops with the window observed after each op) *)
Definition win_case := (nat * list ((bool * list nat) * list nat))%type.
Fixpoint win_run (w : nat) (win : list nat) (ops : list ((bool * list nat) * list nat)) : bool :=
  match ops with
  | [] => true
  | (o, obs) :: t =>
      let win' := sw_step w win (sw_of o) in
      list_eqb Nat.eqb win' obs && win_run w win' t
  end.
Definition check_win (c : win_case) : bool := let '(w, ops) := c in win_run w [] ops.

(* ---- calls with changing parameters / weights (Model.SlidingWindow.swx_step) ----
   per call: ((is_fit, window_size, only_labeled, weights passed), batch of (id, labeled)),
   observation: None = the call raised, Some (window ids, ids of the weights window or None) *)
Definition xobs := option (list nat * option (list nat)).
Definition winx_case := list (((bool * nat * bool * bool) * list (nat * bool)) * xobs).

Definition xcall_of (p : (bool * nat * bool * bool) * list (nat * bool)) : xcall :=
  let '((f, w, ol, wt), b) := p in {| xfit := f; xw := w; xol := ol; xs := b; xwt := wt |}.

Definition opt_list_eqb (a b : option (list nat)) : bool :=
  match a, b with
  | None, None => true
  | Some x, Some y => list_eqb Nat.eqb x y
  | _, _ => false
  end.

Fixpoint winx_run (s : xwin) (ops : winx_case) : bool :=
  match ops with
  | [] => true
  | (c, obs) :: t =>
      match swx_step s (xcall_of c), obs with
      | None, None => true                      (* both raise: the history ends here *)
      | Some s', Some (win, wts) =>
          list_eqb Nat.eqb (map fst (xwindow s')) win && opt_list_eqb (xweights s') wts && winx_run s' t
      | _, _ => false
      end
  end.
Definition check_winx (c : winx_case) : bool := winx_run xempty c.
