(* comparison glue for the kernel cache of IndexClassifierWrapper (Model/KernelCache.v) *)
From Coq Require Import ZArith List Bool.
From V Require Import Base.OptOrder Model.PoolQuery Model.KernelCache Harness.Run.
Import ListNotations.
Open Scope Z_scope.

Definition pf_of (n : nat) : pfilter := match n with 0%nat => PAll | 1%nat => PLabeled | _ => PUnlabeled end.

(* one call: precompute(fit, pred, fit_params, pred_params) followed by the observed pwc_K_, and a lookup
   (train, query) with the observation "raised" (true) or not *)
Definition kc_call := (list nat * list nat * nat * nat * list (list val) * list nat * list nat * bool)%type.

Fixpoint kc_run (k : nat -> nat -> Z) (lab : list bool) (c : cache) (calls : list kc_call) : bool :=
  match calls with
  | [] => true
  | (fit, pred, pf, pp, obs, train, query, raised) :: t =>
      let c' := precompute k lab c fit pred (pf_of pf) (pf_of pp) in
      list_eqb (list_eqb oz_eqb) c' obs &&
      Bool.eqb (match lookup c' train query with None => true | Some _ => false end) raised &&
      kc_run k lab c' t
  end.

(* (coordinates of the samples (linear kernel x*z), labeled mask, calls) *)
Definition kc_case := (list Z * list bool * list kc_call)%type.
Definition check_kcache (c : kc_case) : bool :=
  let '(xs, lab, calls) := c in
  let k := fun i j => nth i xs 0 * nth j xs 0 in
  kc_run k lab (empty_cache (length xs)) calls.
