From Coq Require Import ZArith QArith Qabs List Bool.
From V Require Import Base.OptOrder Model.Sel Model.Aggregation Harness.Run.
Import ListNotations.
Open Scope Z_scope.

(* (K, y, w, expected vote vectors (scaled), noise rows, expected majority) *)
Definition vote_case := (nat * list (list (option nat)) * list (list (option Z)) * list (list Z) * list (list Z) * list (option nat))%type.
Definition check_vote (c : vote_case) : bool :=
  let '(K, y, w, v, noise, maj) := c in
  list_eqb (list_eqb Z.eqb) (vote_vectors K y w) v &&
  list_eqb onat_eqb (majority K y w noise) maj.

Definition qclose (a b : Q) : bool := Qle_bool (Qabs (a - b)) (1 # 1000000000000).

(* (mode, K, y_true, predictions per annotator, expected matrices as exact rationals of the returned doubles) *)
Definition conf_case := (nat * nat * list nat * list (list (option nat)) * list (list (list Q)))%type.
Definition check_conf (c : conf_case) : bool :=
  let '(mode, K, yt, preds, expected) := c in
  list_eqb (list_eqb (list_eqb qclose)) (map (fun pred => conf_norm mode K (conf_matrix K yt pred)) preds) expected.
