From Coq Require Import ZArith List Bool.
From V Require Import Model.FitFilter Harness.Run.
Import ListNotations.
Open Scope Z_scope.

Definition row_eqb (a b : row) : bool :=
  Nat.eqb (fst (fst a)) (fst (fst b)) && oz_eqb (snd (fst a)) (snd (fst b)) && Z.eqb (snd a) (snd b).

(* (training rows handed to the wrapper, rows the wrapped estimator actually received) *)
Definition fit_case := (list row * list row)%type.
Definition check_fit (c : fit_case) : bool :=
  let '(d, got) := c in list_eqb row_eqb (labeled_subset d) got.
