From Coq Require Import ZArith List Bool.
From V Require Import Base.OptOrder Model.PoolQuery Model.IndexWrapper Harness.Run.
Import ListNotations.
Open Scope Z_scope.

Definition triple_eqb (a b : triple) : bool :=
  Nat.eqb (fst (fst a)) (fst (fst b)) && Z.eqb (snd (fst a)) (snd (fst b)) && oz_eqb (snd a) (snd b).
Definition model_eqb (a b : option (list batch)) : bool :=
  match a, b with
  | None, None => true
  | Some x, Some y => list_eqb (list_eqb triple_eqb) x y
  | _, _ => false
  end.

(* expected observation after an operation: Some (cur, base) or None with an error code
   (0 = not fitted, 1 = duplicate indices, 2 = inconsistent weights) *)
Definition obs := (option (option (list batch) * option (list batch)) * nat)%type.

Definition err_code (e : werr) : nat := match e with ENotFitted => 0 | EDuplicate => 1 | EWeights => 2 end.

Fixpoint run_check (c : wcfg) (s : wstate) (ops : list (wop * obs)) : bool :=
  match ops with
  | [] => true
  | (o, (exp, code)) :: t =>
      match step c s o, exp with
      | inl s', Some (ec, eb) => model_eqb (cur s') ec && model_eqb (base s') eb && run_check c s' t
      | inr e, None => Nat.eqb (err_code e) code     (* the sequence stops at the first error *)
      | _, _ => false
      end
  end.

Definition idx_case := (bool * bool * list (wop * obs))%type.
Definition check_idx (c : idx_case) : bool :=
  let '(native, uniq, ops) := c in
  run_check {| native_pf := native; unique := uniq |} init ops.
