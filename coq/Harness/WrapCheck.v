From Coq Require Import ZArith List Bool.
From V Require Import Base.OptOrder Model.PoolQuery Model.Wrappers Harness.Run.
Import ListNotations.
Open Scope Z_scope.

(* (n, k, sizes returned by np.array_split) *)
Definition split_case := (nat * nat * list nat)%type.
Definition check_split (c : split_case) : bool :=
  let '(n, k, sizes) := c in list_eqb Nat.eqb (split_sizes n k) sizes.

(* (values, scipy ordinal ranks) *)
Definition rank_case := (list Z * list nat)%type.
Definition check_rank (c : rank_case) : bool :=
  let '(l, r) := c in list_eqb Nat.eqb (ordinal_rank l) r.

Definition mc_of (is_int : bool) (m : nat) (p q : positive) : maxcand := if is_int then MInt m else MFrac p q.

(* (key of -inf, max_candidates, candidate set, subset, picks, inner rows, returned rows) *)
Definition sub_case := (Z * bool * nat * positive * positive * list nat * list nat * list nat * list (list val) * list (list val))%type.
Definition check_sub (c : sub_case) : bool :=
  let '(minf, is_int, m, p, q, cs, subset, picks, inner, rows) := c in
  sub_ok minf (mc_of is_int m p q) cs subset picks inner rows.

(* SingleAnnotatorWrapper._get_order_preserving_s_query on one row: (key below every value = -inf, row of utility keys (None = NaN),
   forced position, ranks returned (None = NaN)) *)
Definition rt_case := (Z * list val * nat * list (option nat))%type.
Definition check_rank_transform (c : rt_case) : bool :=
  let '(low, row, forced, ranks) := c in list_eqb onat_eqb (rank_transform low row forced) ranks.
