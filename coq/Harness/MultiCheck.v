From Coq Require Import ZArith List Bool.
From V Require Import Base.OptOrder Model.Sel Model.PoolQuery Model.MultiAnnot Harness.Run Harness.PoolCheck.
Import ListNotations.
Open Scope Z_scope.

Definition annot_of (kind : nat) (l : list nat) (m : list (list bool)) : annot :=
  match kind with 0%nat => ANone | 1%nat => AIdx l | _ => AMat m end.

(* (missing pattern, cand kind, cand idx, n feat rows, annot kind, annot idx, annot matrix, bs,
    expected rows (mapping), expected A_cand, expected clipped batch size) *)
Definition avail_case := (list (list bool) * nat * list nat * nat * nat * list nat * list (list bool) * nat *
                          list nat * list (list bool) * nat)%type.
Definition check_avail (c : avail_case) : bool :=
  let '(y, ck, cl, cm, ak, al, am, bs, rows, A, k) := c in
  let cd := cand_of ck cl cm in
  let an := annot_of ak al am in
  list_eqb Nat.eqb (ma_rows y cd an) rows &&
  list_eqb (list_eqb Bool.eqb) (ma_avail y cd an) A &&
  Nat.eqb (expected_pairs bs y cd an) k.

Definition olist_eqb (a b : option (list nat)) : bool :=
  match a, b with
  | None, None => true
  | Some x, Some y => list_eqb Nat.eqb x y
  | _, _ => false
  end.

(* (batch size, n_max of the chosen samples, preferred counts, result or None = did not return) *)
Definition assign_case := (nat * list nat * list nat * option (list nat))%type.
Definition check_assign (c : assign_case) : bool :=
  let '(bs, nmax, pref, r) := c in
  olist_eqb (n_to_assign (bs + 2) bs nmax pref) r.

(* (availability in the utilities' row space, n annotators, expected k, trace) *)
Definition pairs_case := (list (list bool) * nat * nat * list ((nat * nat) * list (list val)))%type.
Definition check_pairs (c : pairs_case) : bool :=
  let '(A, na, k, t) := c in accepts_pairs A na k t.
