(* Evaluation of the binary64 instance of the stream models on histories
   recorded from the implementation (bit-exact comparison). *)
From Coq Require Import ZArith List Bool PrimFloat.
From V Require Import Base.Num Model.StreamCore Model.Zliobaite Model.StreamCounters Model.Biqf Harness.Run.
Import ListNotations.

Definition feq (a b : float) : bool :=
  PrimFloat.eqb a b || (negb (PrimFloat.eqb a a) && negb (PrimFloat.eqb b b)).

Definition zk_of (n : nat) : zkind :=
  match n with 0 => ZFixed | 1 => ZVariable | 2 => ZRandVar | 3 => ZSplit | _ => ZRandom end.

Definition mkzin (p : float * float) : @zin float := {| util := fst p; eta := snd p |}.

(* an operation with what the implementation did: for a query the chunk of
   (utility, eta) pairs and the returned indices; for an update the chunk
   length and the indices passed; plus the observable state afterwards *)
Inductive fop :=
| FQuery (xs : list (float * float)) (res : list nat) (u th : float) (c : nat)
| FUpdate (n : nat) (idx : list nat) (u th : float) (c : nat).

Definition zstate_eqb (s : @zstate float) (u th : float) (c : nat) : bool :=
  feq (u_t s) u && feq (theta s) th && Nat.eqb (cur s) c.

Fixpoint zl_run (k : zkind) (p : @zparams float) (s : zstate) (ops : list fop) : bool :=
  match ops with
  | [] => true
  | FQuery xs res u th c :: t =>
      let '(idx, s') := zquery k p s (map mkzin xs) in
      list_eqb Nat.eqb idx res && zstate_eqb s' u th c && zl_run k p s' t
  | FUpdate n idx u th c :: t =>
      let s' := zupdate k p s n idx in
      zstate_eqb s' u th c && zl_run k p s' t
  end.

(* (kind, w, b, s, v, K, draws, theta0, ops) *)
Definition zl_case := (nat * Z * float * float * float * Z * list float * float * list fop)%type.
Definition check_zl (c : zl_case) : bool :=
  let '(k, w, b, s, v, K, draws, th0, ops) := c in
  let p := {| zp_w := w; zp_b := b; zp_s := s; zp_v := v; zp_K := K; zp_draws := draws |} in
  zl_run (zk_of k) p {| u_t := fofZ 0; theta := th0; cur := 0 |} ops.

(* ---- density based split: state (u, t, theta) ---- *)
Inductive dop :=
| DQuery (xs : list (float * float)) (res : list nat) (u t : Z) (th : float)
| DUpdate (n : nat) (idx : list nat) (u t : Z) (th : float).

Definition mkdin (p : float * float) : @din float := {| d_util := fst p; d_eta := snd p |}.
Definition dstate_eqb (s : @dstate float) (u t : Z) (th : float) : bool :=
  Z.eqb (d_u s) u && Z.eqb (d_t s) t && feq (d_theta s) th.

Fixpoint d_run (p : @dparams float) (s : dstate) (ops : list dop) : bool :=
  match ops with
  | [] => true
  | DQuery xs res u t th :: r =>
      let '(idx, s') := d_query p s (map mkdin xs) in
      list_eqb Nat.eqb idx res && dstate_eqb s' u t th && d_run p s' r
  | DUpdate n idx u t th :: r =>
      let s' := d_update p s n idx in
      dstate_eqb s' u t th && d_run p s' r
  end.

Definition d_case := (float * float * float * list dop)%type.
Definition check_d (c : d_case) : bool :=
  let '(b, s, th0, ops) := c in
  d_run {| dp_b := b; dp_s := s |} {| d_u := 0; d_t := 0; d_theta := th0 |} ops.

(* ---- StreamRandomSampling / PeriodicSampling: (obs, q, cursor) ---- *)
Inductive cop :=
| CQuery (n : nat) (res : list nat) (o q : Z) (c : nat)
| CUpdate (n : nat) (idx : list nat) (o q : Z) (c : nat).

Definition cstate_eqb (s : cstate) (o q : Z) (c : nat) : bool :=
  Z.eqb (c_obs s) o && Z.eqb (c_q s) q && Nat.eqb (c_cur s) c.

Fixpoint c_run (k : ckind) (p : @cparams float) (s : cstate) (ops : list cop) : bool :=
  match ops with
  | [] => true
  | CQuery n res o q c :: r =>
      let '(idx, s') := c_query k p s n in
      list_eqb Nat.eqb idx res && cstate_eqb s' o q c && c_run k p s' r
  | CUpdate n idx o q c :: r =>
      let s' := c_update k p s n idx in
      cstate_eqb s' o q c && c_run k p s' r
  end.

(* (kind: 0 = random/allow, 1 = random/not allow, 2 = periodic; b; draws; ops) *)
Definition c_case := (nat * float * list float * list cop)%type.
Definition ck_of (n : nat) : ckind :=
  match n with 0 => CRandom true | 1 => CRandom false | _ => CPeriodic end.
Definition check_c (c : c_case) : bool :=
  let '(k, b, draws, ops) := c in
  c_run (ck_of k) {| cp_b := b; cp_draws := draws |} {| c_obs := 0; c_q := 0; c_cur := 0 |} ops.

(* ---- BalancedIncrementalQuantileFilter: state (observed, queried, history) ----
   the quantile oracle of the model is a lookup table written by the harness. *)
Inductive bop :=
| BQuery (xs : list float) (res : list nat) (o q : Z) (h : list float)
| BUpdate (xs : list float) (idx : list nat) (o q : Z) (h : list float).

Definition bstate_eqb (s : @bstate float) (o q : Z) (h : list float) : bool :=
  Z.eqb (b_obs s) o && Z.eqb (b_que s) q && list_eqb feq (b_hist s) h.

Fixpoint b_run (quant : Z -> list float -> float) (p : @bparams float) (s : bstate) (ops : list bop) : bool :=
  match ops with
  | [] => true
  | BQuery xs res o q h :: r =>
      let '(idx, s') := b_query quant p s xs in
      list_eqb Nat.eqb idx res && bstate_eqb s' o q h && b_run quant p s' r
  | BUpdate xs idx o q h :: r =>
      let s' := b_update p s xs idx in
      bstate_eqb s' o q h && b_run quant p s' r
  end.

(* (budget, w, w_tol, quantile table, ops): the table maps every window the harness derived from the
   canonical definition "last w utilities of committed history ++ chunk prefix" to np.quantile of it *)
Definition b_case := (float * nat * float * list (list float * float) * list bop)%type.
Definition check_biqf (c : b_case) : bool :=
  let '(b, w, wtol, table, ops) := c in
  let quant := fun (_ : Z) (h : list float) =>
    match find (fun e => list_eqb feq (fst e) h) table with Some e => snd e | None => nan end in
  b_run quant {| bq_b := b; bq_w := w; bq_wtol := wtol |} {| b_obs := 0; b_que := 0; b_hist := [] |} ops.
