From Coq Require Import ZArith List Bool PrimFloat.
From V Require Import Base.Num Model.Nix Harness.Run Harness.StreamCheck.
Import ListNotations.

(* (prior, update, returned combination): binary64 instance, bit exact *)
Definition nixf := (float * float * float * float)%type.
Definition nix_eqb (a b : nixf) : bool :=
  let '(a1, a2, a3, a4) := a in let '(b1, b2, b3, b4) := b in
  feq a1 b1 && feq a2 b2 && feq a3 b3 && feq a4 b4.
Definition nix_case := (nixf * nixf * nixf)%type.
Definition check_nix (c : nix_case) : bool :=
  let '(p1, p2, out) := c in nix_eqb (@combine float NumFloat p1 p2) out.
