(* comparison glue for the hand-written selection loops (Model/PoolLoops.v) *)
From Coq Require Import ZArith List Bool.
From V Require Import Base.OptOrder Model.Sel Model.PoolQuery Model.PoolLoops Harness.Run.
Import ListNotations.
Open Scope Z_scope.

Definition mat_get (D : list (list Z)) (i j : nat) : Z := nth j (nth i D []) 0.
Definition trace_eqb := list_eqb (pair_eqb Nat.eqb (list_eqb oz_eqb)).

(* (row width, mapping, initial centers, k, distance matrix, noise per step, implementation's trace) *)
Definition coreset_case := (nat * list nat * list nat * nat * list (list Z) * list (list Z) * list (nat * list val))%type.
Definition check_coreset (c : coreset_case) : bool :=
  let '(w, mapping, centers0, k, D, noises, t) := c in
  trace_eqb (coreset_loop (mat_get D) w mapping centers0 k noises) t.

(* (edges, candidate mask, k, noise per step, implementation's trace) *)
Definition probcover_case := (list (list bool) * list bool * nat * list (list Z) * list (nat * list val))%type.
Definition check_probcover (c : probcover_case) : bool :=
  let '(edges, is_cand, k, noises, t) := c in
  trace_eqb (probcover_loop edges is_cand k noises) t.
