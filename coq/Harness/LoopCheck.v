(* comparison glue for the hand-written selection loops (Model/PoolLoops.v) *)
From Coq Require Import ZArith List Bool.
From V Require Import Base.OptOrder Model.Sel Model.PoolQuery Model.PoolLoops Harness.Run.
Import ListNotations.
Open Scope Z_scope.

Definition mat_get (D : list (list Z)) (i j : nat) : Z := nth j (nth i D []) 0.
Definition trace_eqb := list_eqb (pair_eqb Nat.eqb (list_eqb oz_eqb)).

(* (row width, mapping, initial centers, k, distance matrix, noise per step, implementation's trace) *)
Definition coreset_case := (nat * list nat * list nat * nat * list (list Z) * list (list Z) * list (nat * list val))%type.
Definition check_coreset (c : coreset_case) : bool :=
  let '(w, mapping, centers0, k, D, noises, t) := c in
  trace_eqb (coreset_loop (mat_get D) w mapping centers0 k noises) t.

(* (edges, candidate mask, k, noise per step, implementation's trace) *)
Definition probcover_case := (list (list bool) * list bool * nat * list (list Z) * list (nat * list val))%type.
Definition check_probcover (c : probcover_case) : bool :=
  let '(edges, is_cand, k, noises, t) := c in
  trace_eqb (probcover_loop edges is_cand k noises) t.

(* loops masking an oracle row: (n, cs, score table: one candidate-space score vector per step, k, noises, trace) *)
Definition oracle_case := (bool * nat * list nat * list (list val) * nat * list (list Z) * list (nat * list val))%type.
Definition check_oracle_loop (c : oracle_case) : bool :=
  let '(cand_space, n, cs, table, k, noises, t) := c in
  let score := fun prev : list nat => nth (length prev) table [] in
  if cand_space
  then (* DiscriminativeAL / FourDs: the loop runs over the candidates (noise of their number), then remapped *)
       let m := length cs in trace_eqb (remap n cs (oracle_loop m (seq 0 m) score k noises)) t
  else (* Clue / DropQuery: rows over all samples *)
       trace_eqb (oracle_loop n cs score k noises) t.

(* GreedySamplingX: (distances cand position x sample index, n_samples, labeled, candidate_indices, m, k,
   noises, remap?, n, mapping, trace) *)
Definition gsx_case := (list (list Z) * nat * list nat * list nat * nat * nat * list (list Z) * bool * nat * list nat * list (nat * list val))%type.
Definition check_gsx (c : gsx_case) : bool :=
  let '(D, ns, labeled, cidxl, m, k, noises, rm, n, mapping, t) := c in
  let t0 := gsx_loop (mat_get D) ns labeled (fun c => nth c cidxl O) m k noises in
  trace_eqb (if rm then remap n mapping t0 else t0) t.

(* TypiClust: (n, mapping, cluster labels, typicality keys [cluster][sample], key of 1.0, key of -inf, k,
   initial cluster sizes, flat noise stream, Some trace | None = the query raised UnboundLocalError) *)
Definition tc_case := (nat * list nat * list nat * list (list Z) * Z * Z * nat * list Z * list Z * option (list (nat * list val)))%type.
Definition check_typiclust (c : tc_case) : bool :=
  let '(n, mapping, clabel, T, one_key, neg_key, k, sizes, stream, obs) := c in
  match typiclust n mapping clabel (fun cl j => mat_get T cl j) one_key neg_key k sizes stream, obs with
  | Some t, Some t' => trace_eqb t t'
  | None, None => true
  | _, _ => false
  end.

(* sampling loops (Badge): (raw weights per step as order keys with 0 preserved, picks in candidate space,
   observed rows as sign keys: None = NaN, Some 0 = zero mass, Some 1 = positive mass, first pick is an arg max?) *)
Definition sign_row (r : list val) : list val := map (option_map (fun v => if 0 <? v then 1 else 0)) r.
Definition sampling_case := (list (list Z) * list nat * list (list val) * bool)%type.
Definition check_sampling (c : sampling_case) : bool :=
  let '(raws, picks, rows, first_argmax) := c in
  let t := sampling_trace raws picks [] in
  list_eqb (list_eqb oz_eqb) (map (fun s => sign_row (snd s)) t) rows &&
  contract_ok raws picks [] &&
  (match raws, picks with
   | r0 :: _, p0 :: _ => if first_argmax && negb (forallb (Z.eqb 0) r0) then Nat.eqb p0 (argmax_first r0) else true
   | _, _ => true
   end).

(* BatchBALD (greedy_selection=False): (n, mapping, candidate-space score vector per step as order keys - the rows batch_bald
   returned, NaN at its own earlier picks -, noise of RandomState(0), noise of the strategy's generator per row, returned trace).
   The recorded rows must be the rows of the internal loop (NaN exactly at the internal picks) and the returned indices / rows
   must equal bald_trace. *)
Definition bald_case := (nat * list nat * list (list val) * list Z * list (list Z) * list (nat * list val))%type.
Definition check_bald (c : bald_case) : bool :=
  let '(n, mapping, table, nzA, nzsB, t) := c in
  let m := length mapping in
  let k := length table in
  let score := fun prev : list nat => nth (length prev) table [] in
  list_eqb (list_eqb oz_eqb) (map snd (bald_internal m score k nzA)) table &&
  forallb (fun ir => Nat.eqb (count_nonnan (snd ir)) (m - fst ir)) (combine (seq 0 k) table) &&
  trace_eqb (bald_trace n m mapping score k nzA nzsB) t.

(* RegressionTreeBasedAL (random / diversity): (leaf of every candidate, value key of every candidate, key of -inf, schedule = leaf per
   step, noises, remap?, n, mapping, returned trace) *)
Definition rt_case := (list nat * list Z * Z * list nat * list (list Z) * bool * nat * list nat * list (nat * list val))%type.
Definition check_regtree (c : rt_case) : bool :=
  let '(leaves, values, neg, sched, noises, rm, n, mapping, t) := c in
  let m := length leaves in
  let t0 := rt_loop m (fun j => nth j leaves O) (fun j => nth j values 0) neg sched noises in
  trace_eqb (if rm then remap n mapping t0 else t0) t.
