(* comparison glue for the cognitive dual query strategies (Model/Cognitive.v) *)
From Coq Require Import ZArith List Bool Arith.
From V Require Import Base.OptOrder Model.StreamCore Model.Cognitive Harness.Run.
Import ListNotations.
Open Scope Z_scope.

(* per call: (returned indices, update raised, window coordinates, theta_, t_x_, min_dist_, t_,
   for update: which positions of the list handed to the manager are instances (others: NaN padding)) *)
Definition cog_obs := (list nat * bool * list Z * list nat * list nat * list val * nat * list bool)%type.

Section Run.
  Variable pts : list Z.                 (* integer coordinate of every stream instance *)
  Variable yes : list bool.              (* does the scripted manager grant instance i when asked *)
  Variable tbl : list (list Z).          (* tbl[theta][age] = order key of exp(-(1/(theta+1))*age) *)
  Variable cws thr : nat.
  Variable ffb : bool.

  Definition cd (i j : nat) : Z := Z.abs (nth i pts 0 - nth j pts 0).
  Definition cstr (th age : nat) : Z := nth age (nth th tbl []) 0.
  Definition cdec (_ : nat) (c : nat) : bool := nth c yes false.

  Definition snap (idx : list nat) (raised : bool) (w : cog) (mask : list bool) : cog_obs :=
    (idx, raised, map (fun i => nth i pts 0) (cw w), cth w, ctx w, cmind w, ct w, mask).
  Definition umask (w : cog) (cs : list nat) : list bool :=
    map (fun o : option nat => match o with Some _ => true | None => false end)
        (new_candidates ffb (fst (wloop cd cstr cws thr w cs)) cs).

  Fixpoint cog_run (s : cog * nat) (ops : list (bool * list nat)) : list cog_obs :=
    match ops with
    | [] => []
    | (upd, cs) :: t =>
        let '(idx, s1) := cog_query cd cstr cws thr cdec s cs in
        if upd then
          match cog_update cd cstr cws thr idx_manager_upd ffb s1 cs idx with
          | Some s2 => snap idx false (fst s2) (umask (fst s1) cs) :: cog_run s2 t
          | None => [snap idx true (fst s1) (umask (fst s1) cs)]          (* the harness stops the history here *)
          end
        else snap idx false (fst s1) [] :: cog_run s1 t
    end.
End Run.

Definition cobs_eqb (a b : cog_obs) : bool :=
  let '(i1, r1, w1, h1, x1, m1, t1, k1) := a in let '(i2, r2, w2, h2, x2, m2, t2, k2) := b in
  list_eqb Nat.eqb i1 i2 && Bool.eqb r1 r2 && list_eqb Bool.eqb k1 k2 &&
  (r1 || (list_eqb Z.eqb w1 w2 && list_eqb Nat.eqb h1 h2 && list_eqb Nat.eqb x1 x2 && list_eqb oz_eqb m1 m2 && Nat.eqb t1 t2)).

(* (coordinates, yes bits, strength table, cognition_window_size, density_threshold, force_full_budget, calls, observations) *)
Definition cog_case := (list Z * list bool * list (list Z) * nat * nat * bool * list (bool * list nat) * list cog_obs)%type.
Definition check_cog (c : cog_case) : bool :=
  let '(pts, yes, tbl, cws, thr, ffb, ops, obs) := c in
  list_eqb cobs_eqb (cog_run pts yes tbl cws thr ffb (cog0, 0%nat) ops) obs.
