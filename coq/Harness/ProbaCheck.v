From Coq Require Import ZArith QArith Qabs List Bool.
From V Require Import Base.OptOrder Model.Sel Model.Label Model.ClassProba Harness.Run.
Import ListNotations.
Open Scope Q_scope.

Definition qclose (a b : Q) : bool := Qle_bool (Qabs (a - b)) (1 # 1000000000000).
Definition qeqb (a b : Q) : bool := Qeq_bool a b.

(* (K, freq, prior, returned probabilities as exact rationals of the doubles) *)
Definition freq_case := (nat * list Q * list Q * list Q)%type.
Definition check_freq (c : freq_case) : bool :=
  let '(K, f, pr, out) := c in list_eqb qclose (freq_proba K f pr) out.

(* (classes_, estimator classes, estimator row (dyadic), returned row) *)
Definition remap_case := (list Z * list Z * list Q * list Q)%type.
Definition check_remap (c : remap_case) : bool :=
  let '(cls, est, p, out) := c in list_eqb qeqb (remap_row cls est p) out.

(* (declared classes, cost matrix as given, cost_matrix_ of the fitted classifier) *)
Definition cost_case := (list Z * list (list Q) * list (list Q))%type.
Definition check_cost (c : cost_case) : bool :=
  let '(decl, C, out) := c in list_eqb (list_eqb qeqb) (permute_cost 0 decl C) out.
