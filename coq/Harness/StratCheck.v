(* comparison glue for the density filter of StreamDensityBasedAL (Model/StreamStrategy.v) *)
From Coq Require Import ZArith List Bool.
From V Require Import Base.OptOrder Model.StreamCore Model.StreamStrategy Harness.Run.
Import ListNotations.
Open Scope Z_scope.

(* per call: (pass bits handed to the manager, window_ as coordinates, min_dist_) *)
Definition dens_obs := (list bool * list Z * list val)%type.

Fixpoint dens_run (pts : list Z) (maxlen : nat) (w : dwin) (ops : list (bool * list nat)) : list dens_obs :=
  match ops with
  | [] => []
  | (upd, cs) :: t =>
      let d := fun i j => Z.abs (nth i pts 0 - nth j pts 0) in
      let '(bits, w') := wrun (ldf_step d maxlen) (fun (b : bool) (_ : nat) => b) w cs in
      let w2 := if upd then w' else w in       (* query leaves the window alone *)
      (bits, map (fun i => nth i pts 0) (win w2), mind w2) :: dens_run pts maxlen w2 t
  end.

Definition obs_eqb (a b : dens_obs) : bool :=
  let '(b1, w1, m1) := a in let '(b2, w2, m2) := b in
  list_eqb Bool.eqb b1 b2 && list_eqb Z.eqb w1 w2 && list_eqb oz_eqb m1 m2.

(* (coordinates of the stream instances, window_size, calls (is_update, instance ids), observations) *)
Definition dens_case := (list Z * nat * list (bool * list nat) * list dens_obs)%type.
Definition check_density (c : dens_case) : bool :=
  let '(pts, maxlen, ops, obs) := c in
  list_eqb obs_eqb (dens_run pts maxlen {| win := []; mind := [] |} ops) obs.
