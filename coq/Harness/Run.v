(* Evaluation helpers for the correspondence check (cases_*.v files written by
   the harness evaluate [bad_indices check cases] with vm_compute). *)
From Coq Require Import ZArith List Bool.
Import ListNotations.

Fixpoint bad_from {A} (f : A -> bool) (l : list A) (i : nat) : list nat :=
  match l with
  | [] => []
  | x :: t => if f x then bad_from f t (S i) else i :: bad_from f t (S i)
  end.

Definition bad_indices {A} (f : A -> bool) (l : list A) : list nat := bad_from f l 0.

Fixpoint list_eqb {A} (e : A -> A -> bool) (l m : list A) : bool :=
  match l, m with
  | [], [] => true
  | x :: l', y :: m' => e x y && list_eqb e l' m'
  | _, _ => false
  end.

Definition oz_eqb (a b : option Z) : bool :=
  match a, b with
  | None, None => true
  | Some x, Some y => Z.eqb x y
  | _, _ => false
  end.

Definition onat_eqb (a b : option nat) : bool :=
  match a, b with
  | None, None => true
  | Some x, Some y => Nat.eqb x y
  | _, _ => false
  end.

Definition pair_eqb {A B} (ea : A -> A -> bool) (eb : B -> B -> bool) (p q : A * B) : bool :=
  ea (fst p) (fst q) && eb (snd p) (snd q).
