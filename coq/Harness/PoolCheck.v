From Coq Require Import ZArith List Bool.
From V Require Import Base.OptOrder Model.Sel Model.PoolQuery Harness.Run.
Import ListNotations.
Open Scope Z_scope.

Definition cand_of (kind : nat) (l : list nat) (m : nat) : cand :=
  match kind with 0%nat => CNone | 1%nat => CIdx l | _ => CFeat m end.
Definition mode_of (b : bool) : selmode := if b then SelMax else SelSampling.

(* (is_max, labeled mask, candidate kind, index list, number of feature rows, batch size, trace) *)
Definition pool_case := (bool * list bool * nat * list nat * nat * nat * list (nat * list val))%type.
Definition check_pool (c : pool_case) : bool :=
  let '(mx, lab, kind, l, m, bs, t) := c in
  accepts_pool (mode_of mx) lab (cand_of kind l m) bs t.

(* candidate-set correspondence: (labeled mask, kind, l, m, bs, expected cand set, expected batch size) *)
Definition cs_case := (list bool * nat * list nat * nat * nat * list nat * nat)%type.
Definition check_cs (c : cs_case) : bool :=
  let '(lab, kind, l, m, bs, cs, k) := c in
  list_eqb Nat.eqb (cand_set lab (cand_of kind l m)) cs &&
  Nat.eqb (expected_k bs lab (cand_of kind l m)) k.

(* AL loop: (batch size, initial unlabeled indices, batches) *)
Definition loop_case := (nat * list nat * list (list nat))%type.
Definition check_loop (c : loop_case) : bool :=
  let '(b, u, batches) := c in
  loop_valid b u batches && match loop_remaining u batches with [] => true | _ => false end &&
  Nat.eqb (length batches) (Nat.div (length u + b - 1) b).

(* C01 on the returned indices only: (labeled mask, kind, l, m, bs, picks) *)
Definition batch_case := (list bool * nat * list nat * nat * nat * list nat)%type.
Definition check_batch_ok (c : batch_case) : bool :=
  let '(lab, kind, l, m, bs, picks) := c in
  batch_ok lab (cand_of kind l m) bs picks.

(* functional correspondence of the canonical skeleton: (labeled mask, kind, l, m, bs, scores of the
   candidates in mapping order, tie-breaking noise per step, trace returned by the implementation) *)
Definition skel_case := (list bool * nat * list nat * nat * nat * list val * list (list Z) * list (nat * list val))%type.
Definition check_skeleton (c : skel_case) : bool :=
  let '(lab, kind, l, m, bs, scores, noises, t) := c in
  list_eqb (pair_eqb Nat.eqb (list_eqb oz_eqb)) (skeleton lab (cand_of kind l m) scores noises bs) t.
