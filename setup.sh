#!/bin/bash
# setup_cmd: full .vo build of the Coq development (no network, files on disk only)
set -e
cd "$(dirname "$0")/coq"
coq_makefile -f _CoqProject -o Makefile > /dev/null
timeout 3000 make -j16
