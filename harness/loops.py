"""Functional correspondence of the hand-written selection loops modelled in Model/PoolLoops.v
(CoreSet: k_greedy_center/_update_distances; ProbCover: the batch loop) with the implementation.
The numeric layer is made exact (integer coordinates -> integer distances; a 0/1 distance matrix
handed to ProbCover through distance_func), the tie-breaking noise is reproduced from the strategy's
random state, and the model has to return the same indices AND the same utility rows."""
import warnings

import numpy as np

from .core import blit, listlit, natlist, natlit, noise_num, rank_keys, zlist, zlit

IMPORTS = "From V Require Import Base.OptOrder Model.Sel Model.PoolQuery Model.PoolLoops Harness.Run Harness.LoopCheck."


def _vrow(r):
    return listlit(["None" if v != v else f"(Some {zlit(int(v))})" for v in r])


def _steps(idx, ut):
    return listlit([f"({natlit(int(p))}, {_vrow(ut[r])})" for r, p in enumerate(np.asarray(idx).ravel())])


def _nz(noises):
    return listlit([zlist(rank_keys([noise_num(x) for x in z])) for z in noises])


def direct_oracle(idx, ut, cs, width, k):
    """C01 / C02 as stated, on what query returned (cs = candidate positions in the index space of the result)"""
    picks = [int(i) for i in np.asarray(idx).ravel()]
    ut = np.asarray(ut, dtype=float)
    if len(picks) != k:
        return "batch_length", f"{len(picks)} indices returned, expected {k}"
    if len(set(picks)) != len(picks):
        return "duplicate_index", f"indices {picks} are not pairwise distinct"
    if not set(picks) <= set(cs):
        return "not_a_candidate", f"indices {picks} are not all candidates {sorted(cs)}"
    if ut.shape != (k, width):
        return "utilities_shape", f"utilities shape {ut.shape}, expected {(k, width)}"
    for i, p in enumerate(picks):
        nan_expected = [not (j in cs) or j in picks[:i] for j in range(width)]
        if [bool(v != v) for v in ut[i]] != nan_expected:
            return "nan_pattern", f"row {i}: NaN pattern {[bool(v != v) for v in ut[i]]}, expected {nan_expected}"
        if ut[i, p] != np.nanmax(ut[i]):
            return "pick_not_max", f"row {i}: selected {p} has utility {ut[i, p]}, row maximum {np.nanmax(ut[i])}"
    return None


def _judge(ctx, comp, idx, ut, cs, width, k, rec):
    res = direct_oracle(idx, ut, cs, width, k)
    if res:
        ctx.violation(comp, res[0], res[1], rec, what=f"{comp}: {res[1]} (scripted numeric layer)")
    return res


def coreset_cases(ctx, count):
    from skactiveml.pool import CoreSet
    rng = ctx.rng("coreset")
    terms, meta = [], []
    for h in range(count):
        n = int(rng.integers(2, 9))
        span = int(rng.choice([1, 2, 3, 6]))                 # span 1: all points equal (every distance 0)
        x = rng.integers(0, span, size=n)
        X = x.astype(float).reshape(-1, 1)
        y = np.where(rng.random(n) < rng.choice([0.0, 0.3, 0.6]), 0.0, np.nan)
        if not np.isnan(y).any():
            y[int(rng.integers(0, n))] = np.nan
        unl = [int(i) for i in np.flatnonzero(np.isnan(y))]
        lab = [int(i) for i in np.flatnonzero(~np.isnan(y))]
        cmode = str(rng.choice(["none", "idx", "feat"]))
        if cmode == "none":
            cand, mapping, w, centers, pts = None, unl, n, lab, x
        elif cmode == "idx":
            sub = rng.choice(unl, size=int(rng.integers(1, len(unl) + 1)), replace=False)   # unlabeled candidates (documented use)
            cand = rng.permutation(sub)
            mapping, w, centers, pts = sorted(int(i) for i in sub), n, lab, x
        else:
            m = int(rng.integers(1, 7))
            xc = rng.integers(0, span, size=m)
            cand = xc.astype(float).reshape(-1, 1)
            mapping, w = list(range(m)), m
            centers = list(range(m, m + len(lab)))
            pts = np.concatenate([xc, x[lab]])
        bs = int(rng.integers(1, len(mapping) + 3))
        seed = int(rng.integers(0, 1000))
        with warnings.catch_warnings():
            warnings.simplefilter("ignore")
            try:
                idx, ut = CoreSet(random_state=seed).query(X, y, candidates=cand, batch_size=bs, return_utilities=True)
            except Exception as e:                      # a raising query is C01's business (direct oracle); here: not comparable
                ctx.violation("CoreSet", "exception:" + type(e).__name__, repr(e)[:300],
                              {"x": x.tolist(), "y": [None if v != v else v for v in y], "cmode": cmode,
                               "candidates": None if cand is None else np.asarray(cand).tolist(), "batch_size": bs, "seed": seed},
                              what=f"CoreSet.query raised {type(e).__name__} on integer points")
                continue
            twin = CoreSet(random_state=seed)
            twin._validate_data(X, y, cand, bs, True)
        k = min(bs, len(mapping))
        noises = [twin.random_state_.random(w) for _ in range(k)]
        D = np.abs(pts[:, None] - pts[None, :]).astype(int)
        ut = np.asarray(ut, dtype=float)
        if ut.ndim != 2 or np.isinf(ut).any():
            ctx.violation("CoreSet", "utilities_shape", f"utilities of shape {ut.shape} / infinite entries", {"x": x.tolist(), "seed": seed},
                          what="CoreSet returned utilities that are not a finite-or-NaN 2-d array")
            continue
        Dl = listlit([zlist(r) for r in D.tolist()])
        rec = {"strategy": "CoreSet", "x": x.tolist(), "y": [None if v != v else v for v in y], "candidates_mode": cmode,
               "candidates": None if cand is None else np.asarray(cand).tolist(), "batch_size": bs, "seed": seed,
               "returned_indices": np.asarray(idx).tolist()}
        if _judge(ctx, "CoreSet", idx, ut, mapping, w, k, rec):
            continue
        terms.append(f"({natlit(w)}, {natlist(mapping)}, {natlist(centers)}, {natlit(k)}, {Dl}, {_nz(noises)}, {_steps(idx, ut)})")
        meta.append(rec)
        ctx.count("coreset_loop_correspondence")
        ctx.hist["coreset:" + cmode + (":all_equal" if span == 1 else "")] += 1
        if k >= 2 and len(set(pts.tolist())) < len(pts):
            ctx.nontriv(("coreset", x.tobytes(), y.tobytes(), cmode, repr(meta[-1]["candidates"]), bs, seed))
    return terms, meta


def probcover_cases(ctx, count):
    from skactiveml.pool import ProbCover
    rng = ctx.rng("probcover")
    terms, meta = [], []
    for h in range(count):
        n = int(rng.integers(2, 8))
        dens = float(rng.choice([0.0, 0.2, 0.5, 0.9, 1.0]))
        E = rng.random((n, n)) < dens
        if rng.random() < 0.5:
            E = E | E.T | np.eye(n, dtype=bool)           # a ball graph: symmetric, reflexive
        Dm = np.where(E, 0.0, 1.0)
        X = np.arange(n, dtype=float).reshape(-1, 1)
        y = np.where(rng.random(n) < rng.choice([0.0, 0.3, 0.6]), 0.0, np.nan)
        if not np.isnan(y).any():
            y[int(rng.integers(0, n))] = np.nan
        cmode = str(rng.choice(["none", "idx"]))
        if cmode == "none":
            cand, mapping = None, [int(i) for i in np.flatnonzero(np.isnan(y))]
        else:
            cand = rng.integers(0, n, size=int(rng.integers(1, n + 2)))      # duplicates and labeled samples allowed
            mapping = sorted({int(i) for i in cand})
        bs = int(rng.integers(1, len(mapping) + 3))
        seed = int(rng.integers(0, 1000))
        mk = lambda: ProbCover(distance_func=lambda X_, D_=Dm: D_.copy(), deltas=[0.5], random_state=seed)
        with warnings.catch_warnings():
            warnings.simplefilter("ignore")
            try:
                idx, ut = mk().query(X, y, candidates=cand, batch_size=bs, return_utilities=True)
            except Exception as e:
                ctx.violation("ProbCover", "exception:" + type(e).__name__, repr(e)[:300],
                              {"edges": E.astype(int).tolist(), "y": [None if v != v else v for v in y], "candidates": None if cand is None else np.asarray(cand).tolist(),
                               "batch_size": bs, "seed": seed}, what=f"ProbCover.query raised {type(e).__name__} on a 0/1 distance matrix")
                continue
            twin = mk()
            twin._validate_data(X, y, cand, bs, True)
        k = min(bs, len(mapping))
        noises = [twin.random_state_.random(n) for _ in range(k)]
        ut = np.asarray(ut, dtype=float)
        edges = listlit([listlit([blit(b) for b in r]) for r in E.tolist()])
        isc = listlit([blit(i in mapping) for i in range(n)])
        rec = {"strategy": "ProbCover", "edges": E.astype(int).tolist(), "y": [None if v != v else v for v in y], "candidates_mode": cmode,
               "candidates": None if cand is None else np.asarray(cand).tolist(), "batch_size": bs, "seed": seed,
               "returned_indices": np.asarray(idx).tolist()}
        if _judge(ctx, "ProbCover", idx, ut, mapping, n, k, rec):
            continue
        terms.append(f"({edges}, {isc}, {natlit(k)}, {_nz(noises)}, {_steps(idx, ut)})")
        meta.append(rec)
        ctx.count("probcover_loop_correspondence")
        ctx.hist[f"probcover:{cmode}:density{dens}"] += 1
        if k >= 2:
            ctx.nontriv(("probcover", E.tobytes(), y.tobytes(), cmode, repr(meta[-1]["candidates"]), bs, seed))
    return terms, meta


def loops_correspondence(ctx):
    count = 150 if ctx.is_quick else 2000
    for name, gen, fn in (("CoreSet", coreset_cases, "check_coreset"), ("ProbCover", probcover_cases, "check_probcover"),
                          ("Clue/DiscriminativeAL", oracle_loop_cases, "check_oracle_loop"), ("GreedySamplingX", gsx_cases, "check_gsx"),
                          ("TypiClust", typiclust_cases, "check_typiclust"), ("Badge", badge_cases, "check_sampling"),
                          ("DropQuery", dropquery_cases, "check_oracle_loop"), ("Falcun", falcun_cases, "check_sampling"),
                          ("BatchBALD", batchbald_cases, "check_bald"), ("RegressionTreeBasedAL", regtree_cases, "check_regtree")):
        terms, meta = gen(ctx, count)
        bad, err = ctx.coq_eval_cases("loop_" + fn, IMPORTS, fn, terms, chunk=100)
        if err:
            ctx.violation(name, "model_eval_failed", err, {}, found_input=False, what=f"Coq evaluation of {fn} failed")
        for i in bad[:5]:
            comp = meta[i].get("strategy", name)
            ctx.violation(comp, "loop_mismatch", f"Model/PoolLoops.v and {comp}.query disagree on indices or utility rows", meta[i],
                          found_input=False, what=f"correspondence Model/PoolLoops.v ({fn}) <-> {comp}.query no longer holds")
        if meta:
            ctx.sample({name + "_loop_case": meta[0]}, limit=12)


# ---------------------------------------------------------------------------------------------
# loops masking an oracle row: Clue (scripted cluster algorithm), DiscriminativeAL(greedy_selection=False)
# (scripted discriminator that is refitted after every pick)
def _vrow_scaled(r, scale):
    return listlit(["None" if v != v else f"(Some {zlit(int(round(v * scale)))})" for v in r])


def _steps_scaled(idx, ut, scale):
    return listlit([f"({natlit(int(p))}, {_vrow_scaled(ut[r], scale)})" for r, p in enumerate(np.asarray(idx).ravel())])


_SCRIPTED = {}


def _scripted_classes():
    if _SCRIPTED:
        return _SCRIPTED
    from sklearn.base import BaseEstimator
    from skactiveml.base import SkactivemlClassifier

    class ScriptedClusters(BaseEstimator):
        def __init__(self, n_clusters=2, table=None):
            self.n_clusters, self.table = n_clusters, table

        def fit_transform(self, X, y=None, sample_weight=None):
            return np.asarray(self.table, dtype=float)[:len(X), :self.n_clusters]

    class ScriptedDiscriminator(SkactivemlClassifier):
        def __init__(self, table=None, classes=None, missing_label=np.nan, cost_matrix=None, random_state=None):
            super().__init__(classes=classes, missing_label=missing_label, cost_matrix=cost_matrix, random_state=random_state)
            self.table = table

        def fit(self, X, y, sample_weight=None):
            self.classes_ = np.array([0, 1])
            self.n_fits_ = getattr(self, "n_fits_", 0) + 1
            return self

        def predict_proba(self, X):
            row = self.table[self.n_fits_ - 1]
            p = np.array([row[int(x[0])] for x in np.asarray(X)], dtype=float) / 4.0
            return np.column_stack([1 - p, p])

    _SCRIPTED.update(clusters=ScriptedClusters, disc=ScriptedDiscriminator)
    return _SCRIPTED


def oracle_loop_cases(ctx, count):
    from skactiveml.classifier import ParzenWindowClassifier
    from skactiveml.pool import Clue, DiscriminativeAL
    S = _scripted_classes()
    rng = ctx.rng("oracle_loops")
    terms, meta = [], []
    for h in range(count):
        which = "Clue" if h % 2 == 0 else "DiscriminativeAL"
        n = int(rng.integers(2, 8))
        X = np.arange(n, dtype=float).reshape(-1, 1)
        y = np.where(rng.random(n) < rng.choice([0.0, 0.3, 0.6]), float(rng.integers(0, 2)), np.nan)
        if not np.isnan(y).any():
            y[int(rng.integers(0, n))] = np.nan
        cmode = str(rng.choice(["none", "idx"]))
        if cmode == "none":
            cand, mapping = None, [int(i) for i in np.flatnonzero(np.isnan(y))]
        else:
            cand = rng.integers(0, n, size=int(rng.integers(1, n + 2)))
            mapping = sorted({int(i) for i in cand})
        bs = int(rng.integers(1, len(mapping) + 3))
        k = min(bs, len(mapping))
        seed = int(rng.integers(0, 1000))
        nvals = int(rng.choice([1, 2, 4]))                      # few distinct values: ties in every row
        with warnings.catch_warnings():
            warnings.simplefilter("ignore")
            try:
                if which == "Clue":
                    T = rng.integers(0, nvals, size=(len(mapping), max(k, 1))).astype(int)   # dist[c, b]
                    mk = lambda: Clue(cluster_algo=S["clusters"], cluster_algo_dict={"table": T.tolist()}, random_state=seed)
                    kw = {"clf": ParzenWindowClassifier(classes=[0, 1], random_state=seed)}
                    table = [[-int(T[c, b]) for c in range(len(mapping))] for b in range(k)]
                    scale = 1
                else:
                    T = rng.integers(0, nvals, size=(max(k, 1), n)).astype(int)               # proba*4 of sample i after fit b
                    mk = lambda: DiscriminativeAL(greedy_selection=False, random_state=seed)
                    kw = {"discriminator": S["disc"](table=T.tolist(), classes=[0, 1])}
                    table = [[int(T[b, i]) for i in mapping] for b in range(k)]
                    scale = 4
                idx, ut = mk().query(X, y, candidates=cand, batch_size=bs, return_utilities=True, **kw)
                twin = mk()
                twin._validate_data(X, y, cand, bs, True)
            except Exception as e:
                ctx.violation(which, "exception:" + type(e).__name__, repr(e)[:300],
                              {"y": [None if v != v else v for v in y], "candidates": None if cand is None else np.asarray(cand).tolist(), "batch_size": bs, "seed": seed},
                              what=f"{which}.query raised {type(e).__name__} with a scripted numeric layer")
                continue
        cand_space = which == "DiscriminativeAL"       # its loop runs over the candidates and is remapped afterwards
        noises = [twin.random_state_.random(len(mapping) if cand_space else n) for _ in range(k)]
        ut = np.asarray(ut, dtype=float)
        tab = listlit([listlit([f"(Some {zlit(v)})" for v in r]) for r in table])
        rec = {"strategy": which, "table": T.tolist(), "y": [None if v != v else v for v in y], "candidates_mode": cmode,
               "candidates": None if cand is None else np.asarray(cand).tolist(), "batch_size": bs, "seed": seed,
               "returned_indices": np.asarray(idx).tolist()}
        if _judge(ctx, which, idx, ut, mapping, n, k, rec):
            continue
        terms.append(f"({blit(cand_space)}, {natlit(n)}, {natlist(mapping)}, {tab}, {natlit(k)}, {_nz(noises)}, {_steps_scaled(idx, ut, scale)})")
        meta.append(rec)
        ctx.count(f"{which}_loop_correspondence")
        ctx.hist[f"{which.lower()}:{cmode}:values{nvals}"] += 1
        if k >= 2:
            ctx.nontriv((which, T.tobytes(), y.tobytes(), cmode, repr(meta[-1]["candidates"]), bs, seed))
    return terms, meta


def gsx_cases(ctx, count):
    from skactiveml.pool import GreedySamplingX
    rng = ctx.rng("gsx")
    terms, meta = [], []
    for h in range(count):
        n = int(rng.integers(2, 8))
        span = int(rng.choice([1, 2, 3, 6]))
        x = rng.integers(0, span, size=n)
        X = x.astype(float).reshape(-1, 1)
        y = np.where(rng.random(n) < rng.choice([0.0, 0.0, 0.3, 0.6]), np.round(rng.normal(), 1), np.nan)   # cold start is frequent
        if not np.isnan(y).any():
            y[int(rng.integers(0, n))] = np.nan
        lab = [int(i) for i in np.flatnonzero(~np.isnan(y))]
        cmode = str(rng.choice(["none", "idx", "feat"]))
        if cmode == "none":
            cand, mapping = None, [int(i) for i in np.flatnonzero(np.isnan(y))]
        elif cmode == "idx":
            cand = rng.integers(0, n, size=int(rng.integers(1, n + 2)))
            mapping = sorted({int(i) for i in cand})
        else:
            mc = int(rng.integers(1, 6))
            xc = rng.integers(0, span + 1, size=mc)
            cand, mapping = xc.astype(float).reshape(-1, 1), None
        if mapping is not None:
            xcand, xall, cidx, m = x[mapping], x, list(mapping), len(mapping)
        else:
            xcand, xall, cidx, m = xc, np.concatenate([x, xc]), [n + c for c in range(len(xc))], len(xc)
        bs = int(rng.integers(1, m + 3))
        k = min(bs, m)
        seed = int(rng.integers(0, 1000))
        with warnings.catch_warnings():
            warnings.simplefilter("ignore")
            try:
                idx, ut = GreedySamplingX(random_state=seed).query(X, y, candidates=cand, batch_size=bs, return_utilities=True)
            except Exception as e:
                ctx.violation("GreedySamplingX", "exception:" + type(e).__name__, repr(e)[:300],
                              {"x": x.tolist(), "y": [None if v != v else v for v in y], "candidates": None if cand is None else np.asarray(cand).tolist(),
                               "batch_size": bs, "seed": seed}, what=f"GreedySamplingX.query raised {type(e).__name__} on integer points")
                continue
            twin = GreedySamplingX(random_state=seed)
            twin._validate_data(X, y, cand, bs, True)
        noises = [twin.random_state_.random(m - i) for i in range(k)]
        D = np.abs(xcand[:, None] - xall[None, :]).astype(int)
        ut = np.asarray(ut, dtype=float)
        Dl = listlit([zlist(r) for r in D.tolist()])
        rec = {"strategy": "GreedySamplingX", "x": x.tolist(), "y": [None if v != v else v for v in y], "candidates_mode": cmode,
               "candidates": None if cand is None else np.asarray(cand).tolist(), "batch_size": bs, "seed": seed,
               "returned_indices": np.asarray(idx).tolist()}
        if _judge(ctx, "GreedySamplingX", idx, ut, mapping if mapping is not None else list(range(m)), n if mapping is not None else m, k, rec):
            continue
        terms.append(f"({Dl}, {natlit(n)}, {natlist(lab)}, {natlist(cidx)}, {natlit(m)}, {natlit(k)}, {_nz(noises)}, "
                     f"{blit(mapping is not None)}, {natlit(n)}, {natlist(mapping or [])}, {_steps(idx, ut)})")
        meta.append(rec)
        ctx.count("gsx_loop_correspondence")
        ctx.hist[f"gsx:{cmode}:{'cold' if not lab else 'warm'}"] += 1
        if k >= 2:
            ctx.nontriv(("gsx", x.tobytes(), y.tobytes(), cmode, repr(meta[-1]["candidates"]), bs, seed))
    return terms, meta


# ---------------------------------------------------------------------------------------------
# TypiClust AS WRITTEN (recorded findings: duplicates, UnboundLocalError): exact correspondence, so that any
# change of its selection logic is seen although its property violations are recorded findings
def typiclust_cases(ctx, count):
    from sklearn.base import BaseEstimator
    from skactiveml.pool import TypiClust
    from skactiveml.pool._typi_clust import _typicality
    from .core import fkey

    class ScriptedLabels(BaseEstimator):
        def __init__(self, n_clusters=2, table=None):
            self.n_clusters, self.table = n_clusters, table

        def fit_predict(self, X, y=None):
            return np.asarray(self.table, dtype=int)[:len(X)] % self.n_clusters

    rng = ctx.rng("typiclust")
    terms, meta = [], []
    for h in range(count):
        n = int(rng.integers(2, 9))
        x = rng.integers(0, 6, size=n)
        X = x.astype(float).reshape(-1, 1)
        y = np.where(rng.random(n) < rng.choice([0.0, 0.3, 0.6]), 0.0, np.nan)
        if not np.isnan(y).any():
            y[int(rng.integers(0, n))] = np.nan
        nlab = int((~np.isnan(y)).sum())
        cmode = str(rng.choice(["none", "idx"]))
        if cmode == "none":
            cand, mapping = None, [int(i) for i in np.flatnonzero(np.isnan(y))]
        else:
            cand = rng.integers(0, n, size=int(rng.integers(1, n + 2)))
            mapping = sorted({int(i) for i in cand})
        bs = int(rng.integers(1, len(mapping) + 2))
        k = min(bs, len(mapping))
        ncl = nlab + k
        table = rng.integers(0, max(ncl, 1) if rng.random() < 0.5 else 2, size=n)     # few clusters in use: all of them get covered inside a batch
        labels = (table % ncl).astype(int)
        seed = int(rng.integers(0, 1000))
        knn = int(rng.integers(1, 4))
        mk = lambda: TypiClust(cluster_algo=ScriptedLabels, cluster_algo_dict={"table": table.tolist()}, k=knn, random_state=seed)
        with warnings.catch_warnings():
            warnings.simplefilter("ignore")
            try:
                idx, ut = mk().query(X, y, candidates=cand, batch_size=bs, return_utilities=True)
                obs = (np.asarray(idx).ravel().tolist(), np.asarray(ut, dtype=float))
            except UnboundLocalError:
                obs = None
            except Exception as e:
                ctx.violation("TypiClust", "exception:" + type(e).__name__, repr(e)[:300],
                              {"x": x.tolist(), "y": [None if v != v else v for v in y], "labels": labels.tolist(), "batch_size": bs, "seed": seed},
                              what=f"TypiClust.query raised {type(e).__name__} with a scripted cluster algorithm", tags=("scripted_clusters",))
                continue
            twin = mk()
            twin._validate_data(X, y, cand, bs, True)
            T = np.full((ncl, n), -np.inf)
            for c in range(ncl):
                members = np.flatnonzero(labels == c)
                if len(members):
                    T[c] = _typicality(X, members, knn)
        sizes = [int((labels == c).sum()) for c in range(ncl)]
        for c in {int(labels[i]) for i in np.flatnonzero(~np.isnan(y))}:
            sizes[c] = 0
        stream = twin.random_state_.random(k * (ncl + len(mapping)) + 1)
        allv = [fkey(v) for v in T.ravel()] + [fkey(1.0), fkey(-np.inf)] + ([fkey(v) for v in obs[1].ravel()] if obs else [])
        keys = rank_keys(allv)
        Tk = [keys[c * n:(c + 1) * n] for c in range(ncl)]
        one_key, neg_key = keys[ncl * n], keys[ncl * n + 1]
        if obs:
            uk = keys[ncl * n + 2:]
            steps = listlit([f"({natlit(int(p))}, {listlit(['None' if v is None else f'(Some {zlit(v)})' for v in uk[r * n:(r + 1) * n]])})" for r, p in enumerate(obs[0])])
            obs_t = f"(Some {steps})"
        else:
            obs_t = "None"
        Tl = listlit([zlist([0 if v is None else v for v in r]) for r in Tk])
        terms.append(f"({natlit(n)}, {natlist(mapping)}, {natlist(labels.tolist())}, {Tl}, {zlit(one_key)}, {zlit(neg_key)}, {natlit(k)}, "
                     f"{zlist(sizes)}, {zlist([noise_num(v) for v in stream])}, {obs_t})")
        meta.append({"strategy": "TypiClust", "x": x.tolist(), "y": [None if v != v else v for v in y], "cluster_labels": labels.tolist(),
                     "candidates": None if cand is None else np.asarray(cand).tolist(), "batch_size": bs, "k": knn, "seed": seed,
                     "returned_indices": obs[0] if obs else "UnboundLocalError"})
        ctx.count("typiclust_loop_correspondence")
        ctx.hist["typiclust:" + ("raised" if obs is None else ("duplicates" if len(set(obs[0])) < len(obs[0]) else "valid"))] += 1
        if k >= 2:
            ctx.nontriv(("typiclust", x.tobytes(), y.tobytes(), labels.tobytes(), repr(meta[-1]["candidates"]), bs, seed))
    return terms, meta


# ---------------------------------------------------------------------------------------------
# Badge: the zeroing of earlier picks / fallback to ones / NaN marking around the D^2 weights.  The numeric layer
# (_d_2) is recorded from outside (module attribute replaced by a recording wrapper), the draws of
# random_state.choice are taken from the returned indices (oracle with the contract "positive mass").
def badge_cases(ctx, count):
    import skactiveml.pool._badge as B
    from skactiveml.pool import Badge
    from . import poolreg as R
    from .core import fkey
    rng = ctx.rng("badge")
    terms, meta = [], []
    orig = B._d_2
    for h in range(count):
        n = int(rng.integers(3, 10))
        X = rng.integers(0, 3, size=(n, 2)).astype(float)            # integer grid: duplicated points -> zero distances
        if rng.random() < 0.3:
            X[:, :] = X[0]                                            # all points equal: the all-zero fallback from the first step
        y = np.where(rng.random(n) < rng.choice([0.0, 0.3, 0.6]), float(rng.integers(0, 2)), np.nan)
        if not np.isnan(y).any():
            y[int(rng.integers(0, n))] = np.nan
        unl = [int(i) for i in np.flatnonzero(np.isnan(y))]
        cmode = str(rng.choice(["none", "idx", "feat"]))
        if cmode == "none":
            cand, cmap, width = None, unl, n
        elif cmode == "idx":
            sub = sorted(int(i) for i in rng.choice(unl, size=int(rng.integers(1, len(unl) + 1)), replace=False))
            cand, cmap, width = np.array(sub), sub, n
        else:
            m_ = int(rng.integers(1, 6))
            cand = X[rng.integers(0, n, size=m_)].copy()
            cmap, width = list(range(m_)), m_
        m = len(cmap)
        bs = int(rng.integers(1, m + 2))
        k = min(bs, m)
        seed = int(rng.integers(0, 1000))
        rec = []

        def recording(g_x, query_indices, d_latest=None):
            out = orig(g_x, query_indices, d_latest)
            rec.append(np.array(out, dtype=float).copy())
            return out
        B._d_2 = recording
        try:
            with warnings.catch_warnings():
                warnings.simplefilter("ignore")
                idx, ut = Badge(random_state=seed).query(X, y, clf=R._clf_alt([0, 1], seed), candidates=cand, batch_size=bs, return_utilities=True)
        except Exception as e:
            ctx.violation("Badge", "exception:" + type(e).__name__, repr(e)[:300],
                          {"X": X.tolist(), "y": [None if v != v else v for v in y], "candidates": None if cand is None else np.asarray(cand).tolist(), "batch_size": bs, "seed": seed},
                          what=f"Badge.query raised {type(e).__name__}")
            continue
        finally:
            B._d_2 = orig
        idx = [int(i) for i in np.asarray(idx).ravel()]
        ut = np.asarray(ut, dtype=float)
        rcd = {"strategy": "Badge", "X": X.tolist(), "y": [None if v != v else v for v in y], "candidates_mode": cmode,
               "candidates": None if cand is None else np.asarray(cand).tolist(), "batch_size": bs, "seed": seed, "returned_indices": idx}
        if len(rec) != k or len(idx) != k or ut.shape != (k, width) or not set(idx) <= set(cmap):
            ctx.violation("Badge", "batch_length", f"{len(idx)} indices / utilities {ut.shape} / {len(rec)} weight vectors for batch size {k}", rcd,
                          what=f"Badge: {len(idx)} indices, utilities of shape {ut.shape}, expected {k} x {width}")
            continue
        if np.any(~np.isnan(np.delete(ut, cmap, axis=1))):
            ctx.violation("Badge", "nan_pattern", "numbers at non-candidates", rcd, what="Badge: utilities at non-candidates are not NaN")
            continue
        picks = [cmap.index(i) for i in idx]
        raws = []
        for r in rec:
            keys = rank_keys([fkey(v) for v in r])
            raws.append(zlist([0 if v is None else v for v in keys]))
        rows = listlit([listlit(["None" if v != v else ("(Some 1)" if v > 0 else "(Some 0)") for v in ut[i, cmap]]) for i in range(k)])
        terms.append(f"({listlit(raws)}, {natlist(picks)}, {rows}, true)")
        meta.append(rcd)
        ctx.count("badge_loop_correspondence")
        ctx.hist[f"badge:{cmode}:" + ("fallback" if any(not np.any(r > 0) for r in rec) else "weights")] += 1
        if k >= 2:
            ctx.nontriv(("badge", X.tobytes(), y.tobytes(), cmode, repr(rcd["candidates"]), bs, seed))
    return terms, meta


# ---------------------------------------------------------------------------------------------
# RegressionTreeBasedAL (random / diversity), AS WRITTEN: the leaves that hold candidates are visited in ascending order, leaf l gets
# n_k[l] steps, every step works on a fresh -inf row.  Numeric layer recorded / recomputed from outside: the per-leaf quotas
# (_discretize_acquisitions_per_leaf is wrapped), the leaf of every candidate (a pre-fitted tree, fit_reg=False), the distances of
# the diversity method, the generator state at every rand_argmax.  Short batches and -inf picks (recorded findings) are reproduced.
def regtree_cases(ctx, count):
    import copy
    from sklearn.metrics import pairwise_distances_argmin_min
    from sklearn.tree import DecisionTreeRegressor
    import skactiveml.pool._regression_tree_based_al as RT
    from skactiveml.regressor import SklearnRegressor
    from .core import fkey
    rng = ctx.rng("regtree")
    terms, meta = [], []
    orig_disc, orig_ra = RT._discretize_acquisitions_per_leaf, RT.rand_argmax
    for h in range(count):
        n = int(rng.integers(5, 12))
        X = rng.integers(0, 4, size=(n, 2)).astype(float)
        y_true = np.round(rng.normal(size=n) * 2, 1)
        y = y_true.copy()
        nlab = int(rng.integers(2, max(3, n - 1)))
        y[rng.permutation(n)[nlab:]] = np.nan
        unl = [int(i) for i in np.flatnonzero(np.isnan(y))]
        if not unl:
            continue
        cmode = str(rng.choice(["none", "idx"]))
        if cmode == "none":
            cand, cmap = None, unl
        else:
            cmap = sorted(int(i) for i in rng.choice(unl, size=int(rng.integers(1, len(unl) + 1)), replace=False))
            cand = np.array(cmap)
        m = len(cmap)
        bs = int(rng.integers(1, m + 2))
        k = min(bs, m)
        seed = int(rng.integers(0, 1000))
        method = "random" if h % 2 == 0 else "diversity"
        reg = SklearnRegressor(DecisionTreeRegressor(min_samples_leaf=int(rng.choice([1, 2])), random_state=seed), random_state=seed).fit(X, y)
        nk_rec, noise_rec = [], []

        def rec_disc(*a, **kw):
            out = orig_disc(*a, **kw)
            nk_rec.append(np.array(out).copy())
            return out

        def rec_ra(a, random_state=None, **kw):
            noise_rec.append(copy.deepcopy(random_state).random(np.shape(a)))
            return orig_ra(a, random_state=random_state, **kw)
        RT._discretize_acquisitions_per_leaf, RT.rand_argmax = rec_disc, rec_ra
        rcd = {"strategy": f"RegressionTreeBasedAL[{method}]", "X": X.tolist(), "y": [None if v != v else v for v in y], "candidates_mode": cmode,
               "candidates": None if cand is None else cmap, "batch_size": bs, "seed": seed}
        try:
            with warnings.catch_warnings():
                warnings.simplefilter("ignore")
                idx, ut = RT.RegressionTreeBasedAL(method=method, random_state=seed).query(X, y, reg=reg, fit_reg=False, candidates=cand, batch_size=bs, return_utilities=True)
        except Exception as e:
            ctx.hist[f"regtree_exception(recorded finding or numeric layer):{type(e).__name__}"] += 1
            continue
        finally:
            RT._discretize_acquisitions_per_leaf, RT.rand_argmax = orig_disc, orig_ra
        if len(nk_rec) != 1:
            continue                      # cold-start fallback (proportional simple_batch): not this loop
        idx = [int(i) for i in np.asarray(idx).ravel()]
        ut = np.asarray(ut, dtype=float)
        Xc = X[cmap]
        leaves = [int(v) for v in reg.apply(Xc)]
        nk = nk_rec[0]
        sched = [int(l) for l in sorted(set(leaves)) for _ in range(int(nk[l]))]
        if len(idx) != len(sched) or len(noise_rec) != len(sched) or ut.shape[1] != n:
            ctx.violation(rcd["strategy"], "loop_shape", f"{len(idx)} indices, {len(noise_rec)} draws, schedule of {len(sched)} steps", rcd, found_input=False,
                          what="RegressionTreeBasedAL: the number of steps differs from the per-leaf quotas of the leaves that hold candidates")
            continue
        if method == "random":
            vals = np.ones(m)
        else:
            lab_idx = np.flatnonzero(~np.isnan(y))
            leaf_lab = reg.apply(X[lab_idx])
            vals = np.full(m, np.nan)
            for l in sorted(set(leaves)):
                sel = np.array(leaves) == l
                Xl = X[lab_idx][leaf_lab == l]
                if len(Xl) == 0:
                    vals = None
                    break
                vals[sel] = pairwise_distances_argmin_min(Xc[sel], Xl, axis=1)[1]
            if vals is None:
                continue
        rows = ut[:len(sched)]
        allk = rank_keys([fkey(v) for v in np.concatenate([vals, rows.ravel(), [-np.inf]])])
        vk, rk, negk = allk[:m], np.array(allk[m:m + rows.size], dtype=object).reshape(rows.shape), allk[-1]
        vr = lambda r: listlit(["None" if v is None else f"(Some {zlit(int(v))})" for v in r])
        obs = listlit([f"({natlit(idx[i])}, {vr(rk[i])})" for i in range(len(sched))])
        terms.append(f"({natlist(leaves)}, {zlist(vk)}, {zlit(negk)}, {natlist(sched)}, {_nz(noise_rec)}, true, {natlit(n)}, {natlist(cmap)}, {obs})")
        meta.append(rcd)
        ctx.count("regtree_loop_correspondence")
        short = len(sched) < k
        ctx.hist[f"regtree:{method}:{cmode}:" + ("short_batch" if short else "full")] += 1
        if len(sched) >= 2:
            ctx.nontriv(("regtree", X.tobytes(), y.tobytes(), cmode, repr(cmap), bs, seed, method))
    return terms, meta


# ---------------------------------------------------------------------------------------------
# BatchBALD (greedy_selection=False), AS WRITTEN: batch_bald computes the rows with a masked arg-max loop whose ties are broken by
# rand_argmax(..., random_state=0) (the same noise vector in every step), query() picks again row by row with the strategy's own
# generator.  The rows batch_bald returned and the generator state at the final rand_argmax are recorded from outside; the
# model (bald_internal / bald_trace) must reproduce the internal NaN marks and the returned indices - duplicates included
# (they are the recorded finding; a change of the selection logic is noticed although the violation itself is known).
def batchbald_cases(ctx, count):
    import copy
    import skactiveml.pool._bald as B
    from skactiveml.pool import BatchBALD
    from . import poolreg as R
    from .core import fkey
    rng = ctx.rng("batchbald")
    terms, meta = [], []
    orig_bb, orig_ra = B.batch_bald, B.rand_argmax
    for h in range(count):
        n = int(rng.integers(3, 10))
        X = rng.integers(0, 3, size=(n, 2)).astype(float)            # integer grid: duplicated points -> tied joint entropies
        if rng.random() < 0.2:
            X = rng.normal(size=(n, 2))                                # no ties: both tie-breaks agree
        y = np.where(rng.random(n) < rng.choice([0.0, 0.3, 0.6]), 1.0, np.nan) * rng.integers(0, 2, size=n)
        if not np.isnan(y).any():
            y[int(rng.integers(0, n))] = np.nan
        unl = [int(i) for i in np.flatnonzero(np.isnan(y))]
        cmode = str(rng.choice(["none", "idx", "feat"]))
        if cmode == "none":
            cand, cmap, width = None, unl, n
        elif cmode == "idx":
            sub = sorted(int(i) for i in rng.choice(unl, size=int(rng.integers(1, len(unl) + 1)), replace=False))
            cand, cmap, width = np.array(sub), sub, n
        else:
            m_ = int(rng.integers(1, 6))
            cand = X[rng.integers(0, n, size=m_)].copy()
            cmap, width = list(range(m_)), m_
        m = len(cmap)
        bs = int(rng.integers(1, m + 2))
        k = min(bs, m)
        seed = int(rng.integers(0, 1000))
        rows_rec, noise_rec = [], []

        def rec_bb(*a, **kw):
            out = orig_bb(*a, **kw)
            rows_rec.append(np.array(out, dtype=float).copy())
            return out

        def rec_ra(a, random_state=None, **kw):
            if isinstance(random_state, np.random.RandomState) and kw.get("axis") == 1:
                noise_rec.append(copy.deepcopy(random_state).random(np.shape(a)))
            return orig_ra(a, random_state=random_state, **kw)
        B.batch_bald, B.rand_argmax = rec_bb, rec_ra
        rcd = {"strategy": "BatchBALD", "X": X.tolist(), "y": [None if v != v else v for v in y], "candidates_mode": cmode,
               "candidates": None if cand is None else np.asarray(cand).tolist(), "batch_size": bs, "seed": seed}
        try:
            with warnings.catch_warnings():
                warnings.simplefilter("ignore")
                idx, ut = BatchBALD(n_MC_samples=int(rng.choice([5, 20])), random_state=seed).query(
                    X, y, ensemble=R._ens([0, 1], seed), candidates=cand, batch_size=bs, return_utilities=True)
        except Exception as e:
            ctx.violation("BatchBALD", "exception:" + type(e).__name__, repr(e)[:300], rcd, what=f"BatchBALD.query raised {type(e).__name__}")
            continue
        finally:
            B.batch_bald, B.rand_argmax = orig_bb, orig_ra
        idx = [int(i) for i in np.asarray(idx).ravel()]
        ut = np.asarray(ut, dtype=float)
        rcd["returned_indices"] = idx
        if len(rows_rec) != 1 or len(noise_rec) != 1 or rows_rec[0].shape != (k, m) or ut.shape != (k, width) or len(idx) != k:
            ctx.violation("BatchBALD", "batch_length", f"{len(idx)} indices / utilities {ut.shape} / recorded rows {[r.shape for r in rows_rec]} for batch size {k}", rcd,
                          what=f"BatchBALD: {len(idx)} indices, utilities of shape {ut.shape}, expected {k} x {width}")
            continue
        rows, nzB = rows_rec[0], noise_rec[0]
        allk = rank_keys([fkey(v) for v in np.concatenate([rows.ravel(), ut.ravel()])])
        rk, uk = np.array(allk[:rows.size], dtype=object).reshape(rows.shape), np.array(allk[rows.size:], dtype=object).reshape(ut.shape)
        vr = lambda r: listlit(["None" if v is None else f"(Some {zlit(int(v))})" for v in r])
        nzA = np.random.RandomState(0).random(m)
        obs = listlit([f"({natlit(idx[i])}, {vr(uk[i])})" for i in range(k)])
        terms.append(f"({natlit(width)}, {natlist(cmap)}, {listlit([vr(r) for r in rk])}, {_nz([nzA])[1:-1]}, {_nz(list(nzB))}, {obs})")
        meta.append(rcd)
        ctx.count("batchbald_loop_correspondence")
        ctx.hist[f"batchbald:{cmode}:" + ("duplicates" if len(set(idx)) < len(idx) else "distinct")] += 1
        if k >= 2:
            ctx.nontriv(("batchbald", X.tobytes(), y.tobytes(), cmode, repr(rcd["candidates"]), bs, seed))
    return terms, meta


# ---------------------------------------------------------------------------------------------
# Falcun: the same sampling loop as Badge (weight 0 for earlier picks, uniform fallback over what is left, NaN marks, draws
# respecting numpy's choice contract).  Its raw relevance weights (margin uncertainty + normalised distance in probability
# space, to the power gamma) are not a separate function of the library, so the numeric layer is recomputed here from the
# classifier's probabilities and the picks made so far - with the library's own uncertainty_scores - and handed to the model.
def falcun_cases(ctx, count):
    from sklearn.base import clone
    from skactiveml.pool import Falcun
    from skactiveml.pool._uncertainty_sampling import uncertainty_scores
    from . import poolreg as R
    from .core import fkey
    rng = ctx.rng("falcun")
    terms, meta = [], []
    for h in range(count):
        n = int(rng.integers(3, 10))
        X = rng.integers(0, 3, size=(n, 2)).astype(float)            # integer grid: equal points -> equal probabilities -> zero distances
        if rng.random() < 0.25:
            X[:, :] = X[0]
        classes = [0, 1] if rng.random() < 0.5 else [0, 1, 2]
        y = np.where(rng.random(n) < rng.choice([0.0, 0.3, 0.6]), 1.0, np.nan) * rng.integers(0, len(classes), size=n)
        if not np.isnan(y).any():
            y[int(rng.integers(0, n))] = np.nan
        unl = [int(i) for i in np.flatnonzero(np.isnan(y))]
        cmode = str(rng.choice(["none", "idx", "feat"]))
        if cmode == "none":
            cand, cmap, width = None, unl, n
        elif cmode == "idx":
            sub = sorted(int(i) for i in rng.choice(unl, size=int(rng.integers(1, len(unl) + 1)), replace=False))
            cand, cmap, width = np.array(sub), sub, n
        else:
            m_ = int(rng.integers(1, 6))
            cand = X[rng.integers(0, n, size=m_)].copy()
            cmap, width = list(range(m_)), m_
        m = len(cmap)
        bs = int(rng.integers(1, m + 2))
        k = min(bs, m)
        seed = int(rng.integers(0, 1000))
        gamma = [10, 10, 1, 0, 2.5][int(rng.integers(0, 5))]
        clf = R._table_clf()(salt=seed, classes=classes, random_state=seed) if rng.random() < 0.7 else R._clf(classes, seed)
        rcd = {"strategy": "Falcun", "X": X.tolist(), "y": [None if v != v else v for v in y], "candidates_mode": cmode, "gamma": gamma,
               "candidates": None if cand is None else np.asarray(cand).tolist(), "batch_size": bs, "seed": seed, "classes": classes}
        try:
            with warnings.catch_warnings():
                warnings.simplefilter("ignore")
                idx, ut = Falcun(gamma=gamma, random_state=seed).query(X, y, clf=clf, candidates=cand, batch_size=bs, return_utilities=True)
                Xc = X[cmap] if cmode != "feat" else np.asarray(cand)
                P = clone(clf).fit(X, y).predict_proba(Xc)
                unc = uncertainty_scores(P, method="margin_sampling")
        except Exception as e:
            ctx.violation("Falcun", "exception:" + type(e).__name__, repr(e)[:300], rcd, what=f"Falcun.query raised {type(e).__name__}")
            continue
        idx = [int(i) for i in np.asarray(idx).ravel()]
        ut = np.asarray(ut, dtype=float)
        rcd["returned_indices"] = idx
        if len(idx) != k or ut.shape != (k, width) or not set(idx) <= set(cmap):
            ctx.violation("Falcun", "batch_length", f"{len(idx)} indices / utilities {ut.shape} for batch size {k}", rcd,
                          what=f"Falcun: {len(idx)} indices, utilities of shape {ut.shape}, expected {k} x {width}")
            continue
        if np.any(~np.isnan(np.delete(ut, cmap, axis=1))):
            ctx.violation("Falcun", "nan_pattern", "numbers at non-candidates", rcd, what="Falcun: utilities at non-candidates are not NaN")
            continue
        picks = [cmap.index(i) for i in idx]
        raws, dist = [], unc.copy()
        for b in range(k):
            if b > 0:
                dn = np.abs(P - P[[picks[b - 1]]]).sum(axis=1)
                dist = np.minimum(dn, dist)
                lo = dist.min()
                rg = dist.max() - lo
                dist = dist - lo
                if rg > 0:
                    dist = dist / rg
            raws.append((unc + dist) ** gamma)
        rl = []
        for r in raws:
            keys = rank_keys([fkey(v) for v in r])
            rl.append(zlist([0 if v is None else v for v in keys]))
        rows = listlit([listlit(["None" if v != v else ("(Some 1)" if v > 0 else "(Some 0)") for v in ut[i, cmap]]) for i in range(k)])
        terms.append(f"({listlit(rl)}, {natlist(picks)}, {rows}, false)")
        meta.append(rcd)
        ctx.count("falcun_loop_correspondence")
        ctx.hist[f"falcun:{cmode}:gamma{gamma}:" + ("fallback" if any(not np.any(r > 0) for r in raws) else "weights")] += 1
        if k >= 2:
            ctx.nontriv(("falcun", X.tobytes(), y.tobytes(), cmode, repr(rcd["candidates"]), bs, seed, gamma))
    return terms, meta


# ---------------------------------------------------------------------------------------------
# DropQuery: the same masked oracle-row loop as Clue, with -inf for the candidates that were not pre-filtered.  A scripted
# cluster algorithm records WHICH candidates it was given (rows carry their sample id) and returns scripted distances; the
# dropout draws that precede the loop are replayed on the twin generator.
NEG_INF_KEY = -1000000


def dropquery_cases(ctx, count):
    from sklearn.base import BaseEstimator
    from skactiveml.pool import DropQuery
    from . import poolreg as R
    seen = []

    class RecordingClusters(BaseEstimator):
        def __init__(self, n_clusters=2, table=None):
            self.n_clusters, self.table = n_clusters, table

        def fit_transform(self, X, y=None, sample_weight=None):
            ids = [int(round(v)) - 1 for v in np.asarray(X)[:, 0]]
            seen.append(ids)
            return np.asarray(self.table, dtype=float)[ids][:, :self.n_clusters]

    rng = ctx.rng("dropquery")
    terms, meta = [], []
    for h in range(count):
        n = int(rng.integers(3, 9))
        X = np.column_stack([np.arange(1, n + 1, dtype=float), rng.integers(0, 3, size=n).astype(float)])
        y = np.where(rng.random(n) < rng.choice([0.0, 0.3, 0.6]), float(rng.integers(0, 2)), np.nan)
        if not np.isnan(y).any():
            y[int(rng.integers(0, n))] = np.nan
        cmode = str(rng.choice(["none", "idx"]))
        if cmode == "none":
            cand, mapping = None, [int(i) for i in np.flatnonzero(np.isnan(y))]
        else:
            cand = rng.integers(0, n, size=int(rng.integers(1, n + 2)))
            mapping = sorted({int(i) for i in cand})
        bs = int(rng.integers(1, len(mapping) + 3))
        k = min(bs, len(mapping))
        seed = int(rng.integers(0, 1000))
        nvals = int(rng.choice([1, 2, 4]))
        T = rng.integers(0, nvals, size=(n, max(k, 1))).astype(int)          # dist[sample, centroid]
        ndrop = int(rng.choice([3, 5]))
        mk = lambda: DropQuery(cluster_algo=RecordingClusters, cluster_algo_dict={"table": T.tolist()}, n_dropout_samples=ndrop, random_state=seed)
        del seen[:]
        with warnings.catch_warnings():
            warnings.simplefilter("ignore")
            try:
                idx, ut = mk().query(X, y, clf=R._clf_alt([0, 1], seed), candidates=cand, batch_size=bs, return_utilities=True)
                twin = mk()
                twin._validate_data(X, y, cand, bs, True)
            except Exception as e:
                ctx.violation("DropQuery", "exception:" + type(e).__name__, repr(e)[:300],
                              {"y": [None if v != v else v for v in y], "candidates": None if cand is None else np.asarray(cand).tolist(), "batch_size": bs, "seed": seed},
                              what=f"DropQuery.query raised {type(e).__name__} with a scripted cluster algorithm")
                continue
        if len(seen) != 1:
            continue
        pre = set(seen[0])
        for _ in range(ndrop):                                                   # the dropout masks drawn before the loop
            twin.random_state_.choice([True, False], size=(len(mapping), X.shape[1]), p=[0.75, 0.25])
        noises = [twin.random_state_.random(n) for _ in range(k)]
        ut = np.asarray(ut, dtype=float)
        rec = {"strategy": "DropQuery", "table": T.tolist(), "y": [None if v != v else v for v in y], "candidates_mode": cmode,
               "candidates": None if cand is None else np.asarray(cand).tolist(), "prefiltered": sorted(pre), "batch_size": bs, "seed": seed,
               "returned_indices": np.asarray(idx).tolist()}
        if _judge(ctx, "DropQuery", idx, np.where(np.isinf(ut), -1e300, ut), mapping, n, k, rec):
            continue
        table = [[(-int(T[c, b]) if c in pre else NEG_INF_KEY) for c in mapping] for b in range(k)]
        tab = listlit([listlit([f"(Some {zlit(v)})" for v in r]) for r in table])
        rows = listlit([f"({natlit(int(p))}, {listlit(['None' if v != v else (f'(Some {zlit(NEG_INF_KEY)})' if v == -np.inf else f'(Some {zlit(int(v))})') for v in ut[r]])})"
                        for r, p in enumerate(np.asarray(idx).ravel())])
        terms.append(f"(false, {natlit(n)}, {natlist(mapping)}, {tab}, {natlit(k)}, {_nz(noises)}, {rows})")
        meta.append(rec)
        ctx.count("DropQuery_loop_correspondence")
        ctx.hist[f"dropquery:{cmode}:values{nvals}:{'all' if len(pre) == len(mapping) else 'prefiltered'}"] += 1
        if k >= 2:
            ctx.nontriv(("dropquery", T.tobytes(), y.tobytes(), cmode, repr(rec["candidates"]), bs, seed))
    return terms, meta
