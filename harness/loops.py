"""Functional correspondence of the hand-written selection loops modelled in Model/PoolLoops.v
(CoreSet: k_greedy_center/_update_distances; ProbCover: the batch loop) with the implementation.
The numeric layer is made exact (integer coordinates -> integer distances; a 0/1 distance matrix
handed to ProbCover through distance_func), the tie-breaking noise is reproduced from the strategy's
random state, and the model has to return the same indices AND the same utility rows."""
import warnings

import numpy as np

from .core import blit, listlit, natlist, natlit, noise_num, rank_keys, zlist, zlit

IMPORTS = "From V Require Import Base.OptOrder Model.Sel Model.PoolQuery Model.PoolLoops Harness.Run Harness.LoopCheck."


def _vrow(r):
    return listlit(["None" if v != v else f"(Some {zlit(int(v))})" for v in r])


def _steps(idx, ut):
    return listlit([f"({natlit(int(p))}, {_vrow(ut[r])})" for r, p in enumerate(np.asarray(idx).ravel())])


def _nz(noises):
    return listlit([zlist(rank_keys([noise_num(x) for x in z])) for z in noises])


def coreset_cases(ctx, count):
    from skactiveml.pool import CoreSet
    rng = ctx.rng("coreset")
    terms, meta = [], []
    for h in range(count):
        n = int(rng.integers(2, 9))
        span = int(rng.choice([1, 2, 3, 6]))                 # span 1: all points equal (every distance 0)
        x = rng.integers(0, span, size=n)
        X = x.astype(float).reshape(-1, 1)
        y = np.where(rng.random(n) < rng.choice([0.0, 0.3, 0.6]), 0.0, np.nan)
        if not np.isnan(y).any():
            y[int(rng.integers(0, n))] = np.nan
        unl = [int(i) for i in np.flatnonzero(np.isnan(y))]
        lab = [int(i) for i in np.flatnonzero(~np.isnan(y))]
        cmode = str(rng.choice(["none", "idx", "feat"]))
        if cmode == "none":
            cand, mapping, w, centers, pts = None, unl, n, lab, x
        elif cmode == "idx":
            sub = rng.choice(unl, size=int(rng.integers(1, len(unl) + 1)), replace=False)   # unlabeled candidates (documented use)
            cand = rng.permutation(sub)
            mapping, w, centers, pts = sorted(int(i) for i in sub), n, lab, x
        else:
            m = int(rng.integers(1, 7))
            xc = rng.integers(0, span, size=m)
            cand = xc.astype(float).reshape(-1, 1)
            mapping, w = list(range(m)), m
            centers = list(range(m, m + len(lab)))
            pts = np.concatenate([xc, x[lab]])
        bs = int(rng.integers(1, len(mapping) + 3))
        seed = int(rng.integers(0, 1000))
        with warnings.catch_warnings():
            warnings.simplefilter("ignore")
            try:
                idx, ut = CoreSet(random_state=seed).query(X, y, candidates=cand, batch_size=bs, return_utilities=True)
            except Exception as e:                      # a raising query is C01's business (direct oracle); here: not comparable
                ctx.violation("CoreSet", "exception:" + type(e).__name__, repr(e)[:300],
                              {"x": x.tolist(), "y": [None if v != v else v for v in y], "cmode": cmode,
                               "candidates": None if cand is None else np.asarray(cand).tolist(), "batch_size": bs, "seed": seed},
                              what=f"CoreSet.query raised {type(e).__name__} on integer points")
                continue
            twin = CoreSet(random_state=seed)
            twin._validate_data(X, y, cand, bs, True)
        k = min(bs, len(mapping))
        noises = [twin.random_state_.random(w) for _ in range(k)]
        D = np.abs(pts[:, None] - pts[None, :]).astype(int)
        ut = np.asarray(ut, dtype=float)
        if ut.ndim != 2 or np.isinf(ut).any():
            ctx.violation("CoreSet", "utilities_shape", f"utilities of shape {ut.shape} / infinite entries", {"x": x.tolist(), "seed": seed},
                          what="CoreSet returned utilities that are not a finite-or-NaN 2-d array")
            continue
        Dl = listlit([zlist(r) for r in D.tolist()])
        terms.append(f"({natlit(w)}, {natlist(mapping)}, {natlist(centers)}, {natlit(k)}, {Dl}, {_nz(noises)}, {_steps(idx, ut)})")
        meta.append({"x": x.tolist(), "y": [None if v != v else v for v in y], "candidates_mode": cmode,
                     "candidates": None if cand is None else np.asarray(cand).tolist(), "batch_size": bs, "seed": seed,
                     "returned_indices": np.asarray(idx).tolist()})
        ctx.count("coreset_loop_correspondence")
        ctx.hist["coreset:" + cmode + (":all_equal" if span == 1 else "")] += 1
        if k >= 2 and len(set(pts.tolist())) < len(pts):
            ctx.nontriv(("coreset", x.tobytes(), y.tobytes(), cmode, repr(meta[-1]["candidates"]), bs, seed))
    return terms, meta


def probcover_cases(ctx, count):
    from skactiveml.pool import ProbCover
    rng = ctx.rng("probcover")
    terms, meta = [], []
    for h in range(count):
        n = int(rng.integers(2, 8))
        dens = float(rng.choice([0.0, 0.2, 0.5, 0.9, 1.0]))
        E = rng.random((n, n)) < dens
        if rng.random() < 0.5:
            E = E | E.T | np.eye(n, dtype=bool)           # a ball graph: symmetric, reflexive
        Dm = np.where(E, 0.0, 1.0)
        X = np.arange(n, dtype=float).reshape(-1, 1)
        y = np.where(rng.random(n) < rng.choice([0.0, 0.3, 0.6]), 0.0, np.nan)
        if not np.isnan(y).any():
            y[int(rng.integers(0, n))] = np.nan
        cmode = str(rng.choice(["none", "idx"]))
        if cmode == "none":
            cand, mapping = None, [int(i) for i in np.flatnonzero(np.isnan(y))]
        else:
            cand = rng.integers(0, n, size=int(rng.integers(1, n + 2)))      # duplicates and labeled samples allowed
            mapping = sorted({int(i) for i in cand})
        bs = int(rng.integers(1, len(mapping) + 3))
        seed = int(rng.integers(0, 1000))
        mk = lambda: ProbCover(distance_func=lambda X_, D_=Dm: D_.copy(), deltas=[0.5], random_state=seed)
        with warnings.catch_warnings():
            warnings.simplefilter("ignore")
            try:
                idx, ut = mk().query(X, y, candidates=cand, batch_size=bs, return_utilities=True)
            except Exception as e:
                ctx.violation("ProbCover", "exception:" + type(e).__name__, repr(e)[:300],
                              {"edges": E.astype(int).tolist(), "y": [None if v != v else v for v in y], "candidates": None if cand is None else np.asarray(cand).tolist(),
                               "batch_size": bs, "seed": seed}, what=f"ProbCover.query raised {type(e).__name__} on a 0/1 distance matrix")
                continue
            twin = mk()
            twin._validate_data(X, y, cand, bs, True)
        k = min(bs, len(mapping))
        noises = [twin.random_state_.random(n) for _ in range(k)]
        ut = np.asarray(ut, dtype=float)
        edges = listlit([listlit([blit(b) for b in r]) for r in E.tolist()])
        isc = listlit([blit(i in mapping) for i in range(n)])
        terms.append(f"({edges}, {isc}, {natlit(k)}, {_nz(noises)}, {_steps(idx, ut)})")
        meta.append({"edges": E.astype(int).tolist(), "y": [None if v != v else v for v in y], "candidates_mode": cmode,
                     "candidates": None if cand is None else np.asarray(cand).tolist(), "batch_size": bs, "seed": seed,
                     "returned_indices": np.asarray(idx).tolist()})
        ctx.count("probcover_loop_correspondence")
        ctx.hist[f"probcover:{cmode}:density{dens}"] += 1
        if k >= 2:
            ctx.nontriv(("probcover", E.tobytes(), y.tobytes(), cmode, repr(meta[-1]["candidates"]), bs, seed))
    return terms, meta


def loops_correspondence(ctx):
    count = 150 if ctx.is_quick else 2000
    for name, gen, fn in (("CoreSet", coreset_cases, "check_coreset"), ("ProbCover", probcover_cases, "check_probcover")):
        terms, meta = gen(ctx, count)
        bad, err = ctx.coq_eval_cases("loop_" + name.lower(), IMPORTS, fn, terms, chunk=100)
        if err:
            ctx.violation(name, "model_eval_failed", err, {}, found_input=False, what=f"Coq evaluation of {fn} failed")
        for i in bad[:5]:
            ctx.violation(name, "loop_mismatch", f"Model/PoolLoops.v and {name}.query disagree on indices or utility rows", meta[i],
                          found_input=False, what=f"correspondence Model/PoolLoops.v ({fn}) <-> {name}.query no longer holds")
        if meta:
            ctx.sample({name + "_loop_case": meta[0]})
