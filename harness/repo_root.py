"""Root of the scikit-activeml working tree the checks run against: /repo (the registered commands), or the
copy named by VERIF_REPO (background robustness runs on a snapshot, so that patches applied to /repo meanwhile do not disturb them)."""
import os

REPO = os.environ.get("VERIF_REPO", "/repo").rstrip("/")
