"""Static obligation shared by C01 / C02: the query tails regenerated from /repo by
translate/skeleton.py are canonical terms of Model/SkelDsl.v, hence (Proofs/SkelDslProofs.v,
table_sites_accepted) return an accepted trace / valid batch for every score vector."""
import os

from .translate import skeleton as TS


def check_skeleton_table(ctx):
    sites, custom = TS.scan()
    rows = []
    for s in sites:
        note = f"{s['file']}:{s['line']} {s['cls']}.query" + (f" method={s['method']}" if s["method"] else "")
        rows.append(f"{TS.coq_term(s)}  (* {note} *)")
    name = f"{ctx.prop}_query_tails_canonical"
    path = os.path.join(ctx.build, f"{ctx.prop}_skeleton_sites.v")
    with open(path, "w") as f:
        f.write("From Coq Require Import ZArith List Bool.\n"
                "From V Require Import Base.OptOrder Model.Sel Model.PoolQuery Model.SkelDsl Proofs.SelProofs Proofs.SkelDslProofs.\n"
                "Import ListNotations.\n"
                "Definition query_tails : list skel := [\n  " + ";\n  ".join(rows) + "\n].\n"
                f"Theorem {name} : forallb canonical query_tails = true.\nProof. vm_compute. reflexivity. Qed.\n"
                f"Print Assumptions {name}.\n"
                f"Theorem {name}_valid_batch :\n"
                "  forall s, In s query_tails -> forall lab c scores noises bs,\n"
                "  (forall l, c = CIdx l -> Forall (fun i => (i < length lab)%nat) l) ->\n"
                "  length scores = length (cand_set lab c) -> Forall (fun v => is_nan v = false) scores ->\n"
                "  noises_ok (ncols lab c) (expected_k bs lab c) noises ->\n"
                "  let t := run_skel s lab c scores noises bs in\n"
                "  accepts_pool SelMax lab c bs t = true /\\\n"
                "  length (map fst t) = expected_k bs lab c /\\ NoDup (map fst t) /\\\n"
                "  Forall (fun p => In p (cand_set lab c)) (map fst t).\n"
                f"Proof. exact (table_sites_accepted query_tails {name}). Qed.\n"
                f"Print Assumptions {name}_valid_batch.\n")
    rc, so, se = ctx.coqc(path)
    ok = rc == 0 and so.count("Closed under the global context") == 2
    ctx.obligations.append({"name": f"{name} ({len(sites)} `return simple_batch` sites of skactiveml/pool regenerated from /repo)",
                            "discharged": ok, "assumptions": "Closed under the global context" if ok else (se or so)[-300:]})
    ctx.extra["query_tails"] = {"canonical_sites": [f"{s['cls']}:{s['line']}" for s in sites if TS.is_canonical(s)],
                                "custom_loops_not_covered_by_the_table": [f"{c[1]} ({c[2]} returns)" for c in custom]}
    bad = [s for s in sites if not TS.is_canonical(s)]
    for s in bad[:10]:
        ctx.violation(s["cls"], "query_tail_not_canonical",
                      f"{s['file']}:{s['line']}: fill={s['fill']} target={s['tgt']} batch_size={s['bs']} length={s['len']} "
                      f"none_branch={s['none_identity']} validated={s['validated']}", {"site": s}, found_input=False,
                      what=f"obligation {name} no longer checks: {s['cls']}.query ({s['file']}:{s['line']}) is not the canonical tail "
                           f"(fill={s['fill']}, target={s['tgt']}, batch_size={s['bs']}, length={s['len']})")
    if not ok and not bad:
        ctx.broken("query_tail_table", "the regenerated query-tail table theorem does not check", (se or so)[-1500:])
    return sites
