"""Structural snapshots of arbitrary Python objects (parameters, estimators, arrays)."""
import hashlib
import inspect

import numpy as np


# attributes written by input validation only (re-derived from the constructor parameters / the input width at every
# call; they carry no behaviour into later calls): a nested strategy object that gains them is not "changed"
VALIDATION_ONLY = {"missing_label_", "random_state_", "n_features_in_", "feature_names_in_", "budget_"}


def deep_snap(o, depth=0, ident=False):
    if depth > 7:
        return ("deep",)
    if o is None or isinstance(o, (bool, int, str, bytes)):
        return o
    if isinstance(o, float):
        return ("f", o.hex())
    if isinstance(o, (np.floating, np.integer, np.bool_)):
        return deep_snap(o.item(), depth)
    if isinstance(o, np.ndarray):
        if o.dtype == object:
            return ("oarr", o.shape, tuple(deep_snap(x, depth + 1) for x in o.ravel()))
        return ("arr", o.shape, o.dtype.str, hashlib.md5(np.ascontiguousarray(o).tobytes()).hexdigest())
    if isinstance(o, np.random.RandomState):
        st = o.get_state()
        return ("rng", hashlib.md5(st[1].tobytes() + repr(st[2:]).encode()).hexdigest())
    if isinstance(o, (list, tuple)) or type(o).__name__ == "deque":
        return (type(o).__name__, tuple(deep_snap(x, depth + 1) for x in o))
    if isinstance(o, dict):
        return ("dict", tuple(sorted(((repr(k), deep_snap(v, depth + 1)) for k, v in o.items()), key=lambda kv: kv[0])))
    if isinstance(o, (set, frozenset)):
        return ("set", tuple(sorted(repr(x) for x in o)))
    if inspect.isfunction(o) or inspect.isbuiltin(o) or inspect.isclass(o) or inspect.ismethod(o):
        return ("callable", getattr(o, "__qualname__", repr(o)))
    if hasattr(o, "__dict__"):
        return ("obj", type(o).__qualname__, tuple(sorted(((k, deep_snap(v, depth + 1)) for k, v in vars(o).items()
                                                           if not (depth > 0 and k in VALIDATION_ONLY)), key=lambda kv: kv[0])))
    return ("repr", repr(o)[:100])


def diff_keys(a, b, prefix=""):
    """human readable first differences between two snapshots."""
    if a == b:
        return []
    if isinstance(a, tuple) and isinstance(b, tuple) and len(a) == len(b) and a and a[0] == b[0] and a[0] in ("dict", "obj"):
        items_a = dict(a[-1]) if a[0] == "dict" else dict(a[2])
        items_b = dict(b[-1]) if b[0] == "dict" else dict(b[2])
        out = []
        for k in sorted(set(items_a) | set(items_b)):
            if items_a.get(k, "<absent>") != items_b.get(k, "<absent>"):
                out += diff_keys(items_a.get(k, "<absent>"), items_b.get(k, "<absent>"), prefix + "." + str(k))
        return out or [prefix]
    return [prefix or "<root>"]
