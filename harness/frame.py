"""Runs the frame translator on /repo, compiles the regenerated table and the table theorem
inside Coq, and maps failing (class, method, parameter) entries back to names."""
import os
import re

from .translate import frame as T


def check_table(ctx, pred, tag):
    """pred(entry) selects the classes; returns list of (class, method, param) offenders."""
    table = [e for e in T.analyse() if pred(e)]
    tdir = ctx.build
    index = T.emit_coq(table, os.path.join(tdir, "Frame_table.v"))
    rc, so, se = ctx.coqc(os.path.join(tdir, "Frame_table.v"), extra_q=[(tdir, "G")])
    if rc != 0:
        ctx.obligations.append({"name": f"{tag}_table_compiles", "discharged": False, "assumptions": (se or so)[-500:]})
        ctx.broken("frame_table", "the regenerated frame table does not compile", (se or so)[-2000:])
        return table, None
    thm = os.path.join(tdir, f"{tag}_table.v")
    with open(thm, "w") as f:
        f.write("From Coq Require Import List Bool.\nFrom V Require Import Model.Frame Proofs.FrameProofs.\nFrom G Require Import Frame_table.\n"
                f"Theorem {tag}_no_param_writes : table_ok frame_table = true.\nProof. vm_compute. reflexivity. Qed.\nPrint Assumptions {tag}_no_param_writes.\n")
    rc, so, se = ctx.coqc(thm, extra_q=[(tdir, "G")])
    ok = rc == 0 and "Closed under the global context" in so
    ctx.obligations.append({"name": f"{tag}_no_param_writes (table regenerated from /repo: {len(table)} classes, "
                                    f"{sum(len(e['methods']) for e in table)} methods)",
                            "discharged": ok, "assumptions": "Closed under the global context" if ok else (se or so)[-300:]})
    if ok:
        return table, []
    bad = os.path.join(tdir, f"{tag}_bad.v")
    with open(bad, "w") as f:
        f.write("From Coq Require Import List.\nFrom V Require Import Model.Frame.\nFrom G Require Import Frame_table.\nEval vm_compute in (bad_entries frame_table).\n")
    rc, so, se = ctx.coqc(bad, extra_q=[(tdir, "G")])
    offenders = []
    for ci, mi, p in re.findall(r"\((\d+),\s*(\d+),\s*(\d+)\)", so):
        e = table[int(ci)]
        m = sorted(e["methods"])[int(mi)]
        offenders.append((e["class"], m, e["_names"].get(int(p), str(p)), e["file"]))
    return table, offenders
