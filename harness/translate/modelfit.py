"""ast scan (C05 b): a pool strategy never fits or otherwise alters a model object passed by the caller.
For every function / method of skactiveml/pool (strategies and their helpers) the objects reachable
from the parameters are 'caller-owned'; a mutating use (`.fit(`, `.partial_fit(`, `.set_params(`,
attribute assignment, setattr) whose receiver may still be caller-owned is a site.  A name stops
being caller-owned through a rebinding to a fresh object (`clone(..)`, `deepcopy(..)`, a constructor
call, `clone(..).fit(..)`) on the same path; the states of the branches of if / for / while / try are
joined by union (may-analysis), so `if fit_clf: clf = clone(clf).fit(..)` leaves `clf` caller-owned
afterwards.  Conservative; fail-closed."""
import ast
import os
from ..repo_root import REPO

FRESH_CALLS = {"clone", "deepcopy", "copy"}
MUTATING = {"fit", "partial_fit", "set_params", "set_base_clf"}
NOT_MODELS = {"self", "X", "y", "candidates", "sample_weight", "batch_size", "return_utilities", "utility_weight", "random_state",
              "X_eval", "sample_weight_candidates", "sample_weight_eval", "missing_label", "classes", "mapping", "idx", "utilities", "X_cand",
              "annotators", "A_cand", "A_perf", "y_true", "w"}


def _fresh(value):
    """is the value of this expression certainly a new object?"""
    if isinstance(value, ast.Call):
        f = value.func
        name = f.id if isinstance(f, ast.Name) else (f.attr if isinstance(f, ast.Attribute) else None)
        if name in FRESH_CALLS:
            return True
        if isinstance(f, ast.Attribute) and f.attr in ("fit", "partial_fit") and _fresh(f.value):
            return True            # clone(clf).fit(...) returns the clone
        if isinstance(f, ast.Name) and f.id[:1].isupper():
            return True            # constructor
        return False
    if isinstance(value, (ast.Constant, ast.List, ast.Tuple, ast.Dict, ast.ListComp, ast.BinOp, ast.Compare)):
        return isinstance(value, (ast.Constant, ast.BinOp, ast.Compare)) or all(_fresh(e) or isinstance(e, ast.Constant) for e in getattr(value, "elts", []))
    return False


def _root_name(node):
    while isinstance(node, (ast.Attribute, ast.Subscript)):
        node = node.value
    return node.id if isinstance(node, ast.Name) else None


def _mentions(value, names):
    return any(isinstance(n, ast.Name) and n.id in names for n in ast.walk(value))


def analyse_function(fn, rel, owner):
    params = [a.arg for a in fn.args.args + fn.args.kwonlyargs if a.arg not in NOT_MODELS]
    sites = []

    def uses(node_root, owned):
        for node in ast.walk(node_root):
            if isinstance(node, ast.Call) and isinstance(node.func, ast.Attribute) and node.func.attr in MUTATING:
                recv = node.func.value
                if _fresh(recv):
                    continue
                r = _root_name(recv)
                if r in owned:
                    sites.append((rel, owner, node.lineno, f"{ast.unparse(recv)[:40]}.{node.func.attr}(...)"))
            if isinstance(node, ast.Call) and isinstance(node.func, ast.Name) and node.func.id == "setattr" and node.args:
                r = _root_name(node.args[0])
                if r in owned:
                    sites.append((rel, owner, node.lineno, f"setattr({ast.unparse(node.args[0])[:40]}, ...)"))

    def visit(stmts, owned):
        """owned: names that may denote (a part of) a caller-owned object; returns the set after the statements"""
        owned = set(owned)
        for s in stmts:
            if isinstance(s, (ast.FunctionDef, ast.AsyncFunctionDef, ast.ClassDef)):
                continue
            if isinstance(s, (ast.If, ast.While)):
                uses(s.test, owned)
                a = visit(s.body, owned)
                b = visit(s.orelse, owned)
                owned = a | b | (owned if isinstance(s, ast.While) else set())
                continue
            if isinstance(s, ast.For):
                uses(s.iter, owned)
                inner = set(owned)
                if _mentions(s.iter, owned):
                    inner |= {n.id for n in ast.walk(s.target) if isinstance(n, ast.Name)}
                owned = owned | visit(s.body, inner) | visit(s.orelse, owned)
                continue
            if isinstance(s, ast.With):
                owned = visit(s.body, owned)
                continue
            if isinstance(s, ast.Try):
                a = visit(s.body, owned)
                for h in s.handlers:
                    a |= visit(h.body, owned)
                owned = visit(s.finalbody, visit(s.orelse, a))
                continue
            uses(s, owned)           # right-hand sides are evaluated before the binding
            if isinstance(s, (ast.Assign, ast.AnnAssign, ast.AugAssign)):
                targets = s.targets if isinstance(s, ast.Assign) else [s.target]
                value = s.value
                for t in targets:
                    if isinstance(t, (ast.Attribute, ast.Subscript)):
                        r = _root_name(t)
                        if isinstance(t, ast.Attribute) and r in owned and r != "self":
                            sites.append((rel, owner, s.lineno, f"{ast.unparse(t)[:40]} = ..."))
                        if isinstance(t, ast.Subscript) and value is not None and _mentions(value, owned) and r is not None:
                            owned.add(r)             # a caller-owned object stored into a local container
                        continue
                    elts = t.elts if isinstance(t, (ast.Tuple, ast.List)) else [t]
                    for e in elts:
                        if isinstance(e, ast.Name):
                            if value is not None and _fresh(value) and not isinstance(t, (ast.Tuple, ast.List)):
                                owned.discard(e.id)              # rebinding to a fresh object (on this path)
                            elif value is not None and _mentions(value, owned):
                                owned.add(e.id)                  # alias / part / container of a caller-owned object
        return owned
    visit(fn.body, set(params))
    return sites


def scan(root=REPO + "/skactiveml/pool"):
    out = []
    n_funcs = 0
    for dp, dn, fs in os.walk(root):
        if "tests" in dp.split(os.sep):
            continue
        for f in sorted(fs):
            if not f.endswith(".py"):
                continue
            path = os.path.join(dp, f)
            rel = os.path.relpath(path, REPO)
            tree = ast.parse(open(path).read())
            for node in ast.walk(tree):
                if isinstance(node, ast.ClassDef):
                    for m in node.body:
                        if isinstance(m, ast.FunctionDef) and m.name not in ("__init__",):
                            n_funcs += 1
                            out += analyse_function(m, rel, f"{node.name}.{m.name}")
            for node in tree.body:
                if isinstance(node, ast.FunctionDef):
                    n_funcs += 1
                    out += analyse_function(node, rel, node.name)
    return sorted(set(out)), n_funcs


# reviewed by hand: the receiver is the strategy's own IndexClassifierWrapper (it fits deep copies / clones of the classifier
# only: pool/utils.py self.clf_ = deepcopy(self.clf) / clone(self.clf)), resp. a frozen scipy distribution freshly returned by
# predict_target_distribution
REVIEWED = {
    ("skactiveml/pool/_expected_error_reduction.py", "ExpectedErrorReduction._precompute_and_fit_clf", "id_clf.fit(...)"),
    ("skactiveml/pool/_expected_error_reduction.py", "MonteCarloEER._estimate_error_for_candidate", "id_clf.partial_fit(...)"),
    ("skactiveml/pool/_expected_error_reduction.py", "ValueOfInformationEER._estimate_error_for_candidate", "id_clf.partial_fit(...)"),
    ("skactiveml/pool/utils.py", "_reshape_scipy_dist", "dist.kwds[argument].shape = ..."),
}


def rows(root=REPO + "/skactiveml/pool"):
    sites, n = scan(root)
    return [(f, fn, line, what, (f, fn, what) in REVIEWED) for f, fn, line, what in sites], n


if __name__ == "__main__":
    sites, n = scan()
    for s in sites:
        print(s)
    print(len(sites), "sites in", n, "functions")
