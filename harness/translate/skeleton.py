"""ast translator (C01 / C02): the tail of every pool strategy's query() that ends in
`return simple_batch(...)` is translated into a term of Model/SkelDsl.v (fill value, scatter
target, batch-size source, array length, None-branch, validation).  Fail-closed: whatever is not
recognised becomes the non-canonical constructor (FOther / TOther / BRaw / false), so the table
theorem `forallb canonical sites = true` stops checking.

Recognised shape (statements may be nested in if/else/for/with/try bodies of query()):

    X, y, candidates, batch_size, return_utilities = self._validate_data(...)
    X_cand, mapping = self._transform_candidates(candidates, X, y, ...)
    if mapping is None:  U = <scores>
    else:                U = np.full(len(X), np.nan)   |  np.full((k, len(X)), np.nan)
                         U[mapping] = <scores>         |  U[:, mapping] = <scores>
    U *= w                                  (optional pointwise post-operation)
    return simple_batch(U | U[0], self.random_state_, batch_size=batch_size, return_utilities=..., [method=...])
"""
import ast
import os
from ..repo_root import REPO


def _is_name(n, s):
    return isinstance(n, ast.Name) and n.id == s


def _is_self_attr(n, attr):
    return isinstance(n, ast.Attribute) and n.attr == attr and _is_name(n.value, "self")


def _call_name(c):
    if not isinstance(c, ast.Call):
        return None
    f = c.func
    if isinstance(f, ast.Attribute):
        return f.attr
    if isinstance(f, ast.Name):
        return f.id
    return None


def _stmts(body):
    """all statements of a function body, depth first, without nested function / class definitions;
    yields (stmt, enclosing_if_tests) where the tests are (ast.expr, in_orelse) pairs"""
    def rec(stmts, ctxs):
        for s in stmts:
            if isinstance(s, (ast.FunctionDef, ast.AsyncFunctionDef, ast.ClassDef)):
                continue
            yield s, ctxs
            if isinstance(s, ast.If):
                yield from rec(s.body, ctxs + [(s.test, False)])
                yield from rec(s.orelse, ctxs + [(s.test, True)])
            elif isinstance(s, (ast.For, ast.While)):
                yield from rec(s.body, ctxs)
                yield from rec(s.orelse, ctxs)
            elif isinstance(s, ast.With):
                yield from rec(s.body, ctxs)
            elif isinstance(s, ast.Try):
                yield from rec(s.body, ctxs)
                for h in s.handlers:
                    yield from rec(h.body, ctxs)
                yield from rec(s.orelse, ctxs)
                yield from rec(s.finalbody, ctxs)
    yield from rec(body, [])


def _mapping_is_none(test):
    return (isinstance(test, ast.Compare) and _is_name(test.left, "mapping") and len(test.ops) == 1
            and isinstance(test.ops[0], ast.Is) and isinstance(test.comparators[0], ast.Constant)
            and test.comparators[0].value is None)


def _np_attr(n, attr):
    return isinstance(n, ast.Attribute) and n.attr == attr and isinstance(n.value, ast.Name) and n.value.id in ("np", "numpy")


def _len_of(n, name):
    return isinstance(n, ast.Call) and _is_name(n.func, "len") and len(n.args) == 1 and _is_name(n.args[0], name)


def _fill_of(call, xname):
    """(fill, len) of an allocation expression"""
    nm = _call_name(call)
    if nm == "full" and _np_attr(call.func, "full"):
        args = list(call.args)
        kw = {k.arg: k.value for k in call.keywords}
        shape = args[0] if args else kw.get("shape")
        fv = args[1] if len(args) > 1 else kw.get("fill_value")
        if _np_attr(fv, "nan"):
            fill = "FNan"
        elif isinstance(fv, ast.UnaryOp) and isinstance(fv.op, ast.USub) and _np_attr(fv.operand, "inf"):
            fill = "FNegInf"
        elif isinstance(fv, ast.Constant) and fv.value == 0:
            fill = "FZero"
        else:
            fill = "FOther"
    elif nm in ("zeros", "empty", "ones") and _np_attr(call.func, nm):
        shape = call.args[0] if call.args else None
        fill = "FZero" if nm == "zeros" else "FOther"
    else:
        return "FOther", "LCands"
    last = shape.elts[-1] if isinstance(shape, ast.Tuple) and shape.elts else shape
    ln = "LCols" if _len_of(last, xname) else "LCands"
    return fill, ln


def _target_kind(sub):
    """U[mapping] / U[:, mapping]"""
    sl = sub.slice
    if _is_name(sl, "mapping"):
        return "TMapping"
    if isinstance(sl, ast.Tuple) and len(sl.elts) == 2 and isinstance(sl.elts[0], ast.Slice) and \
            sl.elts[0].lower is None and sl.elts[0].upper is None and _is_name(sl.elts[1], "mapping"):
        return "TMapping"
    if isinstance(sl, ast.Slice) and sl.lower is None:
        return "TPrefix"
    return "TOther"


def _override_bs_index(clsnode):
    """index at which an overriding _validate_data of the class returns the batch size that
    super()._validate_data clipped (None: no override; -1: override not understood)"""
    for m in clsnode.body:
        if isinstance(m, ast.FunctionDef) and m.name == "_validate_data":
            bound = None
            for s, _ in _stmts(m.body):
                if isinstance(s, ast.Assign) and len(s.targets) == 1 and isinstance(s.targets[0], ast.Tuple) \
                        and _call_name(s.value) == "_validate_data" and isinstance(s.value.func, ast.Attribute) \
                        and _call_name(s.value.func.value) == "super":
                    elts = s.targets[0].elts
                    if len(elts) >= 4 and isinstance(elts[3], ast.Name):
                        bound = elts[3].id
            rets = [s for s, _ in _stmts(m.body) if isinstance(s, ast.Return)]
            if bound is None or len(rets) != 1 or not isinstance(rets[0].value, ast.Tuple):
                return -1
            idx = [i for i, e in enumerate(rets[0].value.elts) if _is_name(e, bound)]
            nreb = sum(1 for s, _ in _stmts(m.body) if isinstance(s, (ast.Assign, ast.AugAssign))
                       for t in (s.targets if isinstance(s, ast.Assign) else [s.target])
                       for e in (t.elts if isinstance(t, ast.Tuple) else [t]) if _is_name(e, bound))
            return idx[0] if len(idx) == 1 and nreb == 1 else -1
    return None


def analyse_query(cls, fn, rel, clsnode=None):
    sites = []
    stmts = list(_stmts(fn.body))
    bs_index = 3
    if clsnode is not None:
        o = _override_bs_index(clsnode)
        if o is not None:
            bs_index = o
    # names bound by _validate_data / _transform_candidates
    vnames, tnames = None, None
    rebinds = {}
    for s, _ in stmts:
        if isinstance(s, ast.Assign) and len(s.targets) == 1:
            t = s.targets[0]
            cn = _call_name(s.value)
            if cn == "_validate_data" and isinstance(t, ast.Tuple):
                vnames = [e.id if isinstance(e, ast.Name) else None for e in t.elts]
                continue
            if cn == "_transform_candidates" and isinstance(t, ast.Tuple):
                tnames = [e.id if isinstance(e, ast.Name) else None for e in t.elts]
                continue
            names = [e.id for e in (t.elts if isinstance(t, ast.Tuple) else [t]) if isinstance(e, ast.Name)]
            for nme in names:
                rebinds[nme] = rebinds.get(nme, 0) + 1
        elif isinstance(s, ast.AugAssign) and isinstance(s.target, ast.Name):
            rebinds[s.target.id] = rebinds.get(s.target.id, 0) + 1
    xname = vnames[0] if vnames and vnames[0] else "X"
    enforce = False
    for s, _ in stmts:
        if isinstance(s, ast.Assign) and _call_name(s.value) == "_transform_candidates":
            for k in s.value.keywords:
                if k.arg == "enforce_mapping" and isinstance(k.value, ast.Constant) and k.value.value is True:
                    enforce = True
    for s, ctxs in stmts:
        if not (isinstance(s, ast.Return) and _call_name(s.value) == "simple_batch"):
            continue
        call = s.value
        a0 = call.args[0] if call.args else None
        uname = None
        if isinstance(a0, ast.Name):
            uname = a0.id
        elif isinstance(a0, ast.Subscript) and isinstance(a0.value, ast.Name) and isinstance(a0.slice, ast.Constant) and a0.slice.value == 0:
            uname = a0.value.id
        kw = {k.arg: k.value for k in call.keywords}
        rng = call.args[1] if len(call.args) > 1 else kw.get("random_state")
        own_rng = rng is not None and _is_self_attr(rng, "random_state_")
        bsv = kw.get("batch_size", call.args[2] if len(call.args) > 2 else None)
        bs_ok = (isinstance(bsv, ast.Name) and vnames is not None and 0 <= bs_index < len(vnames)
                 and vnames[bs_index] == bsv.id and rebinds.get(bsv.id, 0) == 0)
        fill, tgt, ln, none_id, other_writes = None, None, None, enforce, 0
        # `U = V` / `U = -V` (sign change keeps the NaN pattern): follow the alias once
        if uname is not None:
            defs = [s2 for s2, _ in stmts if isinstance(s2, ast.Assign) and len(s2.targets) == 1 and _is_name(s2.targets[0], uname)]
            if len(defs) == 1:
                v = defs[0].value
                if isinstance(v, ast.UnaryOp) and isinstance(v.op, ast.USub):
                    v = v.operand
                if isinstance(v, ast.Name):
                    uname = v.id
        # loop variables ranging over the mapping: `for s in mapping` / `for i, s in enumerate(mapping)`
        mapvars = set()
        for s2, _ in stmts:
            if isinstance(s2, ast.For):
                it, tg = s2.iter, s2.target
                if _is_name(it, "mapping") and isinstance(tg, ast.Name):
                    mapvars.add(tg.id)
                elif isinstance(it, ast.Call) and _is_name(it.func, "enumerate") and len(it.args) == 1 and _is_name(it.args[0], "mapping") \
                        and isinstance(tg, ast.Tuple) and len(tg.elts) == 2 and isinstance(tg.elts[1], ast.Name):
                    mapvars.add(tg.elts[1].id)
        if uname is not None:
            for s2, c2 in stmts:
                if s2.lineno > s.lineno:
                    continue
                # only statements on a control path compatible with the return (same enclosing tests, same side)
                compatible = all(not any(t1 is t2 and o1 != o2 for (t2, o2) in ctxs) for (t1, o1) in c2)
                if not compatible:
                    continue
                if isinstance(s2, ast.Assign) and len(s2.targets) == 1:
                    t = s2.targets[0]
                    if _is_name(t, uname):
                        in_none = any(_mapping_is_none(tt) and not oe for tt, oe in c2)
                        if in_none:
                            none_id = True
                        elif isinstance(s2.value, ast.Call) and _call_name(s2.value) in ("full", "zeros", "empty", "ones"):
                            f, l = _fill_of(s2.value, xname)
                            fill = f if fill in (None, f) else "FOther"
                            ln = l if ln in (None, l) else "LCands"
                        else:
                            other_writes += 1
                    elif isinstance(t, ast.Subscript) and _is_name(t.value, uname):
                        k = _target_kind(t)
                        if isinstance(t.slice, ast.Name) and t.slice.id in mapvars and rebinds.get(t.slice.id, 0) == 0:
                            k = "TMapping"
                        tgt = k if tgt in (None, k) else "TOther"
                elif isinstance(s2, ast.AugAssign):
                    if _is_name(s2.target, uname) and not isinstance(s2.op, (ast.Mult, ast.Div)):
                        other_writes += 1          # `U += w` can turn -inf/NaN patterns; `U *= w`, `U /= w` keep NaN
                    elif isinstance(s2.target, ast.Subscript) and _is_name(s2.target.value, uname):
                        other_writes += 1
        if other_writes or uname is None:
            fill, tgt = "FOther", "TOther"
        validated = vnames is not None and tnames is not None and len(tnames) == 2 and tnames[1] == "mapping" and own_rng
        sites.append({
            "file": rel, "cls": cls, "line": s.lineno,
            "fill": fill or "FOther", "tgt": tgt or "TOther", "bs": "BValidated" if bs_ok else "BRaw",
            "len": ln or "LCands", "none_identity": bool(none_id), "validated": bool(validated),
            "method": ast.unparse(kw["method"]) if "method" in kw else None,
        })
    return sites


def scan(root=REPO + "/skactiveml/pool"):
    """-> (sites, custom): sites = one record per `return simple_batch` in a query() method;
    custom = classes whose query() has no such return (hand-written loops / delegation)."""
    sites, custom = [], []
    for f in sorted(os.listdir(root)):
        if not f.endswith(".py"):
            continue
        path = os.path.join(root, f)
        rel = os.path.relpath(path, REPO)
        tree = ast.parse(open(path).read())
        for node in tree.body:
            if not isinstance(node, ast.ClassDef):
                continue
            for m in node.body:
                if isinstance(m, ast.FunctionDef) and m.name == "query":
                    ss = analyse_query(node.name, m, rel, node)
                    n_ret = sum(1 for s, _ in _stmts(m.body) if isinstance(s, ast.Return))
                    if ss:
                        sites += ss
                    if len(ss) < n_ret or not ss:
                        custom.append((rel, node.name, n_ret - len(ss)))
    return sites, custom


def coq_term(s):
    return ("{| sk_fill := %s; sk_tgt := %s; sk_bs := %s; sk_len := %s; sk_none_identity := %s; sk_validated := %s |}"
            % (s["fill"], s["tgt"], s["bs"], s["len"], "true" if s["none_identity"] else "false",
               "true" if s["validated"] else "false"))


def is_canonical(s):
    return (s["fill"], s["tgt"], s["bs"], s["len"]) == ("FNan", "TMapping", "BValidated", "LCols") and s["none_identity"] and s["validated"]


if __name__ == "__main__":
    sites, custom = scan()
    for s in sites:
        print("OK " if is_canonical(s) else "BAD", s["file"], s["cls"], s["line"], s["fill"], s["tgt"], s["bs"], s["len"], s["none_identity"], s["validated"], s["method"])
    print(len(sites), "sites;", "custom:", custom)
