"""Fail-closed ast scan for random-number provenance (C06): every call site in non-test code that
can draw from numpy's process-global generator or builds a randomised estimator without a seed.

Site kinds: 0 = np.random.<draw>(...) on the global generator; 1 = a selection helper (rand_argmax,
rand_argmin, simple_batch, majority_vote, _greedy_sampling, k_greedy_center, ...) called with
random_state omitted or literally None; 2 = check_random_state(None) / check_random_state() ;
3 = an estimator whose constructor accepts random_state built without one (incl. the dynamic
`self.cluster_algo(**cluster_algo_dict)` pattern); 4 = a seed selected by truthiness (`random_state or <fallback>`,
`<x> if random_state else <y>`): the valid seed 0 silently takes the fallback; 5 = the raw constructor parameter
`self.random_state` handed on by a strategy / wrapper (anything but `check_random_state(self.random_state, ...)` of
skactiveml.utils, which copies, or `deepcopy(self.random_state)`): with a RandomState instance the caller's generator is
advanced and the per-call copy `self.random_state_` is bypassed; 6 = a selection helper used as a VALUE (handed to functools.partial, stored as a
callback, passed on) without a bound random_state: whoever calls it later draws from the global generator."""
import ast
import importlib
import inspect
import os
from ..repo_root import REPO

HELPERS = {"rand_argmax": 1, "rand_argmin": 1, "simple_batch": 1, "majority_vote": 4, "_greedy_sampling": None, "k_greedy_center": 3,
           "batch_bald": None, "_bootstrap_estimators": None, "_conditional_expect": None, "_cross_entropy": None}
GLOBAL_OK = {"RandomState", "default_rng", "Generator", "get_state", "set_state", "seed", "SeedSequence", "MT19937", "BitGenerator"}


# reviewed by hand (kind 5): `self` is an internal helper object whose random_state attribute was set from the strategy's per-call
# copy (_bald.py _DynamicJointEntropy, _cost_embedding_al.py MDS), resp. the callee copies (majority_vote -> rand_argmax ->
# skactiveml.utils.check_random_state deep-copies)
REVIEWED = {
    "skactiveml/pool/_bald.py:add_variables:5",
    "skactiveml/pool/_cost_embedding_al.py:fit_transform:5",
    "skactiveml/pool/multiannotator/_interval_estimation_threshold.py:fit:5",
    # kind 3, reviewed: a ParzenWindowClassifier that is only asked for predict_freq (kernel frequency estimates, no random draw)
    "skactiveml/pool/_probabilistic_al.py:query:3",
    "skactiveml/stream/_stream_probabilistic_al.py:query:3",
}


def module_name(path):
    rel = os.path.relpath(path, REPO)[:-3].replace(os.sep, ".")
    return rel[:-9] if rel.endswith(".__init__") else rel


def scan(root=REPO + "/skactiveml"):
    sites = []
    for dp, dn, fs in os.walk(root):
        if "tests" in dp.split(os.sep) or "visualization" in dp.split(os.sep):
            continue
        for f in sorted(fs):
            if not f.endswith(".py"):
                continue
            path = os.path.join(dp, f)
            src = open(path).read()
            tree = ast.parse(src)
            try:
                mod = importlib.import_module(module_name(path))
            except Exception:
                mod = None
            funcs = {}
            for node in ast.walk(tree):
                if isinstance(node, (ast.FunctionDef, ast.AsyncFunctionDef)):
                    for sub in ast.walk(node):
                        funcs.setdefault(id(sub), node.name)
            # kind 4: truthiness test of a seed
            for node in ast.walk(tree):
                tested = None
                if isinstance(node, ast.BoolOp) and isinstance(node.op, ast.Or):
                    tested = node.values[0]
                elif isinstance(node, ast.IfExp):
                    tested = node.test.operand if isinstance(node.test, ast.UnaryOp) and isinstance(node.test.op, ast.Not) else node.test
                if tested is not None and isinstance(tested, (ast.Name, ast.Attribute)):
                    nm = tested.id if isinstance(tested, ast.Name) else tested.attr
                    if "random_state" in nm or nm in ("seed", "random_seed"):
                        sites.append((4, os.path.relpath(path, REPO), funcs.get(id(node), "<module>"), node.lineno,
                                      f"seed chosen by truthiness: {ast.unparse(node)[:60]}"))
            # kind 5: raw self.random_state used outside the copying validators
            parents = {}
            for node in ast.walk(tree):
                for ch in ast.iter_child_nodes(node):
                    parents[id(ch)] = node
            for node in ast.walk(tree):
                if isinstance(node, ast.Attribute) and node.attr == "random_state" and isinstance(node.value, ast.Name) and node.value.id == "self" \
                        and isinstance(node.ctx, ast.Load):
                    par = parents.get(id(node))
                    if isinstance(par, ast.keyword):
                        par = parents.get(id(par))
                    okcall = isinstance(par, ast.Call) and ((isinstance(par.func, ast.Name) and par.func.id in ("check_random_state", "deepcopy", "check_type", "isinstance"))
                                                            or (isinstance(par.func, ast.Attribute) and par.func.attr in ("deepcopy",)))
                    if not okcall:
                        sites.append((5, os.path.relpath(path, REPO), funcs.get(id(node), "<module>"), node.lineno, "raw self.random_state handed on"))
            # kind 6: a helper escapes as a value
            for node in ast.walk(tree):
                if isinstance(node, ast.Name) and node.id in HELPERS and isinstance(node.ctx, ast.Load):
                    par = parents.get(id(node))
                    if isinstance(par, ast.Call) and par.func is node:
                        continue                      # an ordinary call: kind 1 looks at it
                    bound = False
                    if isinstance(par, ast.Call) and isinstance(par.func, (ast.Name, ast.Attribute)) and \
                            (par.func.id if isinstance(par.func, ast.Name) else par.func.attr) == "partial":
                        rs = {k.arg: k.value for k in par.keywords if k.arg}.get("random_state")
                        bound = rs is not None and not (isinstance(rs, ast.Constant) and rs.value is None)
                    if not bound:
                        sites.append((6, os.path.relpath(path, REPO), funcs.get(id(node), "<module>"), node.lineno,
                                      f"{node.id} used as a value without a bound random_state"))
            for node in ast.walk(tree):
                if not isinstance(node, ast.Call):
                    continue
                fn = funcs.get(id(node), "<module>")
                f_ = node.func
                kws = {k.arg: k.value for k in node.keywords if k.arg}
                has_star = any(k.arg is None for k in node.keywords)
                where = (os.path.relpath(path, REPO), fn, node.lineno)
                # kind 0: np.random.<draw>
                if isinstance(f_, ast.Attribute) and isinstance(f_.value, ast.Attribute) and f_.value.attr == "random" and \
                        isinstance(f_.value.value, ast.Name) and f_.value.value.id in ("np", "numpy") and f_.attr not in GLOBAL_OK:
                    sites.append((0, *where, f"np.random.{f_.attr}"))
                name = f_.id if isinstance(f_, ast.Name) else (f_.attr if isinstance(f_, ast.Attribute) else None)
                # kind 1: helpers without / with None random_state
                if name in HELPERS and isinstance(f_, ast.Name):
                    rs = kws.get("random_state")
                    pos = HELPERS[name]
                    if rs is None and pos is not None and len(node.args) > pos:
                        rs = node.args[pos]
                    if rs is None and not has_star:
                        sites.append((1, *where, f"{name}(random_state omitted)"))
                    elif isinstance(rs, ast.Constant) and rs.value is None:
                        sites.append((1, *where, f"{name}(random_state=None)"))
                # kind 2
                if name == "check_random_state" and isinstance(f_, ast.Name):
                    a0 = node.args[0] if node.args else kws.get("random_state")
                    if a0 is None or (isinstance(a0, ast.Constant) and a0.value is None):
                        sites.append((2, *where, "check_random_state(None)"))
                # kind 3: estimator constructors without random_state
                if isinstance(f_, ast.Attribute) and isinstance(f_.value, ast.Name) and f_.value.id == "self" and f_.attr in ("cluster_algo",):
                    if "random_state" not in kws:
                        forwarded = False
                        for sub in ast.walk(tree):
                            if isinstance(sub, ast.Subscript) and isinstance(sub.slice, ast.Constant) and sub.slice.value == "random_state" and \
                                    isinstance(sub.ctx, ast.Store) and funcs.get(id(sub)) == fn:
                                forwarded = True
                        if not forwarded:
                            sites.append((3, *where, "self.cluster_algo(**dict) without random_state"))
                elif isinstance(f_, ast.Name) and mod is not None and not f_.id[:1].isupper() and f_.id not in HELPERS and f_.id != "check_random_state":
                    # a FUNCTION of scikit-learn / scipy / the package itself that draws random numbers when its random_state is left out
                    # (sklearn.utils.resample / shuffle, train_test_split, make_* ...)
                    obj = getattr(mod, f_.id, None)
                    if inspect.isfunction(obj) and (getattr(obj, "__module__", "") or "").startswith(("sklearn", "scipy")):
                        try:
                            params = inspect.signature(obj).parameters
                        except (TypeError, ValueError):
                            params = {}
                        rsp = params.get("random_state")
                        if rsp is not None and rsp.default is None and "random_state" not in kws and not has_star:
                            pos = list(params).index("random_state")
                            if len(node.args) <= pos:
                                sites.append((3, *where, f"{f_.id}(...) without random_state"))
                elif isinstance(f_, ast.Name) and mod is not None and f_.id[:1].isupper():
                    obj = getattr(mod, f_.id, None)
                    if inspect.isclass(obj) and obj.__module__.startswith(("sklearn", "skactiveml")):
                        try:
                            params = inspect.signature(obj.__init__).parameters
                        except (TypeError, ValueError):
                            params = {}
                        if "random_state" in params and "random_state" not in kws and not has_star:
                            sites.append((3, *where, f"{f_.id}(...) without random_state"))
    return sorted(set(sites))


if __name__ == "__main__":
    for s in scan():
        print(s)
