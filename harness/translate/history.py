"""ast scan (C13 b): fit must be history-free - it may not READ a fitted attribute (`self.<name>_`,
incl. hasattr(self, "<name>_") / getattr) before it has (re)written it in the same call.  For every
estimator class the body of fit is walked in source order with self-method and super() calls
inlined; the first access to each fitted attribute is classified as write-first or read-first.
Read-first sites are 'history reads'.  Flow-insensitive w.r.t. branches (a write in any earlier
statement counts), hence an under-approximation of reads that is cross-checked dynamically by C13's
history runs; fail-closed for dynamic attribute names (setattr / getattr with a computed name)."""
import ast

from . import frame as F
from ..repo_root import REPO


def _fitted(name):
    return name.endswith("_") and not name.startswith("_") and not name.endswith("__")


class Order(ast.NodeVisitor):
    """events in evaluation order: ('R', attr, line) / ('W', attr, line) / ('C', callee, line) / ('U', what, line)"""

    def __init__(self):
        self.ev = []

    def visit_Assign(self, node):
        self.visit(node.value)
        for t in node.targets:
            self._target(t)

    def visit_AnnAssign(self, node):
        if node.value is not None:
            self.visit(node.value)
        self._target(node.target)

    def visit_AugAssign(self, node):
        self.visit(node.value)
        a = F._self_attr(node.target)
        if a is not None and _fitted(a):
            self.ev.append(("R", a, node.lineno))
            self.ev.append(("W", a, node.lineno))
        else:
            self.visit(node.target)

    def _target(self, t):
        if isinstance(t, (ast.Tuple, ast.List)):
            for e in t.elts:
                self._target(e)
            return
        if isinstance(t, ast.Starred):
            return self._target(t.value)
        a = F._self_attr(t)
        if a is not None:
            if _fitted(a):
                self.ev.append(("W", a, t.lineno))
            return
        self.visit(t)          # self.x_[i] = ... reads self.x_

    def visit_Attribute(self, node):
        a = F._self_attr(node)
        if a is not None and _fitted(a) and isinstance(node.ctx, ast.Load):
            self.ev.append(("R", a, node.lineno))
        self.generic_visit(node)

    def visit_Call(self, node):
        f = node.func
        # hasattr(self, "x_") / getattr(self, "x_", d) / setattr(self, "x_", v) / delattr
        if isinstance(f, ast.Name) and f.id in ("hasattr", "getattr", "setattr", "delattr") and node.args and isinstance(node.args[0], ast.Name) and node.args[0].id == "self":
            nm = node.args[1] if len(node.args) > 1 else None
            for a in node.args[2:]:
                self.visit(a)
            if isinstance(nm, ast.Constant) and isinstance(nm.value, str):
                if _fitted(nm.value):
                    self.ev.append(("W" if f.id == "setattr" else ("H" if f.id == "hasattr" else "R"), nm.value, node.lineno))
            else:
                self.ev.append(("U", f"{f.id}(self, <computed>)", node.lineno))
            return
        for a in node.args:
            self.visit(a)
        for k in node.keywords:
            self.visit(k.value)
        # sklearn's feature-count protocol: check_n_features(self, X, reset=...) (re)writes n_features_in_
        if isinstance(f, ast.Name) and f.id in ("check_n_features", "_check_n_features", "validate_data") and node.args \
                and isinstance(node.args[0], ast.Name) and node.args[0].id == "self":
            self.ev.append(("W", "n_features_in_", node.lineno))
        if isinstance(f, ast.Attribute) and isinstance(f.value, ast.Name) and f.value.id == "self":
            self.ev.append(("C", f.attr, node.lineno))
        elif isinstance(f, ast.Attribute) and isinstance(f.value, ast.Call) and isinstance(f.value.func, ast.Name) and f.value.func.id == "super":
            self.ev.append(("C", "super." + f.attr, node.lineno))
        else:
            self.visit(f)

    def visit_If(self, node):
        # `if [not] hasattr(self, "x_"): self.x_ = A  else: self.x_ = B` - the attribute is (re)written whatever the test says:
        # the existence test is not a history read
        t = node.test.operand if isinstance(node.test, ast.UnaryOp) and isinstance(node.test.op, ast.Not) else node.test
        if isinstance(t, ast.Call) and isinstance(t.func, ast.Name) and t.func.id == "hasattr" and len(t.args) == 2 \
                and isinstance(t.args[0], ast.Name) and t.args[0].id == "self" and isinstance(t.args[1], ast.Constant) and _fitted(str(t.args[1].value)):
            a = t.args[1].value

            def first_writes(stmts):
                return bool(stmts) and isinstance(stmts[0], ast.Assign) and any(F._self_attr(x) == a for x in stmts[0].targets)
            if first_writes(node.body) and first_writes(node.orelse):
                self.ev.append(("W", a, node.lineno))
                for st in node.body + node.orelse:
                    self.visit(st)
                return
        self.generic_visit(node)

    def visit_FunctionDef(self, node):      # nested functions / lambdas: analysed where they are defined (conservative)
        for s in node.body:
            self.visit(s)


def analyse(root=REPO + "/skactiveml", entry="fit"):
    classes = F.load_package(root)
    out = []
    for cname in sorted(classes):
        if not F.is_estimator(classes, cname):
            continue
        methods = F.class_methods(classes, cname)
        if entry not in methods:
            continue
        chain = F.mro(classes, cname)

        def events(owner, fn, stack):
            o = Order()
            for s in fn.body:
                o.visit(s)
            res = []
            for e in o.ev:
                if e[0] != "C":
                    res.append(e + (owner,))
                    continue
                callee = e[1]
                if callee.startswith("super."):
                    callee = callee[6:]
                    later = chain[chain.index(owner) + 1:] if owner in chain else []
                    for c in later:
                        if c in classes:
                            fn2 = next((n for n in classes[c]["node"].body if isinstance(n, ast.FunctionDef) and n.name == callee), None)
                            if fn2 is not None:
                                if (c, callee) not in stack:
                                    res += events(c, fn2, stack + ((c, callee),))
                                break
                elif callee in methods:
                    c, fn2 = methods[callee]
                    if (c, callee) not in stack:
                        res += events(c, fn2, stack + ((c, callee),))
            return res
        owner, fn = methods[entry]
        evs = events(owner, fn, ((owner, entry),))
        first = {}
        for kind, a, line, own in evs:
            if kind == "U":
                first.setdefault("<dynamic>", ("U", line, own, a))
            elif a not in first:
                first[a] = (kind, line, own, a)
        reads = sorted((a, v[1], v[2], v[0]) for a, v in first.items() if v[0] in ("R", "H", "U"))
        out.append({"class": cname, "file": classes[cname]["file"], "history_reads": reads,
                    "n_fitted": len([a for a in first if a != "<dynamic>"])})
    return out


# reviewed by hand: existence tests (hasattr) in helpers shared by fit and partial_fit; on the fit path the attribute is
# (re)written right after the test whatever its outcome
REVIEWED = {
    ("SklearnClassifier", "estimator_", "H"),           # `if hasattr(self, "estimator_"): if fit_function != "partial_fit": self.estimator_ = deepcopy(...)`
    ("SlidingWindowClassifier", "X_train_", "H"),       # _add_samples: created if missing, then reset when fit_func == "fit"
    ("SlidingWindowClassifier", "y_train_", "H"),
    ("SlidingWindowClassifier", "sample_weight_train_", "H"),
    ("SklearnClassifier", "n_features_in_", "H"),       # `reset = fit_function == "fit" or not hasattr(self, "n_features_in_")`: True on the fit path
    ("SklearnRegressor", "n_features_in_", "H"),
}


def sites(root=REPO + "/skactiveml"):
    """-> list of (class, file, attr, line, kind, ok): one row per class with fit and no history read, one per history read otherwise"""
    rows = []
    for e in analyse(root):
        if not e["history_reads"]:
            rows.append((e["class"], e["file"], "-", 0, "-", True))
        for a, line, owner, kind in e["history_reads"]:
            rows.append((e["class"], e["file"], a, line, kind, (e["class"], a, kind) in REVIEWED))
    return rows


if __name__ == "__main__":
    for e in analyse():
        if e["history_reads"]:
            print(e["class"], e["file"], e["history_reads"])
    print(len(analyse()), "classes with fit")
