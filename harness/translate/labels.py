"""ast scan (C09): every call of is_labeled / is_unlabeled / labeled_indices / unlabeled_indices in
non-test code and the missing_label it passes.  A site is 'ok' when the sentinel is an attribute /
variable named *missing_label* (the configured sentinel of the strategy or of a model) or the literal
-1 (arrays produced by the label encoder).  Omitted sentinel (default NaN) or any other literal is a
bypass site.  Also lists np.isnan(...) applied to a variable named y* (label arrays)."""
import ast
import os
from ..repo_root import REPO

PREDS = {"is_labeled", "is_unlabeled", "labeled_indices", "unlabeled_indices"}


def scan(root=REPO + "/skactiveml"):
    sites = []
    for dp, dn, fs in os.walk(root):
        parts = dp.split(os.sep)
        if "tests" in parts or "visualization" in parts:
            continue
        for f in sorted(fs):
            if not f.endswith(".py") or f in ("_label.py",):
                continue
            path = os.path.join(dp, f)
            tree = ast.parse(open(path).read())
            funcs = {}
            for node in ast.walk(tree):
                if isinstance(node, (ast.FunctionDef, ast.AsyncFunctionDef)):
                    for sub in ast.walk(node):
                        funcs.setdefault(id(sub), node.name)
            for node in ast.walk(tree):
                if not isinstance(node, ast.Call):
                    continue
                name = node.func.id if isinstance(node.func, ast.Name) else (node.func.attr if isinstance(node.func, ast.Attribute) else None)
                if name not in PREDS:
                    continue
                ml = None
                for k in node.keywords:
                    if k.arg == "missing_label":
                        ml = k.value
                if ml is None and len(node.args) >= 2:
                    ml = node.args[1]
                fn = funcs.get(id(node), "<module>")
                rel = os.path.relpath(path, REPO)
                if ml is None:
                    sites.append((rel, fn, node.lineno, name, "omitted", False))
                    continue
                txt = ast.unparse(ml)
                ok = ("missing_label" in txt) or txt in ("-1", "(-1)")
                sites.append((rel, fn, node.lineno, name, txt, ok))
    return sites


# ---------------------------------------------------------------------------------------------
# every *use* of a sentinel expression (a name / attribute containing `missing_label`) outside the
# label helpers: it may be handed on (keyword missing_label=..., known helper / constructor
# arguments, fill values, assignments, messages) but not compared with labels by hand
# (==, !=, in, np.isnan, np.setdiff1d, np.isin, list literals, ...).
HELPER_FILES = ("skactiveml/utils/_label.py", "skactiveml/utils/_label_encoder.py", "skactiveml/utils/_validation.py")
PASS_ON_KW = {"missing_label", "fill_value", "missing_label1", "missing_label2"}
PASS_ON_CALLEES = PREDS | {"check_equal_missing_label", "check_missing_label", "check_classifier_params", "type", "isinstance",
                           "full", "ExtLabelEncoder", "k_greedy_center", "_alce"}
# reviewed by hand: sentinel compared with another *sentinel* (parameter consistency checks), never with labels
REVIEWED = {
    ("skactiveml/pool/multiannotator/_wrapper.py", "query", "Compare"),
    ("skactiveml/pool/multiannotator/_wrapper.py", "query", "arg:isnan"),
    ("skactiveml/classifier/multiannotator/_annotator_ensemble_classifier.py", "_validate_estimators", "List"),
}


def scan_uses(root=REPO + "/skactiveml"):
    sites = []
    for dp, dn, fs in os.walk(root):
        parts = dp.split(os.sep)
        if "tests" in parts or "visualization" in parts:
            continue
        for f in sorted(fs):
            if not f.endswith(".py"):
                continue
            path = os.path.join(dp, f)
            rel = os.path.relpath(path, REPO)
            if rel in HELPER_FILES:
                continue
            tree = ast.parse(open(path).read())
            parents, funcs = {}, {}
            for n in ast.walk(tree):
                for c in ast.iter_child_nodes(n):
                    parents[id(c)] = n
                if isinstance(n, (ast.FunctionDef, ast.AsyncFunctionDef)):
                    for sub in ast.walk(n):
                        funcs.setdefault(id(sub), n.name)
            for n in ast.walk(tree):
                nm = n.id if isinstance(n, ast.Name) else (n.attr if isinstance(n, ast.Attribute) else None)
                if not (nm and "missing_label" in nm and isinstance(getattr(n, "ctx", None), ast.Load)):
                    continue
                par = parents.get(id(n))
                if isinstance(par, ast.Attribute):
                    continue                                  # est.missing_label: the outer attribute node is visited itself
                fn = funcs.get(id(n), "<module>")
                if isinstance(par, ast.Call) and n is par.func:
                    continue                                  # a helper whose *name* mentions missing_label being called
                if isinstance(par, ast.keyword):
                    kind, ok = f"kw:{par.arg}", par.arg in PASS_ON_KW
                elif isinstance(par, ast.Call) and n is not par.func:
                    callee = par.func.attr if isinstance(par.func, ast.Attribute) else getattr(par.func, "id", "?")
                    kind, ok = f"arg:{callee}", callee in PASS_ON_CALLEES
                elif isinstance(par, (ast.Assign, ast.AnnAssign, ast.FormattedValue, ast.Return, ast.Expr)):
                    kind, ok = type(par).__name__, True
                else:
                    kind, ok = type(par).__name__, False       # Compare, List, Tuple, BinOp, Subscript, ...
                if not ok and (rel, fn, kind) in REVIEWED:
                    ok = True
                sites.append((rel, fn, n.lineno, kind, ast.unparse(n), ok))
    return sites


if __name__ == "__main__":
    for s in scan_uses():
        if not s[5]:
            print("USE", s)
    print(len(scan_uses()), "uses")
    for s in scan():
        if not s[5]:
            print(s)
    print(len(scan()), "sites")
