"""ast scan (C09): every call of is_labeled / is_unlabeled / labeled_indices / unlabeled_indices in
non-test code and the missing_label it passes.  A site is 'ok' when the sentinel is an attribute /
variable named *missing_label* (the configured sentinel of the strategy or of a model) or the literal
-1 (arrays produced by the label encoder).  Omitted sentinel (default NaN) or any other literal is a
bypass site.  Also lists np.isnan(...) applied to a variable named y* (label arrays)."""
import ast
import os

PREDS = {"is_labeled", "is_unlabeled", "labeled_indices", "unlabeled_indices"}


def scan(root="/repo/skactiveml"):
    sites = []
    for dp, dn, fs in os.walk(root):
        parts = dp.split(os.sep)
        if "tests" in parts or "visualization" in parts:
            continue
        for f in sorted(fs):
            if not f.endswith(".py") or f in ("_label.py",):
                continue
            path = os.path.join(dp, f)
            tree = ast.parse(open(path).read())
            funcs = {}
            for node in ast.walk(tree):
                if isinstance(node, (ast.FunctionDef, ast.AsyncFunctionDef)):
                    for sub in ast.walk(node):
                        funcs.setdefault(id(sub), node.name)
            for node in ast.walk(tree):
                if not isinstance(node, ast.Call):
                    continue
                name = node.func.id if isinstance(node.func, ast.Name) else (node.func.attr if isinstance(node.func, ast.Attribute) else None)
                if name not in PREDS:
                    continue
                ml = None
                for k in node.keywords:
                    if k.arg == "missing_label":
                        ml = k.value
                if ml is None and len(node.args) >= 2:
                    ml = node.args[1]
                fn = funcs.get(id(node), "<module>")
                rel = os.path.relpath(path, "/repo")
                if ml is None:
                    sites.append((rel, fn, node.lineno, name, "omitted", False))
                    continue
                txt = ast.unparse(ml)
                ok = ("missing_label" in txt) or txt in ("-1", "(-1)")
                sites.append((rel, fn, node.lineno, name, txt, ok))
    return sites


if __name__ == "__main__":
    for s in scan():
        if not s[5]:
            print(s)
    print(len(scan()), "sites")
