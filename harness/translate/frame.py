"""Fail-closed ast translator: for every estimator class of skactiveml (non-test code) emits the
abstract effects of every method on the object's attributes -- writes, in-place mutations,
attribute aliases -- with self-method calls inlined, as a Coq table (Gen/Frame_table.v).

Abstraction (what is trusted): for each statement the emitted effect set covers what the statement
can do to `self`'s attributes and their aliases.  Constructs the translator does not understand
(exec/eval, vars(self), __dict__, setattr with a computed name, self.set_params(...)) become
EUnknown, which the Coq check rejects."""
import ast
import os
from ..repo_root import REPO

MUTATORS = {"update", "append", "extend", "pop", "popitem", "clear", "sort", "reverse", "setdefault", "insert", "remove",
            "add", "discard", "fit", "partial_fit", "set_params", "fill", "resize", "put", "itemset", "appendleft", "popleft",
            "rotate", "extendleft", "__setitem__", "__delitem__", "setfield", "byteswap", "partition"}
SKIP_METHODS = {"__init__", "set_params", "__setstate__", "__getstate__", "__repr__"}


# module-level functions of the package, by name (same name in several modules: all of them are considered)
_FUNCS = {}
_MUT_MEMO = {}


def load_functions(root=REPO + "/skactiveml"):
    _FUNCS.clear()
    _MUT_MEMO.clear()
    for dp, dn, fs in os.walk(root):
        if "tests" in dp.split(os.sep):
            continue
        for f in fs:
            if f.endswith(".py") and not f.startswith("test_"):
                tree = ast.parse(open(os.path.join(dp, f)).read())
                for n in tree.body:
                    if isinstance(n, ast.FunctionDef):
                        _FUNCS.setdefault(n.name, []).append(n)


def mutated_params(name, stack=()):
    """names / positions of the parameters a module-level helper may mutate in place (directly, through
    local aliases, or by handing them on to another helper): {(position, name)}"""
    if name in _MUT_MEMO:
        return _MUT_MEMO[name]
    if name in stack or name not in _FUNCS:
        return set()
    out = set()
    for fn in _FUNCS[name]:
        args = [a.arg for a in fn.args.posonlyargs + fn.args.args] + [a.arg for a in fn.args.kwonlyargs]
        me = MethodEffects(stack + (name,))
        me.local_alias = {a: {"@" + a} for a in args}
        for e in me.run(fn):
            if e[0] == "M" and e[1].startswith("@"):
                nm = e[1][1:]
                out.add((args.index(nm) if nm in [a.arg for a in fn.args.posonlyargs + fn.args.args] else None, nm))
    if not stack:
        _MUT_MEMO[name] = out
    return out


def _self_attr(node):
    """name a if node is `self.a`."""
    if isinstance(node, ast.Attribute) and isinstance(node.value, ast.Name) and node.value.id == "self":
        return node.attr
    return None


def _root(node):
    """('self', a) if node is rooted at self.a[...]/.x..., ('local', x) if rooted at a local name."""
    depth = 0
    while isinstance(node, (ast.Subscript, ast.Attribute)):
        a = _self_attr(node)
        if a is not None:
            return ("self", a, depth)
        node = node.value
        depth += 1
    if isinstance(node, ast.Name):
        return ("local", node.id, depth)
    return (None, None, depth)


def _alias_sources(value, local_alias):
    """attributes of self that `value` may denote (same object)."""
    out = set()
    if value is None:
        return out
    a = _self_attr(value)
    if a is not None:
        out.add(a)
    elif isinstance(value, ast.Name):
        out |= local_alias.get(value.id, set())
    elif isinstance(value, ast.IfExp):
        out |= _alias_sources(value.body, local_alias) | _alias_sources(value.orelse, local_alias)
    elif isinstance(value, ast.BoolOp):
        for v in value.values:
            out |= _alias_sources(v, local_alias)
    elif isinstance(value, ast.NamedExpr):
        out |= _alias_sources(value.value, local_alias)
    elif isinstance(value, (ast.Tuple, ast.List)):
        pass
    elif isinstance(value, ast.Call) and isinstance(value.func, ast.Name) and value.func.id in ("check_type", "check_scalar") and value.args:
        out |= _alias_sources(value.args[0], local_alias)   # validators returning their argument
    return out


class MethodEffects(ast.NodeVisitor):
    def __init__(self, stack=()):
        self.stack = stack        # helper functions being analysed (recursion guard)
        self.scalars = set()      # attributes validated by check_scalar(self.a, ...): int/float/bool, i.e. immutable objects
        self.effects = set()      # ("W", a) ("M", a) ("A", dst, src) ("C", m) ("U",)
        self.local_alias = {}     # local name -> set of self attrs
        self.argmut = set()

    # two passes so that aliases defined later in the source are known (flow-insensitive)
    def run(self, fn):
        for _ in range(3):
            self.visit(fn)
        return self.effects

    def _assign(self, target, value):
        if isinstance(target, (ast.Tuple, ast.List)):
            vals = value.elts if isinstance(value, (ast.Tuple, ast.List)) and len(value.elts) == len(target.elts) else [None] * len(target.elts)
            for t, v in zip(target.elts, vals):
                self._assign(t, v)
            return
        if isinstance(target, ast.Starred):
            return self._assign(target.value, None)
        a = _self_attr(target)
        if a is not None:
            self.effects.add(("W", a))
            for src in _alias_sources(value, self.local_alias):
                if src != a:
                    self.effects.add(("A", a, src))
            return
        if isinstance(target, ast.Name):
            src = _alias_sources(value, self.local_alias)
            if src:
                self.local_alias.setdefault(target.id, set()).update(src)
            return
        kind, name, depth = _root(target)
        if kind == "self":
            self.effects.add(("U",) if name == "__dict__" else ("M", name))
        elif kind == "local":
            for src in self.local_alias.get(name, ()):
                self.effects.add(("M", src))

    def visit_Assign(self, node):
        for t in node.targets:
            self._assign(t, node.value)
        self.generic_visit(node)

    def visit_AnnAssign(self, node):
        self._assign(node.target, node.value)
        self.generic_visit(node)

    def visit_AugAssign(self, node):
        a = _self_attr(node.target)
        if a is not None:
            self.effects.add(("W", a))
            self.effects.add(("M", a))      # x += y mutates lists / arrays in place
        elif isinstance(node.target, ast.Name):
            for src in self.local_alias.get(node.target.id, ()):
                self.effects.add(("M", src))
        else:
            self._assign(node.target, None)
        self.generic_visit(node)

    def visit_NamedExpr(self, node):
        self._assign(node.target, node.value)
        self.generic_visit(node)

    def visit_For(self, node):
        # `for x in self.a` : elements, not the container; no alias recorded
        self.generic_visit(node)

    def visit_With(self, node):
        for it in node.items:
            if it.optional_vars is not None:
                self._assign(it.optional_vars, it.context_expr)
        self.generic_visit(node)

    def visit_Delete(self, node):
        for t in node.targets:
            a = _self_attr(t)
            if a is not None:
                self.effects.add(("W", a))
            else:
                self._assign(t, None)
        self.generic_visit(node)

    def visit_Call(self, node):
        f = node.func
        if isinstance(f, ast.Name) and f.id == "check_scalar" and node.args:
            a0 = _self_attr(node.args[0])
            if a0 is not None:
                self.scalars.add(a0)
        if isinstance(f, ast.Name) and f.id in _FUNCS:
            # a module-level helper that mutates one of its parameters in place: the effect reaches whatever the argument aliases
            for pos, nm in mutated_params(f.id, self.stack):
                arg = None
                if pos is not None and pos < len(node.args) and not any(isinstance(a, ast.Starred) for a in node.args[:pos + 1]):
                    arg = node.args[pos]
                for k in node.keywords:
                    if k.arg == nm:
                        arg = k.value
                for src in _alias_sources(arg, self.local_alias):
                    self.effects.add(("M", src))
        if isinstance(f, ast.Name):
            if f.id in ("exec", "eval", "vars", "globals", "locals") and (f.id != "vars" or any(isinstance(a, ast.Name) and a.id == "self" for a in node.args)):
                if f.id in ("exec", "eval") or f.id == "vars":
                    self.effects.add(("U",))
            if f.id in ("setattr", "delattr") and node.args and isinstance(node.args[0], ast.Name) and node.args[0].id == "self":
                if len(node.args) > 1 and isinstance(node.args[1], ast.Constant) and isinstance(node.args[1].value, str):
                    self.effects.add(("W", node.args[1].value))
                else:
                    self.effects.add(("U",))
        elif isinstance(f, ast.Attribute):
            if isinstance(f.value, ast.Name) and f.value.id == "self":
                if f.attr == "set_params":
                    self.effects.add(("U",))
                else:
                    self.effects.add(("C", f.attr))
            elif f.attr in MUTATORS:
                kind, name, depth = _root(f.value)
                if kind == "self":
                    self.effects.add(("U",) if name == "__dict__" else ("M", name))
                elif kind == "local":
                    for src in self.local_alias.get(name, ()):
                        self.effects.add(("M", src))
            if isinstance(f.value, ast.Call) and isinstance(f.value.func, ast.Name) and f.value.func.id == "super":
                self.effects.add(("C", "super." + f.attr))
        self.generic_visit(node)


def load_package(root=REPO + "/skactiveml"):
    classes = {}
    for dp, dn, fs in os.walk(root):
        if "tests" in dp.split(os.sep):
            continue
        for f in fs:
            if not f.endswith(".py") or f.startswith("test_"):
                continue
            path = os.path.join(dp, f)
            tree = ast.parse(open(path).read())
            for node in ast.walk(tree):
                if isinstance(node, ast.ClassDef):
                    bases = []
                    for b in node.bases:
                        if isinstance(b, ast.Name):
                            bases.append(b.id)
                        elif isinstance(b, ast.Attribute):
                            bases.append(b.attr)
                    classes.setdefault(node.name, {"node": node, "bases": bases, "file": os.path.relpath(path, REPO)})
    return classes


def mro(classes, name, seen=None):
    seen = seen or []
    if name in seen:
        return []
    out = [name]
    for b in classes.get(name, {}).get("bases", []):
        for x in mro(classes, b, seen + [name]):
            if x not in out:
                out.append(x)
    return out


def is_estimator(classes, name):
    return any(b in ("BaseEstimator",) for b in mro(classes, name))


def class_methods(classes, name):
    """method name -> (defining class, FunctionDef) following the (approximate) MRO."""
    out = {}
    for c in mro(classes, name):
        if c not in classes:
            continue
        for n in classes[c]["node"].body:
            if isinstance(n, (ast.FunctionDef, ast.AsyncFunctionDef)) and n.name not in out:
                out[n.name] = (c, n)
    return out


def params_of(classes, name):
    for c in mro(classes, name):
        if c not in classes:
            continue
        for n in classes[c]["node"].body:
            if isinstance(n, ast.FunctionDef) and n.name == "__init__":
                a = n.args
                return [x.arg for x in a.args[1:] + a.kwonlyargs]
    return []


def analyse(root=REPO + "/skactiveml"):
    load_functions(root)
    classes = load_package(root)
    table = []
    for cname in sorted(classes):
        if not is_estimator(classes, cname):
            continue
        params = params_of(classes, cname)
        methods = class_methods(classes, cname)
        raw = {}
        scalars = set()
        for m, (owner, fn) in methods.items():
            me = MethodEffects()
            raw[m] = (owner, me.run(fn))
            scalars |= me.scalars

        def closure(m, stack=()):
            if m not in raw or m in stack:
                return set()
            owner, effs = raw[m]
            out = set(e for e in effs if e[0] != "C")
            for e in effs:
                if e[0] == "C":
                    callee = e[1]
                    if callee.startswith("super."):
                        callee = callee[6:]
                        # resolve in the MRO after the owner
                        chain = mro(classes, cname)
                        later = chain[chain.index(owner) + 1:] if owner in chain else []
                        for c in later:
                            if c in classes:
                                fn2 = next((n for n in classes[c]["node"].body if isinstance(n, ast.FunctionDef) and n.name == callee), None)
                                if fn2 is not None:
                                    key = f"{c}.{callee}"
                                    if key not in raw:
                                        raw[key] = (c, MethodEffects().run(fn2))
                                    out |= closure(key, stack + (m,))
                                    break
                    else:
                        out |= closure(callee, stack + (m,))
            return out
        entry = {"class": cname, "file": classes[cname]["file"], "params": params, "methods": {}}
        entry["scalar_params"] = sorted(scalars & set(params))
        for m in sorted(methods):
            if m in SKIP_METHODS:
                continue
            # aliasing an attribute to a parameter that is validated as an int/float/bool scalar is harmless:
            # such objects are immutable, no effect through the alias can change them
            entry["methods"][m] = sorted(e for e in closure(m) if not (e[0] == "A" and e[2] in scalars))
        table.append(entry)
    return table


def emit_coq(table, path):
    """Gen/Frame_table.v : attributes are numbered per class."""
    lines = ["(* generated by harness/translate/frame.py from /repo -- do not edit *)",
             "From Coq Require Import List.", "From V Require Import Model.Frame.", "Import ListNotations.", "",
             "Definition frame_table : list fclass := ["]
    index = []
    ents = []
    for ci, e in enumerate(table):
        names = {}
        def num(a):
            return names.setdefault(a, len(names))
        for p in e["params"]:
            num(p)
        ms = []
        for mi, (m, effs) in enumerate(sorted(e["methods"].items())):
            items = []
            for ef in effs:
                if ef[0] == "W":
                    items.append(f"EWrite {num(ef[1])}")
                elif ef[0] == "M":
                    items.append(f"EMutate {num(ef[1])}")
                elif ef[0] == "A":
                    items.append(f"EAlias {num(ef[1])} {num(ef[2])}")
                elif ef[0] == "U":
                    items.append("EUnknown")
            ms.append("[" + "; ".join(items) + "]")
            index.append((ci, mi, e["class"], m))
        ents.append(f"  (* {ci}: {e['class']} ({e['file']}) *)\n  {{| fc_params := [{'; '.join(str(names[p]) for p in e['params'])}]; fc_methods := [\n      " + ";\n      ".join(ms) + "] |}")
        e["_names"] = {v: k for k, v in names.items()}
    lines.append(";\n".join(ents))
    lines.append("].")
    with open(path, "w") as f:
        f.write("\n".join(lines) + "\n")
    return index


if __name__ == "__main__":
    import json
    t = analyse()
    bad = []
    for e in t:
        for m, effs in e["methods"].items():
            w = {x[1] for x in effs if x[0] in ("W", "M")} | {x[1] for x in effs if x[0] == "A"}
            hit = [p for p in e["params"] if p in w]
            if hit or ("U",) in effs:
                bad.append((e["class"], m, hit, ("U",) in effs))
    print(len(t), "classes")
    for b in bad:
        print(b)
