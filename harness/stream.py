"""Shared stream machinery (C03, C04, C10): drives the real budget managers /
baseline strategies over generated histories, snapshots their observable state
after every call and encodes the history for the binary64 instance of the
Gallina models (Harness/StreamCheck.v)."""
import copy
import hashlib
import math

import numpy as np

from .core import flit, listlit, natlist, natlit, zlit

IMPORTS = ("From Coq Require Import PrimFloat.\nFrom V Require Import Base.Num Model.StreamCore Model.Zliobaite "
           "Model.StreamCounters Harness.Run Harness.StreamCheck.")
NAN = float("nan")
ZL = ["Fixed", "Variable", "RandVar", "Split", "Random"]
NDRAWS = 400


def _bm():
    import skactiveml.stream.budgetmanager as bm
    return bm


def state_hash(rs):
    st = rs.get_state()
    return hashlib.md5(st[1].tobytes() + repr(st[2:]).encode()).hexdigest()


class DrawStream:
    """Absolute stream of random_sample() draws of RandomState(seed) with a
    position lookup by generator state."""
    def __init__(self, seed, n=NDRAWS):
        rs = np.random.RandomState(seed)
        self.pos = {state_hash(rs): 0}
        self.draws = []
        for k in range(n):
            self.draws.append(float(rs.random_sample()))
            self.pos[state_hash(rs)] = k + 1

    def position(self, rs):
        return self.pos.get(state_hash(rs))


def snapshot(obj, depth=0):
    """All fitted attributes (trailing underscore), recursively, as comparable values."""
    out = {}
    for k, v in sorted(vars(obj).items()):
        if not k.endswith("_") or k.startswith("__"):
            continue
        out[k] = _snap(v, depth)
    return out


def _snap(v, depth):
    if isinstance(v, np.random.RandomState):
        return ("rng", state_hash(v))
    if isinstance(v, np.ndarray):
        return ("arr", v.shape, v.dtype.str, v.tobytes())
    if isinstance(v, (float, np.floating)):
        return ("f", float(v).hex())
    if isinstance(v, (int, np.integer, bool, np.bool_)):
        return ("i", int(v))
    if isinstance(v, (list, tuple)) or type(v).__name__ == "deque":
        return ("seq", type(v).__name__, getattr(v, "maxlen", None), tuple(_snap(x, depth) for x in v))
    if isinstance(v, dict):
        return ("dict", tuple((k, _snap(x, depth)) for k, x in sorted(v.items(), key=lambda kv: repr(kv[0]))))
    if hasattr(v, "__dict__") and depth < 3:
        return ("obj", type(v).__name__, tuple(snapshot(v, depth + 1).items()),
                tuple((k, _snap(x, depth + 1)) for k, x in sorted(vars(v).items()) if not k.endswith("_") and not callable(x) and depth < 1 and isinstance(x, (int, float, str, bool, type(None)))))
    return ("repr", repr(v)[:200])


def diff_snap(a, b):
    return [k for k in sorted(set(a) | set(b)) if a.get(k) != b.get(k)]


# ------------------------------------------------------------------ params --
def gen_params(rng, kind):
    p = {
        "kind": kind,
        "w": int(rng.choice([1, 2, 3, 5, 10, 100])),
        "budget": float(rng.choice([0.01, 0.1, 0.3, 0.5, 1.0, float(rng.random()) * 0.9 + 0.05])),
        "s": float(rng.choice([0.01, 0.1, 0.5])),
        "v": float(rng.choice([0.1, 0.5, 0.9])),
        "K": int(rng.choice([2, 3, 5])),
        "theta": float(rng.choice([1.0, 0.5, 0.9])),
        "delta": float(rng.choice([1.0, 0.1])),
        "seed": int(rng.integers(0, 10000)),
    }
    return p


def make(p):
    bm = _bm()
    k = p["kind"]
    if k == "Fixed":
        return bm.FixedUncertaintyBudgetManager(classes=list(range(p["K"])), w=p["w"], budget=p["budget"])
    if k == "Variable":
        return bm.VariableUncertaintyBudgetManager(theta=p["theta"], s=p["s"], w=p["w"], budget=p["budget"])
    if k == "RandVar":
        return bm.RandomVariableUncertaintyBudgetManager(delta=p["delta"], theta=p["theta"], s=p["s"], random_state=p["seed"], w=p["w"], budget=p["budget"])
    if k == "Split":
        return bm.SplitBudgetManager(v=p["v"], theta=p["theta"], s=p["s"], random_state=p["seed"], w=p["w"], budget=p["budget"])
    if k == "Random":
        return bm.RandomBudgetManager(random_state=p["seed"], w=p["w"], budget=p["budget"])
    if k == "DensitySplit":
        return bm.DensityBasedSplitBudgetManager(theta=p["theta"], s=p["s"], delta=p["delta"], random_state=p["seed"], budget=p["budget"])
    from skactiveml.stream import PeriodicSampling, StreamRandomSampling
    if k == "SRS_allow":
        return StreamRandomSampling(allow_exceeding_budget=True, budget=p["budget"], random_state=p["seed"])
    if k == "SRS_strict":
        return StreamRandomSampling(allow_exceeding_budget=False, budget=p["budget"], random_state=p["seed"])
    if k == "Periodic":
        return PeriodicSampling(budget=p["budget"], random_state=p["seed"])
    raise ValueError(k)


def is_strategy(kind):
    return kind in ("SRS_allow", "SRS_strict", "Periodic")


def gen_chunk(rng, mgr, p, n, style):
    """utilities for the next chunk; 'hug' places them right at the running threshold."""
    if style == "ones":
        return np.ones(n)
    if style == "nan":
        u = rng.random(n)
        u[rng.random(n) < 0.4] = np.nan
        return u
    if style == "const":
        return np.full(n, float(rng.choice([0.0, 0.5, 1.0])))
    if style == "hug":
        th = getattr(mgr, "theta_", None)
        if th is None:
            th = 1 / p["K"] + p["budget"] * (1 - 1 / p["K"])
        base = 1.0 - float(th)
        u = np.full(n, base)
        for i in range(n):
            r = int(rng.integers(0, 3))
            u[i] = [np.nextafter(base, -np.inf), base, np.nextafter(base, np.inf)][r]
        return u
    return rng.random(n)


# ---------------------------------------------------------------- run impl --
class Recorded:
    def __init__(self, p):
        self.p = p
        self.ops = []          # dicts
        self.problems = []     # (kind, message)


def mgr_state(mgr, p, stream):
    kind = p["kind"]
    if kind in ZL:
        u = float(getattr(mgr, "u_t_", 0))
        th = float(getattr(mgr, "theta_", p["theta"]))
        c = 0
        if kind in ("Split", "Random") and hasattr(mgr, "random_state_"):
            c = stream.position(mgr.random_state_)
        return (u, th, c)
    if kind == "DensitySplit":
        return (float(getattr(mgr, "u_", 0)), float(getattr(mgr, "t_", 0)), float(getattr(mgr, "theta_", p["theta"])))
    c = stream.position(mgr.random_state_) if hasattr(mgr, "random_state_") and kind != "Periodic" else 0
    return (float(getattr(mgr, "observed_samples_", 0)), float(getattr(mgr, "queried_samples_", 0)), c)


def assign_etas(mgr, p, utils, res):
    """Normal draws the query consumed, attributed to instances (see DESIGN, C03)."""
    kind = p["kind"]
    n = len(utils)
    etas = [1.0] * n
    if kind not in ("RandVar", "DensitySplit") or not hasattr(mgr, "random_state_"):
        return etas
    clone = copy.deepcopy(mgr.random_state_)
    resset = set(int(i) for i in res)
    if kind == "RandVar":
        tu = mgr.u_t_
        for i in range(n):
            if p["budget"] > tu / p["w"]:
                etas[i] = float(clone.normal(1, p["delta"]))
            tu = tu * ((p["w"] - 1) / p["w"]) + (i in resset)
    else:
        tu, tt = mgr.u_, mgr.t_
        for i in range(n):
            tt += 1
            if p["budget"] > tu / tt:
                etas[i] = float(clone.normal(1, p["delta"]))
            tu += (i in resset)
    return etas


def do_query(mgr, p, utils):
    if is_strategy(p["kind"]):
        cand = np.zeros((len(utils), 1))
        idx, ut = mgr.query(cand, return_utilities=True)
        return [int(i) for i in idx], np.asarray(ut)
    return [int(i) for i in mgr.query_by_utility(np.asarray(utils, dtype=float))], None


def do_update(mgr, p, n, idx_raw):
    cand = np.zeros((n, 1))
    mgr.update(cand, idx_raw)


def run_history(p, plan_fn, rng, ndraws=NDRAWS):
    """plan_fn(rng, mgr, step) yields ('q', utils) / ('u',) items lazily; 'u' commits
    the last kept query.  Returns Recorded."""
    rec = Recorded(p)
    mgr = make(p)
    stream = DrawStream(p["seed"], ndraws)
    # lazy initialisation happens in the first call: do a zero-length warm-up query so that
    # fitted attributes exist before the first snapshot (it is itself checked for purity later)
    last = None
    for item in plan_fn(rng, mgr, p):
        if item[0] == "q":
            utils = np.asarray(item[1], dtype=float)
            initialised = hasattr(mgr, "budget_")
            before = snapshot(mgr)
            rs_before = state_hash(mgr.random_state_) if hasattr(mgr, "random_state_") else None
            etas_src = mgr if initialised or p["kind"] not in ("RandVar", "DensitySplit") else None
            if etas_src is None:
                # first call: attributes do not exist yet; build a twin to know the initial generator
                twin = make(p)
                do_query(twin, p, np.array([0.5]))
                etas_src = twin
                # twin's query must itself be pure, so its state is the initial state
            try:
                res, ut = do_query(mgr, p, utils)
            except Exception as e:
                rec.problems.append(("query_exception", f"query raised {type(e).__name__}: {e}", {"utils": [float(x).hex() for x in utils]}))
                return rec
            etas = assign_etas(etas_src, p, utils, res)
            after = snapshot(mgr)
            if initialised:
                d = diff_snap(before, after)
                if d:
                    rec.problems.append(("query_changed_state", f"query changed fitted attributes {d}", {"utils": [float(x).hex() for x in utils]}))
            res2, _ = do_query(mgr, p, utils)
            if res2 != res:
                rec.problems.append(("query_not_repeatable", f"same query returned {res} then {res2}", {"utils": [float(x).hex() for x in utils]}))
            if any(b <= a for a, b in zip(res, res[1:])) or any(i < 0 or i >= len(utils) for i in res):
                rec.problems.append(("indices_malformed", f"queried indices {res} for {len(utils)} candidates", {"utils": [float(x).hex() for x in utils]}))
            if ut is not None and len(ut) != len(utils):
                rec.problems.append(("utilities_length", f"{len(ut)} utilities for {len(utils)} candidates", {}))
            rec.ops.append({"op": "q", "utils": [float(x) for x in utils], "etas": etas, "res": res, "state": mgr_state(mgr, p, stream)})
            last = (utils, res)
        else:
            if last is None:
                continue
            utils, res = last
            rs_clone = copy.deepcopy(mgr.random_state_) if hasattr(mgr, "random_state_") else None
            try:
                raw = mgr.query_by_utility(np.asarray(utils, dtype=float)) if not is_strategy(p["kind"]) else mgr.query(np.zeros((len(utils), 1)))
                do_update(mgr, p, len(utils), raw)
            except Exception as e:
                rec.problems.append(("update_exception", f"update rejected query's own result: {type(e).__name__}: {e}",
                                     {"utils": [float(x).hex() for x in utils], "res": res}))
                return rec
            if p["kind"] in ("RandVar", "DensitySplit") and rs_clone is not None:
                rs_clone.random_sample(len(utils))
                if state_hash(rs_clone) != state_hash(mgr.random_state_):
                    rec.problems.append(("rng_advance", "update did not advance the generator by random_sample(len(candidates))", {}))
            rec.ops.append({"op": "u", "n": len(utils), "idx": res, "state": mgr_state(mgr, p, stream)})
            last = None
    rec.stream = stream
    rec.final = snapshot(mgr)
    return rec


# ------------------------------------------------------------- encode Coq --
def fl(xs):
    return listlit([flit(x) for x in xs])


def pairs(us, es):
    return listlit([f"({flit(u)}, {flit(e)})" for u, e in zip(us, es)])


def encode(rec):
    """(tag, check function, Coq term) or None if a state component is unknown."""
    p = rec.p
    kind = p["kind"]
    ops = []
    for o in rec.ops:
        st = o["state"]
        if st[2] is None:
            return None
        if kind in ZL:
            tail = f"{flit(st[0])} {flit(st[1])} {natlit(st[2])}"
            if o["op"] == "q":
                ops.append(f"FQuery {pairs(o['utils'], o['etas'])} {natlist(o['res'])} {tail}")
            else:
                ops.append(f"FUpdate {natlit(o['n'])} {natlist(o['idx'])} {tail}")
        elif kind == "DensitySplit":
            tail = f"{zlit(int(st[0]))} {zlit(int(st[1]))} {flit(st[2])}"
            if o["op"] == "q":
                ops.append(f"DQuery {pairs(o['utils'], o['etas'])} {natlist(o['res'])} {tail}")
            else:
                ops.append(f"DUpdate {natlit(o['n'])} {natlist(o['idx'])} {tail}")
        else:
            tail = f"{zlit(int(st[0]))} {zlit(int(st[1]))} {natlit(st[2])}"
            if o["op"] == "q":
                ops.append(f"CQuery {natlit(len(o['utils']))} {natlist(o['res'])} {tail}")
            else:
                ops.append(f"CUpdate {natlit(o['n'])} {natlist(o['idx'])} {tail}")
    opl = listlit(ops)
    maxc = max([o["state"][2] for o in rec.ops if kind not in ("DensitySplit",)] + [0]) if kind != "DensitySplit" else 0
    ndraw = min(len(rec.stream.draws), int(maxc) + 2 * max([len(o.get("utils", [])) for o in rec.ops] + [1]) + 4)
    draws = fl(rec.stream.draws[:ndraw]) if kind in ("Split", "Random", "SRS_allow", "SRS_strict") else "[]"
    if kind in ZL:
        return ("zl", "check_zl",
                f"({natlit(ZL.index(kind))}, {zlit(p['w'])}, {flit(p['budget'])}, {flit(p['s'])}, {flit(p['v'])}, "
                f"{zlit(p['K'])}, {draws}, {flit(p['theta'])}, {opl})")
    if kind == "DensitySplit":
        return ("d", "check_d", f"({flit(p['budget'])}, {flit(p['s'])}, {flit(p['theta'])}, {opl})")
    ck = {"SRS_allow": 0, "SRS_strict": 1, "Periodic": 2}[kind]
    return ("c", "check_c", f"({natlit(ck)}, {flit(p['budget'])}, {draws}, {opl})")


ALL_KINDS = ZL + ["DensitySplit", "SRS_allow", "SRS_strict", "Periodic"]
DETERMINISTIC = ["Fixed", "Variable", "Split", "Random", "SRS_allow", "SRS_strict", "Periodic"]


def grants_bound(p, n):
    b = p["budget"]
    k = p["kind"]
    if k in ZL:
        return b * n + n / p["w"] + b * p["w"] + 1
    if k == "DensitySplit":
        return b * n + 1
    if k in ("SRS_strict", "Periodic"):
        return b * n
    return math.inf


def evaluate(ctx, recs, component_prefix):
    """Run the Coq side on the recorded histories and report mismatches."""
    groups = {}
    mism = set()
    for r in recs:
        if r.problems or not r.ops:
            continue
        enc = encode(r)
        if enc is None:
            ctx.violation(component_prefix + r.p["kind"], "rng_position_unknown",
                          "the generator state after a call is not a position of RandomState(seed).random_sample stream",
                          {"params": r.p, "ops": r.ops}, found_input=False,
                          what="correspondence: generator consumption differs from the model (state not on the modelled draw stream)")
            continue
        tag, fn, term = enc
        groups.setdefault((tag, fn), []).append((term, r))
    for (tag, fn), items in groups.items():
        bad, err = ctx.coq_eval_cases(component_prefix + tag, IMPORTS, fn, [t for t, _ in items], chunk=150)
        if err:
            ctx.violation(component_prefix + tag, "model_eval_failed", err, {}, found_input=False,
                          what=f"Coq evaluation of {fn} failed")
        for i in bad[:6]:
            r = items[i][1]
            mism.add(r.p["kind"])
            ctx.violation(component_prefix + r.p["kind"], "model_mismatch",
                          "implementation history and binary64 Gallina model disagree (indices or state after some call)",
                          {"params": r.p, "ops": r.ops}, found_input=False,
                          what=f"correspondence Model/Zliobaite|StreamCounters ({r.p['kind']}) <-> implementation no longer holds")
    return mism
