"""Functional correspondence of the kernel cache of IndexClassifierWrapper (use_speed_up=True around
ParzenWindowClassifier; Model/KernelCache.v) with the implementation: integer coordinates and the
linear kernel (exact values), random histories of precompute calls (index lists with duplicates,
all three fit_params / pred_params filters); after every call pwc_K_ must equal the model's cache and
a prediction must raise the documented ValueError exactly when the model's lookup has a NaN."""
import warnings

import numpy as np

from .core import blit, listlit, natlist, natlit, zlist, zlit

IMPORTS = "From V Require Import Base.OptOrder Model.PoolQuery Model.KernelCache Harness.Run Harness.KCacheCheck."
PF = ["all", "labeled", "unlabeled"]


def kcache_cases(ctx, count):
    from skactiveml.classifier import ParzenWindowClassifier
    from skactiveml.pool.utils import IndexClassifierWrapper
    rng = ctx.rng("kcache")
    terms, meta = [], []
    for h in range(count):
        n = int(rng.integers(2, 7))
        xs = rng.integers(-2, 4, size=n)
        X = xs.astype(float).reshape(-1, 1)
        y = np.where(rng.random(n) < 0.5, rng.integers(0, 2, size=n).astype(float), np.nan)
        if np.isnan(y).all():
            y[0] = 0.0
        lab = [bool(v == v) for v in y]
        with warnings.catch_warnings():
            warnings.simplefilter("ignore")
            w = IndexClassifierWrapper(ParzenWindowClassifier(classes=[0, 1], metric="linear", random_state=0), X, y, use_speed_up=True)
            calls, ok = [], True
            for _ in range(int(rng.integers(1, 5))):
                fit = [int(i) for i in rng.integers(0, n, size=int(rng.integers(1, n + 2)))]
                pred = [int(i) for i in rng.integers(0, n, size=int(rng.integers(1, n + 2)))]
                pf, pp = int(rng.integers(0, 3)), int(rng.integers(0, 3))
                try:
                    w.precompute(fit, pred, fit_params=PF[pf], pred_params=PF[pp])
                    K = np.array(w.pwc_K_, dtype=float)
                    train = sorted({int(i) for i in rng.choice(np.flatnonzero(~np.isnan(y)), size=int(rng.integers(1, 3)))})
                    query = [int(i) for i in rng.integers(0, n, size=int(rng.integers(1, 3)))]
                    w.fit(train)
                    try:
                        w.predict_proba(query)
                        raised = False
                    except ValueError as e:
                        raised = "pre-computed" in str(e)
                        if not raised:
                            raise
                except Exception as e:
                    ctx.violation("IndexClassifierWrapper[speed_up]", "exception:" + type(e).__name__, repr(e)[:300],
                                  {"x": xs.tolist(), "y": [None if v != v else v for v in y], "fit": fit, "pred": pred, "fit_params": PF[pf], "pred_params": PF[pp]},
                                  what=f"precompute / predict raised {type(e).__name__}")
                    ok = False
                    break
                obs = listlit([listlit(["None" if v != v else f"(Some {zlit(int(v))})" for v in r]) for r in K])
                calls.append(f"({natlist(fit)}, {natlist(pred)}, {natlit(pf)}, {natlit(pp)}, {obs}, {natlist(train)}, {natlist(query)}, {blit(raised)})")
                ctx.hist[f"kcache:{PF[pf]}x{PF[pp]}:{'raised' if raised else 'served'}"] += 1
        if not ok:
            continue
        terms.append(f"({zlist(xs.tolist())}, {listlit([blit(b) for b in lab])}, {listlit(calls)})")
        meta.append({"x": xs.tolist(), "y": [None if v != v else v for v in y], "n_calls": len(calls)})
        ctx.count("kernel_cache_correspondence", len(calls))
        if len(calls) >= 2:
            ctx.nontriv(("kcache", xs.tobytes(), y.tobytes(), repr(calls)))
    return terms, meta


def kcache_correspondence(ctx):
    terms, meta = kcache_cases(ctx, 120 if ctx.is_quick else 2000)
    bad, err = ctx.coq_eval_cases("kcache", IMPORTS, "check_kcache", terms, chunk=100)
    if err:
        ctx.violation("IndexClassifierWrapper[speed_up]", "model_eval_failed", err, {}, found_input=False, what="Coq evaluation of check_kcache failed")
    for i in bad[:5]:
        ctx.violation("IndexClassifierWrapper[speed_up]", "kernel_cache_mismatch",
                      "pwc_K_ / the NaN error differ from Model/KernelCache.v after some precompute call", meta[i], found_input=False,
                      what="correspondence Model/KernelCache.v <-> IndexClassifierWrapper.precompute / predict_proba no longer holds")
    if meta:
        ctx.sample({"kernel_cache_case": meta[0]}, limit=12)
