"""Registry of every single-annotator pool strategy exported by skactiveml.pool
(x selection methods / greedy flags) with the models they need, their documented
preconditions and the selection mode the acceptor uses."""
import warnings

import numpy as np

NAN = float("nan")


def _clf(classes, seed):
    from skactiveml.classifier import ParzenWindowClassifier
    return ParzenWindowClassifier(classes=list(classes), random_state=seed)


_TABLE = None


def _table_clf():
    """Scripted classifier: probabilities are a fixed function of the feature vector taking few
    values - one-hot for most points, fractional for some - so that exact ties, exact zeros and
    'only a few uncertain candidates' are reached deterministically."""
    global _TABLE
    if _TABLE is None:
        from skactiveml.base import SkactivemlClassifier

        class TableClf(SkactivemlClassifier):
            def __init__(self, salt=0, classes=None, missing_label=np.nan, cost_matrix=None, random_state=None):
                super().__init__(classes=classes, missing_label=missing_label, cost_matrix=cost_matrix, random_state=random_state)
                self.salt = salt

            def fit(self, X, y, sample_weight=None):
                self._validate_data(X, y, sample_weight)
                return self

            def predict_proba(self, X):
                X = np.asarray(X, dtype=float)
                K = len(self.classes_)
                P = np.zeros((len(X), K))
                for i, x in enumerate(X):
                    h = int(abs(np.floor(x.sum() * 3 + self.salt))) % 7
                    c = h % K
                    if h < 5:
                        P[i, c] = 1.0
                    elif h == 5:
                        P[i] = 1.0 / K
                    else:
                        P[i, c] = 0.75
                        P[i, (c + 1) % K] += 0.25
                return P
        _TABLE = TableClf
    return _TABLE


def _clf_alt(classes, seed):
    """Classifier variants for strategies that only need predict_proba: smooth (Parzen window),
    one-hot (decision tree, 1-NN) probabilities -> exact ties and zeros."""
    from sklearn.neighbors import KNeighborsClassifier
    from sklearn.tree import DecisionTreeClassifier
    from skactiveml.classifier import SklearnClassifier
    if seed % 8 == 2:
        return SklearnClassifier(DecisionTreeClassifier(random_state=seed), classes=list(classes), random_state=seed)
    if seed % 8 == 3:
        return SklearnClassifier(KNeighborsClassifier(n_neighbors=1), classes=list(classes), random_state=seed)
    if seed % 8 >= 4:
        return _table_clf()(salt=seed, classes=list(classes), random_state=seed)
    return _clf(classes, seed)


def _mix(classes, seed):
    from sklearn.mixture import BayesianGaussianMixture
    from skactiveml.classifier import MixtureModelClassifier
    return MixtureModelClassifier(mixture_model=BayesianGaussianMixture(n_components=2, random_state=seed),
                                  classes=list(classes), random_state=seed)


def _ens(classes, seed):
    from skactiveml.classifier import ParzenWindowClassifier
    return [ParzenWindowClassifier(classes=list(classes), metric_dict={"gamma": g}, random_state=seed + i) for i, g in enumerate((0.1, 0.5, 2.0))]


def _nic(seed):
    from skactiveml.regressor import NICKernelRegressor
    return NICKernelRegressor(random_state=seed)


def _tree(seed):
    from sklearn.tree import DecisionTreeRegressor
    from skactiveml.regressor import SklearnRegressor
    return SklearnRegressor(DecisionTreeRegressor(min_samples_leaf=2, random_state=seed), random_state=seed)


def _lin(seed):
    from sklearn.linear_model import LinearRegression
    from skactiveml.regressor import SklearnRegressor
    return SklearnRegressor(LinearRegression(), random_state=seed)


class Entry:
    def __init__(self, name, make, task, kw=None, mode="max", feat=True, samplewise=False,
                 binary=False, max_bs=None, slow=False, needs_labels=False, wrapper=False, setdep=False, anyidx=None, subsample=None, stochastic=False,
                 variant=False):
        self.name, self.make, self.task = name, make, task
        self.kw = kw or (lambda classes, seed: {})
        self.mode, self.feat, self.samplewise = mode, feat, samplewise
        self.binary, self.max_bs, self.slow = binary, max_bs, slow
        self.needs_labels, self.wrapper, self.setdep = needs_labels, wrapper, setdep
        self.anyidx = samplewise if anyidx is None else anyidx
        self.subsample = subsample   # documented sub-sample fraction (SubSamplingWrapper)
        self.stochastic = stochastic  # scores are Monte-Carlo / bootstrap estimates: draws are consumed in row order
        self.variant = variant        # a non-default parameter setting of a strategy that also has a base entry ("Name{param=...}")
        self.base = name.split("{")[0]


def registry():
    import skactiveml.pool as P
    clfkw = lambda c, s: {"clf": _clf(c, s)}
    altkw = lambda c, s: {"clf": _clf_alt(c, s)}
    E = []
    E.append(Entry("RandomSampling", lambda c, s: P.RandomSampling(random_state=s), "clf", mode="sampling", samplewise=True))
    E.append(Entry("ProbabilisticAL", lambda c, s: P.ProbabilisticAL(random_state=s), "clf", clfkw, samplewise=True))
    for m in ("least_confident", "margin_sampling", "entropy"):
        E.append(Entry(f"UncertaintySampling[{m}]", lambda c, s, m=m: P.UncertaintySampling(method=m, random_state=s), "clf", altkw, samplewise=True))
    E.append(Entry("EpistemicUncertaintySampling", lambda c, s: P.EpistemicUncertaintySampling(random_state=s), "clf", clfkw, samplewise=True, binary=True))
    # precompute=True interpolates the scores linearly on a grid that extends to the largest class frequency among the CANDIDATES
    # (scipy griddata triangulates it): the value of a sample depends on the extent of the grid, i.e. on the other candidates ->
    # not a sample-wise scorer for C08's restriction / permutation clause (any index set is still a valid candidate set for C01)
    E.append(Entry("EpistemicUncertaintySampling[precompute]", lambda c, s: P.EpistemicUncertaintySampling(precompute=True, random_state=s), "clf", clfkw, samplewise=True, setdep=True, binary=True))
    E.append(Entry("MonteCarloEER", lambda c, s: P.MonteCarloEER(random_state=s), "clf", clfkw, samplewise=True, slow=True))
    E.append(Entry("ValueOfInformationEER", lambda c, s: P.ValueOfInformationEER(random_state=s), "clf", clfkw, feat=False, samplewise=True, slow=True))
    for m in ("KL_divergence", "vote_entropy", "variation_ratios"):
        # hard votes break ties with the members' own generators, row by row: a Monte-Carlo-like scorer for C08's permutation clause
        E.append(Entry(f"QueryByCommittee[{m}]", lambda c, s, m=m: P.QueryByCommittee(method=m, random_state=s), "clf",
                       lambda c, s: {"ensemble": _ens(c, s)}, samplewise=True, stochastic=(m != "KL_divergence")))
    E.append(Entry("Quire", lambda c, s: P.Quire(classes=list(c), random_state=s), "clf", feat=False, samplewise=True, anyidx=False))
    E.append(Entry("FourDs", lambda c, s: P.FourDs(random_state=s), "clf", lambda c, s: {"clf": _mix(c, s)}, feat=False, setdep=True))
    E.append(Entry("CostEmbeddingAL", lambda c, s: P.CostEmbeddingAL(classes=list(c), random_state=s), "clf", slow=True, samplewise=True, stochastic=True))
    E.append(Entry("ExpectedModelChangeMaximization", lambda c, s: P.ExpectedModelChangeMaximization(random_state=s), "reg",
                   lambda c, s: {"reg": _lin(s)}, samplewise=True, stochastic=True))
    E.append(Entry("ExpectedModelOutputChange", lambda c, s: P.ExpectedModelOutputChange(random_state=s), "reg",
                   lambda c, s: {"reg": _nic(s)}, samplewise=True, slow=True))
    E.append(Entry("ExpectedModelVarianceReduction", lambda c, s: P.ExpectedModelVarianceReduction(random_state=s), "reg",
                   lambda c, s: {"reg": _nic(s)}, samplewise=True, slow=True))
    E.append(Entry("KLDivergenceMaximization", lambda c, s: P.KLDivergenceMaximization(random_state=s), "reg",
                   lambda c, s: {"reg": _nic(s)}, samplewise=True, slow=True))
    E.append(Entry("KLDivergenceMaximization[monte_carlo]", lambda c, s: P.KLDivergenceMaximization(
        integration_dict_cross_entropy={"method": "monte_carlo", "n_integration_samples": 5}, random_state=s), "reg",
        lambda c, s: {"reg": _nic(s)}, samplewise=True, slow=True, stochastic=True))
    E.append(Entry("GreedySamplingX", lambda c, s: P.GreedySamplingX(random_state=s), "reg", samplewise=True))
    E.append(Entry("GreedySamplingTarget", lambda c, s: P.GreedySamplingTarget(random_state=s), "reg", lambda c, s: {"reg": _lin(s)}, samplewise=True))
    for g in (False, True):
        E.append(Entry(f"DiscriminativeAL[greedy={g}]", lambda c, s, g=g: P.DiscriminativeAL(greedy_selection=g, random_state=s), "clf",
                       lambda c, s: {"discriminator": _clf([0, 1], s)}, samplewise=g, setdep=not g))
    E.append(Entry("BatchBALD", lambda c, s: P.BatchBALD(n_MC_samples=50, random_state=s), "clf", lambda c, s: {"ensemble": _ens(c, s)}, setdep=True))
    E.append(Entry("GreedyBALD", lambda c, s: P.GreedyBALD(random_state=s), "clf", lambda c, s: {"ensemble": _ens(c, s)}, samplewise=True))
    E.append(Entry("Clue", lambda c, s: P.Clue(random_state=s), "clf", altkw, setdep=True))
    E.append(Entry("DropQuery", lambda c, s: P.DropQuery(random_state=s), "clf", altkw, setdep=True))
    E.append(Entry("CoreSet", lambda c, s: P.CoreSet(random_state=s), "clf", samplewise=True, anyidx=False))
    E.append(Entry("TypiClust", lambda c, s: P.TypiClust(random_state=s), "clf", setdep=True))
    E.append(Entry("Badge", lambda c, s: P.Badge(random_state=s), "clf", altkw, mode="sampling", setdep=True))
    E.append(Entry("ProbCover", lambda c, s: P.ProbCover(random_state=s), "clf", setdep=True))
    E.append(Entry("ContrastiveAL", lambda c, s: P.ContrastiveAL(random_state=s), "clf", altkw, samplewise=True))
    E.append(Entry("Falcun", lambda c, s: P.Falcun(random_state=s), "clf", altkw, mode="sampling", setdep=True))
    for m in ("random", "diversity", "representativity"):
        E.append(Entry(f"RegressionTreeBasedAL[{m}]", lambda c, s, m=m: P.RegressionTreeBasedAL(method=m, random_state=s), "reg",
                       lambda c, s: {"reg": _tree(s)}, mode="sampling" if m == "random" else "max", feat=False, setdep=True))
    E.append(Entry("SubSamplingWrapper", lambda c, s: P.SubSamplingWrapper(query_strategy=P.UncertaintySampling(random_state=s), max_candidates=0.5, random_state=s),
                   "clf", lambda c, s: {"clf": _clf(c, s)}, wrapper=True, setdep=True, subsample=0.5))
    E.append(Entry("SubSamplingWrapper[exclude]", lambda c, s: P.SubSamplingWrapper(query_strategy=P.UncertaintySampling(random_state=s), max_candidates=0.5,
                                                                                   exclude_non_subsample=True, random_state=s),
                   "clf", lambda c, s: {"clf": _clf(c, s)}, wrapper=True, setdep=True, subsample=0.5))
    E.append(Entry("ParallelUtilityEstimationWrapper", lambda c, s: P.ParallelUtilityEstimationWrapper(query_strategy=P.UncertaintySampling(random_state=s), n_jobs=2, random_state=s),
                   "clf", lambda c, s: {"clf": _clf(c, s)}, max_bs=1, wrapper=True, samplewise=True, slow=True))
    return E + _variants(P, clfkw, altkw)


def _cost(c):
    K = len(c)
    return 1.0 - np.eye(K) + 0.5 * np.triu(np.ones((K, K)), 1)


def _feature_map(X):
    X = np.asarray(X, dtype=float)
    return np.column_stack([X, X[:, :1] ** 2])


def _abs_loss(a, b):
    return float(np.mean(np.abs(np.asarray(a, dtype=float) - np.asarray(b, dtype=float))))


def _variants(P, clfkw, altkw):
    """Non-default constructor parameters ("all configurations"): one entry per strategy and parameter group, every value a
    documented, valid setting.  Names are "<base entry>{<setting>}"; recorded findings of the base entry apply."""
    V = []

    def add(base, setting, make, task, kw=None, **flags):
        V.append(Entry(f"{base}{{{setting}}}", make, task, kw, variant=True, **flags))
    ens = lambda c, s: {"ensemble": _ens(c, s)}
    lin = lambda c, s: {"reg": _lin(s)}
    nic = lambda c, s: {"reg": _nic(s)}
    add("ProbabilisticAL", "prior=0.5,m_max=2", lambda c, s: P.ProbabilisticAL(prior=0.5, m_max=2, random_state=s), "clf", clfkw, samplewise=True)
    add("ProbabilisticAL", "metric=rbf,gamma=mean", lambda c, s: P.ProbabilisticAL(metric="rbf", metric_dict={"gamma": "mean"}, random_state=s), "clf", clfkw, samplewise=True)
    add("ProbabilisticAL", "metric=rbf,gamma=0.5", lambda c, s: P.ProbabilisticAL(metric="rbf", metric_dict={"gamma": 0.5}, random_state=s), "clf", clfkw, samplewise=True)
    add("UncertaintySampling[least_confident]", "cost_matrix", lambda c, s: P.UncertaintySampling(method="least_confident", cost_matrix=_cost(c), random_state=s), "clf", altkw, samplewise=True)
    add("UncertaintySampling[margin_sampling]", "cost_matrix", lambda c, s: P.UncertaintySampling(method="margin_sampling", cost_matrix=_cost(c), random_state=s), "clf", altkw, samplewise=True)
    # the expected average precision of a sample is computed against the probabilities of all other candidates: set dependent
    add("UncertaintySampling", "expected_average_precision", lambda c, s: P.UncertaintySampling(method="expected_average_precision", random_state=s), "clf", altkw, setdep=True)
    add("MonteCarloEER", "log_loss", lambda c, s: P.MonteCarloEER(method="log_loss", random_state=s), "clf", clfkw, samplewise=True, slow=True)
    add("MonteCarloEER", "cost_matrix,subtract_current", lambda c, s: P.MonteCarloEER(cost_matrix=_cost(c), subtract_current=True, random_state=s), "clf", clfkw, samplewise=True, slow=True)
    add("ValueOfInformationEER", "flags_off", lambda c, s: P.ValueOfInformationEER(consider_unlabeled=False, candidate_to_labeled=False, random_state=s), "clf", clfkw, feat=False, samplewise=True, slow=True)
    add("ValueOfInformationEER", "labeled_off,subtract,normalize", lambda c, s: P.ValueOfInformationEER(consider_labeled=False, subtract_current=True, normalize=True, cost_matrix=_cost(c), random_state=s),
        "clf", clfkw, feat=False, samplewise=True, slow=True)
    add("QueryByCommittee[KL_divergence]", "eps=1e-3", lambda c, s: P.QueryByCommittee(method="KL_divergence", eps=1e-3, random_state=s), "clf", ens, samplewise=True)
    add("Quire", "lmbda=0.5,gamma=0.5", lambda c, s: P.Quire(classes=list(c), lmbda=0.5, metric="rbf", metric_dict={"gamma": 0.5}, random_state=s), "clf", feat=False, samplewise=True, anyidx=False)
    add("FourDs", "lmbda=0.3", lambda c, s: P.FourDs(lmbda=0.3, random_state=s), "clf", lambda c, s: {"clf": _mix(c, s)}, feat=False, setdep=True)
    add("CostEmbeddingAL", "nn_params,mds_params,embed_dim", lambda c, s: P.CostEmbeddingAL(classes=list(c), embed_dim=2, mds_params={"max_iter": 30}, nn_params={"algorithm": "brute"}, random_state=s),
        "clf", slow=True, samplewise=True, stochastic=True)
    add("CostEmbeddingAL", "cost_matrix,base_regressor", lambda c, s: P.CostEmbeddingAL(classes=list(c), cost_matrix=_cost(c), base_regressor=_lin(s), random_state=s),
        "clf", slow=True, samplewise=True, stochastic=True)
    add("ExpectedModelChangeMaximization", "bootstrap=2,n_train=0.7,ord=1,feature_map", lambda c, s: P.ExpectedModelChangeMaximization(bootstrap_size=2, n_train=0.7, ord=1, feature_map=_feature_map, random_state=s),
        "reg", lin, samplewise=True, stochastic=True)
    add("ExpectedModelOutputChange", "assume_linear,loss", lambda c, s: P.ExpectedModelOutputChange(integration_dict={"method": "assume_linear"}, loss=_abs_loss, random_state=s), "reg", nic, samplewise=True, slow=True)
    add("ExpectedModelVarianceReduction", "assume_linear", lambda c, s: P.ExpectedModelVarianceReduction(integration_dict={"method": "assume_linear"}, random_state=s), "reg", nic, samplewise=True, slow=True)
    add("KLDivergenceMaximization", "assume_linear", lambda c, s: P.KLDivergenceMaximization(integration_dict_target_val={"method": "assume_linear"},
        integration_dict_cross_entropy={"method": "assume_linear"}, random_state=s), "reg", nic, samplewise=True, slow=True)
    add("GreedySamplingX", "manhattan", lambda c, s: P.GreedySamplingX(metric="manhattan", metric_dict={}, random_state=s), "reg", samplewise=True)
    add("GreedySamplingTarget", "GSy,n_GSx=2", lambda c, s: P.GreedySamplingTarget(method="GSy", n_GSx_samples=2, random_state=s), "reg", lin, samplewise=True)
    add("GreedySamplingTarget", "metrics", lambda c, s: P.GreedySamplingTarget(x_metric="manhattan", y_metric="manhattan", x_metric_dict={}, y_metric_dict={}, n_GSx_samples=3, random_state=s), "reg", lin, samplewise=True)
    add("BatchBALD", "n_MC=20,eps", lambda c, s: P.BatchBALD(n_MC_samples=20, eps=1e-3, random_state=s), "clf", ens, setdep=True)
    add("BatchBALD", "n_MC=7", lambda c, s: P.BatchBALD(n_MC_samples=7, random_state=s), "clf", ens, setdep=True)     # sampled joint entropies from the 4th pick on
    add("GreedyBALD", "eps=1e-3", lambda c, s: P.GreedyBALD(eps=1e-3, random_state=s), "clf", ens, samplewise=True)
    add("Clue", "margin_sampling,cluster_algo_dict", lambda c, s: P.Clue(method="margin_sampling", cluster_algo_dict={"n_init": 2}, random_state=s), "clf", altkw, setdep=True)
    add("DropQuery", "rate=0.5,n=3,cluster_algo_dict", lambda c, s: P.DropQuery(dropout_rate=0.5, n_dropout_samples=3, cluster_algo_dict={"n_init": 2}, random_state=s), "clf", altkw, setdep=True)
    add("TypiClust", "k=2,cluster_algo_dict", lambda c, s: P.TypiClust(k=2, cluster_algo_dict={"n_init": 2}, random_state=s), "clf", setdep=True)
    add("ProbCover", "n_classes,deltas,alpha", lambda c, s: P.ProbCover(n_classes=len(c), deltas=[1.0, 0.5, 2.0], alpha=0.8, cluster_algo_dict={"n_init": 2}, random_state=s), "clf", setdep=True)
    add("ContrastiveAL", "nearest_neighbors_dict", lambda c, s: P.ContrastiveAL(nearest_neighbors_dict={"n_neighbors": 3}, eps=1e-3, random_state=s), "clf", altkw, samplewise=True)
    add("Falcun", "gamma=1", lambda c, s: P.Falcun(gamma=1, random_state=s), "clf", altkw, mode="sampling", setdep=True)
    add("RegressionTreeBasedAL[representativity]", "max_iter=1", lambda c, s: P.RegressionTreeBasedAL(method="representativity", max_iter_representativity=1, random_state=s), "reg",
        lambda c, s: {"reg": _tree(s)}, feat=False, setdep=True)
    add("SubSamplingWrapper", "max_candidates=3", lambda c, s: P.SubSamplingWrapper(query_strategy=P.UncertaintySampling(random_state=s), max_candidates=3, random_state=s),
        "clf", clfkw, wrapper=True, setdep=True, subsample=("int", 3))
    add("SubSamplingWrapper", "default_fraction", lambda c, s: P.SubSamplingWrapper(query_strategy=P.UncertaintySampling(random_state=s), random_state=s),
        "clf", clfkw, wrapper=True, setdep=True, subsample=0.1)
    add("ParallelUtilityEstimationWrapper", "n_jobs=1,threading", lambda c, s: P.ParallelUtilityEstimationWrapper(query_strategy=P.UncertaintySampling(random_state=s), n_jobs=1,
        parallel_dict={"backend": "threading"}, random_state=s), "clf", clfkw, max_bs=1, wrapper=True, samplewise=True)
    return V


# ------------------------------------------------------------------ data ----
def gen_data(rng, task, n=None, binary=False, cold=None):
    """Small data sets built to hit the logic layer: integer grid (duplicated points),
    constant feature, cold start, single candidate."""
    n = n or int(rng.integers(6, 13))
    style = str(rng.choice(["grid", "grid", "const_feature", "normal", "outlier", "blobs"]))
    blob = None
    if style == "normal":
        X = rng.normal(size=(n, 2))
    elif style == "blobs":            # two well separated clusters, the true label is the cluster (the usual demo data)
        blob = (np.arange(n) >= n // 2).astype(int)
        X = rng.normal(size=(n, 2)) * 0.6 + np.where(blob[:, None] == 1, 1.0, -1.0)
    elif style == "outlier":          # one gross outlier: its kernel similarity to every other sample underflows to exactly 0
        X = rng.normal(size=(n, 2))
        X[int(rng.integers(n))] = [150.0, -150.0]
    else:
        X = rng.integers(0, 3, size=(n, 2)).astype(float)
        if style == "const_feature":
            X[:, 1] = 1.0
    classes = [0, 1] if binary or rng.random() < 0.5 else [0, 1, 2]
    if task == "clf":
        y_true = rng.integers(0, len(classes), size=n).astype(float)
        if blob is not None:
            y_true = blob.astype(float)
    else:
        y_true = np.round(rng.normal(size=n), 1)
        if blob is not None:
            y_true = np.round(blob + 0.1 * rng.normal(size=n), 1)
    y = y_true.copy()
    labeling = str(cold or rng.choice(["half", "half", "cold", "one_left", "few", "one_class"]))
    if labeling == "cold":
        y[:] = np.nan
    elif labeling == "one_class":     # only samples of the smallest class / lowest targets are known at the beginning
        lo = np.flatnonzero(y_true == y_true.min()) if task == "clf" else np.argsort(y_true)[: max(1, n // 3)]
        keep = lo[: max(1, min(len(lo), n // 3))]
        y[:] = np.nan
        y[keep] = y_true[keep]
        if np.all(~np.isnan(y)):
            y[-1] = np.nan
    elif labeling == "one_left":
        y[int(rng.integers(n))] = np.nan
    elif labeling == "few":
        idx = rng.permutation(n)[2:]
        y[idx] = np.nan
    else:
        y[rng.random(n) < 0.5] = np.nan
        if np.all(~np.isnan(y)):
            y[0] = np.nan
    return X, y, y_true, classes, labeling


def gen_candidates(rng, entry, X, y, mode_idx=None):
    """(mode, candidates argument).  mode_idx: cycle through the supported modes instead of drawing one."""
    unl = np.flatnonzero(np.isnan(y))
    modes = ["none", "idx_unl"]
    if entry.anyidx:
        modes.append("idx_any")
    if entry.feat:
        modes.append("feat")
    mode = str(rng.choice(modes))
    if mode_idx is not None:
        mode = modes[mode_idx % len(modes)]
    if mode == "none":
        return mode, None
    if mode == "idx_unl":
        if len(unl) == 0:
            return "none", None
        k = int(rng.integers(1, len(unl) + 1))
        c = rng.choice(unl, size=k, replace=False)
        if rng.random() < 0.3:
            c = np.concatenate([c, c[:1]])          # duplicated index: check_indices de-duplicates
        return mode, c
    if mode == "idx_any":
        k = int(rng.integers(1, len(y) + 1))
        c = rng.choice(len(y), size=k, replace=False)
        if len(unl) and (rng.random() < 0.9 or len(unl) == 1) and not np.isin(c, unl).any():
            c[0] = int(rng.choice(unl))             # mostly a MIX of labeled and unlabeled candidates
        return mode, c
    k = int(rng.integers(1, 6))
    rows = X[rng.choice(len(X), size=k)] if rng.random() < 0.6 else rng.integers(0, 3, size=(k, X.shape[1])).astype(float)
    return mode, rows


def run_query(entry, X, y, classes, seed, cand, bs, return_utilities=True, **extra):
    qs = entry.make(classes, seed)
    kw = dict(entry.kw(classes, seed), **extra)
    with warnings.catch_warnings():
        warnings.simplefilter("ignore")
        return qs.query(X=X, y=y, candidates=cand, batch_size=bs, return_utilities=return_utilities, **kw), qs
