"""Shared pool machinery (C01, C02, C14): runs every registry configuration on
generated data sets / candidate modes / batch sizes in worker processes, records
the trace (indices + utility rows) and evaluates the Gallina acceptor on it."""
import traceback
import warnings

import numpy as np

from . import poolreg as R
from .core import (CaseTimeout, blit, err_class, fkey, listlit, natlist, natlit, pmap, rank_keys, vlist, with_timeout)

IMPORTS = "From V Require Import Base.OptOrder Model.Sel Model.PoolQuery Harness.Run Harness.PoolCheck."


def _entries():
    return R.registry()


LABELINGS = ["half", "cold", "one_left", "few", "one_class"]


def make_case(seed_tuple, eidx, tier, stratum=None):
    """Deterministic case description from a seed tuple.  With `stratum` (the running number of the
    case within its registry entry) the initial labeling and the batch-size class are not drawn but
    cycled through, so that every entry meets every (labeling x batch-size class) combination - in
    particular cold start x batch >= number of candidates, where any tie-breaking flaw must show -
    once per 25 cases instead of by chance."""
    rng = np.random.default_rng(list(seed_tuple))
    E = _entries()[eidx]
    X, y, y_true, classes, labeling = R.gen_data(rng, E.task, binary=E.binary,
                                                 cold=None if stratum is None else LABELINGS[stratum % 5])
    mode, cand = R.gen_candidates(rng, E, X, y, mode_idx=None if stratum is None else (stratum // 5 + stratum // 25))
    ncand = {"none": int(np.sum(np.isnan(y))), "feat": None}.get(mode, None)
    if mode in ("idx_unl", "idx_any"):
        ncand = len(np.unique(cand))
    elif mode == "feat":
        ncand = len(cand)
    bs_choices = [1, 2, 3, max(1, ncand), ncand + 5]
    bs = int(rng.choice(bs_choices))
    if stratum is not None:
        bs = bs_choices[(stratum // 5) % 5]
    if E.max_bs:
        bs = min(bs, E.max_bs)
    seed = int(rng.integers(0, 1000))
    # representation of the inputs (the result may only depend on the values): memory layout of X / the candidate rows
    # (0 = C order, 1 = Fortran order, 2 = transposed view, 3 = strided view of a wider array, 4 = nested Python lists), and
    # sample weights (none / all ones / positive / some zeros) for the strategies that accept them
    rep = 0 if stratum is None else [0, 0, 1, 3, 4, 2][(stratum // 25 + stratum) % 6]
    swm = "none" if stratum is None else ["none", "none", "ones", "random", "zeros"][(stratum // 3) % 5]
    return {"eidx": eidx, "name": E.name, "X": X, "y": y, "classes": classes, "labeling": labeling,
            "cmode": mode, "cand": cand, "bs": bs, "seed": seed, "ncand": ncand, "y_true": y_true, "rep": rep, "sw": swm}


def _run_case(case):
    """Worker: run the implementation; never raises."""
    warnings.simplefilter("ignore")
    E = _entries()[case["eidx"]]
    out = {"status": "ok"}
    from .core import relayout

    def inputs():
        X, y = case["X"].copy(), case["y"].copy()
        cand = None if case["cand"] is None else np.array(case["cand"]).copy()
        rep = case.get("rep", 0)
        if rep == 4:
            X = X.tolist()
            y = y.tolist()
            if cand is not None:
                cand = cand.tolist()
        elif rep:
            X = relayout(X, rep)
            if cand is not None and cand.ndim == 2:
                cand = relayout(cand, rep)
        extra = {}
        swm = case.get("sw", "none")
        if swm != "none" and case["cmode"] != "feat":       # documented: weights need a mapping between candidates and X
            import inspect
            models = [m for v in E.kw(case["classes"], case["seed"]).values() for m in (v if isinstance(v, (list, tuple)) else [v]) if hasattr(m, "fit")]
            # documented: a wrapped estimator whose fit does not take sample_weight makes the wrapper reject weights
            ok = all("sample_weight" in inspect.signature(m.fit).parameters for m in models)
            if ok and "sample_weight" in inspect.signature(E.make(case["classes"], case["seed"]).query).parameters:
                r = np.random.default_rng([case["seed"], 77])
                n = len(case["y"])
                w = np.ones(n) if swm == "ones" else r.integers(1, 6, size=n).astype(float)
                if swm == "zeros":          # zero weights on UNLABELED samples only (they are irrelevant for supervised models, C12);
                    unl_ = np.isnan(case["y"])      # zero weights on labeled samples are the wrapped estimator's own business
                    w[unl_ & (r.random(n) < 0.6)] = 0.0
                extra["sample_weight"] = w
        return X, y, cand, extra

    def go():
        X, y, cand, extra = inputs()
        (idx, ut), _ = R.run_query(E, X, y, case["classes"], case["seed"], cand, case["bs"], True, **extra)
        X, y, cand, extra = inputs()
        idx2, _ = R.run_query(E, X, y, case["classes"], case["seed"], cand, case["bs"], False, **extra)
        return idx, ut, idx2
    try:
        idx, ut, idx2 = with_timeout(go, 20 if not E.slow else 60)
        out["idx_raw_type"] = type(idx).__name__
        out["idx"] = np.asarray(idx)
        out["ut"] = np.asarray(ut, dtype=float)
        out["idx2"] = np.asarray(idx2)
    except CaseTimeout:
        out["status"] = "timeout"
    except Exception as e:  # noqa
        out["status"] = "exception"
        out["err"] = err_class(e)
        out["msg"] = f"{type(e).__name__}: {e}"[:300]
        out["tb"] = traceback.format_exc()[-600:]
    return out


def run_cases(cases):
    return pmap(_run_case, cases, chunksize=2)


def cand_list(case):
    """Python-side candidate set (sorted, de-duplicated) and number of columns."""
    y = case["y"]
    if case["cmode"] == "none":
        return [int(i) for i in np.flatnonzero(np.isnan(y))], len(y)
    if case["cmode"] == "feat":
        return list(range(len(case["cand"]))), len(case["cand"])
    return sorted({int(i) for i in case["cand"]}), len(y)


def eff_bs(case):
    """Batch size the strategy documents: the sub-sampling wrapper selects from a random subset of
    ceil(max_candidates * n_candidates) candidates only."""
    import math
    E = _entries()[case["eidx"]]
    cs, _ = cand_list(case)
    if isinstance(E.subsample, tuple):          # an absolute number of sub-sampled candidates
        return min(case["bs"], E.subsample[1])
    if E.subsample:
        return min(case["bs"], math.ceil(E.subsample * len(cs)))
    return case["bs"]


def oracle_c01(case, out):
    """The statement of C01 on the returned value; None if it holds."""
    if out["status"] == "timeout":
        return "timeout", "query did not return within the time limit"
    if out["status"] == "exception":
        if out["err"] == "MappingError" and case["cmode"] == "feat":
            return "unsupported", ""      # documented: feature-row candidates not supported (enforce_mapping)
        return "exception:" + out["err"], "query raised " + out["msg"]
    idx = out["idx"]
    cs, ncols = cand_list(case)
    k = min(eff_bs(case), len(cs))
    if idx.ndim != 1:
        return "shape", f"query_indices has shape {idx.shape}, expected ({k},)"
    if not np.issubdtype(idx.dtype, np.integer):
        return "dtype", f"query_indices has dtype {idx.dtype}"
    if len(idx) != k:
        return "batch_length", f"{len(idx)} indices returned, expected min(batch_size={eff_bs(case)}, candidates={len(cs)}) = {k}"
    il = [int(i) for i in idx]
    if len(set(il)) != len(il):
        return "duplicate_index", f"indices {il} are not pairwise distinct"
    bad = [i for i in il if i not in set(cs)]
    if bad:
        return "non_candidate", f"indices {bad} are not candidates {cs}"
    return None


def oracle_c02(case, out, mode):
    """The statement of C02 on (indices, utilities); assumes the query returned."""
    idx, ut = out["idx"], out["ut"]
    cs, ncols = cand_list(case)
    il = [int(i) for i in np.asarray(idx).ravel()]
    if ut.ndim != 2 or ut.shape != (len(il), ncols):
        return "utilities_shape", f"utilities shape {ut.shape}, expected {(len(il), ncols)}"
    css = set(cs)
    for s, p in enumerate(il):
        row = ut[s]
        exp_nan = np.array([(j not in css) or (j in il[:s]) for j in range(ncols)])
        if not np.array_equal(np.isnan(row), exp_nan):
            extra = np.flatnonzero(np.isnan(row) & ~exp_nan).tolist()
            missing = np.flatnonzero(~np.isnan(row) & exp_nan).tolist()
            return "nan_pattern", f"row {s}: NaN at selectable positions {extra}, numbers at non-selectable positions {missing}"
        if p < 0 or p >= ncols or np.isnan(row[p]):
            return "pick_is_nan", f"row {s} is NaN at the selected index {p}"
        if mode == "max":
            if row[p] != np.nanmax(row):
                return "pick_not_max", f"row {s}: utility {row[p]} of the selected index {p} is not the row maximum {np.nanmax(row)}"
        elif not row[p] > 0:
            return "pick_zero_mass", f"row {s}: selected index {p} has mass {row[p]}"
    return None


def case_tags(case):
    """Input characteristics used to scope known findings to their triggering condition."""
    tags = set()
    X = np.asarray(case["X"], dtype=float)
    if case.get("cmode") == "feat":
        C = np.asarray(case["cand"], dtype=float)
    else:
        cs, _ = cand_list(case) if "cmode" in case else (list(np.flatnonzero(np.isnan(case["y"]))), 0)
        C = X[cs] if len(cs) else X[:0]
    if len(C) and len(np.unique(C, axis=0)) < len(C):
        tags.add("dup_candidate_rows")
    if case.get("cmode") == "feat" and np.all(np.isnan(np.asarray(case["y"], dtype=float))):
        tags.add("cold_start_feature_rows")
    return tags


def lab_mask(case):
    return listlit([blit(not np.isnan(v)) for v in case["y"]])


def cand_terms(case):
    if case["cmode"] == "none":
        return natlit(0), "[]", natlit(0)
    if case["cmode"] == "feat":
        return natlit(2), "[]", natlit(len(case["cand"]))
    return natlit(1), natlist([int(i) for i in case["cand"]]), natlit(0)


def encode_trace(case, out, mode):
    kind, l, m = cand_terms(case)
    idx = [int(i) for i in np.asarray(out["idx"]).ravel()]
    ut = out["ut"]
    allk = rank_keys([fkey(x) for x in ut.ravel()])
    w = ut.shape[1] if ut.ndim == 2 else 0
    rows = [allk[r * w:(r + 1) * w] for r in range(ut.shape[0])] if ut.ndim == 2 else []
    steps = listlit([f"({natlit(p)}, {vlist(r)})" for p, r in zip(idx, rows)])
    return f"({blit(mode == 'max')}, {lab_mask(case)}, {kind}, {l}, {m}, {natlit(eff_bs(case))}, {steps})"


def encode_batch(case, out):
    kind, l, m = cand_terms(case)
    idx = [int(i) for i in np.asarray(out["idx"]).ravel()]
    return f"({lab_mask(case)}, {kind}, {l}, {m}, {natlit(eff_bs(case))}, {natlist(idx)})"


def case_replay(case, out=None):
    r = {"strategy": case["name"], "X": case["X"].tolist(), "y": [None if np.isnan(v) else float(v) for v in case["y"]],
         "classes": case["classes"], "candidates_mode": case["cmode"],
         "candidates": None if case["cand"] is None else np.asarray(case["cand"]).tolist(),
         "batch_size": case["bs"], "seed": case["seed"], "input_representation": case.get("rep", 0), "sample_weight_mode": case.get("sw", "none")}
    if out is not None and out.get("status") == "ok":
        r["returned_indices"] = np.asarray(out["idx"]).tolist()
    return r


def replay_case(rc):
    """Re-run a stored case on the current tree."""
    E = [e for e in _entries() if e.name == rc["strategy"]][0]
    case = {"eidx": _entries().index(E) if False else [e.name for e in _entries()].index(rc["strategy"]), "name": rc["strategy"],
            "X": np.array(rc["X"], dtype=float), "y": np.array([np.nan if v is None else v for v in rc["y"]], dtype=float),
            "classes": rc["classes"], "cmode": rc["candidates_mode"],
            "cand": None if rc["candidates"] is None else np.array(rc["candidates"]), "bs": rc["batch_size"], "seed": rc["seed"],
            "rep": rc.get("input_representation", 0), "sw": rc.get("sample_weight_mode", "none")}
    return case, _run_case(case)
