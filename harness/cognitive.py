"""Functional correspondence of the cognitive dual query strategies (CognitiveDualQueryStrategy and
subclasses; Model/Cognitive.v) with the implementation: integer coordinates (exact distances), a
scripted classifier (utility is a function of the instance) and a scripted budget manager (grants
iff utility >= 0.25, checks the indices it is given the way the window-based managers do), random
interleavings of query / update calls with random chunk sizes, both values of force_full_budget.
After every call the returned indices, the cognition window, theta_, t_x_, min_dist_, t_ and (for
update) the NaN padding of the list handed to the manager must equal the model's; an IndexError of
update must be predicted by the model (it is the recorded C10 finding)."""
import warnings

import numpy as np

from .core import blit, listlit, natlist, natlit, rank_keys, fkey, zlist, zlit

IMPORTS = "From V Require Import Base.OptOrder Model.StreamCore Model.Cognitive Harness.Run Harness.CogCheck."

TMAX = 48     # largest theta / age in the strength table (streams are shorter)


def strength_table():
    """order keys of np.exp(-(1 / (theta + 1)) * age), computed exactly as _calculate_ldf does"""
    vals = []
    for th in range(TMAX):
        f = 1 / (th + 1)
        for age in range(TMAX):
            tmp = -f * age
            vals.append(fkey(float(np.exp(tmp))))
    ranks = rank_keys(vals)
    return [[ranks[th * TMAX + age] for age in range(TMAX)] for th in range(TMAX)]


def _scripted_manager():
    import skactiveml.stream.budgetmanager as bm

    class Scripted(bm.FixedUncertaintyBudgetManager):
        def query_by_utility(self, utilities):
            u = np.asarray(utilities, dtype=float)
            return [i for i, v in enumerate(u) if v == v and v >= 0.25]

        def update(self, candidates, queried_indices, **kw):
            self.last_update_mask_ = [not (np.isscalar(c) and c != c) for c in candidates]
            queried = np.zeros(len(candidates))
            queried[queried_indices] = 1          # IndexError for an index outside the list, like the real managers
            return self
    return Scripted


def cognitive_cases(ctx, count):
    import skactiveml.stream as st
    from skactiveml.base import SkactivemlClassifier

    class ByCoordinate(SkactivemlClassifier):
        def fit(self, X, y, sample_weight=None):
            self.classes_ = np.array([0, 1])
            return self

        def predict_proba(self, X):
            x = np.asarray(X, dtype=float)[:, 0]
            conf = np.where(np.mod(np.round(x), 3) == 0, 1.0, 0.5)
            return np.column_stack([conf, 1 - conf])

    Scripted = _scripted_manager()
    clf = ByCoordinate(classes=[0, 1]).fit(None, None)
    classes = [st.CognitiveDualQueryStrategy, st.CognitiveDualQueryStrategyRan, st.CognitiveDualQueryStrategyFixUn,
               st.CognitiveDualQueryStrategyVarUn, st.CognitiveDualQueryStrategyRanVarUn]
    rng = ctx.rng("cognitive")
    terms, meta = [], []
    for h in range(count):
        n = int(rng.integers(3, 30))
        span = int(rng.choice([2, 5, 30]))
        pts = rng.integers(0, span, size=n)
        style = "random"
        if rng.random() < 0.35:
            style = "shrinking"
            pts = np.sort(pts)[::-1] if rng.random() < 0.5 else np.cumsum(rng.integers(0, 3, size=n))[::-1]
        cws = int(rng.choice([1, 2, 3, 5, 10]))
        thr = int(rng.choice([0, 1, 1, 1, 2]))
        ffb = bool(rng.random() < 0.5)
        seed = int(rng.integers(0, 1000))
        cls = classes[int(rng.integers(0, len(classes)))]
        kw = dict(budget=0.5, cognition_window_size=cws, density_threshold=thr, force_full_budget=ffb, random_state=seed)
        if cls is st.CognitiveDualQueryStrategyFixUn:
            kw["classes"] = [0, 1]
        qs = cls(**kw)
        # the subclasses fix their manager class; the scripted manager is put in place of the constructor argument
        # they hand to the base class (the window code under test is the base class's, shared by all five)
        qs.budget_manager = Scripted(budget=0.5, classes=[0, 1])
        maxchunk = 1 if (not ffb and rng.random() < 0.4) else 6
        ops, obs, pos, stop = [], [], 0, False

        def state(idx, raised, mask):
            return (list(int(i) for i in idx), raised,
                    [int(np.ravel(w)[0]) for w in getattr(qs, "cognition_window_", [])],
                    [int(v) for v in getattr(qs, "theta_", [])], [int(v) for v in getattr(qs, "t_x_", [])],
                    [float(v) for v in getattr(qs, "min_dist_", [])], int(getattr(qs, "t_", 0)), mask)

        with warnings.catch_warnings():
            warnings.simplefilter("ignore")
            while pos < n and not stop:
                k = int(rng.integers(1, min(maxchunk, n - pos) + 1))
                ids = list(range(pos, pos + k))
                c = pts[ids].astype(float).reshape(-1, 1)
                try:
                    for _ in range(int(rng.integers(0, 3))):          # 0-2 extra queries before the update
                        idx = qs.query(c, clf=clf)
                        ops.append((False, ids))
                        obs.append(state(idx, False, []))
                    idx = qs.query(c, clf=clf)
                    try:
                        qs.update(c, idx)
                        ops.append((True, ids))
                        obs.append(state(idx, False, list(qs.budget_manager_.last_update_mask_)))
                    except IndexError:
                        ops.append((True, ids))
                        obs.append(state(idx, True, list(qs.budget_manager_.last_update_mask_)))
                        ctx.count("cognitive_update_indexerror_predicted_by_model")
                        stop = True
                except Exception as e:
                    ctx.violation(cls.__name__, "exception:" + type(e).__name__, repr(e)[:300],
                                  {"points": pts.tolist(), "cognition_window_size": cws, "density_threshold": thr, "force_full_budget": ffb, "seed": seed},
                                  what=f"{cls.__name__} raised {type(e).__name__} on an integer stream")
                    stop = True
                    ops = None
                pos += k
        if ops is None:
            continue

        def obl(o):
            idx, raised, w, th, tx, md, t, mask = o
            mdl = listlit(["None" if v == float("inf") else f"(Some {zlit(int(v))})" for v in md])
            return (f"({natlist(idx)}, {blit(raised)}, {zlist(w)}, {natlist(th)}, {natlist(tx)}, {mdl}, {natlit(t)}, "
                    f"{listlit([blit(b) for b in mask])})")

        yes = [bool(int(p) % 3 != 0) for p in pts]
        opl = listlit([f"({blit(u)}, {natlist(ids)})" for u, ids in ops])
        terms.append(f"({zlist(pts.tolist())}, {listlit([blit(b) for b in yes])}, strength_tbl, {natlit(cws)}, {natlit(thr)}, "
                     f"{blit(ffb)}, {opl}, {listlit([obl(o) for o in obs])})")
        meta.append({"class": cls.__name__, "points": pts.tolist(), "cognition_window_size": cws, "density_threshold": thr,
                     "force_full_budget": ffb, "calls": [("update" if u else "query", ids) for u, ids in ops], "seed": seed})
        ctx.count("cognitive_correspondence", len(ops))
        ctx.hist[f"cognitive:{cls.__name__}:ffb{int(ffb)}:cws{cws}:thr{thr}:{style}"] += 1
        if n > cws + 1 and any(o[0] for o in obs):
            ctx.nontriv(("cognitive", pts.tobytes(), cws, thr, ffb, repr(ops)))
    return terms, meta


def cognitive_correspondence(ctx):
    terms, meta = cognitive_cases(ctx, 100 if ctx.is_quick else 1500)
    tbl = strength_table()
    pre = "Definition strength_tbl : list (list Z) := " + listlit([zlist(r) for r in tbl]) + "."
    bad, err = ctx.coq_eval_cases("cognitive", IMPORTS, "check_cog", terms, chunk=60, preamble=pre)
    if err:
        ctx.violation("CognitiveDualQueryStrategy", "model_eval_failed", err, {}, found_input=False, what="Coq evaluation of check_cog failed")
    for i in bad[:5]:
        ctx.violation(meta[i]["class"], "cognitive_window_mismatch",
                      "returned indices / cognition_window_ / theta_ / t_x_ / min_dist_ / t_ / manager padding differ from Model/Cognitive.v after some call",
                      meta[i], found_input=False,
                      what="correspondence Model/Cognitive.v (cog_ldf_step, query restores / update commits the cognition window) <-> CognitiveDualQueryStrategy* no longer holds")
    if meta:
        ctx.sample({"cognitive_case": meta[0]}, limit=12)
