"""Functional correspondence of the sliding-window density test of StreamDensityBasedAL
(_calculate_ldf, window_, min_dist_; Model/StreamStrategy.v ldf_step) with the implementation:
integer coordinates (exact distances), random interleavings of query / update calls with random
chunk sizes; after every call the NaN mask handed to the budget manager (= which instances passed
the density test), window_ and min_dist_ must equal the model's."""
import warnings

import numpy as np

from .core import blit, listlit, natlist, natlit, zlist, zlit

IMPORTS = "From V Require Import Base.OptOrder Model.StreamCore Model.StreamStrategy Harness.Run Harness.StratCheck."


def _recording_manager():
    import skactiveml.stream.budgetmanager as bm

    class Rec(bm.FixedUncertaintyBudgetManager):
        def query_by_utility(self, utilities):
            self.last_mask_ = [bool(v == v) for v in np.asarray(utilities, dtype=float)]
            return super().query_by_utility(utilities)

        def update(self, candidates, queried_indices, **kw):
            self.last_update_mask_ = [not (np.isscalar(c) and c != c) for c in candidates]
            return super().update(candidates, queried_indices, **kw)
    return Rec


def density_cases(ctx, count):
    import skactiveml.stream as st
    from skactiveml.base import SkactivemlClassifier

    class Uniform(SkactivemlClassifier):
        def fit(self, X, y, sample_weight=None):
            self.classes_ = np.array([0, 1])
            return self

        def predict_proba(self, X):
            return np.full((len(X), 2), 0.5)

    Rec = _recording_manager()
    clf = Uniform(classes=[0, 1]).fit(None, None)
    rng = ctx.rng("density")
    terms, meta = [], []
    for h in range(count):
        n = int(rng.integers(4, 30))
        span = int(rng.choice([2, 5, 30]))
        pts = rng.integers(0, span, size=n)
        if rng.random() < 0.3:
            pts = np.sort(pts)[::-1] if rng.random() < 0.5 else np.cumsum(rng.integers(0, 3, size=n))[::-1]   # shrinking gaps: many new nearest neighbours
        wsize = int(rng.choice([1, 2, 3, 5, 100]))
        seed = int(rng.integers(0, 1000))
        qs = st.StreamDensityBasedAL(budget=float(rng.choice([0.1, 0.5, 0.9])), window_size=wsize,
                                     budget_manager=Rec(budget=0.5, classes=[0, 1]), random_state=seed)
        ops, obs, pos, ok = [], [], 0, True
        with warnings.catch_warnings():
            warnings.simplefilter("ignore")
            while pos < n and ok:
                k = int(rng.integers(1, min(6, n - pos) + 1))
                ids = list(range(pos, pos + k))
                c = pts[ids].astype(float).reshape(-1, 1)
                try:
                    if rng.random() < 0.25 and pos + k < n:
                        # an update of ANOTHER chunk between query(A) and update(A): query(A); update(B, []); update(A, query's result) -
                        # whatever query remembered about A must not survive the commitment of B
                        k2 = int(rng.integers(1, min(4, n - pos - k) + 1))
                        ids2 = list(range(pos + k, pos + k + k2))
                        c2 = pts[ids2].astype(float).reshape(-1, 1)
                        idxA = qs.query(c, clf=clf)
                        ops.append((False, ids))
                        obs.append((list(qs.budget_manager_.last_mask_), [float(np.ravel(w)[0]) for w in getattr(qs, "window_", [])], list(getattr(qs, "min_dist_", []))))
                        qs.update(c2, [])
                        ops.append((True, ids2))
                        obs.append((list(qs.budget_manager_.last_update_mask_), [float(np.ravel(w)[0]) for w in qs.window_], list(qs.min_dist_)))
                        qs.update(c, idxA)
                        ops.append((True, ids))
                        obs.append((list(qs.budget_manager_.last_update_mask_), [float(np.ravel(w)[0]) for w in qs.window_], list(qs.min_dist_)))
                        pos += k + k2
                        ctx.hist["density:update_of_another_chunk_in_between"] += 1
                        continue
                    for _ in range(int(rng.integers(0, 3))):          # 0-2 queries before the update
                        idx = qs.query(c, clf=clf)
                        mask = list(qs.budget_manager_.last_mask_)
                        ops.append((False, ids))
                        obs.append((mask, [float(np.ravel(w)[0]) for w in getattr(qs, "window_", [])], list(getattr(qs, "min_dist_", []))))
                    idx = qs.query(c, clf=clf)
                    qs.update(c, idx)
                    ops.append((True, ids))
                    obs.append((list(qs.budget_manager_.last_update_mask_), [float(np.ravel(w)[0]) for w in qs.window_], list(qs.min_dist_)))
                except Exception as e:
                    ctx.violation("StreamDensityBasedAL", "exception:" + type(e).__name__, repr(e)[:300],
                                  {"points": pts.tolist(), "window_size": wsize, "seed": seed}, what=f"StreamDensityBasedAL raised {type(e).__name__} on an integer stream")
                    ok = False
                pos += k
        if not ok:
            continue
        opl = listlit([f"({blit(u)}, {natlist(ids)})" for u, ids in ops])
        obl = listlit([f"({listlit([blit(b) for b in m])}, {zlist([int(v) for v in w])}, "
                       f"{listlit(['None' if (v == float('inf')) else f'(Some {zlit(int(v))})' for v in md])})" for m, w, md in obs])
        terms.append(f"({zlist(pts.tolist())}, {natlit(wsize)}, {opl}, {obl})")
        meta.append({"points": pts.tolist(), "window_size": wsize, "calls": [("update" if u else "query", ids) for u, ids in ops], "seed": seed})
        ctx.count("density_filter_correspondence", len(ops))
        ctx.hist[f"density:window{wsize}:span{span}"] += 1
        if any(any(m) for m, _, _ in obs) and n > wsize:
            ctx.nontriv(("density", pts.tobytes(), wsize, repr(ops)))
    return terms, meta


def density_correspondence(ctx):
    terms, meta = density_cases(ctx, 80 if ctx.is_quick else 1200)
    bad, err = ctx.coq_eval_cases("density", IMPORTS, "check_density", terms, chunk=60)
    if err:
        ctx.violation("StreamDensityBasedAL", "model_eval_failed", err, {}, found_input=False, what="Coq evaluation of check_density failed")
    for i in bad[:5]:
        ctx.violation("StreamDensityBasedAL", "density_filter_mismatch",
                      "pass bits / window_ / min_dist_ differ from Model/StreamStrategy.v after some call", meta[i], found_input=False,
                      what="correspondence Model/StreamStrategy.v (ldf_step, query restores / update commits the window) <-> StreamDensityBasedAL no longer holds")
    if meta:
        ctx.sample({"density_case": meta[0]}, limit=12)
