"""C20 -- wrapper strategies are transparent to the strategy they wrap.

Coq: Props/C20.v.  Tie: functional correspondence of the three index/ordering
mechanisms with Model/Wrappers.v (np.array_split section sizes, scipy ordinal
ranks resp. _get_order_preserving_s_query, the documented sub-sample size and
utility placement evaluated by sub_ok on what SubSamplingWrapper returned, with
the wrapped strategy's inputs/outputs captured by a recording inner strategy) and
paired runs wrapper vs. bare strategy."""
import json
import warnings
from fractions import Fraction

import numpy as np

from ..core import blit, fkey, listlit, natlist, natlit, rank_keys, vlist, zlist, zlit
from .. import poolreg as R

IMPORTS = "From V Require Import Base.OptOrder Model.PoolQuery Model.Wrappers Harness.Run Harness.WrapCheck."
NAN = float("nan")
RECORD = []


def _rec_cls():
    from skactiveml.pool import UncertaintySampling

    class Rec(UncertaintySampling):
        # utility_transform: (scale, shift) applied to the utilities the wrapped strategy reports (same ranking, other sign /
        # magnitude - expected-error reductions are negative, distances large)
        def __init__(self, method="least_confident", cost_matrix=None, missing_label=np.nan, random_state=None, utility_scale=1.0, utility_shift=0.0):
            super().__init__(method=method, cost_matrix=cost_matrix, missing_label=missing_label, random_state=random_state)
            self.utility_scale, self.utility_shift = utility_scale, utility_shift

        def query(self, X, y, *a, X_eval=None, **kw):
            # X_eval: an evaluation set as the expected-model-change / variance-reduction strategies take it - NOT aligned with the rows
            # of X, even when it happens to have as many rows
            kw_eval = X_eval
            out = super().query(X, y, *a, **kw)
            if isinstance(out, tuple) and (self.utility_scale, self.utility_shift) != (1.0, 0.0):
                out = (out[0], out[1] * self.utility_scale + self.utility_shift)
            RECORD.append({"X": np.array(X), "y": np.array(y), "candidates": kw.get("candidates"), "batch_size": kw.get("batch_size"),
                           "sample_weight": None if kw.get("sample_weight") is None else np.array(kw.get("sample_weight"), dtype=float),
                           "X_eval": None if kw_eval is None else np.array(kw_eval), "out": out})
            return out
    return Rec


def data(rng, n=None):
    n = n or int(rng.integers(5, 13))
    X = rng.integers(0, 3, size=(n, 2)).astype(float)
    y = rng.integers(0, 2, size=n).astype(float)
    y[rng.random(n) < rng.choice([0.4, 0.7, 1.0])] = np.nan
    if np.all(~np.isnan(y)):
        y[0] = np.nan
    return X, y


def run(ctx):
    from skactiveml.pool import ParallelUtilityEstimationWrapper, SubSamplingWrapper, UncertaintySampling
    from skactiveml.pool.multiannotator import SingleAnnotatorWrapper
    warnings.simplefilter("ignore")
    ctx.extra["rule"] = ("array_split: all (n<=40, k<=8); ordinal ranks: seeded small integer arrays with ties and the wrapper's own transform; "
                         "SubSamplingWrapper: both exclude_non_subsample settings x integer / dyadic fractional max_candidates x candidates None / "
                         "index sets x batch sizes, inner strategy recorded; ParallelUtilityEstimationWrapper: n_jobs 1,2,3 vs the bare strategy on "
                         "tie-heavy data; SingleAnnotatorWrapper: sample order vs recorded inner ranking; non-trivial = sub-sample strictly smaller "
                         "than the candidate set resp. >= 2 chunks resp. >= 2 samples; distinct = full input")
    ctx.trusted += ["numpy RandomState.choice (sub-sample is read off the recorded inner call, not modelled)", "scipy.stats.rankdata is on the implementation side"]
    ctx.coq_props()
    rng = ctx.rng("c20")
    # ---- array_split ----
    terms = []
    for n in range(0, 41 if not ctx.is_quick else 25):
        for k in range(1, 9):
            sizes = [len(c) for c in np.array_split(np.arange(n), k)]
            terms.append(f"({natlit(n)}, {natlit(k)}, {natlist(sizes)})")
            ctx.count("array_split")
            if k >= 2 and n >= 2:
                ctx.nontriv(("split", n, k))
    bad, err = ctx.coq_eval_cases("split", IMPORTS, "check_split", terms, chunk=2000)
    report(ctx, "array_split", bad, err, terms)
    # ---- ordinal ranks ----
    from scipy.stats import rankdata
    terms = []
    for _ in range(300 if ctx.is_quick else 3000):
        l = rng.integers(-3, 4, size=int(rng.integers(1, 9))).tolist()
        r = rankdata(np.array(l, dtype=float), method="ordinal").astype(int).tolist()
        terms.append(f"({zlist(l)}, {natlist(r)})")
        ctx.count("ordinal_rank")
        if len(set(l)) < len(l):
            ctx.nontriv(("rank", tuple(l)))
    bad, err = ctx.coq_eval_cases("rank", IMPORTS, "check_rank", terms, chunk=2000)
    report(ctx, "rankdata_ordinal", bad, err, terms)
    # the wrapper's own transform: order preservation + forced sample on top (direct oracle) and exact correspondence with rank_transform
    rt_terms, rt_meta = [], []
    for _ in range(200 if ctx.is_quick else 2000):
        b, n = int(rng.integers(1, 4)), int(rng.integers(1, 7))
        # utilities of every sign and magnitude (expected-error reductions are negative, distances large, probabilities tiny)
        scale, shift = [(1.0, 0.0), (1.0, -7.0), (1e-3, 0.0), (1e6, -2e6), (0.5, -1.5)][int(rng.integers(0, 5))]
        cu = rng.integers(0, 4, size=(b, n)).astype(float) * scale + shift
        cu[rng.random((b, n)) < 0.25] = np.nan
        sidx = [int(rng.integers(n)) for _ in range(b)]
        for i in range(b):
            if np.isnan(cu[i, sidx[i]]):
                cu[i, sidx[i]] = shift + scale
        A = np.ones((n, 1), dtype=bool)
        orig = cu.copy()
        _, ut = SingleAnnotatorWrapper._get_order_preserving_s_query(A, cu.copy(), np.zeros((b, n, 1)), np.array(sidx))
        rk = ut[:, :, 0]
        ctx.count("order_preserving_s_query")
        for i in range(b):
            keys_ = rank_keys([fkey(v) for v in orig[i]])
            low_ = min([k for k in keys_ if k is not None] + [0]) - 1
            rt_terms.append(f"({zlit(low_)}, {vlist(keys_)}, {natlit(sidx[i])}, "
                            + listlit(["None" if v != v else f"(Some {natlit(int(v))})" for v in rk[i]]) + ")")
            rt_meta.append({"row": [None if v != v else float(v) for v in orig[i]], "forced": sidx[i], "ranks": [None if v != v else float(v) for v in rk[i]]})
        for i in range(b):
            row, r = orig[i], rk[i]
            ok = np.array_equal(np.isnan(row), np.isnan(r)) and r[sidx[i]] == np.nanmax(r)
            for a in range(n):
                for c in range(n):
                    if a != sidx[i] and c != sidx[i] and not np.isnan(row[a]) and not np.isnan(row[c]) and row[a] < row[c] and not r[a] < r[c]:
                        ok = False
            if not ok:
                ctx.violation("SingleAnnotatorWrapper._get_order_preserving_s_query", "order_not_preserved", f"row {row.tolist()} -> ranks {r.tolist()}, forced {sidx[i]}",
                              {"row": [None if np.isnan(v) else v for v in row], "forced": sidx[i]},
                              what="rank transform does not preserve the wrapped strategy's order / forced sample not on top")
    bad, err = ctx.coq_eval_cases("ranktransform", IMPORTS, "check_rank_transform", rt_terms, chunk=2000)
    if err:
        ctx.violation("SingleAnnotatorWrapper._get_order_preserving_s_query", "model_eval_failed", err, {}, found_input=False, what="Coq evaluation of check_rank_transform failed")
    for i in bad[:5]:
        ctx.violation("SingleAnnotatorWrapper._get_order_preserving_s_query", "model_mismatch", "ranks differ from Model/Wrappers.v rank_transform", rt_meta[i], found_input=False,
                      what="correspondence Model/Wrappers.v (rank_transform) <-> SingleAnnotatorWrapper._get_order_preserving_s_query no longer holds")
    # ---- SubSamplingWrapper ----
    Rec = _rec_cls()
    sterms, smeta = [], []
    for h in range(150 if ctx.is_quick else 2000):
        X, y = data(rng)
        n = len(y)
        X[:, 0] = np.arange(n) / 4.0       # identifiable rows (the reduced data set is matched back by feature rows)
        unl = np.flatnonzero(np.isnan(y))
        excl = bool(rng.integers(0, 2))
        cmode = str(rng.choice(["none", "idx"] + ([] if excl else ["idx_any"])))
        if cmode == "none":
            cand = None
        elif cmode == "idx":
            cand = np.sort(rng.choice(unl, size=int(rng.integers(1, len(unl) + 1)), replace=False))
        else:       # arbitrary index set incl. labeled samples (the wrapped strategy scores samples independently)
            cand = np.sort(rng.choice(n, size=int(rng.integers(1, n + 1)), replace=False))
        cs = [int(i) for i in (unl if cand is None else cand)]
        mc = [1, 2, 5, 100, 0.5, 0.25, 1.0][int(rng.integers(7))]
        bs = int(rng.choice([1, 2, 3]))
        seed = int(rng.integers(0, 1000))
        RECORD.clear()
        qs = SubSamplingWrapper(query_strategy=Rec(random_state=seed), max_candidates=mc, exclude_non_subsample=excl, random_state=seed)
        clf = R._clf([0, 1], seed)
        try:
            # every other case passes per-sample weights (weight of sample i = i + 1): they refer to the rows of X, so the wrapped
            # strategy must receive, for every row it is handed, the weight of that very sample
            swkw = {"sample_weight": np.arange(1, n + 1, dtype=float)} if h % 2 else {}
            X_eval = None
            if h % 3 == 0:
                # further query arguments are the wrapped strategy's business: an evaluation set must arrive as it was passed, also
                # when it has exactly as many rows as X
                X_eval = X + 0.125 if h % 2 else rng.normal(size=(int(rng.integers(1, 2 * n)), X.shape[1]))
                swkw = dict(swkw, X_eval=X_eval)
            idx, ut = qs.query(X=X, y=y, candidates=cand, batch_size=bs, return_utilities=True, clf=clf, **swkw)
        except Exception as e:
            ctx.violation("SubSamplingWrapper", "exception", repr(e), {"y": [None if np.isnan(v) else v for v in y], "cand": cs, "mc": mc, "excl": excl, "bs": bs, "sample_weight": bool(h % 2)})
            continue
        ctx.count("SubSamplingWrapper")
        rec = RECORD[-1]
        if X_eval is not None:
            ctx.count("SubSamplingWrapper_extra_argument")
            if rec["X_eval"] is None or rec["X_eval"].shape != X_eval.shape or not np.array_equal(rec["X_eval"], X_eval):
                ctx.violation("SubSamplingWrapper", "query_argument_altered",
                              f"X_eval of shape {X_eval.shape} passed to the wrapper, the wrapped strategy received shape {None if rec['X_eval'] is None else rec['X_eval'].shape}",
                              {"X": X.tolist(), "y": [None if np.isnan(v) else v for v in y], "candidates": None if cand is None else cs, "max_candidates": mc,
                               "exclude_non_subsample": excl, "batch_size": bs, "seed": seed, "X_eval": X_eval.tolist()},
                              what="SubSamplingWrapper: a further query argument (evaluation set) does not reach the wrapped strategy as it was passed")
                continue
        if "sample_weight" in swkw:
            ctx.count("SubSamplingWrapper_sample_weight")
            rsw, rX = rec["sample_weight"], np.asarray(rec["X"], dtype=float)
            exp_sw = rX[:, 0] * 4.0 + 1.0      # X[:, 0] = index / 4 identifies the sample of every row
            if rsw is None or rsw.shape != exp_sw.shape or not np.array_equal(rsw, exp_sw):
                ctx.violation("SubSamplingWrapper", "sample_weight_misaligned",
                              f"rows handed to the wrapped strategy are samples {(rX[:, 0] * 4).astype(int).tolist()}, weights handed over {None if rsw is None else rsw.tolist()}, expected {exp_sw.tolist()}",
                              {"X": X.tolist(), "y": [None if np.isnan(v) else v for v in y], "candidates": None if cand is None else cs, "max_candidates": mc,
                               "exclude_non_subsample": excl, "batch_size": bs, "seed": seed, "sample_weight": swkw["sample_weight"].tolist()},
                              what="SubSamplingWrapper: the sample weights the wrapped strategy receives are not those of the samples it receives")
                continue
        inner_idx, inner_ut = rec["out"]
        inner_ut = np.asarray(inner_ut, dtype=float)
        if excl:
            # reduced space: rows of X are sorted(labeled + subset); translate back
            red_unl = np.flatnonzero(np.isnan(rec["y"]))
            full_of = None
            lab = np.flatnonzero(~np.isnan(y))
            sub_red = [int(c) for c in np.asarray(rec["candidates"])]
            # positions in the reduced space of the subset = its unlabeled entries; the k-th reduced row is the k-th element of sorted(lab U subset)
            # the subset itself is recovered from the reduced X rows being rows of X: identify via the wrapper's documented construction
            n_sub = len(sub_red)
            # sorted union has len(lab) + n_sub elements; unknown subset -> read it from the returned utilities' finite/NaN pattern is circular, so
            # reconstruct from the recorded reduced y: reduced row j is unlabeled iff it belongs to the subset
            # candidates are unlabeled, hence subset (sorted) = the unlabeled rows of the reduced space in order
            # map reduced unlabeled rows to original indices by matching feature rows in order among the candidate set
            subset = recover_subset(X, y, rec["X"], rec["y"], cs)
            if subset is None:
                # the sub-sample cannot be read off the reduced data set: still judge the caller-visible output by the statement
                picks_ = [int(i) for i in np.asarray(idx).ravel()]
                rows_ = np.asarray(ut, dtype=float)
                msg_ = None
                if not set(picks_) <= set(cs) or len(set(picks_)) != len(picks_):
                    msg_ = ("selection_outside", f"selected {picks_} not all within the candidates {cs}")
                elif rows_.ndim == 2 and rows_.shape[1] == n:
                    noncand = [j for j in range(n) if j not in cs]
                    badj = [j for j in noncand if not np.all(np.isnan(rows_[:, j]))]
                    if badj:
                        msg_ = ("utilities_non_candidates", f"non-candidates {badj} have utilities, expected NaN")
                if msg_:
                    ctx.violation("SubSamplingWrapper", msg_[0], msg_[1],
                                  {"X": X.tolist(), "y": [None if np.isnan(v) else v for v in y], "candidates": None if cand is None else cs, "max_candidates": mc,
                                   "exclude_non_subsample": excl, "batch_size": bs, "seed": seed, "returned": picks_}, what="SubSamplingWrapper: " + msg_[1])
                ctx.violation("SubSamplingWrapper", "reduced_space", "rows handed to the wrapped strategy are not labeled samples + a subset of the candidates in index order",
                              {"y": [None if np.isnan(v) else v for v in y], "cand": cs, "mc": mc, "excl": excl}, found_input=False,
                              what="correspondence: the reduced data set of exclude_non_subsample=True is not sorted(labeled U subset)")
                continue
            sl = sorted(set(lab.tolist()) | set(subset))
            inner_full = np.full((inner_ut.shape[0], n), np.nan)
            inner_full[:, sl] = inner_ut
        else:
            subset = [int(c) for c in np.asarray(rec["candidates"])]
            inner_full = inner_ut
        picks = [int(i) for i in np.asarray(idx).ravel()]
        rows = np.asarray(ut, dtype=float)
        # direct oracle (the statement)
        msg = sub_oracle(cs, subset, picks, inner_full, rows, mc, n)
        rc = {"X": X.tolist(), "y": [None if np.isnan(v) else v for v in y], "candidates": None if cand is None else cs, "max_candidates": mc,
              "exclude_non_subsample": excl, "batch_size": bs, "seed": seed, "returned": picks}
        if msg:
            ctx.violation("SubSamplingWrapper", msg[0], msg[1], rc, what="SubSamplingWrapper: " + msg[1])
            continue
        if len(subset) < len(cs):
            ctx.nontriv(("sub", X.tobytes(), y.tobytes(), repr(cs), mc, excl, bs, seed))
        allk = rank_keys([fkey(x) for x in np.concatenate([inner_full.ravel(), rows.ravel(), [-np.inf]])])
        minf = allk[-1]
        w = n
        ik = [allk[r * w:(r + 1) * w] for r in range(inner_full.shape[0])]
        off = inner_full.size
        rk_ = [allk[off + r * w: off + (r + 1) * w] for r in range(rows.shape[0])]
        if isinstance(mc, int):
            mct = f"true, {natlit(mc)}, 1%positive, 1%positive"
        else:
            fr = Fraction(mc)
            mct = f"false, {natlit(0)}, {fr.numerator}%positive, {fr.denominator}%positive"
        sterms.append(f"({zlit(minf)}, {mct}, {natlist(cs)}, {natlist(subset)}, {natlist(picks)}, {listlit([vlist(r) for r in ik])}, {listlit([vlist(r) for r in rk_])})")
        smeta.append(rc)
    bad, err = ctx.coq_eval_cases("sub", IMPORTS, "check_sub", sterms, chunk=300)
    if err:
        ctx.violation("SubSamplingWrapper", "model_eval_failed", err, {}, found_input=False, what="Coq evaluation of check_sub failed")
    for i in bad[:5]:
        ctx.violation("SubSamplingWrapper", "model_mismatch", "sub_ok (Model/Wrappers.v) rejects an output the direct oracle accepts", smeta[i], found_input=False,
                      what="correspondence sub_ok <-> SubSamplingWrapper output no longer holds")
    if smeta:
        ctx.sample(smeta[len(smeta) // 2])
    # ---- ParallelUtilityEstimationWrapper vs bare strategy ----
    for h in range(10 if ctx.is_quick else 150):
        X, y = data(rng)
        seed = int(rng.integers(0, 1000))
        method = str(rng.choice(["least_confident", "margin_sampling", "entropy"]))
        clf = R._clf_alt([0, 1], seed + (4 if h % 2 else 0))
        unl = np.flatnonzero(np.isnan(y))
        cand = None if rng.random() < 0.5 else np.sort(rng.choice(unl, size=int(rng.integers(1, len(unl) + 1)), replace=False))
        inner = UncertaintySampling(method=method, random_state=seed)
        i0, u0 = inner.query(X=X, y=y, clf=clf, candidates=cand, batch_size=1, return_utilities=True)
        for nj in (1, 2, 3):
            wr = ParallelUtilityEstimationWrapper(query_strategy=UncertaintySampling(method=method, random_state=seed), n_jobs=nj,
                                                  parallel_dict={"backend": "threading"}, random_state=seed)
            try:
                i1, u1 = wr.query(X=X, y=y, clf=clf, candidates=cand, batch_size=1, return_utilities=True)
            except Exception as e:
                ctx.violation("ParallelUtilityEstimationWrapper", "exception", repr(e), {"n_jobs": nj, "y": [None if np.isnan(v) else v for v in y]})
                continue
            ctx.count("ParallelUtilityEstimationWrapper")
            rc = {"X": X.tolist(), "y": [None if np.isnan(v) else v for v in y], "candidates": None if cand is None else cand.tolist(),
                  "method": method, "n_jobs": nj, "seed": seed, "inner": np.asarray(i0).tolist(), "wrapper": np.asarray(i1).tolist()}
            if not np.allclose(np.asarray(u0), np.asarray(u1), rtol=1e-12, atol=0, equal_nan=True):
                ctx.violation("ParallelUtilityEstimationWrapper", "utilities_differ", "utilities differ from the wrapped strategy's", rc,
                              what=f"ParallelUtilityEstimationWrapper(n_jobs={nj}) returns other utilities than the wrapped strategy")
            elif list(np.asarray(i0)) != list(np.asarray(i1)):
                ctx.violation("ParallelUtilityEstimationWrapper", "selection_differs", f"wrapper selects {np.asarray(i1).tolist()}, wrapped strategy {np.asarray(i0).tolist()} (equal seeds)", rc,
                              what=f"ParallelUtilityEstimationWrapper(n_jobs={nj}) selects differently from the wrapped strategy for equal seeds")
            if nj >= 2:
                ctx.nontriv(("par", X.tobytes(), y.tobytes(), method, nj, seed))
    # ---- SingleAnnotatorWrapper: samples in the order the wrapped strategy ranks them ----
    for h in range(400 if ctx.is_quick else 4000):
        n, na = int(rng.integers(2, 7)), int(rng.integers(1, 4))
        X = rng.integers(0, 3, size=(n, 2)).astype(float)
        y = rng.integers(0, 2, size=(n, na)).astype(float)
        y[rng.random((n, na)) < 0.6] = np.nan
        seed = int(rng.integers(0, 1000))
        napp = int(rng.integers(1, na + 1))
        cand = np.arange(n)
        bs = int(rng.integers(1, n * napp + 1))
        RECORD.clear()
        sc_, sh_ = [(1.0, 0.0), (1.0, -7.0), (1e4, -3e4), (1e-3, 0.0)][h % 4]
        inner = Rec(random_state=seed, utility_scale=sc_, utility_shift=sh_)
        saw = SingleAnnotatorWrapper(inner, random_state=seed)
        # annotator performances: not given / per annotator / per (candidate, annotator); accuracies in [0, 1), scores with negative
        # entries (kappa-like), large integers, constant
        pstyle = str(rng.choice(["none", "none", "unit", "signed", "signed_rows", "large", "constant"]))
        pshape = (na,) if (rng.random() < 0.5 and pstyle != "signed_rows") else (n, na)
        if pstyle == "none":
            A_perf = None
        elif pstyle == "unit":
            A_perf = np.round(rng.random(pshape), 2) * 0.99
        elif pstyle == "signed":
            A_perf = np.round(rng.random(pshape) * 1.9 - 1.0, 2)
        elif pstyle == "signed_rows":     # some samples have only weak (negative) annotators, others only strong ones: spread > 1 between samples
            A_perf = np.where(rng.random((n, 1)) < 0.5, -0.95, 0.9) + np.round(rng.random((n, na)) * 0.04, 3)
        elif pstyle == "large":
            A_perf = rng.integers(0, 50, size=pshape).astype(float)
        else:
            A_perf = np.full(pshape, 0.3)
        try:
            pairs = saw.query(X=X, y=y, candidates=cand, annotators=None, batch_size=bs, n_annotators_per_sample=napp, clf=R._clf([0, 1], seed),
                              A_perf=None if A_perf is None else A_perf.copy())
        except Exception as e:
            ctx.violation("SingleAnnotatorWrapper", "exception", repr(e), {"y": [[None if np.isnan(v) else v for v in r] for r in y], "bs": bs, "napp": napp,
                                                                           "A_perf": None if A_perf is None else A_perf.tolist()})
            continue
        ctx.hist[f"saw:A_perf={pstyle}:{len(pshape)}d"] += 1
        ctx.count("SingleAnnotatorWrapper_order")
        inner_order = [int(i) for i in np.asarray(RECORD[-1]["out"][0]).ravel()]
        seen = []
        for s, _ in np.asarray(pairs).tolist():
            if s not in seen:
                seen.append(s)
        if seen != inner_order[:len(seen)]:
            ctx.violation("SingleAnnotatorWrapper", "order", f"samples chosen in order {seen}, wrapped strategy ranked {inner_order}",
                          {"X": X.tolist(), "y": [[None if np.isnan(v) else v for v in r] for r in y], "bs": bs, "napp": napp, "seed": seed,
                           "A_perf": None if A_perf is None else A_perf.tolist()},
                          what=f"SingleAnnotatorWrapper does not choose samples in the order the wrapped strategy ranks them (A_perf: {pstyle}, shape {pshape})")
        elif A_perf is not None:
            # documented: within a sample, (i, j) is preferred over (i, k) if A_perf[i, j] >= A_perf[i, k]
            P2 = A_perf if A_perf.ndim == 2 else np.tile(A_perf, (n, 1))
            chosen = {}
            for s_, a_ in np.asarray(pairs).tolist():
                chosen.setdefault(s_, []).append(a_)
            complete = seen[:-1] if len(np.asarray(pairs)) == bs else seen        # the last sample may have been cut by the batch size
            for s_ in complete:
                avail = [a for a in range(na) if np.isnan(y[s_, a])]
                got = chosen[s_]
                rest = [a for a in avail if a not in got]
                if rest and got and min(P2[s_, a] for a in got) < max(P2[s_, a] for a in rest):
                    ctx.violation("SingleAnnotatorWrapper", "annotator_preference", f"sample {s_}: annotators {got} chosen, performances {P2[s_].tolist()}, available {avail}",
                                  {"X": X.tolist(), "y": [[None if np.isnan(v) else v for v in r] for r in y], "bs": bs, "napp": napp, "seed": seed, "A_perf": A_perf.tolist()},
                                  what="SingleAnnotatorWrapper: a less performant annotator was preferred over a more performant available one")
                    break
        if len(seen) >= 2:
            ctx.nontriv(("saw", X.tobytes(), y.tobytes(), bs, napp, seed))
    # a LARGE pool: the wrapper encodes the wrapped ranking in ordinal ranks 1..n_candidates plus an annotator utility below 1, so the
    # order of the samples lives in differences of 1 at magnitude n - any tolerance in the selection helper shows only there
    from skactiveml.pool import RandomSampling

    class RecRandom(RandomSampling):
        def query(self, X, y, *a, **kw):
            out = super().query(X, y, *a, **kw)
            RECORD.append({"out": out})
            return out
    for h in range(2 if ctx.is_quick else 6):
        n, na = 150000 + 1000 * h, 2
        X = np.arange(n, dtype=float).reshape(-1, 1)
        y = np.full((n, na), np.nan)
        seed = int(rng.integers(0, 1000))
        RECORD.clear()
        try:
            pairs = SingleAnnotatorWrapper(RecRandom(random_state=seed), random_state=seed).query(X=X, y=y, batch_size=4, n_annotators_per_sample=1)
        except Exception as e:
            ctx.violation("SingleAnnotatorWrapper", "exception", repr(e)[:300], {"n_samples": n, "seed": seed}, what=f"SingleAnnotatorWrapper raised {type(e).__name__} on a pool of {n} samples")
            continue
        ctx.count("SingleAnnotatorWrapper_order_large_pool")
        inner_order = [int(i) for i in np.asarray(RECORD[-1]["out"][0]).ravel()]
        seen = [int(s_) for s_, _a in np.asarray(pairs).tolist()]
        if seen != inner_order[:len(seen)]:
            ctx.violation("SingleAnnotatorWrapper", "order", f"pool of {n} samples: samples chosen {seen}, wrapped strategy ranked {inner_order}", {"n_samples": n, "n_annotators": na, "batch_size": 4, "seed": seed},
                          what=f"SingleAnnotatorWrapper does not choose samples in the order the wrapped strategy ranks them on a pool of {n} samples")
    ctx.extra["exhaustive"] = False


def recover_subset(X, y, Xr, yr, cs):
    """exclude_non_subsample=True: the reduced data set must be X[sorted(labeled U subset)]; returns the subset."""
    lab = set(np.flatnonzero(~np.isnan(y)).tolist())
    css = sorted(cs)
    # greedy in-order matching of reduced rows against the original rows
    subset, j = [], 0
    for r in range(len(Xr)):
        found = None
        while j < len(X):
            cand_ok = (j in lab and not np.isnan(yr[r])) or (j in css and np.isnan(yr[r]) and j not in lab)
            if cand_ok and np.array_equal(X[j], Xr[r]) and (np.isnan(yr[r]) or y[j] == yr[r]):
                found = j
                j += 1
                break
            if j in lab:
                return None       # a labeled sample was skipped
            j += 1
        if found is None:
            return None
        if found not in lab:
            subset.append(found)
    if any(k in lab for k in range(j, len(X))):
        return None
    return subset


def sub_oracle(cs, subset, picks, inner, rows, mc, n):
    import math
    size = min(mc, len(cs)) if isinstance(mc, int) else min(math.ceil(len(cs) * mc), len(cs))
    if len(subset) != size or len(set(subset)) != len(subset):
        return "subset_size", f"sub-sample has {len(subset)} samples, documented size {size}"
    if not set(subset) <= set(cs):
        return "subset_outside", f"sub-sample {subset} is not a subset of the candidates {cs}"
    if not set(picks) <= set(subset) or len(set(picks)) != len(picks):
        return "selection_outside", f"selected {picks}, sub-sample {subset}"
    if rows.shape != (len(picks), n) or inner.shape[0] != rows.shape[0]:
        return "utilities_shape", f"utilities shape {rows.shape}"
    for i in range(rows.shape[0]):
        for j in range(n):
            v = rows[i, j]
            if j in subset:
                if not ((np.isnan(v) and np.isnan(inner[i, j])) or v == inner[i, j]):
                    return "utilities_subset", f"row {i}, sample {j}: {v}, wrapped strategy reported {inner[i, j]}"
            elif j in cs:
                if v != -np.inf:
                    return "utilities_other_candidates", f"row {i}, candidate {j} outside the sub-sample has utility {v}, expected -inf"
            elif not np.isnan(v):
                return "utilities_non_candidates", f"row {i}, non-candidate {j} has utility {v}, expected NaN"
    return None


def report(ctx, comp, bad, err, terms):
    if err:
        ctx.violation(comp, "model_eval_failed", err, {}, found_input=False, what=f"Coq evaluation for {comp} failed")
    for i in bad[:5]:
        ctx.violation(comp, "model_mismatch", "implementation and Gallina model disagree", {"case": terms[i]}, found_input=False,
                      what=f"correspondence Model/Wrappers.v <-> {comp} no longer holds")


def replay(ctx, path):
    print(json.dumps(json.load(open(path))["case"], indent=1, default=str)[:2500])
    run(ctx)
