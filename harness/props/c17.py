"""C17 -- annotation aggregation equals plain counting.

Coq: Props/C17.v.  Tie: exact functional correspondence of compute_vote_vectors,
majority_vote and ext_confusion_matrix with Model/Aggregation.v (weights are
multiples of 1/8 so that sums are exact in binary64; noise of the random
tie-break reproduced from the seed)."""
import itertools
import json
from fractions import Fraction

import numpy as np

from ..core import listlit, natlit, noise_num, qlit, rank_keys, zlist, zlit

IMPORTS = "From V Require Import Base.OptOrder Model.Sel Model.Aggregation Harness.Run Harness.AggCheck."
NAN = float("nan")
ENCODINGS = [([0, 1, 2], NAN), ([10, 20, 30], -1), (["a", "b", "c"], "nan"), ([1, 2, 3], None),
             # integer label matrices whose classes include negatives (e.g. the binary -1 / +1 coding), integer sentinel
             ([-1, 1, 2], 0), ([-2, 0, 1], -9), ([0, 1, 2], -1),
             # string classes that are PREFIXES of the string sentinel (a narrow '<U2' array truncates 'nan' to 'na')
             (["n", "na", "x"], "nan"), (["no", "non", "yes"], "none")]


def _u():
    from skactiveml.utils import compute_vote_vectors, ext_confusion_matrix, majority_vote
    return compute_vote_vectors, majority_vote, ext_confusion_matrix


def onat(e):
    return "None" if e is None else f"(Some {natlit(e)})"


def build(enc, K, codes):
    """label matrix in the given encoding from class codes (None = missing)."""
    classes, ml = enc
    classes = classes[:K]
    vals = [[ml if c is None else classes[c] for c in row] for row in codes]
    if isinstance(ml, float):
        arr = np.array(vals, dtype=float)
    elif ml is None:
        arr = np.empty((len(vals), len(vals[0])), dtype=object)
        for i, r in enumerate(vals):
            for j, v in enumerate(r):
                arr[i, j] = v
    else:
        arr = np.array(vals)
    return arr, classes, ml


def relayout(a, mode):
    """the same values in a different memory layout: 0 = as built (C order), 1 = Fortran order,
    2 = transposed view of a C array, 3 = strided view (every second column of a wider array)"""
    if a is None or a.ndim != 2 or mode == 0:
        return a
    if mode == 1:
        return np.asfortranarray(a)
    if mode == 2:
        return np.ascontiguousarray(a.T).T
    wide = np.empty((a.shape[0], 2 * a.shape[1]), dtype=a.dtype)
    wide[:, ::2] = a
    wide[:, 1::2] = a[:, ::-1]
    return wide[:, ::2]


def gen_cases(ctx):
    rng = ctx.rng("c17")
    maxn = 2 if ctx.is_quick else 3
    for K in (1, 2, 3):
        for n in range(1, maxn + 1):
            for m in (1, 2, 3) if n <= 2 else (1, 2):
                alpha = [None] + list(range(K))
                combos = list(itertools.product(alpha, repeat=n * m))
                if len(combos) > 700:
                    combos = [combos[i] for i in rng.choice(len(combos), size=700, replace=False)]
                for flat in combos:
                    yield K, [list(flat[i * m:(i + 1) * m]) for i in range(n)], "exh"
    for _ in range(150 if ctx.is_quick else 3000):
        K = int(rng.integers(1, 4))
        n, m = int(rng.integers(1, 9)), int(rng.integers(1, 6))
        pm = rng.choice([0.0, 0.3, 0.8])
        yield K, [[None if rng.random() < pm else int(rng.integers(K)) for _ in range(m)] for _ in range(n)], "rand"


def near_ties(ctx, cvv, mv):
    """majority_vote on weighted votes that are NEARLY but not exactly tied (0.1 + 0.2 vs 0.3, weights of 1e-9): the returned
    class must have the exactly maximal vote, for every seed - the votes are taken from compute_vote_vectors itself."""
    rng = ctx.rng("near")
    pool = [0.1, 0.2, 0.3, 0.30000000000000004, 1e-9, 3e-9, 1.0, 1.0 + 2 ** -52, 0.7, 0.1 + 0.2 + 0.4]
    for h in range(60 if ctx.is_quick else 800):
        K = int(rng.integers(2, 4))
        n, m = int(rng.integers(1, 4)), int(rng.integers(2, 6))
        y = rng.integers(0, K, size=(n, m)).astype(float)
        y[rng.random((n, m)) < 0.15] = np.nan
        w = rng.choice(pool, size=(n, m))
        classes = list(range(K))
        try:
            V = np.asarray(cvv(y, w=w.copy(), classes=classes, missing_label=np.nan), dtype=float)
        except Exception as e:
            ctx.violation("compute_vote_vectors", "exception", repr(e), {"y": y.tolist(), "w": w.tolist()})
            continue
        for seed in range(6):
            try:
                maj = np.asarray(mv(y, w=w.copy(), classes=classes, missing_label=np.nan, random_state=seed), dtype=float)
            except Exception as e:
                ctx.violation("majority_vote", "exception", repr(e), {"y": y.tolist(), "w": w.tolist(), "seed": seed})
                break
            ctx.count("majority_vote_near_ties")
            bad = [i for i in range(n) if not np.isnan(y[i]).all() and (np.isnan(maj[i]) or V[i, int(maj[i])] != V[i].max())]
            if bad:
                i = bad[0]
                ctx.violation("majority_vote", "not_maximal", f"sample {i}: majority={maj[i]}, votes={V[i].tolist()}",
                              {"y": [[None if v != v else v for v in r] for r in y.tolist()], "w": [[float(v).hex() for v in r] for r in w], "seed": seed},
                              what=f"majority_vote returned class {maj[i]} whose vote {V[i, int(maj[i])] if not np.isnan(maj[i]) else 'nan'!r} is below the maximum {V[i].max()!r} (nearly tied weighted votes)")
                break
        if len({float(x) for x in V.ravel()}) > 1:
            ctx.nontriv(("near", y.tobytes(), w.tobytes()))


def run(ctx):
    cvv, mv, ecm = _u()
    ctx.extra["rule"] = ("exhaustive label matrices with <= 2 (quick) / 3 (thorough) samples x <= 3 annotators x <= 3 classes x all missing patterns "
                         "(sub-sampled to 700 per shape), random larger ones; 4 label encodings / sentinels; weights None or multiples of 1/8 incl. 0 "
                         "and NaN; all four normalisation modes; non-trivial = a sample with >= 2 non-missing labels; distinct = (labels, weights, encoding, mode)")
    ctx.trusted += ["sklearn.metrics.confusion_matrix and ExtLabelEncoder are on the implementation side; numpy RandomState.random for the tie-break noise"]
    ctx.coq_props()
    near_ties(ctx, cvv, mv)
    vcases, vmeta, ccases, cmeta = [], [], [], []
    rng = ctx.rng("w")
    for ci, (K, codes, tag) in enumerate(gen_cases(ctx)):
        enc = ENCODINGS[ci % len(ENCODINGS)]
        y, classes, ml = build(enc, K, codes)
        n, m = len(codes), len(codes[0])
        wmode = ci % 3
        if wmode == 0:
            w, wl = None, [[8] * m for _ in range(n)]
        else:
            wl = [[int(rng.choice([0, 1, 4, 8, 12, 20])) for _ in range(m)] for _ in range(n)]
            w = np.array(wl, dtype=float) / 8
            if wmode == 2 and n * m > 1:
                i, j = int(rng.integers(n)), int(rng.integers(m))
                w[i, j] = np.nan
                wl[i][j] = None
        seed = ci % 17
        # memory layouts of y and w vary independently (views, Fortran order): the result must only depend on the values
        y = relayout(y, (ci // 3) % 4)
        w = relayout(w, (ci // 12) % 4)
        ctx.hist[f"layout:y{(ci // 3) % 4}w{(ci // 12) % 4 if w is not None else '-'}"] += 1
        try:
            v = cvv(y, w=None if w is None else w.copy(order="K"), classes=classes, missing_label=ml)
            maj = mv(y, w=None if w is None else w.copy(order="K"), classes=classes, missing_label=ml, random_state=seed)
        except Exception as e:
            ctx.violation("compute_vote_vectors", "exception", repr(e), {"codes": codes, "K": K, "enc": repr(enc), "w": wl})
            continue
        ctx.count("vote_vectors+majority")
        ctx.hist[f"vote:{tag}:w{wmode}"] += 1
        if any(sum(c is not None for c in row) >= 2 for row in codes):
            ctx.nontriv(("vote", repr(codes), repr(wl), K, ci % len(ENCODINGS)))
        # direct oracle: plain counting
        exp = [[sum((wl[i][j] or 0) for j in range(m) if codes[i][j] == c) for c in range(K)] for i in range(n)]
        got = (np.asarray(v) * 8).tolist()
        if np.asarray(v).shape != (n, K) or got != [[float(x) for x in r] for r in exp]:
            ctx.violation("compute_vote_vectors", "wrong_counts", f"votes*8={got}, counting gives {exp}",
                          {"codes": codes, "K": K, "enc": repr(enc), "w8": wl}, what="compute_vote_vectors differs from plain weighted counting")
            continue
        majc = []
        okm = True
        for i in range(n):
            lab = any(c is not None for c in codes[i])
            val = maj[i]
            missing = (val is None) if ml is None else ((isinstance(val, float) and np.isnan(val)) if isinstance(ml, float) else val == ml)
            if not lab:
                majc.append(None)
                okm &= bool(missing)
            else:
                if missing or (val.item() if hasattr(val, "item") else val) not in classes:
                    okm = False
                    majc.append(None)
                else:
                    c = classes.index(val.item() if hasattr(val, "item") else val)
                    majc.append(c)
                    okm &= exp[i][c] == max(exp[i])
        if not okm:
            ctx.violation("majority_vote", "not_maximal", f"majority={list(maj)}, votes*8={exp}",
                          {"codes": codes, "K": K, "enc": repr(enc), "w8": wl, "seed": seed},
                          what="majority_vote does not return a class with maximal vote / missing for unlabeled samples")
            continue
        nlab = sum(any(c is not None for c in r) for r in codes)
        noise = np.random.RandomState(seed).random((nlab, K)) if nlab else np.zeros((0, K))
        nz = [rank_keys([noise_num(x) for x in row]) for row in noise]
        vcases.append(f"({natlit(K)}, {listlit([listlit([onat(c) for c in r]) for r in codes])}, "
                      f"{listlit([listlit(['None' if x is None else f'(Some {zlit(x)})' for x in r]) for r in wl])}, "
                      f"{listlit([zlist(r) for r in exp])}, {listlit([zlist(r) for r in nz])}, {listlit([onat(c) for c in majc])})")
        vmeta.append((codes, wl, K, repr(enc), seed))
        # confusion matrix: first column as truth where fully labeled
        if all(r[0] is not None for r in codes):
            mode = ci % 4
            yt = [r[0] for r in codes]
            preds = [[r[j] for r in codes] for j in range(m)]
            try:
                cm = ecm(y[:, 0], y, classes=classes, missing_label=ml, normalize=[None, "true", "pred", "all"][mode])
            except Exception as e:
                ctx.violation("ext_confusion_matrix", "exception", repr(e), {"codes": codes, "K": K, "enc": repr(enc), "mode": mode})
                continue
            ctx.count("ext_confusion_matrix")
            ctx.hist[f"conf:mode{mode}"] += 1
            if mode == 0:
                expc = [[[sum(1 for a, b in zip(yt, pr) if a == t and b == p) for p in range(K)] for t in range(K)] for pr in preds]
                if np.asarray(cm).tolist() != [[[float(x) for x in r] for r in mat] for mat in expc]:
                    ctx.violation("ext_confusion_matrix", "wrong_counts", f"returned {np.asarray(cm).tolist()}, counting gives {expc}",
                                  {"codes": codes, "K": K, "enc": repr(enc), "mode": "None"},
                                  what="ext_confusion_matrix(normalize=None) is not the matrix of confusion counts")
                    continue
            if not np.all(np.isfinite(cm)):
                ctx.violation("ext_confusion_matrix", "non_finite", str(np.asarray(cm).tolist()), {"codes": codes, "K": K, "mode": mode})
                continue
            ccases.append(f"({natlit(mode)}, {natlit(K)}, {listlit([natlit(t) for t in yt])}, "
                          f"{listlit([listlit([onat(c) for c in pr]) for pr in preds])}, "
                          f"{listlit([listlit([listlit([qlit(Fraction(float(x))) for x in r]) for r in mat]) for mat in cm])})")
            cmeta.append((codes, K, mode, repr(enc)))
    for tag, fn, cases, meta in (("vote", "check_vote", vcases, vmeta), ("conf", "check_conf", ccases, cmeta)):
        bad, err = ctx.coq_eval_cases(tag, IMPORTS, fn, cases, chunk=700)
        if err:
            ctx.violation(tag, "model_eval_failed", err, {}, found_input=False, what=f"Coq evaluation of {fn} failed")
        for i in bad[:5]:
            ctx.violation(tag, "model_mismatch", "implementation and Gallina model disagree", {"case": repr(meta[i])}, found_input=False,
                          what=f"correspondence Model/Aggregation.v <-> skactiveml.utils ({fn}) no longer holds")
    if vmeta:
        ctx.sample({"component": "compute_vote_vectors/majority_vote", "class_codes": vmeta[-1][0], "weights_x8": vmeta[-1][1], "K": vmeta[-1][2], "encoding": vmeta[-1][3]})
    if cmeta:
        ctx.sample({"component": "ext_confusion_matrix", "class_codes": cmeta[-1][0], "K": cmeta[-1][1], "mode": cmeta[-1][2]})
    ctx.extra["exhaustive"] = False


def replay(ctx, path):
    print(json.dumps(json.load(open(path))["case"], indent=1, default=str))
    run(ctx)
