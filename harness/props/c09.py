"""C09 -- results do not depend on how labels and missing labels are encoded.

Coq: Props/C09.v (encoder algebra: strictly increasing relabelings give IDENTICAL encoded labels and
re-encoded predictions; the sentinel value is irrelevant).  Tie: (i) harness/translate/labels.py
regenerates from /repo the table of all is_labeled / is_unlabeled / (un)labeled_indices call sites with
the sentinel they pass; 'every site passes the configured sentinel or -1' is re-checked by coqc;
(ii) paired runs (the model predicts 'equal'): all classification pool strategies, the stream
strategies and all classifiers under the encodings 0,1,2+NaN | 10,20,30+(-1.0) | 'a','b','c'+'nan' |
'no','yes','zz'+None(object): same indices, same utilities, same probabilities, predictions that are
the re-encoded originals."""
import json
import os
import warnings

import numpy as np

from .. import pool as PL
from .. import poolreg as R
from ..core import blit, err_class, natlit, pmap
from ..translate import labels as TL
from ..repo_root import REPO

NAN = float("nan")
ENC = [
    ("0,1,2+NaN", [0, 1, 2], NAN, float),
    ("10,20,30+(-1.0)", [10, 20, 30], -1.0, float),
    ("a,b,c+'nan'", ["a", "b", "c"], "nan", str),
    ("no,yes,zz+'none'", ["no", "yes", "zz"], "none", str),
    ("x,y,z+None", ["x", "y", "z"], None, object),
    # class names LONGER than the sentinel (an array created from the sentinel alone is too narrow for them)
    ("alpha,beta,gamma+'na'", ["alpha", "beta", "gamma"], "na", str),
]


# numeric class labels next to the sentinel None (necessarily an object array) - used for the classifiers
NUM_NONE = ("0,1,2+None(object array)", [0, 1, 2], None, object)


def encode(codes, enc, K):
    name, classes, ml, dt = enc
    vals = [ml if c is None else classes[c] for c in codes]
    if dt is object:
        a = np.empty(len(vals), dtype=object)
        for i, v in enumerate(vals):
            a[i] = v
        return a
    return np.array(vals, dtype=dt) if dt is not str else np.array(vals)


def set_ml(obj, ml, classes=None):
    """recursively set missing_label (and classes) on a strategy / classifier and its nested models."""
    params = obj.get_params(deep=False) if hasattr(obj, "get_params") else {}
    upd = {}
    if "missing_label" in params:
        upd["missing_label"] = ml
    if classes is not None and "classes" in params and params["classes"] is not None:
        upd["classes"] = list(classes)
    if upd:
        obj.set_params(**upd)
    for k, v in params.items():
        if hasattr(v, "get_params") and not isinstance(v, type):
            set_ml(v, ml, classes)
        elif isinstance(v, (list, tuple)):
            for it in v:
                e = it[1] if isinstance(it, tuple) and len(it) == 2 else it
                if hasattr(e, "get_params"):
                    set_ml(e, ml, classes)
    return obj


def _job(job):
    warnings.simplefilter("ignore")
    eidx, seed_tuple = job
    E = PL._entries()[eidx]
    rng = np.random.default_rng(list(seed_tuple))
    n = int(rng.integers(7, 12))
    X = rng.normal(size=(n, 2)) + rng.integers(0, 2, size=(n, 1)) * 2.0
    K = 2 if E.binary else 3
    codes = [None if rng.random() < 0.5 else int(rng.integers(K)) for _ in range(n)]
    if all(c is None for c in codes):
        codes[0] = 0
    if all(c is not None for c in codes):
        codes[-1] = None
    seed = int(rng.integers(0, 1000))
    bs = 1 if E.max_bs else int(rng.integers(1, 3))
    # the same candidates under every encoding: None, an index subset, or feature rows
    y_nan = np.array([NAN if c is None else float(c) for c in codes])
    cmode, cand = R.gen_candidates(rng, E, X, y_nan) if rng.random() < 0.6 else ("none", None)
    if E.feat and seed_tuple[2] % 3 == 2:
        # every sample of (X, y) is labeled (the label array is as narrow as the class labels, no sentinel inside) and the candidates
        # are NEW points given as feature rows
        codes = [int(rng.integers(K)) for _ in range(n)]
        codes[:K] = list(range(K))
        cmode, cand = "feat", rng.normal(size=(int(rng.integers(2, 6)), 2)) + rng.integers(0, 2, size=(1, 1)) * 2.0
    outs, problems = [], []
    for enc in ENC:
        name, classes, ml, dt = enc
        classes = classes[:K]
        y = encode(codes, (name, classes, ml, dt), K)
        try:
            qs = set_ml(E.make(classes, seed), ml, classes)
            kw = E.kw(classes, seed)
            for v in kw.values():
                if hasattr(v, "get_params"):
                    set_ml(v, ml, classes)
                elif isinstance(v, list):
                    for e in v:
                        set_ml(e, ml, classes)
            np.random.seed(0)
            idx, ut = qs.query(X=X.copy(), y=y.copy(), candidates=None if cand is None else np.array(cand).copy(),
                               batch_size=bs, return_utilities=True, **kw)
            outs.append((name, np.asarray(idx).tolist(), np.asarray(ut, dtype=float)))
        except Exception as e:
            outs.append((name, "exc:" + err_class(e), repr(e)[:200]))
    base = outs[0]
    for o in outs[1:]:
        if isinstance(base[1], str) or isinstance(o[1], str):
            if isinstance(base[1], str) != isinstance(o[1], str):
                problems.append(("encoding_rejected", f"{base[0]} -> {base[1] if isinstance(base[1], str) else 'ok'}; {o[0]} -> {o[1] if isinstance(o[1], str) else 'ok'} {o[2] if isinstance(o[1], str) else ''}"))
            continue
        if o[1] != base[1] or not np.allclose(o[2], base[2], rtol=1e-9, atol=1e-12, equal_nan=True):
            problems.append(("encoding_dependent", f"{base[0]} -> {base[1]}; {o[0]} -> {o[1]}"))
    return {"name": E.name, "codes": codes, "X": X.tolist(), "seed": seed, "bs": bs, "problems": problems,
            "candidates_mode": cmode, "candidates": None if cand is None else np.asarray(cand).tolist()}


def run(ctx):
    warnings.simplefilter("ignore")
    ctx.extra["rule"] = ("static: all call sites of the label predicates in non-test code; dynamic: every classification pool configuration, 6 classifiers and "
                         "4 stream strategies x 5 encodings (numeric / shifted numeric with a reserved number / strings with a reserved string / strings "
                         "whose sentinel has a class label as prefix / objects with None) on the same data; non-trivial = data with labeled and "
                         "unlabeled samples of >= 2 classes; distinct = (component, data)")
    ctx.trusted += ["harness/translate/labels.py (naming heuristic: a sentinel expression is accepted when it mentions missing_label or is the literal -1)",
                    "numeric agreement of utilities / probabilities across encodings is validated (1e-9), not proved"]
    ctx.coq_props()
    # ---- static site table ----
    sites = TL.scan()
    uses = TL.scan_uses()
    rows = []
    for s in sites:
        note = f"{s[0]}:{s[2]} {s[1]}: {s[3]}(missing_label={s[4]})".replace("(*", "( *").replace("*)", "* )")
        rows.append(f"({natlit(0)}, {blit(s[5])})  (* {note} *)")
    for u in uses:
        note = f"{u[0]}:{u[2]} {u[1]}: use of {u[4]} in {u[3]}".replace("(*", "( *").replace("*)", "* )")
        rows.append(f"({natlit(1)}, {blit(u[5])})  (* {note} *)")
    with open(os.path.join(ctx.build, "C09_sites.v"), "w") as f:
        f.write("From Coq Require Import List Bool.\nFrom V Require Import Model.RngProv.\nImport ListNotations.\n"
                "Definition label_sites : list site := [\n  " + ";\n  ".join(rows) + "\n].\n"
                "Theorem C09_sites_use_sentinel : sites_ok label_sites = true.\nProof. vm_compute. reflexivity. Qed.\nPrint Assumptions C09_sites_use_sentinel.\n")
    rc, so, se = ctx.coqc(os.path.join(ctx.build, "C09_sites.v"))
    ok = rc == 0 and "Closed under the global context" in so
    ctx.obligations.append({"name": f"C09_sites_use_sentinel ({len(sites)} label-predicate call sites + {len(uses)} uses of a sentinel expression regenerated from /repo)", "discharged": ok,
                            "assumptions": "Closed under the global context" if ok else (se or so)[-300:]})
    for u in [u for u in uses if not u[5]][:10]:
        ctx.violation(u[0], "sentinel_compared_by_hand_static", f"{u[0]}:{u[2]} in {u[1]}: {u[4]} used in {u[3]}", {"site": list(u[:5])}, found_input=False,
                      what=f"obligation C09_sites_use_sentinel no longer checks: {u[0]}:{u[2]} ({u[1]}) uses the sentinel {u[4]} outside the label helpers ({u[3]})")
    badsites = [s for s in sites if not s[5]]
    for s in badsites[:10]:
        ctx.violation(s[0], "sentinel_bypass_static", f"{s[0]}:{s[2]} in {s[1]}: {s[3]}(missing_label={s[4]})", {"site": list(s[:5])}, found_input=False,
                      what=f"obligation C09_sites_use_sentinel no longer checks: {s[0]}:{s[2]} {s[3]}(missing_label={s[4]})")
    if not ok and not badsites and all(u[5] for u in uses):
        ctx.broken("label_site_table", "the regenerated label-predicate site table theorem does not check", (se or so)[-1500:])
    # ---- dynamic: pool strategies ----
    entries = PL._entries()
    # a broken static obligation starts a targeted search for a concrete failing input in the implicated modules
    implicated = {x[0] for x in badsites} | {u[0] for u in uses if not u[5]}
    if implicated:
        import inspect
        esc = []
        for ei, E in enumerate(entries):
            try:
                src = os.path.relpath(inspect.getsourcefile(type(E.make([0, 1], 0))), REPO)
            except Exception:
                continue
            if E.task == "clf" and src in implicated:
                esc += [(ei, (ctx.seed, ei, h, 9090)) for h in range(60)]
        ctx.hist["escalated_jobs"] += len(esc)
        for out in pmap(_job, esc, chunksize=2):
            ctx.count(out["name"] + "[escalated]")
            for kind, msg in out["problems"]:
                ctx.violation(out["name"], kind, msg, {k: out[k] for k in ("name", "codes", "X", "seed", "bs", "candidates_mode", "candidates")},
                              what=f"{out['name']}: {kind.replace('_', ' ')} ({msg}) [found by the search started by the broken site table]")
    jobs = [(ei, (ctx.seed, ei, h, 909)) for ei, E in enumerate(entries) if E.task == "clf" for h in range((2 if E.slow else 6) if ctx.is_quick else (4 if E.slow else 18))]
    for out in pmap(_job, jobs, chunksize=2):
        ctx.count(out["name"])
        if len({c for c in out["codes"] if c is not None}) >= 2:
            ctx.nontriv((out["name"], repr(out["codes"]), repr(out["X"])))
        for kind, msg in out["problems"]:
            ctx.violation(out["name"], kind, msg, {k: out[k] for k in ("name", "codes", "X", "seed", "bs", "candidates_mode", "candidates")}, what=f"{out['name']}: {kind.replace('_', ' ')} ({msg})")
    classifiers_and_streams(ctx)
    regression_sentinels(ctx)
    multi_annotator(ctx)
    ctx.sample({"encodings": [e[0] for e in ENC]})
    ctx.extra["exhaustive"] = False


def _set_ml(obj, ml):
    """missing_label set consistently on a strategy / model and on what it wraps"""
    try:
        if "missing_label" in obj.get_params(deep=False):
            obj.set_params(missing_label=ml)
    except Exception:
        pass
    for attr in ("query_strategy", "estimator", "strategy"):
        sub = getattr(obj, attr, None)
        if sub is not None and hasattr(sub, "get_params"):
            _set_ml(sub, ml)


def regression_sentinels(ctx):
    """Regression strategies and regressors: the sentinel that marks a missing TARGET (NaN, a reserved number, None) is irrelevant -
    same indices, utilities and predictions; incl. wrapped estimators that cannot be fitted yet (fallback statistics)."""
    from sklearn.linear_model import LinearRegression
    from skactiveml.regressor import NICKernelRegressor, SklearnNormalRegressor, SklearnRegressor
    from sklearn.linear_model import BayesianRidge
    from .c15 import refusing
    Needs3 = lambda: refusing(3)

    def enc(y, ml):
        if ml is None:
            return np.array([None if v != v else v for v in y], dtype=object)
        if isinstance(ml, float) and ml != ml:
            return y.copy()
        return np.where(np.isnan(y), ml, y)
    sentinels = [("nan", float("nan")), ("-999.0", -999.0), ("-1", -1), ("None", None)]
    rng = ctx.rng("c09reg")
    entries = PL._entries()
    for ei, E in enumerate(entries):
        if E.task != "reg":
            continue
        for h in range((1 if E.slow else 3) if ctx.is_quick else (4 if E.slow else 20)):
            X, y, _, classes, labeling = R.gen_data(rng, "reg", n=int(rng.integers(6, 11)), cold=["half", "few", "one_class"][h % 3])
            y = np.where(np.isnan(y), np.nan, np.abs(y) + 0.5)          # targets are positive: -1 / -999 are free to serve as sentinels
            seed = int(rng.integers(0, 1000))
            bs = int(rng.integers(1, 3))
            ref = None
            for sname, ml in sentinels:
                try:
                    qs = E.make(classes, seed)
                    _set_ml(qs, ml)
                    kw = E.kw(classes, seed)
                    for v in kw.values():
                        for m in (v if isinstance(v, (list, tuple)) else [v]):
                            if hasattr(m, "get_params"):
                                _set_ml(m, ml)
                    np.random.seed(0)
                    with warnings.catch_warnings():
                        warnings.simplefilter("ignore")
                        idx, ut = qs.query(X=X.copy(), y=enc(y, ml), batch_size=bs, return_utilities=True, **kw)
                    res = (np.asarray(idx).tolist(), np.asarray(ut, dtype=float))
                except Exception as e:
                    res = ("exception", err_class(e), repr(e)[:200])
                if sname == "nan":
                    ref = res
                    if ref[0] == "exception":
                        ctx.hist[f"regression_query_exception(not C09):{E.name}"] += 1
                        break
                    continue
                ctx.count("regression:" + E.name)
                rc = {"strategy": E.name, "X": X.tolist(), "y": [None if v != v else v for v in y], "sentinel": sname, "seed": seed, "batch_size": bs}
                if res[0] == "exception":
                    ctx.violation(E.name, "encoding_exception", f"missing_label={sname}: {res[2]}", rc,
                                  what=f"{E.name}: query works with NaN as missing target but raises {res[1]} with missing_label={sname}")
                elif res[0] != ref[0] or not np.allclose(res[1], ref[1], rtol=1e-9, atol=1e-12, equal_nan=True):
                    ctx.violation(E.name, "encoding_dependent", f"missing_label={sname}: indices {res[0]} vs {ref[0]} (NaN)", rc,
                                  what=f"{E.name}: indices / utilities depend on the sentinel that marks missing targets (NaN vs {sname})")
            if ref is not None and ref[0] != "exception":
                ctx.nontriv(("c09reg", E.name, X.tobytes(), y.tobytes(), seed))
    # regressors directly
    mks = [("SklearnRegressor[LinearRegression]", lambda ml, s: SklearnRegressor(LinearRegression(), missing_label=ml, random_state=s)),
           ("SklearnRegressor[needs3]", lambda ml, s: SklearnRegressor(Needs3(), missing_label=ml, random_state=s)),
           ("SklearnNormalRegressor[needs3]", lambda ml, s: SklearnNormalRegressor(Needs3(), missing_label=ml, random_state=s)),
           ("SklearnNormalRegressor[BayesianRidge]", lambda ml, s: SklearnNormalRegressor(BayesianRidge(), missing_label=ml, random_state=s)),
           ("NICKernelRegressor", lambda ml, s: NICKernelRegressor(missing_label=ml, random_state=s))]
    for name, mk in mks:
        for h in range(6 if ctx.is_quick else 40):
            n = int(rng.integers(4, 9))
            X = rng.normal(size=(n, 2))
            y = np.abs(np.round(rng.normal(size=n), 1)) + 0.5
            nlab = [0, 1, 2, 4][h % 4]
            y[rng.permutation(n)[nlab:]] = np.nan
            Xq = rng.normal(size=(3, 2))
            seed = int(rng.integers(0, 100))
            ref = None
            for sname, ml in sentinels:
                try:
                    with warnings.catch_warnings():
                        warnings.simplefilter("ignore")
                        m = mk(ml, seed).fit(X, enc(y, ml))
                        out = [np.asarray(m.predict(Xq), dtype=float)]
                        if hasattr(m, "predict_target_distribution"):
                            out.append(np.asarray(m.predict(Xq, return_std=True)[1], dtype=float))
                except Exception as e:
                    out = ("exception", err_class(e), repr(e)[:200])
                if sname == "nan":
                    ref = out
                    if isinstance(ref, tuple):
                        ctx.hist[f"regressor_exception(not C09):{name}:{ref[1]}"] += 1
                        break
                    continue
                ctx.count("regressor:" + name)
                rc = {"regressor": name, "X": X.tolist(), "y": [None if v != v else v for v in y], "sentinel": sname, "seed": seed}
                if isinstance(out, tuple):
                    ctx.violation(name, "encoding_exception", f"missing_label={sname}: {out[2]}", rc, what=f"{name}: fit/predict works with NaN but raises {out[1]} with missing_label={sname}")
                elif not all(np.allclose(a, b, rtol=1e-9, atol=1e-12, equal_nan=True) for a, b in zip(out, ref)):
                    ctx.violation(name, "encoding_dependent", f"missing_label={sname}: predictions {out[0].tolist()} vs {ref[0].tolist()} (NaN), {nlab} labeled", rc,
                                  what=f"{name}: predictions depend on the sentinel that marks missing targets (NaN vs {sname}, {nlab} labeled samples)")


def classifiers_and_streams(ctx):
    from sklearn.linear_model import LogisticRegression
    from sklearn.naive_bayes import GaussianNB
    from skactiveml.classifier import MixtureModelClassifier, ParzenWindowClassifier, SklearnClassifier, SlidingWindowClassifier
    import skactiveml.stream as st
    rng = ctx.rng("c09c")
    mks = [("ParzenWindowClassifier", lambda c, ml, s: ParzenWindowClassifier(classes=c, missing_label=ml, random_state=s)),
           ("ParzenWindowClassifier[mean]", lambda c, ml, s: ParzenWindowClassifier(classes=c, missing_label=ml, metric_dict={"gamma": "mean"}, random_state=s)),
           ("MixtureModelClassifier", lambda c, ml, s: MixtureModelClassifier(classes=c, missing_label=ml, random_state=s)),
           ("SklearnClassifier[GaussianNB]", lambda c, ml, s: SklearnClassifier(GaussianNB(), classes=c, missing_label=ml, random_state=s)),
           ("SklearnClassifier[LogisticRegression]", lambda c, ml, s: SklearnClassifier(LogisticRegression(), classes=c, missing_label=ml, random_state=s)),
           ("SlidingWindowClassifier", lambda c, ml, s: SlidingWindowClassifier(ParzenWindowClassifier(classes=c, missing_label=ml, random_state=s), classes=c, missing_label=ml, random_state=s))]
    # bounded windows fed by partial_fit in small chunks: which samples the window keeps depends on what counts as labeled
    mks += [("SlidingWindowClassifier[only_labeled,window=4,partial_fit]",
             lambda c, ml, s: SlidingWindowClassifier(ParzenWindowClassifier(classes=c, missing_label=ml, random_state=s), classes=c, missing_label=ml, window_size=4, only_labeled=True, random_state=s)),
            ("SlidingWindowClassifier[window=5,partial_fit]",
             lambda c, ml, s: SlidingWindowClassifier(ParzenWindowClassifier(classes=c, missing_label=ml, random_state=s), classes=c, missing_label=ml, window_size=5, random_state=s)),
            ("SlidingWindowClassifier[GaussianNB,only_labeled,window=6,partial_fit]",
             lambda c, ml, s: SlidingWindowClassifier(SklearnClassifier(GaussianNB(), classes=c, missing_label=ml, random_state=s), classes=c, missing_label=ml, window_size=6, only_labeled=True, random_state=s))]
    for name, mk in mks:
        for h in range(4 if ctx.is_quick else 30):
            n = int(rng.integers(6, 12))
            X = rng.normal(size=(n, 2)) + rng.integers(0, 2, size=(n, 1)) * 2.0
            scen = h % 3
            K = 3
            codes = [None if rng.random() < 0.4 else int(rng.integers(K if scen else 1)) for _ in range(n)]   # scen 0: a single class present
            if all(c is None for c in codes):
                codes[0] = 0
            if h % 4 == 3:
                codes = [0 if c is None else c for c in codes]      # fully labeled: the array does not contain the sentinel (narrow string dtype)
            seed = int(rng.integers(0, 100))
            Xq = rng.normal(size=(4, 2))
            outs = []
            for enc in ENC + [NUM_NONE]:
                ename, classes, ml, dt = enc
                y = encode(codes, enc, K)
                try:
                    if "partial_fit" in name:
                        m = mk(classes, ml, seed)
                        for a in range(0, n, 1 + h % 3):
                            m.partial_fit(X[a:a + 1 + h % 3], y[a:a + 1 + h % 3])
                    else:
                        m = mk(classes, ml, seed).fit(X, y)
                    P = np.asarray(m.predict_proba(Xq), dtype=float)
                    pred = [classes.index(v.item() if hasattr(v, "item") else v) for v in m.predict(Xq)]
                    outs.append((ename, P, pred))
                except Exception as e:
                    outs.append((ename, "exc:" + err_class(e), repr(e)[:200]))
            ctx.count("clf:" + name)
            if len({c for c in codes if c is not None}) >= 2:
                ctx.nontriv(("clf", name, repr(codes), X.tobytes()))
            base = outs[0]
            for o in outs[1:]:
                rc = {"classifier": name, "codes": codes, "X": X.tolist(), "encodings": [base[0], o[0]], "seed": seed}
                if isinstance(base[1], str) or isinstance(o[1], str):
                    if isinstance(base[1], str) != isinstance(o[1], str):
                        ctx.violation(name, "encoding_rejected", f"{base[0]}: {base[1] if isinstance(base[1], str) else 'ok'}; {o[0]}: {o[1] if isinstance(o[1], str) else 'ok'} {o[2] if isinstance(o[1], str) else ''}", rc,
                                      what=f"{name}: one encoding works, the other raises")
                    continue
                if not np.allclose(base[1], o[1], rtol=1e-9, atol=1e-12) or ("LogisticRegression" not in name and base[2] != o[2]):
                    ctx.violation(name, "encoding_dependent", f"{base[0]}: proba {base[1][0].tolist()} pred {base[2]}; {o[0]}: proba {o[1][0].tolist()} pred {o[2]}", rc,
                                  what=f"{name}: predict_proba / predict depend on the label encoding ({base[0]} vs {o[0]})",
                                  tags={"numbers_with_None_in_object_array"} if o[0] == NUM_NONE[0] else ())
                    break
    # stream strategies (classifier based): decisions under two encodings
    for sname in ["VariableUncertainty", "Split", "StreamProbabilisticAL", "StreamDensityBasedAL"]:
        for h in range(2 if ctx.is_quick else 10):
            seed = int(rng.integers(0, 100))
            n = 20
            X = rng.normal(size=(n, 2))
            codes = [None if rng.random() < 0.3 else int(rng.integers(2)) for _ in range(n)]
            cands = [rng.normal(size=(int(rng.integers(1, 4)), 2)) for _ in range(15)]
            seqs = []
            for enc in (ENC[0], ENC[1], ENC[2]):
                ename, classes, ml, dt = enc
                classes = classes[:2]
                y = encode(codes, (ename, classes, ml, dt), 2)
                try:
                    clf = ParzenWindowClassifier(classes=classes, missing_label=ml, random_state=seed).fit(X, y)
                    qs = getattr(st, sname)(budget=0.5, random_state=seed)
                    r = []
                    for c in cands:
                        kw = {"X": X, "y": y} if sname == "StreamProbabilisticAL" else {}
                        idx, ut = qs.query(c, clf=clf, return_utilities=True, **kw)
                        import inspect
                        ukw = {"budget_manager_param_dict": {"utilities": ut}} if sname == "StreamProbabilisticAL" else {}
                        qs.update(c, idx, **ukw)
                        r.append([int(i) for i in idx])
                    seqs.append((ename, r))
                except Exception as e:
                    seqs.append((ename, "exc:" + err_class(e) + repr(e)[:100]))
            ctx.count("stream:" + sname)
            for o in seqs[1:]:
                if o[1] != seqs[0][1]:
                    ctx.violation(sname, "encoding_dependent", f"{seqs[0][0]}: {seqs[0][1]}; {o[0]}: {o[1]}", {"strategy": sname, "seed": seed, "codes": codes},
                                  what=f"{sname}: decisions depend on the label encoding ({seqs[0][0]} vs {o[0]})")
                    break


def multi_annotator(ctx):
    """Multi-annotator pool strategies under two numeric encodings of the label MATRIX (0/1 + NaN vs 10/20 + reserved number -1;
    the multi-annotator input validation accepts numeric labels only): same (sample, annotator) pairs, same utilities."""
    from skactiveml.classifier import ParzenWindowClassifier
    from skactiveml.classifier.multiannotator import AnnotatorEnsembleClassifier
    from skactiveml.pool import ProbabilisticAL, RandomSampling, UncertaintySampling
    from skactiveml.pool.multiannotator import IntervalEstimationThreshold, SingleAnnotatorWrapper
    rng = ctx.rng("c09multi")
    encs = [("0,1+NaN", [0, 1], NAN), ("10,20+(-1)", [10, 20], -1.0), ("3,4+(-999)", [3, 4], -999.0)]

    def pwc(classes, ml, s):
        return ParzenWindowClassifier(classes=classes, missing_label=ml, random_state=s)
    mks = [("SingleAnnotatorWrapper[UncertaintySampling]", lambda c, ml, s: SingleAnnotatorWrapper(UncertaintySampling(missing_label=ml, random_state=s), missing_label=ml, random_state=s),
            lambda c, ml, s: {"clf": pwc(c, ml, s)}),
           ("SingleAnnotatorWrapper[ProbabilisticAL]", lambda c, ml, s: SingleAnnotatorWrapper(ProbabilisticAL(missing_label=ml, random_state=s), missing_label=ml, random_state=s),
            lambda c, ml, s: {"clf": pwc(c, ml, s)}),
           ("SingleAnnotatorWrapper[RandomSampling]", lambda c, ml, s: SingleAnnotatorWrapper(RandomSampling(missing_label=ml, random_state=s), missing_label=ml, random_state=s),
            lambda c, ml, s: {}),
           ("IntervalEstimationThreshold", lambda c, ml, s: IntervalEstimationThreshold(missing_label=ml, random_state=s),
            # (members are given without classes: the ensemble hands them its own)
            lambda c, ml, s: {"clf": AnnotatorEnsembleClassifier(estimators=[(f"c{i}", ParzenWindowClassifier(missing_label=ml, random_state=s)) for i in range(2)],
                                                                 classes=c, missing_label=ml, random_state=s)})]
    for name, mk, kwf in mks:
        for h in range(8 if ctx.is_quick else 60):
            n = int(rng.integers(8, 14))
            X = rng.normal(size=(n, 2)) + rng.integers(0, 2, size=(n, 1)) * 2.0
            codes = rng.integers(0, 2, size=(n, 2))
            miss = rng.random((n, 2)) < [0.5, 0.3, 0.8][h % 3]
            miss[0], codes[0] = [False, False], [0, 1]
            miss[1], codes[1] = [False, False], [1, 0]
            seed = int(rng.integers(0, 100))
            bs = int(rng.choice([1, 2, 3]))
            outs = []
            for ename, classes, ml in encs:
                y = np.where(codes == 0, float(classes[0]), float(classes[1]))
                y[miss] = ml
                try:
                    idx, ut = mk(classes, ml, seed).query(X=X.copy(), y=y.copy(), batch_size=bs, return_utilities=True, **kwf(classes, ml, seed))
                    outs.append((ename, [tuple(int(v) for v in r) for r in np.asarray(idx)], np.asarray(ut, dtype=float)))
                except Exception as e:
                    outs.append((ename, "exc:" + err_class(e), repr(e)[:200]))
            ctx.count("multi_annotator:" + name)
            if miss.any():
                ctx.nontriv(("multi", name, X.tobytes(), codes.tobytes(), miss.tobytes(), seed, bs))
            base = outs[0]
            for o in outs[1:]:
                rc = {"strategy": name, "X": X.tolist(), "codes": codes.tolist(), "missing": miss.tolist(), "encodings": [base[0], o[0]], "batch_size": bs, "seed": seed}
                if isinstance(base[1], str) or isinstance(o[1], str):
                    if isinstance(base[1], str) != isinstance(o[1], str):
                        ctx.violation(name, "encoding_rejected", f"{base[0]}: {base[1] if isinstance(base[1], str) else 'ok'}; {o[0]}: {o[1] if isinstance(o[1], str) else 'ok'} {o[2] if isinstance(o[1], str) else ''}", rc,
                                      what=f"{name}: one label encoding works, the other raises")
                    continue
                same_ut = base[2].shape == o[2].shape and np.allclose(base[2], o[2], rtol=1e-9, atol=1e-12, equal_nan=True)
                if not same_ut or base[1] != o[1]:
                    ctx.violation(name, "encoding_dependent", f"{base[0]} -> {base[1]}; {o[0]} -> {o[1]}" + ("" if same_ut else " (utilities differ)"), rc,
                                  what=f"{name}: selected (sample, annotator) pairs / utilities depend on the label encoding ({base[0]} vs {o[0]})")
                    break


def replay(ctx, path):
    print(json.dumps(json.load(open(path))["case"], indent=1, default=str)[:2500])
    run(ctx)
