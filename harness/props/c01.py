"""C01 -- pool query returns a valid batch (right size, distinct, only candidates).

Coq: Props/C01.v.  Tie: trace validation.  Every registry configuration is run
on generated data / candidate modes / batch sizes (with and without
return_utilities); the Gallina boolean batch_ok (whose meaning is a theorem) is
evaluated on the returned indices against the model's own candidate set and
expected batch size, and the full acceptor is evaluated on (indices, utilities)."""
import json

import numpy as np

from .. import pool as PL
from ..core import natlist, natlit


def n_cases(ctx, E):
    if ctx.is_quick:
        return (15 if E.slow else 25) if E.variant else (15 if E.slow else 75)
    return (30 if E.slow else 125) if E.variant else (60 if E.slow else 250)


def collect(ctx, tag):
    entries = PL._entries()
    cases = []
    for ei, E in enumerate(entries):
        for h in range(n_cases(ctx, E)):
            cases.append(PL.make_case((ctx.seed, ei, h, 101), ei, ctx.tier, stratum=h))
    outs = PL.run_cases(cases)
    return entries, cases, outs


def run(ctx):
    ctx.extra["rule"] = ("every strategy exported by skactiveml.pool (40 configurations incl. selection methods / greedy flags / wrappers) x seeded "
                         "data sets (integer grid with duplicated points, constant feature, cold start, one remaining candidate) x candidate "
                         "modes (None, index subsets incl. duplicated indices, arbitrary index sets for sample-wise strategies, feature rows) x "
                         "batch sizes {1,2,3,n_cand,n_cand+5}; non-trivial = batch of >= 2 indices or clipped batch size; distinct = (strategy, data, candidates, bs, seed)")
    ctx.trusted += ["the numeric layer (scores) is an oracle: C01 is proved for every utility array and validated on the arrays produced"]
    ctx.assume += ["documented preconditions respected (EpistemicUncertaintySampling: two classes; ParallelUtilityEstimationWrapper: batch_size=1; "
                   "enforce_mapping strategies: no feature-row candidates; FourDs: MixtureModelClassifier; RegressionTreeBasedAL: tree regressor)"]
    ctx.trusted += ["harness/translate/skeleton.py (ast -> Model/SkelDsl.v term per `return simple_batch` site; fail-closed: unrecognised shapes become non-canonical constructors)",
                    "harness/loops.py: scripted numeric layers (integer coordinates, 0/1 distance matrix, scripted cluster algorithms / discriminator, recorded _d_2 and "
                    "pre-filtered sets, the library's own _typicality as oracle); tie-breaking noise reproduced from a twin's random_state_ (numpy RandomState)"]
    ctx.coq_props()
    from ..skel import check_skeleton_table
    check_skeleton_table(ctx)
    from ..loops import loops_correspondence
    loops_correspondence(ctx)
    entries, cases, outs = collect(ctx, "c01")
    bcases, bmeta, tcases, tmeta, cscases, csmeta = [], [], [], [], [], []
    for case, out in zip(cases, outs):
        E = entries[case["eidx"]]
        ctx.count(E.name)
        ctx.hist[f"{case['cmode']}:{case['labeling']}"] += 1
        cs, ncols = PL.cand_list(case)
        if min(case["bs"], len(cs)) >= 2 or case["bs"] > len(cs):
            ctx.nontriv((E.name, case["seed"], case["cmode"], case["bs"], case["X"].tobytes(), case["y"].tobytes()))
        res = PL.oracle_c01(case, out)
        if res and res[0] == "unsupported":
            ctx.hist["unsupported_feature_rows"] += 1
            continue
        if res:
            kind, msg = res
            tags = PL.case_tags(case)
            ut_ = out.get("ut")
            if ut_ is not None and np.asarray(ut_).ndim == 2 and np.isnan(np.asarray(ut_, dtype=float)).all(axis=1).any():
                tags.add("all_nan_row")          # a utility row without any number: rand_argmax falls on position 0 (FourDs finding)
            ctx.violation(E.name, kind, msg, PL.case_replay(case, out), what=f"{E.name}: {msg}", tags=tags)
            continue
        bcases.append(PL.encode_batch(case, out))
        bmeta.append((case, out))
        kind_t, l, m = PL.cand_terms(case)
        cscases.append(f"({PL.lab_mask(case)}, {kind_t}, {l}, {m}, {natlit(case['bs'])}, {natlist(cs)}, {natlit(min(case['bs'], len(cs)))})")
        csmeta.append(case)
    # the model's candidate set / expected batch size against the Python-level definition used by the oracle
    for tag, fn, cs_, meta in (("batch", "check_batch_ok", bcases, bmeta), ("cs", "check_cs", cscases, csmeta)):
        bad, err = ctx.coq_eval_cases(tag, PL.IMPORTS, fn, cs_, chunk=400)
        if err:
            ctx.violation(tag, "model_eval_failed", err, {}, found_input=False, what=f"Coq evaluation of {fn} failed")
        for i in bad[:5]:
            c = meta[i][0] if tag == "batch" else meta[i]
            ctx.violation(c["name"], "model_mismatch", "Gallina batch_ok / cand_set disagrees with the direct oracle on this case",
                          PL.case_replay(c), found_input=False,
                          what=f"correspondence Model/PoolQuery.v ({fn}) <-> implementation/oracle no longer holds")
    direct_helpers(ctx)
    reused_objects(ctx)
    if bmeta:
        c, o = bmeta[len(bmeta) // 2]
        ctx.sample(PL.case_replay(c, o))
    ctx.extra["exhaustive"] = False


def reused_objects(ctx):
    """The statement on a strategy object that is re-used: query / reveal cycles with ONE object (caches such as the
    precomputed tables of EpistemicUncertaintySampling or fitted state kept between calls must not invalidate later batches)."""
    from . import c14
    from ..core import pmap
    entries = PL._entries()
    loops = []
    for ei, E in enumerate(entries):
        if E.base == "FourDs":            # its recorded finding is scoped by a tag that needs the utilities
            continue
        for h in range(((1 if E.slow else 4) if E.variant else (2 if E.slow else 12)) if ctx.is_quick else (10 if E.slow else 100)):
            loops.append(c14.make_loop((ctx.seed, ei, h, 1401), ei))
    for lp, out in zip(loops, pmap(c14._run_loop, loops, chunksize=1)):
        E = entries[lp["eidx"]]
        ctx.count("reused_object:" + E.name, max(1, len(out["batches"])))
        if len(out["batches"]) >= 2:
            ctx.nontriv(("reused", E.name, lp["seed"], lp["b"], lp["X"].tobytes(), lp["y"].tobytes()))
        rc = {"strategy": E.name, "X": lp["X"].tolist(), "y": [None if np.isnan(v) else float(v) for v in lp["y"]], "reused_object": True,
              "y_true": lp["y_true"].tolist(), "classes": lp["classes"], "batch_size": lp["b"], "seed": lp["seed"], "batches": out["batches"]}
        tags = PL.case_tags({"X": lp["X"], "y": lp["y"], "cmode": "none", "cand": None})
        if out["status"] == "timeout":
            ctx.violation(E.name, "timeout", "query on a re-used strategy object did not return", rc, what=f"{E.name}: query did not terminate in time (re-used object)", tags=tags)
        elif out["status"] == "exception":
            ctx.violation(E.name, "exception:" + out["err"], out["msg"], rc, what=f"{E.name}: query on a re-used strategy object raised, {out['msg']}", tags=tags)
        elif out["problem"] and not (E.subsample and out.get("c01kind") == "batch_length" and c14._only_short(lp, out)):
            ctx.violation(E.name, out.get("c01kind", out["problem"][0]), out["problem"][1], rc,
                          what=f"{E.name} (one strategy object re-used over query/reveal cycles): {out['problem'][1]}", tags=tags)


def direct_helpers(ctx):
    """_validate_data / _transform_candidates called directly: candidate set, clipping (functional correspondence)."""
    from skactiveml.pool import RandomSampling
    rng = ctx.rng("helpers")
    terms, meta = [], []
    for _ in range(300 if ctx.is_quick else 3000):
        n = int(rng.integers(1, 8))
        y = rng.choice([0.0, 1.0, np.nan], size=n)
        X = rng.normal(size=(n, 2))
        mode = str(rng.choice(["none", "idx", "feat"]))
        if mode == "none":
            cand = None
        elif mode == "idx":
            cand = rng.integers(0, n, size=int(rng.integers(1, 9)))
        else:
            cand = rng.normal(size=(int(rng.integers(1, 6)), 2))
        bs = int(rng.integers(1, 10))
        qs = RandomSampling(random_state=0)
        import warnings
        with warnings.catch_warnings():
            warnings.simplefilter("ignore")
            try:
                Xv, yv, cv, bsv, _ = qs._validate_data(X, y, cand, bs, False)
                Xc, mapping = qs._transform_candidates(cv, Xv, yv)
            except Exception as e:
                ctx.violation("_validate_data", "exception", repr(e), {"y": y.tolist(), "cand": None if cand is None else np.asarray(cand).tolist(), "bs": bs})
                continue
        cs = [int(i) for i in mapping] if mapping is not None else list(range(len(Xc)))
        case = {"y": y, "cmode": {"none": "none", "idx": "idx_any", "feat": "feat"}[mode], "cand": cand, "bs": bs}
        kind_t, l, m = PL.cand_terms(case)
        terms.append(f"({PL.lab_mask(case)}, {kind_t}, {l}, {m}, {natlit(bs)}, {natlist(cs)}, {natlit(bsv)})")
        meta.append(case)
        ctx.count("_validate_data/_transform_candidates")
    bad, err = ctx.coq_eval_cases("helpers", PL.IMPORTS, "check_cs", terms, chunk=1000)
    if err:
        ctx.violation("helpers", "model_eval_failed", err, {}, found_input=False, what="Coq evaluation of check_cs failed")
    for i in bad[:5]:
        c = meta[i]
        ctx.violation("_transform_candidates", "model_mismatch", "candidate set / clipped batch size differ from Model/PoolQuery.v",
                      {"y": [None if np.isnan(v) else v for v in c["y"]], "cand": None if c["cand"] is None else np.asarray(c["cand"]).tolist(), "bs": c["bs"]},
                      found_input=False, what="correspondence cand_set/expected_k <-> _validate_data/_transform_candidates/check_indices no longer holds")


def replay(ctx, path):
    rec = json.load(open(path))
    if isinstance(rec.get("case"), dict) and rec["case"].get("reused_object"):
        from . import c14
        return c14.replay(ctx, path)
    case, out = PL.replay_case(rec["case"])
    res = PL.oracle_c01(case, out)
    print("replay:", out.get("status"), None if out.get("idx") is None else np.asarray(out["idx"]).tolist(), res or "property holds on this input")
    if res:
        ctx.violation(case["name"], res[0], res[1], rec["case"], what=res[1])
    ctx.coq_props()
