"""C12 -- unlabeled samples do not influence supervised models.

Coq: Props/C12.v.  Tie: (i) recording estimators inside SklearnClassifier /
SklearnRegressor / SklearnNormalRegressor: what the wrapper hands to fit /
partial_fit must be exactly the model's labeled_subset (order and weights
included), evaluated in Coq; (ii) paired fits (with / without / permuted /
re-weighted unlabeled rows, different reveal orders re-using the caller's weight
array, several missing-label sentinels, estimators that refuse to fit) for the
wrappers, ParzenWindowClassifier (fixed bandwidth), NICKernelRegressor and
AnnotatorLogisticRegression: predictions must agree."""
import json
import warnings

import numpy as np

from ..core import err_class, listlit, natlit, zlit

IMPORTS = "From V Require Import Model.FitFilter Harness.Run Harness.FitCheck."
NAN = float("nan")
LOG = []


def rec_estimators():
    from sklearn.base import BaseEstimator, ClassifierMixin, RegressorMixin

    class RecClf(ClassifierMixin, BaseEstimator):
        def fit(self, X, y, sample_weight=None):
            LOG.append(("fit", np.array(X), np.array(y), None if sample_weight is None else np.array(sample_weight)))
            self.classes_ = np.unique(y)
            return self

        def partial_fit(self, X, y, classes=None, sample_weight=None):
            LOG.append(("partial_fit", np.array(X), np.array(y), None if sample_weight is None else np.array(sample_weight)))
            self.classes_ = np.asarray(classes) if classes is not None else np.unique(y)
            return self

        def predict_proba(self, X):
            return np.full((len(X), len(self.classes_)), 1 / len(self.classes_))

        def predict(self, X):
            return np.full(len(X), self.classes_[0])

    class RecReg(RegressorMixin, BaseEstimator):
        def fit(self, X, y, sample_weight=None):
            LOG.append(("fit", np.array(X), np.array(y), None if sample_weight is None else np.array(sample_weight)))
            self.m_ = float(np.mean(y))
            return self

        def predict(self, X, return_std=False):
            if return_std:
                return np.full(len(X), self.m_), np.ones(len(X))
            return np.full(len(X), self.m_)

    class Refuse(RegressorMixin, BaseEstimator):
        def fit(self, X, y, sample_weight=None):
            raise ValueError("cannot be fitted")

        def predict(self, X, return_std=False):
            from sklearn.exceptions import NotFittedError
            raise NotFittedError("not fitted")
    return RecClf, RecReg, Refuse


def rows_term(ids, labels, weights):
    return listlit([f"({natlit(i)}, {'None' if l is None else '(Some ' + zlit(l) + ')'}, {zlit(w)})" for i, l, w in zip(ids, labels, weights)])


def make_data(rng, ml, regression=False):
    n = int(rng.integers(3, 10))
    X = np.column_stack([np.arange(n, dtype=float), rng.normal(size=n)])
    lab = rng.integers(0, 2, size=n) if not regression else rng.choice([-3, -2, 0, 1, 2, 3, 4], size=n)
    miss = rng.random(n) < rng.choice([0.2, 0.5, 0.9])
    y = lab.astype(float)
    y[miss] = ml
    w8 = rng.integers(1, 17, size=n)
    return X, y, miss, lab, w8


def run(ctx):
    from skactiveml.classifier import ParzenWindowClassifier, SklearnClassifier
    from skactiveml.classifier.multiannotator import AnnotatorLogisticRegression
    from skactiveml.regressor import NICKernelRegressor, SklearnNormalRegressor, SklearnRegressor
    warnings.simplefilter("ignore")
    RecClf, RecReg, Refuse = rec_estimators()
    ctx.extra["rule"] = ("seeded training sets (3-9 samples, 20-90% missing labels, sentinels NaN / -1 / 99, weights multiples of 1/8 or none); recorded "
                         "fit arguments of the wrapped estimator vs labeled_subset; paired fits with unlabeled rows removed / added / permuted / "
                         "re-weighted and labels revealed in two orders re-using the caller's weight array; non-trivial = data set with both "
                         "labeled and unlabeled rows; distinct = (learner, data, sentinel)")
    ctx.trusted += ["recording estimators (log the arguments of fit / partial_fit); sklearn estimators are deterministic given their training data"]
    ctx.assume += ["ParzenWindowClassifier with a fixed bandwidth and no neighbour limit, as the property states"]
    ctx.coq_props()
    rng = ctx.rng("c12")
    terms, meta = [], []
    N = 120 if ctx.is_quick else 1500
    for h in range(N):
        ml = [NAN, -1.0, 99.0][h % 3]
        reg = h % 2 == 1
        X, y, miss, lab, w8 = make_data(rng, ml, regression=reg)
        use_w = bool(rng.integers(0, 2))
        sw = w8 / 8.0 if use_w else None
        LOG.clear()
        try:
            if reg:
                wr = (SklearnRegressor if h % 4 == 1 else SklearnNormalRegressor)(RecReg(), missing_label=ml, random_state=0)
                wr.fit(X, y, sample_weight=sw)
            else:
                wr = SklearnClassifier(RecClf(), classes=[0, 1], missing_label=ml, random_state=0)
                if h % 4 == 0:
                    wr.fit(X, y, sample_weight=sw)
                else:
                    wr.partial_fit(X, y, sample_weight=sw)
        except Exception as e:
            ctx.violation("wrapper_fit", "exception:" + err_class(e), repr(e)[:300], {"y": y.tolist(), "ml": ml, "reg": reg})
            continue
        ctx.count("recorded_fit")
        if miss.any() and not miss.all():
            ctx.nontriv(("rec", X.tobytes(), y.tobytes(), ml, reg, use_w))
        ids = list(range(len(y)))
        labels = [None if m else int(l) for m, l in zip(miss, lab)]
        weights = [int(v) for v in w8] if use_w else [8] * len(y)
        if miss.all():
            continue
        if not LOG:
            ctx.violation("wrapper_fit", "no_fit", "the wrapped estimator was never fitted", {"y": y.tolist(), "ml": ml})
            continue
        _, Xg, yg, wg = LOG[-1]
        got_ids = [int(round(v)) for v in Xg[:, 0]]
        got_w = [8] * len(got_ids) if wg is None else [int(round(float(v) * 8)) for v in wg]
        if wg is None and use_w:
            got_w = [-1] * len(got_ids)
        got = rows_term(got_ids, [int(v) for v in np.asarray(yg, dtype=float)], got_w)
        terms.append(f"({rows_term(ids, labels, weights)}, {got})")
        meta.append({"y": [None if m else int(l) for m, l in zip(miss, lab)], "missing_label": ml, "weights_x8": weights,
                     "estimator_received_ids": got_ids, "regression": reg})
    bad, err = ctx.coq_eval_cases("fit", IMPORTS, "check_fit", terms, chunk=1000)
    if err:
        ctx.violation("wrapper_fit", "model_eval_failed", err, {}, found_input=False, what="Coq evaluation of check_fit failed")
    for i in bad[:5]:
        ctx.violation("wrapper_fit", "not_labeled_subset", "the wrapped estimator was not fitted on exactly the labeled subset (rows, order, weights)",
                      meta[i], what="Sklearn wrapper: the wrapped estimator did not receive exactly X[is_lbld], y[is_lbld], sample_weight[is_lbld]")
    if meta:
        ctx.sample(meta[len(meta) // 2])

    # ---- paired fits ----
    def learners(ml, seed):
        from sklearn.ensemble import RandomForestClassifier, RandomForestRegressor
        from sklearn.linear_model import LinearRegression, LogisticRegression, SGDClassifier
        from sklearn.naive_bayes import GaussianNB
        from sklearn.pipeline import make_pipeline
        from sklearn.preprocessing import StandardScaler
        return [
            ("ParzenWindowClassifier", lambda: ParzenWindowClassifier(classes=[0, 1], metric_dict={"gamma": 0.7}, missing_label=ml, random_state=seed), "clf", True),
            ("SklearnClassifier[GaussianNB]", lambda: SklearnClassifier(GaussianNB(), classes=[0, 1], missing_label=ml, random_state=seed), "clf", True),
            ("SklearnClassifier[LogisticRegression]", lambda: SklearnClassifier(LogisticRegression(), classes=[0, 1], missing_label=ml, random_state=seed), "clf", True),
            ("SklearnRegressor[LinearRegression]", lambda: SklearnRegressor(LinearRegression(), missing_label=ml, random_state=seed), "reg", True),
            ("SklearnRegressor[refusing]", lambda: SklearnRegressor(Refuse(), missing_label=ml, random_state=seed), "reg", False),
            ("SklearnNormalRegressor[refusing]", lambda: SklearnNormalRegressor(Refuse(), missing_label=ml, random_state=seed), "reg", False),
            ("NICKernelRegressor", lambda: NICKernelRegressor(metric_dict={"gamma": 0.7}, missing_label=ml, random_state=seed), "reg", True),
            ("SklearnClassifier[Pipeline(scaler, LogisticRegression)]", lambda: SklearnClassifier(make_pipeline(StandardScaler(), LogisticRegression()),
                                                                                            classes=[0, 1], missing_label=ml, random_state=seed), "clf", True),
            # estimators that would continue from their previous solution if the wrapper ever handed them the same object twice
            ("SklearnClassifier[SGD,warm_start]", lambda: SklearnClassifier(SGDClassifier(loss="log_loss", warm_start=True, max_iter=30, tol=None, random_state=seed),
                                                                            classes=[0, 1], missing_label=ml, random_state=seed), "clf", True),
            ("SklearnClassifier[RandomForest,warm_start]", lambda: SklearnClassifier(RandomForestClassifier(n_estimators=4, warm_start=True, random_state=seed),
                                                                                     classes=[0, 1], missing_label=ml, random_state=seed), "clf", True),
            ("SklearnRegressor[RandomForest,warm_start]", lambda: SklearnRegressor(RandomForestRegressor(n_estimators=4, warm_start=True, random_state=seed),
                                                                                   missing_label=ml, random_state=seed), "reg", True),
        ]
    M = 30 if ctx.is_quick else 300
    for h in range(M):
        ml = [NAN, -1.0, 99.0][h % 3]
        seed = int(rng.integers(0, 1000))
        for name, mk, task, weights_ok in learners(ml, seed):
            X, y, miss, lab, w8 = make_data(rng, ml, regression=(task == "reg"))
            if miss.all():
                miss[0] = False
                y[0] = lab[0]
            Xq = rng.normal(size=(4, 2)) + np.array([3.0, 0.0])
            sw = w8 / 8.0 if (weights_ok and h % 2) else None
            variants = []
            keep = ~miss
            variants.append(("labeled_subset_only", X[keep], y[keep], None if sw is None else sw[keep]))
            perm = np.concatenate([np.flatnonzero(miss)[::-1], np.flatnonzero(keep)])   # unlabeled rows moved, labeled order kept
            variants.append(("unlabeled_rows_moved", X[perm], y[perm], None if sw is None else sw[perm]))
            extra = 3
            Xe = np.vstack([X, rng.normal(size=(extra, 2))])
            ye = np.concatenate([y, np.full(extra, ml)])
            variants.append(("unlabeled_rows_added", Xe, ye, None if sw is None else np.concatenate([sw, np.full(extra, 5.0)])))
            if sw is not None:
                sw2 = sw.copy()
                sw2[miss] = 123.0
                variants.append(("unlabeled_rows_reweighted", X, y, sw2))
            try:
                ref = predict_all(mk().fit(X, y, **({} if sw is None else {"sample_weight": sw.copy()})), Xq, task)
                for vname, Xv, yv, swv in variants:
                    got = predict_all(mk().fit(Xv, yv, **({} if swv is None else {"sample_weight": swv.copy()})), Xq, task)
                    ctx.count("paired:" + name)
                    if not same(ref, got):
                        ctx.violation(name, "unlabeled_samples_matter", f"{vname}: predictions {got} vs {ref}",
                                      {"learner": name, "variant": vname, "X": X.tolist(), "y": y.tolist(), "missing_label": ml,
                                       "sample_weight": None if sw is None else sw.tolist()},
                                      what=f"{name}: {vname} changes the fitted model (missing_label={ml})")
                        break
                # reveal order, re-using the caller's weight array across fits (a fit must not alter it)
                if keep.sum() >= 2:
                    shared = None if sw is None else sw.copy()
                    skw = {} if sw is None else {"sample_weight": shared}
                    y1 = y.copy()
                    lbl_idx = np.flatnonzero(keep)
                    y1[lbl_idx[len(lbl_idx) // 2:]] = ml
                    m = mk()
                    m.fit(X, y1, **skw)                  # ONE object fitted twice: labels revealed in two steps
                    m.fit(X, y, **skw)
                    got = predict_all(m, Xq, task)
                    if not same(ref, got) or (sw is not None and not np.array_equal(shared, sw)):
                        ctx.violation(name, "reveal_order_matters", "fit(partial labels) then fit(all labels) with the same weight array differs from a single fit",
                                      {"learner": name, "X": X.tolist(), "y": y.tolist(), "missing_label": ml, "sample_weight": None if sw is None else sw.tolist(),
                                       "weights_after": None if sw is None else shared.tolist()},
                                      what=f"{name}: revealing labels in a different order (caller's sample_weight re-used) changes the fitted model / the weights were altered")
            except Exception as e:
                ctx.violation(name, "exception:" + err_class(e), repr(e)[:300], {"learner": name, "y": y.tolist(), "missing_label": ml},
                              what=f"{name}: fit/predict raised {err_class(e)}")
                continue
            if miss.any():
                ctx.nontriv(("pair", name, X.tobytes(), y.tobytes(), ml))
    # AnnotatorLogisticRegression: fully unlabeled samples are irrelevant
    for h in range(12 if ctx.is_quick else 60):
        n = int(rng.integers(5, 10))
        X = rng.normal(size=(n, 2))
        y = rng.integers(0, 2, size=(n, 2)).astype(float)
        y[rng.random((n, 2)) < 0.3] = np.nan
        y[: n // 3] = np.nan
        seed = int(rng.integers(0, 100))
        Xq = rng.normal(size=(3, 2))
        try:
            # with and without sample weights (one weight per (sample, annotator) entry)
            wkw = (lambda idx: {}) if h % 2 == 0 else (lambda idx, W=rng.integers(1, 4, size=(n, 2)).astype(float): {"sample_weight": W[idx]})
            a = AnnotatorLogisticRegression(classes=[0, 1], n_annotators=2, random_state=seed).fit(X, y, **wkw(slice(None))).predict_proba(Xq)
            keep = ~np.all(np.isnan(y), axis=1)
            b = AnnotatorLogisticRegression(classes=[0, 1], n_annotators=2, random_state=seed).fit(X[keep], y[keep], **wkw(keep)).predict_proba(Xq)
            ctx.count("paired:AnnotatorLogisticRegression")
            if not np.allclose(a, b, rtol=1e-6, atol=1e-8):
                ctx.violation("AnnotatorLogisticRegression", "unlabeled_samples_matter", f"{a.tolist()} vs {b.tolist()}",
                              {"X": X.tolist(), "y": [[None if np.isnan(v) else v for v in r] for r in y]},
                              what="AnnotatorLogisticRegression: removing fully unlabeled samples changes the fitted model")
            # "sample weights of unlabeled samples are likewise irrelevant": other weights at the MISSING (sample, annotator) entries
            # of partially labeled rows - the fitted model must not move
            W1 = rng.integers(1, 4, size=(n, 2)).astype(float)
            W2 = W1.copy()
            W2[np.isnan(y)] = rng.choice([0.0, 0.5, 7.0, 25.0], size=int(np.isnan(y).sum()))
            c1 = AnnotatorLogisticRegression(classes=[0, 1], n_annotators=2, random_state=seed).fit(X, y, sample_weight=W1).predict_proba(Xq)
            c2 = AnnotatorLogisticRegression(classes=[0, 1], n_annotators=2, random_state=seed).fit(X, y, sample_weight=W2).predict_proba(Xq)
            ctx.count("weights_of_missing_entries:AnnotatorLogisticRegression")
            if not np.allclose(c1, c2, rtol=1e-6, atol=1e-8):
                ctx.violation("AnnotatorLogisticRegression", "weights_of_unlabeled_matter", f"{c1.tolist()} vs {c2.tolist()}",
                              {"X": X.tolist(), "y": [[None if np.isnan(v) else v for v in r] for r in y], "W1": W1.tolist(), "W2": W2.tolist(), "seed": seed},
                              what="AnnotatorLogisticRegression: changing the sample weights of missing (sample, annotator) labels changes the fitted model")
        except Exception as e:
            ctx.violation("AnnotatorLogisticRegression", "exception:" + err_class(e), repr(e)[:300], {})
    ctx.extra["exhaustive"] = False


def predict_all(m, Xq, task):
    if task == "clf":
        return [np.asarray(m.predict_proba(Xq), dtype=float)]
    out = [np.asarray(m.predict(Xq), dtype=float)]
    if hasattr(m, "predict_target_distribution"):
        try:
            mu, sd = m.predict(Xq, return_std=True)
            out.append(np.asarray(sd, dtype=float))
        except Exception:
            pass
    return out


def same(a, b):
    return len(a) == len(b) and all(np.allclose(x, y, rtol=1e-9, atol=1e-12, equal_nan=True) for x, y in zip(a, b))


def replay(ctx, path):
    print(json.dumps(json.load(open(path))["case"], indent=1, default=str)[:2500])
    run(ctx)
