"""C13 -- fit is history-free and never rewrites constructor parameters.

Coq: Props/C13.v.  (a) the frame theorem over ALL estimator classes (classifiers, regressors,
budget managers, stream and pool strategies): effect table regenerated from /repo on every run,
table theorem re-checked; (c) the sliding-window model (window = last window_size samples given
since the last fit) compared with SlidingWindowClassifier's X_train_ after every call and with
what the wrapped classifier was trained on; (a)/(b) dynamically: random histories of fit /
partial_fit / predict / predict_proba / set_params on one object with different data; after each
call get_params(deep=True) and caller-owned dicts must be unchanged; a final fit must equal a
fresh clone fitted once on the same data."""
import json
import os
import warnings

import numpy as np

from .. import frame as FR
from ..core import blit, err_class, listlit, natlist, natlit
from ..snap import deep_snap, diff_keys

IMPORTS = "From V Require Import Model.SlidingWindow Harness.Run Harness.WindowCheck."
NAN = float("nan")


def learners(seed):
    from sklearn.linear_model import LinearRegression
    from sklearn.ensemble import RandomForestClassifier, RandomForestRegressor
    from sklearn.mixture import GaussianMixture
    from sklearn.naive_bayes import GaussianNB
    from skactiveml.classifier import MixtureModelClassifier, ParzenWindowClassifier, SklearnClassifier, SlidingWindowClassifier
    from skactiveml.classifier.multiannotator import AnnotatorEnsembleClassifier, AnnotatorLogisticRegression
    from skactiveml.regressor import NadarayaWatsonRegressor, NICKernelRegressor, SklearnNormalRegressor, SklearnRegressor
    from sklearn.linear_model import BayesianRidge
    cl = [0, 1]
    return [
        ("ParzenWindowClassifier[mean]", lambda: ParzenWindowClassifier(classes=cl, metric_dict={"gamma": "mean"}, random_state=seed), "clf", ("class_prior", 0.5)),
        ("ParzenWindowClassifier", lambda: ParzenWindowClassifier(classes=cl, random_state=seed), "clf", ("n_neighbors", 2)),
        ("MixtureModelClassifier[unfitted mixture]", lambda: MixtureModelClassifier(mixture_model=GaussianMixture(n_components=2, random_state=seed), classes=cl, random_state=seed), "clf", ("class_prior", 0.5)),
        ("SklearnClassifier[GaussianNB]", lambda: SklearnClassifier(GaussianNB(), classes=cl, random_state=seed), "clf", ("estimator__var_smoothing", 1e-3)),
        ("SlidingWindowClassifier[PWC mean]", lambda: SlidingWindowClassifier(ParzenWindowClassifier(classes=cl, metric_dict={"gamma": "mean"}, random_state=seed), classes=cl, window_size=6, random_state=seed), "clf", ("estimator__class_prior", 2.0)),
        ("NICKernelRegressor", lambda: NICKernelRegressor(random_state=seed), "reg", ("kappa_0", 1.0)),
        ("NadarayaWatsonRegressor", lambda: NadarayaWatsonRegressor(random_state=seed), "reg", ("metric", "rbf")),
        ("SklearnRegressor[LinearRegression]", lambda: SklearnRegressor(LinearRegression(), random_state=seed), "reg", ("estimator__fit_intercept", False)),
        ("SklearnNormalRegressor[BayesianRidge]", lambda: SklearnNormalRegressor(BayesianRidge(), random_state=seed), "reg", ("estimator__alpha_1", 1e-5)),
        ("SklearnClassifier[RandomForest,warm_start]", lambda: SklearnClassifier(RandomForestClassifier(n_estimators=4, warm_start=True, random_state=seed), classes=cl, random_state=seed), "clf", ("estimator__n_estimators", 4)),
        ("SklearnRegressor[RandomForest,warm_start]", lambda: SklearnRegressor(RandomForestRegressor(n_estimators=4, warm_start=True, random_state=seed), random_state=seed), "reg", ("estimator__n_estimators", 4)),
        # dictionary- / array- / list-valued parameters given explicitly, multi-annotator classifiers (two annotators)
        ("ParzenWindowClassifier[gamma=0.5,prior vector,cost matrix]", lambda: ParzenWindowClassifier(classes=cl, metric_dict={"gamma": 0.5}, class_prior=[0.5, 1.5],
                                                                                                 cost_matrix=np.array([[0.0, 1.0], [2.0, 0.0]]), random_state=seed), "clf", ("n_neighbors", 3)),
        ("MixtureModelClassifier[similarities]", lambda: MixtureModelClassifier(mixture_model=GaussianMixture(n_components=2, random_state=seed), weight_mode="similarities",
                                                                                 classes=cl, class_prior=[1.0, 2.0], random_state=seed), "clf", ("class_prior", 0.5)),
        ("NICKernelRegressor[gamma=0.7]", lambda: NICKernelRegressor(metric_dict={"gamma": 0.7}, random_state=seed), "reg", ("kappa_0", 1.0)),
        ("SlidingWindowClassifier[window 8 -> 3]", lambda: SlidingWindowClassifier(ParzenWindowClassifier(classes=cl, random_state=seed), classes=cl, window_size=8, random_state=seed), "clf", ("window_size", 3)),
        ("SlidingWindowClassifier[only_labeled, window 3 -> 7]", lambda: SlidingWindowClassifier(ParzenWindowClassifier(classes=cl, random_state=seed), classes=cl, window_size=3, only_labeled=True, random_state=seed), "clf", ("window_size", 7)),
        ("NICKernelRegressor[polynomial]", lambda: NICKernelRegressor(metric="polynomial", metric_dict={"degree": 2, "coef0": 1.0}, random_state=seed), "reg", ("kappa_0", 1.0)),
        ("NadarayaWatsonRegressor[laplacian]", lambda: NadarayaWatsonRegressor(metric="laplacian", metric_dict={}, random_state=seed), "reg", ("metric", "laplacian")),
        ("ParzenWindowClassifier[polynomial]", lambda: ParzenWindowClassifier(classes=cl, metric="polynomial", metric_dict={"degree": 2}, random_state=seed), "clf", ("n_neighbors", 3)),
        ("NadarayaWatsonRegressor[gamma=0.5]", lambda: NadarayaWatsonRegressor(metric_dict={"gamma": 0.5}, random_state=seed), "reg", ("metric", "rbf")),
        ("AnnotatorLogisticRegression", lambda: AnnotatorLogisticRegression(classes=cl, n_annotators=2, max_iter=5, random_state=seed), "mclf", ("weights_prior", 2)),
        ("AnnotatorLogisticRegression[solver_dict]", lambda: AnnotatorLogisticRegression(classes=cl, n_annotators=2, max_iter=5, solver_dict={"xtol": 1e-6}, random_state=seed), "mclf", ("tol", 1e-3)),
        ("AnnotatorEnsembleClassifier", lambda: AnnotatorEnsembleClassifier(estimators=[("a", ParzenWindowClassifier(metric_dict={"gamma": 0.5}, random_state=seed)),
                                                                                     ("b", ParzenWindowClassifier(random_state=seed + 1))], classes=cl, random_state=seed), "mclf", ("voting", "soft")),
    ]


def data(rng, task, scale=1.0):
    n = int(rng.integers(5, 12))
    X = rng.normal(size=(n, 2)) * scale
    if task == "mclf":               # two annotators
        y = rng.integers(0, 2, size=(n, 2)).astype(float)
        y[rng.random((n, 2)) < 0.3] = np.nan
        if np.all(np.isnan(y)):
            y[0, 0] = 0.0
        return X, y
    y = rng.integers(0, 2, size=n).astype(float) if task == "clf" else np.round(rng.normal(size=n), 1)
    y[rng.random(n) < 0.3] = np.nan
    if np.all(np.isnan(y)):
        y[0] = 0.0
    return X, y


def predict(m, Xq, task):
    if task in ("clf", "mclf"):
        return np.asarray(m.predict_proba(Xq), dtype=float)
    return np.asarray(m.predict(Xq), dtype=float)


def run(ctx):
    from sklearn.base import clone
    warnings.simplefilter("ignore")
    ctx.extra["rule"] = ("static: every method of all estimator classes; sliding window: seeded fit/partial_fit sequences, window sizes 1-5, batches of 0-4 "
                         "samples, only_labeled on/off; histories: 9 learners x seeded sequences of fit / partial_fit / predict / set_params(nested) on data of "
                         "different scale, final fit vs fresh clone; budget managers and stream strategies: get_params before/after query/update "
                         "histories; non-trivial = history with >= 2 fits on different data; distinct = (learner, history)")
    ctx.trusted += ["harness/translate/frame.py (see C05)", "deep structural snapshots (harness/snap.py)"]
    ctx.coq_props()
    table, offenders = FR.check_table(ctx, lambda e: True, "C13")
    if offenders:
        for cls, m, p, f in offenders[:10]:
            ctx.violation(cls, "param_write_static", f"{f}: {cls}.{m} may write or mutate constructor parameter '{p}'",
                          {"class": cls, "method": m, "param": p, "file": f}, found_input=False,
                          what=f"obligation C13_no_param_writes no longer checks: {cls}.{m} -> parameter {p}")
    # ---- static: fit reads no fitted attribute before (re)writing it ----
    from ..translate import history as TH
    from ..core import blit, natlit
    hrows = TH.sites()
    with open(os.path.join(ctx.build, "C13_history.v"), "w") as f:
        rows = []
        for cls, file, attr, line, kind, ok in hrows:
            note = f"{file}:{line} {cls}.fit" + (f": first access of {attr} is a {'hasattr test' if kind == 'H' else 'read'}" if attr != "-" else ": every fitted attribute is written before it is read")
            rows.append(f"({natlit(0)}, {blit(ok)})  (* {note} *)")
        f.write("From Coq Require Import List Bool.\nFrom V Require Import Model.RngProv.\nImport ListNotations.\n"
                "Definition fit_history_sites : list site := [\n  " + ";\n  ".join(rows) + "\n].\n"
                "Theorem C13_fit_reads_no_history : sites_ok fit_history_sites = true.\nProof. vm_compute. reflexivity. Qed.\n"
                "Print Assumptions C13_fit_reads_no_history.\n")
    rc, so, se = ctx.coqc(os.path.join(ctx.build, "C13_history.v"))
    okh = rc == 0 and "Closed under the global context" in so
    ctx.obligations.append({"name": f"C13_fit_reads_no_history ({len({r[0] for r in hrows})} classes with fit, regenerated from /repo)", "discharged": okh,
                            "assumptions": "Closed under the global context" if okh else (se or so)[-300:]})
    badh = [r for r in hrows if not r[5]]
    for cls, file, attr, line, kind, ok in badh[:10]:
        ctx.violation(cls, "fit_reads_history_static", f"{file}:{line}: {cls}.fit accesses the fitted attribute {attr} ({'hasattr' if kind == 'H' else 'read'}) before writing it",
                      {"class": cls, "attr": attr, "file": file, "line": line}, found_input=False,
                      what=f"obligation C13_fit_reads_no_history no longer checks: {cls}.fit reads {attr} before (re)writing it ({file}:{line})")
    if not okh and not badh:
        ctx.broken("fit_history_table", "the regenerated fit-history table theorem does not check", (se or so)[-1500:])
    ctx.extra["fit_history_reviewed"] = sorted(f"{c}.{a}[{k}]" for c, a, k in TH.REVIEWED)
    rng = ctx.rng("c13")
    # ---- sliding window ----
    from skactiveml.classifier import ParzenWindowClassifier, SlidingWindowClassifier
    terms, meta = [], []
    for h in range(120 if ctx.is_quick else 1500):
        w = int(rng.integers(1, 6))
        only_lab = bool(rng.integers(0, 2))
        sw = SlidingWindowClassifier(ParzenWindowClassifier(classes=[0, 1]), classes=[0, 1], window_size=w, only_labeled=only_lab)
        ops, nid, ok = [], 0, True
        for step in range(int(rng.integers(1, 8))):
            k = int(rng.integers(0 if step else 1, 5))
            ids = list(range(nid, nid + k))
            nid += k
            X = np.column_stack([np.array(ids, dtype=float), rng.normal(size=k)]) if k else np.zeros((0, 2))
            y = rng.integers(0, 2, size=k).astype(float)
            y[rng.random(k) < 0.3] = np.nan
            is_fit = step == 0 or rng.random() < 0.25
            try:
                (sw.fit if is_fit else sw.partial_fit)(X, y)
            except Exception as e:
                if k == 0:
                    break     # empty batches may be rejected by input validation
                ctx.violation("SlidingWindowClassifier", "exception:" + err_class(e), repr(e)[:300], {"w": w, "ops": ops})
                ok = False
                break
            kept = [i for i, v in zip(ids, y) if not (only_lab and np.isnan(v))]
            win = [int(round(r[0])) for r in np.array(sw.X_train_)] if len(sw.X_train_) else []
            trained = [int(round(v)) for v in sw.estimator_.X_[:, 0]] if hasattr(sw.estimator_, "X_") and len(sw.estimator_.X_) else []
            lab_in_win = [i for i, v in zip(win, np.array(sw.y_train_, dtype=float)) if not np.isnan(v)] if len(win) else []
            if trained != win and trained != lab_in_win:
                ctx.violation("SlidingWindowClassifier", "trained_on_other_data", f"window {win}, wrapped classifier trained on {trained}", {"w": w, "ops": ops},
                              what="SlidingWindowClassifier: the wrapped classifier was not trained on exactly the window")
            ops.append(f"(({blit(is_fit)}, {natlist(kept)}), {natlist(win)})")
        if not ok:
            continue
        ctx.count("sliding_window", len(ops))
        if nid > w:
            ctx.nontriv(("win", w, only_lab, tuple(ops)))
        terms.append(f"({natlit(w)}, {listlit(ops)})")
        meta.append({"window_size": w, "only_labeled": only_lab, "ops": ops})
    bad, err = ctx.coq_eval_cases("win", IMPORTS, "check_win", terms, chunk=600)
    if err:
        ctx.violation("SlidingWindowClassifier", "model_eval_failed", err, {}, found_input=False, what="Coq evaluation of check_win failed")
    for i in bad[:5]:
        ctx.violation("SlidingWindowClassifier", "window_mismatch", "X_train_ after some call is not the last window_size samples given since the last fit", meta[i],
                      what="SlidingWindowClassifier: the training window differs from Model/SlidingWindow.v")
    if meta:
        ctx.sample(meta[len(meta) // 2])
    sliding_window_varying(ctx, rng)
    # ---- histories ----
    for h in range(30 if ctx.is_quick else 240):
        seed = int(rng.integers(0, 1000))
        for name, mk, task, (pname, pval) in learners(seed):
            m = mk()
            caller_dicts = {k: v for k, v in m.get_params(deep=True).items() if isinstance(v, (dict, list, np.ndarray))}
            dict_snap = {k: deep_snap(v) for k, v in caller_dicts.items()}
            hist = []
            Xq = rng.normal(size=(4, 2))
            try:
                for step in range(int(rng.integers(2, 6))):
                    X, y = data(rng, task, scale=float(rng.choice([0.2, 1.0, 8.0])))
                    op = str(rng.choice(["fit", "fit", "partial_fit", "predict", "set_params"]))
                    before = deep_snap(m.get_params(deep=True))
                    if op == "fit" or (op in ("predict",) and step == 0):
                        m.fit(X, y)
                        op = "fit"
                    elif op == "partial_fit" and hasattr(m, "partial_fit"):
                        m.partial_fit(X, y)
                    elif op == "predict":
                        predict(m, Xq, task)
                        if task in ("clf", "mclf"):
                            m.predict(np.vstack([Xq, Xq]))      # hard predictions: ties are broken with the model's generator
                    elif op == "set_params":
                        m.set_params(**{pname: pval})
                        before = deep_snap(m.get_params(deep=True))
                    else:
                        m.fit(X, y)
                        op = "fit"
                    hist.append(op)
                    d = diff_keys(before, deep_snap(m.get_params(deep=True)))
                    dd = [k for k, v in caller_dicts.items() if deep_snap(v) != dict_snap[k] and op != "set_params"]
                    if d or dd:
                        ctx.violation(name, "param_changed", f"after {op}: get_params differs at {d[:3]}, caller-owned dicts changed: {dd}", {"learner": name, "history": hist, "seed": seed},
                                      what=f"{name}.{op} changed what get_params reports ({(d or dd)[:3]})")
                        raise StopIteration
                Xf, yf = data(rng, task, scale=float(rng.choice([0.2, 8.0])))
                cold = task in ("clf", "mclf") and h % 3 == 2
                if cold:
                    yf = np.full(np.shape(yf), np.nan)           # no labels at all: every hard prediction is a tie broken at random
                m.fit(Xf, yf)
                fresh = clone(m).fit(Xf, yf)
                a, b = predict(m, Xq, task), predict(fresh, Xq, task)
                if task in ("clf", "mclf"):
                    Xt = np.vstack([Xq] * 5)
                    ha, hb = np.asarray(m.predict(Xt)), np.asarray(fresh.predict(Xt))
                    if not np.array_equal(ha, hb):
                        ctx.violation(name, "history_leaks_into_fit", f"refit after {hist}: hard predictions {ha.tolist()}, a fresh clone {hb.tolist()}",
                                      {"learner": name, "history": hist, "seed": seed, "X": Xf.tolist(), "y": np.where(np.isnan(yf), None, yf.astype(object)).tolist(), "cold": bool(cold)},
                                      what=f"{name}: a used object refitted on the same data predicts differently from a fresh clone (tie-breaking state survived the refit; history {hist})")
                ctx.count("history:" + name)
                if hist.count("fit") >= 1:
                    ctx.nontriv((name, tuple(hist), seed))
                if not np.allclose(a, b, rtol=1e-9, atol=1e-12, equal_nan=True):
                    ctx.violation(name, "history_leaks_into_fit", f"refit after {hist} predicts {a.tolist()}, a fresh clone {b.tolist()}",
                                  {"learner": name, "history": hist, "seed": seed, "X": Xf.tolist(), "y": np.where(np.isnan(yf), None, yf.astype(object)).tolist()},
                                  what=f"{name}: fitting a used object differs from fitting a fresh clone on the same data (history {hist})")
            except StopIteration:
                continue
            except Exception as e:
                ctx.hist[f"history_exception:{name}:{err_class(e)}"] += 1
    # ---- budget managers / stream strategies: get_params stable over query/update histories ----
    from .. import stream as S
    for kind in S.ALL_KINDS:
        for h in range(2 if ctx.is_quick else 10):
            p = S.gen_params(rng, kind)
            m = S.make(p)
            before = deep_snap(m.get_params(deep=True))
            for _ in range(6):
                u = rng.random(int(rng.integers(1, 5)))
                res, _ = S.do_query(m, p, u)
                raw = m.query_by_utility(np.asarray(u)) if not S.is_strategy(kind) else m.query(np.zeros((len(u), 1)))
                S.do_update(m, p, len(u), raw)
            ctx.count("stream_params:" + kind)
            d = diff_keys(before, deep_snap(m.get_params(deep=True)))
            if d:
                ctx.violation(kind, "param_changed", f"get_params differs after query/update at {d[:3]}", {"params": p}, what=f"{kind}: query/update changed constructor parameters {d[:3]}")
    # ---- classifier-based stream strategies in every configuration of the C03 registry (explicit managers with their own / another /
    #      no budget, non-default dictionaries): get_params (with contents) stable over query / update histories ----
    from . import stream_extra as SX
    for name, fac in SX._registry().items():
        for h in range(2 if ctx.is_quick else 8):
            seed = int(rng.integers(0, 1000))
            budget = float(rng.choice([0.1, 0.3]))
            try:
                clf, Xd, yd = SX._clf(seed)
                qs = fac(seed, budget)
                before = deep_snap(qs.get_params(deep=True))
                changed = None
                for step in range(6):
                    cand = rng.integers(0, 4, size=(int(rng.integers(1, 5)), 2)).astype(float)
                    if step % 2 == 0 or step == 1:
                        idx, ut = SX._query(name, qs, cand, clf, Xd, yd)
                        d = diff_keys(before, deep_snap(qs.get_params(deep=True)))
                        if d:
                            changed = ("query", d)
                            break
                    else:
                        idx, ut = [], np.zeros(len(cand))
                    SX._update(name, qs, cand, idx, ut)
                    d = diff_keys(before, deep_snap(qs.get_params(deep=True)))
                    if d:
                        changed = ("update", d)
                        break
            except Exception as e:
                ctx.hist[f"stream_strategy_exception:{name}:{err_class(e)}"] += 1
                continue
            ctx.count("stream_strategy_params:" + name)
            if changed:
                ctx.violation(name, "param_changed", f"get_params differs after {changed[0]} at {changed[1][:3]}", {"strategy": name, "seed": seed, "budget": budget},
                              what=f"{name}.{changed[0]} changed what get_params reports ({changed[1][:3]})")
    ctx.extra["exhaustive"] = False


def sliding_window_varying(ctx, rng):
    """ONE SlidingWindowClassifier, random fit / partial_fit calls between which window_size and only_labeled are changed through
    set_params and sample weights are passed or not: after every call X_train_ / sample_weight_train_ must be Model.SlidingWindow's
    swx_step (window cut to the CURRENT window_size; weights window aligned with the window; the AttributeError of a weighted
    partial_fit after an unweighted call is predicted by the model).  Direct oracle: never more than window_size samples."""
    from skactiveml.classifier import ParzenWindowClassifier, SlidingWindowClassifier
    terms, meta = [], []
    for h in range(150 if ctx.is_quick else 2000):
        w = int(rng.integers(1, 7))
        ol = bool(rng.integers(0, 2))
        sw = SlidingWindowClassifier(ParzenWindowClassifier(classes=[0, 1]), classes=[0, 1], window_size=w, only_labeled=ol)
        ops, calls, nid = [], [], 0
        weighted_history = bool(h % 3)        # two thirds of the histories pass weights on every call (no AttributeError path)
        for step in range(int(rng.integers(2, 9))):
            if step and rng.random() < 0.35:
                w = int(rng.integers(1, 7))
                sw.set_params(window_size=w)
            if step and rng.random() < 0.15:
                ol = not ol
                sw.set_params(only_labeled=ol)
            k = int(rng.integers(1, 6))
            ids = list(range(nid, nid + k))
            nid += k
            X = np.column_stack([np.array(ids, dtype=float), rng.normal(size=k)])
            y = rng.integers(0, 2, size=k).astype(float)
            y[rng.random(k) < (0.3 if h % 5 else 1.0)] = np.nan          # every fifth history: unlabeled batches only
            is_fit = step == 0 or rng.random() < 0.2
            wt = True if weighted_history else bool(rng.random() < 0.5)
            kw = {"sample_weight": np.array(ids, dtype=float) + 1.0} if wt else {}
            call = f"(({blit(is_fit)}, {natlit(w)}, {blit(ol)}, {blit(wt)}), " + listlit([f"({natlit(i)}, {blit(not np.isnan(v))})" for i, v in zip(ids, y)]) + ")"
            calls.append({"fit": is_fit, "window_size": w, "only_labeled": ol, "weights": wt, "ids": ids, "labeled": [bool(not np.isnan(v)) for v in y]})
            try:
                (sw.fit if is_fit else sw.partial_fit)(X, y, **kw)
            except AttributeError:
                ops.append(f"({call}, None)")
                ctx.count("sliding_window_weights_after_unweighted_call_raises_predicted_by_model")
                break
            except Exception as e:
                ctx.violation("SlidingWindowClassifier", "exception:" + err_class(e), repr(e)[:300], {"calls": calls})
                ops = None
                break
            win = [int(round(r[0])) for r in np.array(sw.X_train_)] if len(sw.X_train_) else []
            swt = sw.sample_weight_train_
            wts = None if swt is None else [int(round(v)) - 1 for v in swt]
            ops.append(f"({call}, Some ({natlist(win)}, {'None' if wts is None else '(Some ' + natlist(wts) + ')'}))")
            if len(win) > w:
                ctx.violation("SlidingWindowClassifier", "window_overfull", f"window_size={w}, X_train_ holds samples {win} after {calls}", {"calls": calls, "window": win},
                              what=f"SlidingWindowClassifier: the window holds {len(win)} samples although window_size={w} (a sliding-window classifier equals a fit on exactly the last window_size samples)")
                ops = None
                break
            if wts is not None and wts != win:
                ctx.violation("SlidingWindowClassifier", "weights_misaligned", f"window {win}, weights of samples {wts}", {"calls": calls},
                              what="SlidingWindowClassifier: sample_weight_train_ does not hold the weights of the samples of the window")
                ops = None
                break
        if ops is None:
            continue
        ctx.count("sliding_window_varying", len(ops))
        if nid > w:
            ctx.nontriv(("winx", tuple(ops)))
        terms.append(listlit(ops))
        meta.append({"calls": calls})
    bad, err = ctx.coq_eval_cases("winx", IMPORTS, "check_winx", terms, chunk=500)
    if err:
        ctx.violation("SlidingWindowClassifier", "model_eval_failed", err, {}, found_input=False, what="Coq evaluation of check_winx failed")
    for i in bad[:5]:
        ctx.violation("SlidingWindowClassifier", "window_mismatch_varying", "X_train_ / sample_weight_train_ after some call differ from Model/SlidingWindow.v swx_step", meta[i], found_input=False,
                      what="correspondence Model/SlidingWindow.v (swx_step: parameters changed between calls, weights) <-> SlidingWindowClassifier no longer holds")


def replay(ctx, path):
    print(json.dumps(json.load(open(path))["case"], indent=1, default=str)[:2500])
    run(ctx)
