"""C10 -- update commits exactly what query simulated; chunking invariance.

Coq: Props/C10.v.  Tie: binary64 instance of the models against the real
objects on the same stream cut by several chunkings; the concatenated decisions
and the final state must equal the model's and (for the managers the property
names) each other.  The result of query is handed to update as returned."""
import json

import numpy as np

from .. import stream as S
from . import stream_extra as X


def chunkings(rng, n):
    out = [[1] * n, [n]]
    for size in (2, 7):
        c = [size] * (n // size)
        if n % size:
            c.append(n % size)
        out.append(c)
    c, left = [], n
    while left:
        k = int(rng.integers(1, min(left, 9) + 1))
        c.append(k)
        left -= k
    out.append(c)
    return out


def plan_chunks(utils, sizes):
    def plan(rng, mgr, p):
        pos = 0
        for k in sizes:
            yield ("q", utils[pos:pos + k])
            yield ("u",)
            pos += k
    return plan


def make_stream(rng, n):
    style = str(rng.choice(["uniform", "ones", "nan", "mixed"]))
    if style == "ones":
        return np.ones(n)
    u = rng.random(n)
    if style == "nan":
        u[rng.random(n) < 0.3] = np.nan
    if style == "mixed":
        u[rng.random(n) < 0.3] = 1.0
    return u


def run(ctx):
    ctx.extra["rule"] = ("seeded streams of 12-40 instances per manager/baseline, each cut by 5 chunkings (1, 2, 7, whole, random) on fresh "
                         "objects; query's return value is passed to update unchanged; non-trivial = stream with >=1 granted label and "
                         ">=2 different chunkings; distinct = distinct (kind, params, stream)")
    ctx.trusted += ["numpy RandomState (draw streams reproduced from the seed)"]
    ctx.assume += ["chunking invariance is claimed for Fixed/Variable/Split/Random managers, BIQF and the baseline strategies (as the property states); "
                   "RandomVariableUncertainty and DensityBasedSplit consume normal draws and are checked for update-accepts-query and model agreement only"]
    ctx.coq_props()
    from ..density import density_correspondence
    density_correspondence(ctx)
    from ..cognitive import cognitive_correspondence
    cognitive_correspondence(ctx)
    recs = []
    ns = 5 if ctx.is_quick else 60
    for kind in S.ALL_KINDS:
        for h in range(ns):
            rng = ctx.rng("c10", kind, h)
            p = S.gen_params(rng, kind)
            n = int(rng.integers(12, 41))
            utils = make_stream(rng, n)
            results = []
            for sizes in chunkings(rng, n):
                rec = S.run_history(p, plan_chunks(utils, sizes), rng, ndraws=2 * n + 10)
                recs.append(rec)
                ctx.count(kind, len(rec.ops))
                for kd, msg, data in rec.problems:
                    ctx.violation(kind, kd, msg, {"params": p, "chunking": sizes, "utils": [float(x).hex() for x in utils], "data": data}, what=msg)
                if rec.problems:
                    continue
                dec, pos = [], 0
                for o in rec.ops:
                    if o["op"] == "u":
                        dec += [pos + i for i in o["idx"]]
                        pos += o["n"]
                results.append((sizes, dec, rec.ops[-1]["state"] if rec.ops else None))
            if kind in S.DETERMINISTIC and results:
                base = results[0]
                for sizes, dec, st in results[1:]:
                    if dec != base[1] or st != base[2]:
                        ctx.violation(kind, "chunking_dependent",
                                      f"chunking {sizes}: granted {dec}, state {st}; one-by-one: granted {base[1]}, state {base[2]}",
                                      {"params": p, "utils": [float(x).hex() for x in utils], "chunking": sizes},
                                      what=f"{kind}: labels granted / final state depend on how the stream is chunked")
                        break
            if results and results[0][1]:
                ctx.nontriv((kind, sorted(p.items()), [float(x).hex() for x in utils]))
            ctx.hist[kind] += 1
    S.evaluate(ctx, recs, "c10_")
    r = next(r for r in recs if r.ops and r.p["kind"] == "Variable")
    ctx.sample({"params": r.p, "chunk_sizes": [o["n"] for o in r.ops if o["op"] == "u"], "granted": [o["idx"] for o in r.ops if o["op"] == "u"]})
    biqf_chunking(ctx)
    strategy_chunking(ctx)
    X.biqf_model_correspondence(ctx, "c10")
    X.strategy_purity(ctx, report_update=True, report_purity=False)
    ctx.extra["exhaustive"] = False


def biqf_chunking(ctx):
    import skactiveml.stream.budgetmanager as bm
    for h in range(8 if ctx.is_quick else 80):
        rng = ctx.rng("biqfc", h)
        w = int(rng.choice([3, 5, 20]))
        kw = dict(w=w, w_tol=int(rng.choice([5, 50])), budget=float(rng.choice([0.1, 0.5])))
        n = int(rng.integers(10, 50))
        utils = rng.random(n)
        outs = []
        for sizes in chunkings(rng, n):
            m = bm.BalancedIncrementalQuantileFilter(**kw)
            dec, pos = [], 0
            try:
                for k in sizes:
                    u = utils[pos:pos + k]
                    r = m.query_by_utility(u)
                    rl = [int(i) for i in r]
                    if any(b <= a for a, b in zip(rl, rl[1:])) or any(i < 0 or i >= k for i in rl):
                        ctx.violation("BIQF", "indices_malformed", str(rl), {"kw": kw})
                    m.update(np.zeros((k, 1)), r, u)
                    dec += [pos + i for i in rl]
                    pos += k
            except Exception as e:
                ctx.violation("BIQF", "update_exception", repr(e), {"kw": kw, "chunking": sizes})
                break
            outs.append((sizes, dec, S.snapshot(m)))
            ctx.count("BIQF")
        for sizes, dec, st in outs[1:]:
            if dec != outs[0][1] or st != outs[0][2]:
                ctx.violation("BIQF", "chunking_dependent", f"chunking {sizes}: {dec} vs one-by-one {outs[0][1]}",
                              {"kw": kw, "utils": [float(x).hex() for x in utils], "chunking": sizes},
                              what="BalancedIncrementalQuantileFilter: decisions / state depend on the chunking")
                break
        ctx.nontriv(("biqf", h))


def strategy_chunking(ctx):
    """Strategy level: the deterministic stream strategies (with deterministic managers) on the same stream under
    several chunkings; a scripted classifier makes the utilities an exact function of the instance (no batch-size
    dependent rounding), streams are built so that the budget is exhausted inside chunks."""
    import inspect
    import warnings
    import skactiveml.stream as st
    import skactiveml.stream.budgetmanager as bm
    from skactiveml.base import SkactivemlClassifier

    class Scripted(SkactivemlClassifier):
        def __init__(self, classes=None, missing_label=np.nan, cost_matrix=None, random_state=None):
            super().__init__(classes=classes, missing_label=missing_label, cost_matrix=cost_matrix, random_state=random_state)

        def fit(self, X, y, sample_weight=None):
            self.classes_ = np.array([0, 1])
            return self

        def predict_proba(self, X):
            p = (np.floor(np.abs(np.asarray(X, dtype=float)[:, 0]) * 8) % 5) / 8.0 + 0.5      # 0.5 .. 1.0 in eighths
            return np.column_stack([p, 1 - p])

    def mgr(name, budget):
        cls = getattr(bm, name)
        kw = {"budget": budget}
        if "classes" in inspect.signature(cls.__init__).parameters:
            kw["classes"] = [0, 1]
        return cls(**kw)

    combos = [("FixedUncertainty", None), ("VariableUncertainty", None),
              ("StreamDensityBasedAL", "FixedUncertaintyBudgetManager"), ("StreamDensityBasedAL", "VariableUncertaintyBudgetManager")]
    clf = Scripted(classes=[0, 1]).fit(None, None)
    for sname, mname in combos:
        comp = sname + (f"[{mname}]" if mname else "")
        for h in range(8 if ctx.is_quick else 60):
            rng = ctx.rng("stratchunk", comp, h)
            n = int(rng.integers(20, 60))
            budget = float(rng.choice([0.1, 0.3, 0.6]))
            style = str(rng.choice(["shrinking", "grid", "normal"]))
            if style == "shrinking":       # every instance is a new nearest neighbour: the density test passes throughout
                Sx = np.cumsum(np.abs(rng.normal(size=(n, 2))), axis=0)[::-1].copy()
            elif style == "grid":
                Sx = rng.integers(0, 4, size=(n, 2)).astype(float)
            else:
                Sx = rng.normal(size=(n, 2))
            seed = int(rng.integers(0, 1000))
            outs = []
            for sizes in chunkings(rng, n):
                cls = getattr(st, sname)
                kw = {"budget": budget, "random_state": seed}
                if "classes" in inspect.signature(cls.__init__).parameters:
                    kw["classes"] = [0, 1]
                if mname:
                    kw["budget_manager"] = mgr(mname, budget)
                if sname == "StreamDensityBasedAL" and h % 2 == 1:
                    kw["window_size"] = [3, 8, 15][(h // 2) % 3]       # a sliding window that is full long before the stream ends
                qs = cls(**kw)
                dec, pos = [], 0
                try:
                    with warnings.catch_warnings():
                        warnings.simplefilter("ignore")
                        for k in sizes:
                            c = Sx[pos:pos + k]
                            idx = qs.query(c, clf=clf)
                            qs.update(c, idx)
                            dec += [pos + int(i) for i in idx]
                            pos += k
                except Exception as e:
                    ctx.violation(comp, "update_exception", repr(e)[:300], {"strategy": comp, "chunking": sizes, "seed": seed, "stream": Sx.tolist()},
                                  what=f"{comp}: query/update raised {type(e).__name__}")
                    break
                outs.append((sizes, dec, S.snapshot(qs.budget_manager_)))
                ctx.count("strategy_chunking:" + comp)
            for sizes, dec, stt in outs[1:]:
                if dec != outs[0][1] or stt != outs[0][2]:
                    ctx.violation(comp, "chunking_dependent", f"chunking {sizes}: granted {dec}; one-by-one: granted {outs[0][1]}",
                                  {"strategy": comp, "budget": budget, "seed": seed, "stream": Sx.tolist(), "chunking": sizes},
                                  what=f"{comp}: labels granted / budget-manager state depend on how the stream is chunked")
                    break
            if outs and outs[0][1]:
                ctx.nontriv(("stratchunk", comp, Sx.tobytes(), budget))


def replay(ctx, path):
    rec = json.load(open(path))
    print(json.dumps(rec["case"], indent=1, default=str)[:3000])
    run(ctx)
