"""C08 -- a sample's utility does not depend on how candidates are addressed.

Coq: Props/C08.v (index algebra: candidates=None == the unlabeled indices; utilities are scattered
to the sample's own position, so restricting the candidate set leaves the remaining utilities
unchanged; Quire's row position).  Tie: paired runs on the implementation (the model predicts
'equal'): for every registry strategy candidates=None vs all unlabeled indices (any order) vs, where
supported, their feature rows - same first-step utilities for the same samples and the same selection
whenever the best candidate is unique; for the strategies that score samples independently random
candidate subsets (restriction) and row permutations of (X, y) (equivariance)."""
import json
import warnings

import numpy as np

from .. import pool as PL
from .. import poolreg as R
from ..core import err_class, pmap


def _job(job):
    warnings.simplefilter("ignore")
    eidx, seed_tuple = job
    E = PL._entries()[eidx]
    rng = np.random.default_rng(list(seed_tuple))
    n = int(rng.integers(7, 12))
    X = rng.normal(size=(n, 2)) + np.arange(n)[:, None] * 0.05       # distinct rows: no ties, sample identity recoverable
    big = (seed_tuple[2] % 4 == 2) and not E.slow
    if big:          # a tutorial-sized pool: three blobs, few labels (coverage / cluster structure is only partial there)
        n = int(rng.integers(30, 50))
        X = rng.normal(size=(n, 2)) + np.array([[-4.0, 0.0], [4.0, 0.0], [0.0, 5.0]])[rng.integers(0, 3, size=n)]
    if seed_tuple[2] % 4 == 1:
        # re-measured points: the second half of the pool repeats the first half up to measurement noise of 1e-7, so runner-ups lie
        # within 1e-7 (relative) of the best utility without being exact ties
        m = n // 2
        X[m:2 * m] = X[:m] * (1 + 1e-7 * rng.normal(size=(m, 2)))
    classes = [0, 1] if E.binary else [0, 1, 2]
    y = rng.integers(0, len(classes), size=n).astype(float) if E.task == "clf" else np.round(rng.normal(size=n), 1)
    lab = rng.random(n) < (0.04 if big else 0.5)          # big pools: one or two labels, most of the pool is not covered yet
    if lab.all():
        lab[:2] = False
    cold = (seed_tuple[2] % 4 == 3)          # cold start: nothing labeled yet
    if cold:
        lab[:] = False
    elif (~lab).all():
        lab[:2] = True
    if E.task == "clf":
        y[np.flatnonzero(lab)[: len(classes)]] = np.arange(len(classes))[: int(lab.sum())][: len(classes)] if lab.sum() >= len(classes) else y[np.flatnonzero(lab)[: len(classes)]]
    y[~lab] = np.nan
    unl = np.flatnonzero(~lab)
    seed = int(rng.integers(0, 1000))
    out = {"name": E.name, "X": X.tolist(), "y": [None if np.isnan(v) else v for v in y], "seed": seed, "problems": [], "did": []}

    def q(Xa, ya, cand):
        np.random.seed(0)
        qs = E.make(classes, seed)
        idx, ut = qs.query(X=Xa.copy(), y=ya.copy(), candidates=cand, batch_size=1, return_utilities=True, **E.kw(classes, seed))
        return int(np.asarray(idx).ravel()[0]), np.asarray(ut, dtype=float)[0]

    def close(a, b):
        # re-measured points: distances between near-duplicates (~1e-7) come out of sklearn's x.x - 2x.y + y.y with an absolute
        # cancellation error of ~1e-8 that depends on the row order (third-party numerics)
        return np.allclose(a, b, rtol=1e-7, atol=1e-6 if seed_tuple[2] % 4 == 1 else 1e-9, equal_nan=True)
    try:
        i0, u0 = q(X, y, None)
    except Exception as e:
        out["problems"].append(("exception_base", repr(e)[:150]))
        return out
    # (the sub-sampling wrapper is NOT exempt from representation equivalence: for the same seed it draws the same positions of the
    #  sorted candidate list whichever way the candidates are addressed - only restriction / permutation change the sub-sample)
    # (1) representation equivalence
    try:
        perm = rng.permutation(unl)
        i1, u1 = q(X, y, perm)
        out["did"].append("indices")
        if not close(u0, u1):
            out["problems"].append(("none_vs_indices", f"max diff {np.nanmax(np.abs(u0 - u1)):.3g}"))
        elif (unique_best(u0) or strict_best(u0, u1)) and i0 != i1:
            out["problems"].append(("none_vs_indices_selection", f"{i0} vs {i1}"))
    except Exception as e:
        out["problems"].append(("exception_indices", repr(e)[:150]))
    if E.feat:
        try:
            i2, u2 = q(X, y, X[unl])
            out["did"].append("rows")
            if not close(u0[unl], u2):
                out["problems"].append(("none_vs_rows", f"max diff {np.nanmax(np.abs(u0[unl] - u2)):.3g}"))
            elif (unique_best(u0) or strict_best(u0[unl], u2)) and unl[i2] != i0:
                out["problems"].append(("none_vs_rows_selection", f"{i0} vs row {i2} (= sample {unl[i2]})"))
        except Exception as e:
            if err_class(e) != "MappingError":
                out["problems"].append(("exception_rows", repr(e)[:150]))
    # (1b) the same three addressings on ONE strategy object that has already answered another call (a batch of two): whatever a strategy
    #      keeps between calls must not make the addressing matter
    if seed_tuple[2] % 2 == 0:
        try:
            qs = E.make(classes, seed)

            def qr(cand, bs=1):
                np.random.seed(0)
                idx, ut = qs.query(X=X.copy(), y=y.copy(), candidates=cand, batch_size=bs, return_utilities=True, **E.kw(classes, seed))
                return int(np.asarray(idx).ravel()[0]), np.asarray(ut, dtype=float)[0]
            if not E.max_bs and seed_tuple[2] % 4 == 0:
                qr(np.sort(unl)[: max(1, len(unl) // 2)].copy(), bs=2)       # warm-up: a strict subset, two picks (every other time)
            bsr = 1 if E.max_bs else 2          # batches of two: the second pick of a call must not leak into the next call either
            j0, v0 = qr(None, bs=bsr)
            j1, v1 = qr(np.sort(unl).copy(), bs=bsr)
            out["did"].append("reused_object")
            if not close(v0, v1):
                out["problems"].append(("none_vs_indices_reused_object", f"max diff {np.nanmax(np.abs(v0 - v1)):.3g} on an object that answered another call before"))
            elif E.feat:
                j2, v2 = qr(X[np.sort(unl)].copy(), bs=bsr)
                if not close(v0[np.sort(unl)], v2):
                    out["problems"].append(("none_vs_rows_reused_object", f"max diff {np.nanmax(np.abs(v0[np.sort(unl)] - v2)):.3g} on an object that answered another call before"))
        except Exception as e:
            # short / empty batches and the k-means failure of RegressionTreeBasedAL are recorded C01 findings, not addressing matters
            if err_class(e) != "MappingError" and not E.base.startswith("RegressionTreeBasedAL"):
                out["problems"].append(("exception_reused_object", repr(e)[:150]))
    # (2) restriction and (3) permutation, for strategies that score samples independently
    if E.samplewise and not E.setdep and not E.stochastic:
        try:
            k = int(rng.integers(1, len(unl) + 1))
            sub = np.sort(rng.choice(unl, size=k, replace=False))
            _, us = q(X, y, sub)
            out["did"].append("restriction")
            if not close(u0[sub], us[sub]) or not np.all(np.isnan(np.delete(us, sub))):
                out["problems"].append(("restriction", f"candidates {sub.tolist()}: {us[sub].tolist()} vs {u0[sub].tolist()}"))
        except Exception as e:
            out["problems"].append(("exception_restriction", repr(e)[:150]))
        if E.feat:
            # restriction in the feature-row addressing: the rows of a SUBSET of the unlabeled samples get the utilities the
            # same samples have under candidates=None (sample-wise scoring x representation equivalence)
            try:
                k2 = int(rng.integers(1, len(unl) + 1))
                sub2 = np.sort(rng.choice(unl, size=k2, replace=False))
                _, ur = q(X, y, X[sub2])
                out["did"].append("restriction_rows")
                if not close(u0[sub2], ur):
                    out["problems"].append(("restriction_rows", f"rows of samples {sub2.tolist()}: {ur.tolist()} vs {u0[sub2].tolist()} under candidates=None"))
            except Exception as e:
                if err_class(e) != "MappingError":
                    out["problems"].append(("exception_restriction_rows", repr(e)[:150]))
        try:
            p = rng.permutation(n)
            _, up = q(X[p], y[p], None)
            out["did"].append("permutation")
            if not close(up, u0[p]):
                out["problems"].append(("permutation", f"max diff {np.nanmax(np.abs(up - u0[p])):.3g}"))
        except Exception as e:
            out["problems"].append(("exception_permutation", repr(e)[:150]))
    return out


def strict_best(ua, ub):
    """both addressings report bit-identical utilities whose maximum is attained exactly once: however small the margin, the
    selection is determined"""
    if ua.shape != ub.shape or not np.array_equal(ua, ub, equal_nan=True):
        return False
    v = ua[~np.isnan(ua)]
    return len(v) > 0 and int(np.sum(v == v.max())) == 1


def unique_best(u):
    v = u[~np.isnan(u)]
    if len(v) == 0:
        return False
    top = np.sort(v)[::-1]
    return len(top) == 1 or (top[0] - top[1]) > 1e-6 * max(1.0, abs(top[0]))


# strategies whose scores depend on numpy's global generator (recorded C06 findings) are run under a fixed
# np.random.seed inside the job, so paired calls see the same global state.
def run(ctx):
    warnings.simplefilter("ignore")
    ctx.extra["rule"] = ("every registry configuration x seeded data (distinct rows, no ties): None vs permuted unlabeled indices vs feature rows; for the "
                         "sample-wise strategies additionally random candidate subsets and random row permutations; utilities compared with rtol 1e-7 "
                         "(different summation orders are legitimate), NaN patterns exactly; non-trivial = >= 3 unlabeled samples; distinct = (strategy, data)")
    ctx.trusted += ["numeric equality of scores across representations is validated on runs (tolerance 1e-7), not proved"]
    ctx.assume += ["cluster- and coverage-based strategies (TypiClust, ProbCover, Clue, DropQuery, Badge, Falcun, FourDs, BatchBALD, RegressionTreeBasedAL, "
                   "DiscriminativeAL without greedy selection, SubSamplingWrapper) and strategies whose scores are bootstrap / Monte-Carlo / random-embedding "
                   "estimates consuming draws in row order (ExpectedModelChangeMaximization, KLDivergenceMaximization[monte_carlo], CostEmbeddingAL) are exempt from restriction / permutation, as the property's quantifier says"]
    ctx.coq_props()
    entries = PL._entries()
    jobs = [(ei, (ctx.seed, ei, h, 808)) for ei, E in enumerate(entries) for h in range((3 if E.slow else 8) if ctx.is_quick else (6 if E.slow else 40))]
    for out in pmap(_job, jobs, chunksize=2):
        ctx.count(out["name"], max(1, len(out["did"])))
        for d in out["did"]:
            ctx.hist[d] += 1
        if sum(v is None for v in out["y"]) >= 3:
            ctx.nontriv((out["name"], repr(out["X"]), repr(out["y"]), out["seed"]))
        for kind, msg in out["problems"]:
            if kind.startswith("exception_base"):
                ctx.hist["query_exception(not C08)"] += 1
                continue
            ctx.violation(out["name"], kind, msg, {k: out[k] for k in ("name", "X", "y", "seed")},
                          what=f"{out['name']}: {kind.replace('_', ' ')} ({msg})")
    ctx.sample({"checks": ["None vs unlabeled indices (permuted)", "None vs feature rows", "restriction", "row permutation"]})
    ctx.extra["exhaustive"] = False


def replay(ctx, path):
    print(json.dumps(json.load(open(path))["case"], indent=1, default=str)[:2500])
    run(ctx)
