"""C07 -- multi-annotator query returns distinct, available sample-annotator pairs.

Coq: Props/C07.v.  Tie: (i) exhaustive small-scope functional correspondence of
_validate_data / _transform_cand_annot (availability matrix, clipped batch size)
and of _n_to_assign_annotators (incl. non-termination, under a timeout) with
Model/MultiAnnot.v; (ii) trace validation of SingleAnnotatorWrapper around
single-annotator strategies and of IntervalEstimationThreshold with the Gallina
acceptor accepts_pairs; the statement's oracle runs on every returned value."""
import itertools
import json
import warnings

import numpy as np

from ..core import (CaseTimeout, blit, err_class, fkey, listlit, natlist, natlit, pmap, rank_keys, vlist, with_timeout)

IMPORTS = ("From V Require Import Base.OptOrder Model.Sel Model.PoolQuery Model.MultiAnnot Harness.Run Harness.PoolCheck Harness.MultiCheck.")
NAN = float("nan")


def boolmat(m):
    return listlit([listlit([blit(bool(b)) for b in r]) for r in m])


def _wrapper(seed=0):
    from skactiveml.pool import RandomSampling
    from skactiveml.pool.multiannotator import SingleAnnotatorWrapper
    return SingleAnnotatorWrapper(RandomSampling(random_state=seed), random_state=seed)


def cand_annot_terms(cmode, cand, amode, annot):
    ck = {"none": 0, "idx": 1, "feat": 2}[cmode]
    cl = natlist([int(i) for i in cand]) if cmode == "idx" else "[]"
    cm = natlit(len(cand)) if cmode == "feat" else natlit(0)
    ak = {"none": 0, "idx": 1, "mat": 2}[amode]
    al = natlist([int(i) for i in annot]) if amode == "idx" else "[]"
    am = boolmat(annot) if amode == "mat" else "[]"
    return natlit(ck), cl, cm, natlit(ak), al, am


def gen_modes(rng, n, na, exhaustive_idx=None):
    """all 9 (candidates x annotators) ways for a pool of n samples and na annotators."""
    for cmode in ("none", "idx", "feat"):
        if cmode == "none":
            cand, nrows = None, n
        elif cmode == "idx":
            k = int(rng.integers(1, n + 1))
            cand = rng.choice(n, size=k, replace=False)
            if rng.random() < 0.5:
                cand = np.sort(cand)
            nrows = k
        else:
            nrows = int(rng.integers(1, 4))
            cand = rng.integers(0, 3, size=(nrows, 2)).astype(float)
        for amode in ("none", "idx", "mat"):
            if amode == "none":
                annot = None
            elif amode == "idx":
                annot = rng.choice(na, size=int(rng.integers(1, na + 1)), replace=False)
            else:
                annot = rng.random((nrows, na)) < 0.6
            yield cmode, cand, amode, annot


def helper_cases(ctx):
    """_validate_data + _transform_cand_annot against ma_rows / ma_avail / expected_pairs."""
    rng = ctx.rng("helpers")
    terms, meta = [], []
    shapes = [(1, 1), (1, 2), (2, 1), (2, 2), (3, 2), (2, 3)] + ([(3, 3)] if not ctx.is_quick else [])
    for n, na in shapes:
        pats = list(itertools.product([False, True], repeat=n * na))
        if len(pats) > 64:
            pats = [pats[i] for i in rng.choice(len(pats), size=64, replace=False)]
        for pat in pats:
            miss = np.array(pat).reshape(n, na)
            y = np.where(miss, np.nan, 1.0)
            X = rng.integers(0, 3, size=(n, 2)).astype(float)
            for cmode, cand, amode, annot in gen_modes(rng, n, na):
                bs = int(rng.integers(1, n * na + 3))
                qs = _wrapper()
                try:
                    with warnings.catch_warnings():
                        warnings.simplefilter("ignore")
                        Xv, yv, cv, av, bsv, _ = qs._validate_data(X, y, cand, annot, bs, False)
                        Xc, mapping, A = qs._transform_cand_annot(cv, av, Xv, yv)
                except Exception as e:
                    ctx.violation("_transform_cand_annot", "exception:" + err_class(e), repr(e),
                                  {"missing": miss.tolist(), "cmode": cmode, "cand": None if cand is None else np.asarray(cand).tolist(),
                                   "amode": amode, "annot": None if annot is None else np.asarray(annot).tolist(), "bs": bs},
                                  what=f"_validate_data/_transform_cand_annot raised {err_class(e)} for a documented way of giving candidates x annotators")
                    continue
                A = np.asarray(A)
                if A.dtype != bool:
                    ctx.violation("_transform_cand_annot", "mask_dtype", f"availability mask has dtype {A.dtype}",
                                  {"missing": miss.tolist(), "cmode": cmode, "amode": amode}, what="availability mask is not boolean")
                    continue
                rows = [int(i) for i in mapping] if mapping is not None else list(range(len(Xc)))
                ck, cl, cm, ak, al, am = cand_annot_terms(cmode, cand, amode, annot)
                terms.append(f"({boolmat(miss)}, {ck}, {cl}, {cm}, {ak}, {al}, {am}, {natlit(bs)}, {natlist(rows)}, {boolmat(A)}, {natlit(bsv)})")
                meta.append((miss.tolist(), cmode, None if cand is None else np.asarray(cand).tolist(), amode,
                             None if annot is None else np.asarray(annot).tolist(), bs))
                ctx.count("_transform_cand_annot")
                if miss.any() and not miss.all():
                    ctx.nontriv(("avail", miss.tobytes(), cmode, amode, bs, repr(meta[-1][2]), repr(meta[-1][4])))
    return terms, meta


def _assign(args):
    from skactiveml.pool.multiannotator import SingleAnnotatorWrapper
    bs, A, s_idx, pref = args
    try:
        r = with_timeout(lambda: SingleAnnotatorWrapper._n_to_assign_annotators(bs, np.array(A, dtype=bool), np.array(s_idx, dtype=int), np.array(pref, dtype=float)), 1.0)
        return [int(x) for x in r]
    except CaseTimeout:
        return None
    except Exception as e:
        return "exc:" + err_class(e)


def assign_cases(ctx):
    rng = ctx.rng("assign")
    jobs = []
    for _ in range(120 if ctx.is_quick else 1500):
        n, na = int(rng.integers(1, 5)), int(rng.integers(1, 4))
        A = rng.random((n, na)) < rng.choice([0.4, 0.8, 1.0])
        ns = int(rng.integers(1, n + 1))
        s_idx = rng.choice(n, size=ns, replace=False)
        pref = rng.integers(1, na + 2, size=ns)
        bs = int(rng.integers(1, int(A.sum()) + 2))
        jobs.append((bs, A.tolist(), s_idx.tolist(), pref.tolist()))
    res = pmap(_assign, jobs, chunksize=8)
    terms, meta = [], []
    for (bs, A, s_idx, pref), r in zip(jobs, res):
        nmax = [int(sum(A[i])) for i in s_idx]
        ctx.count("_n_to_assign_annotators")
        if isinstance(r, str):
            ctx.violation("_n_to_assign_annotators", "exception", r, {"bs": bs, "A": A, "s_indices": s_idx, "pref": pref})
            continue
        if r is None:
            ctx.hist["n_to_assign_no_return_within_1s"] += 1   # compared with the model's None (no fuel suffices) below
        terms.append(f"({natlit(bs)}, {natlist(nmax)}, {natlist(pref)}, {'None' if r is None else '(Some ' + natlist(r) + ')'})")
        meta.append((bs, A, s_idx, pref, r))
        if r is not None and sum(r) >= 2:
            ctx.nontriv(("assign", bs, repr(A), repr(s_idx), repr(pref)))
    return terms, meta


# ------------------------------------------------------------ full queries --
def _strategies():
    from skactiveml.classifier import ParzenWindowClassifier
    from skactiveml.pool import CoreSet, RandomSampling, UncertaintySampling
    from skactiveml.pool.multiannotator import IntervalEstimationThreshold, SingleAnnotatorWrapper
    clf = lambda s: ParzenWindowClassifier(classes=[0, 1], random_state=s)
    return [
        ("SAW[RandomSampling]", lambda s: SingleAnnotatorWrapper(RandomSampling(random_state=s), random_state=s), lambda s: {}, True),
        ("SAW[UncertaintySampling]", lambda s: SingleAnnotatorWrapper(UncertaintySampling(random_state=s), random_state=s), lambda s: {"clf": clf(s)}, True),
        ("SAW[ProbabilisticAL]", lambda s: SingleAnnotatorWrapper(__import__("skactiveml.pool", fromlist=["x"]).ProbabilisticAL(random_state=s), random_state=s), lambda s: {"clf": clf(s)}, True),
        ("IntervalEstimationThreshold", lambda s: IntervalEstimationThreshold(random_state=s), "iet", False),
    ]


def make_q(seed_tuple, sidx):
    rng = np.random.default_rng(list(seed_tuple))
    n, na = int(rng.integers(2, 6)), int(rng.integers(1, 4))
    X = rng.integers(0, 3, size=(n, 2)).astype(float)
    y = rng.integers(0, 2, size=(n, na)).astype(float)
    y[rng.random((n, na)) < rng.choice([0.3, 0.6, 1.0])] = np.nan
    modes = list(gen_modes(rng, n, na))
    cmode, cand, amode, annot = modes[int(rng.integers(len(modes)))]
    if rng.random() < 0.3:       # the combination with two cooperating sites (sorted indices x matrix rows): index candidates in caller order x boolean matrix
        cmode, cand, amode, annot = [m for m in modes if m[0] == "idx" and m[2] == "mat"][0]
        cand = rng.permutation(np.asarray(cand))
    navail = None
    bs = int(rng.choice([1, 2, 3, n * na, n * na + 3]))
    napp = int(rng.choice([1, 1, 2, na]))
    return {"sidx": sidx, "X": X, "y": y, "cmode": cmode, "cand": cand, "amode": amode, "annot": annot, "bs": bs,
            "napp": napp, "seed": int(rng.integers(0, 1000))}


def _run_q(q):
    warnings.simplefilter("ignore")
    name, mk, kw, is_saw = _strategies()[q["sidx"]]
    out = {"status": "ok"}

    def go():
        qs = mk(q["seed"])
        extra = {"n_annotators_per_sample": q["napp"]} if is_saw else {}
        if kw == "iet":
            from skactiveml.classifier import ParzenWindowClassifier
            from skactiveml.classifier.multiannotator import AnnotatorEnsembleClassifier
            na = q["y"].shape[1]
            ens = AnnotatorEnsembleClassifier(estimators=[(f"c{i}", ParzenWindowClassifier(classes=[0, 1], random_state=q["seed"])) for i in range(na)],
                                              classes=[0, 1], random_state=q["seed"])
            kwf = lambda s_: {"clf": ens}
        else:
            kwf = kw
        annot = None if q["annot"] is None else np.array(q["annot"]).copy()
        if annot is not None and annot.dtype == bool and annot.ndim == 2:
            # an availability matrix is "bool-like": the same 0/1 matrix as integers or floats means the same pairs
            annot = annot.astype([bool, int, float, np.int8][q["seed"] % 4])
        return qs.query(X=q["X"].copy(), y=q["y"].copy(), candidates=None if q["cand"] is None else np.array(q["cand"]).copy(),
                        annotators=annot, batch_size=q["bs"],
                        return_utilities=True, **extra, **kwf(q["seed"]))
    try:
        idx, ut = with_timeout(go, 5.0)
        out["idx"], out["ut"] = np.asarray(idx), np.asarray(ut, dtype=float)
        # availability as the harness defines it from the documentation (row space of the utilities)
    except CaseTimeout:
        out["status"] = "timeout"
    except Exception as e:
        out["status"] = "exception"
        out["err"] = err_class(e)
        out["msg"] = f"{type(e).__name__}: {e}"[:300]
    return out


def availability(q):
    """Documented availability in the row space of the returned utilities, and number of columns."""
    y, n, na = q["y"], len(q["y"]), q["y"].shape[1]
    nrows = len(q["cand"]) if q["cmode"] == "feat" else n
    A = np.zeros((nrows, na), dtype=bool)
    if q["cmode"] == "none":
        rows = list(range(n))
    elif q["cmode"] == "idx":
        rows = sorted({int(i) for i in q["cand"]})
    else:
        rows = list(range(nrows))
    for r_i, r in enumerate(rows):
        if q["amode"] == "none":
            A[r] = np.isnan(y[r]) if q["cmode"] == "none" else True
        elif q["amode"] == "idx":
            A[r, [int(a) for a in q["annot"]]] = True
        else:
            # boolean matrix: one row per candidate *as given* (documented), i.e. row of the r-th given candidate
            if q["cmode"] == "idx":
                given = [int(i) for i in q["cand"]]
                A[r] = np.asarray(q["annot"])[given.index(r)]
            else:
                A[r] = np.asarray(q["annot"])[r_i]
    return A


def oracle(q, out, A):
    if out["status"] == "timeout":
        return "timeout", "query did not return within 5 s"
    if out["status"] == "exception":
        return "exception:" + out["err"], "query raised " + out["msg"]
    idx, ut = out["idx"], out["ut"]
    k = min(q["bs"], int(A.sum()))
    if idx.ndim != 2 or idx.shape[1] != 2 or not np.issubdtype(idx.dtype, np.integer):
        return "shape", f"query_indices has shape {idx.shape} / dtype {idx.dtype}"
    pairs = [(int(a), int(b)) for a, b in idx]
    if len(set(pairs)) != len(pairs):
        return "duplicate_pair", f"pairs {pairs} are not pairwise distinct"
    bad = [p for p in pairs if not (0 <= p[0] < A.shape[0] and 0 <= p[1] < A.shape[1] and A[p])]
    if bad:
        return "unavailable_pair", f"pairs {bad} are not available"
    if len(pairs) != k:
        return "batch_length", f"{len(pairs)} pairs returned, expected min(batch_size={q['bs']}, available={int(A.sum())}) = {k}"
    if ut.shape != (len(pairs),) + A.shape:
        return "utilities_shape", f"utilities shape {ut.shape}, expected {(len(pairs),) + A.shape}"
    for s, p in enumerate(pairs):
        sl = ut[s]
        if np.any(~np.isnan(sl[~A])):
            return "nan_unavailable", f"step {s}: a number at an unavailable pair"
        for e in pairs[:s]:
            if not np.isnan(sl[e]):
                return "nan_selected", f"step {s}: pair {e} selected earlier is not NaN"
        if np.isnan(sl[p]) or sl[p] != np.nanmax(sl):
            return "pick_not_max", f"step {s}: selected pair {p} has utility {sl[p]}, slice maximum {np.nanmax(sl)}"
    return None


def run(ctx):
    ctx.extra["rule"] = ("(i) exhaustive missing patterns for pools up to 3x2 / 2x3 (3x3 thorough) x the 9 ways of giving candidates x annotators x "
                         "batch sizes for the availability helpers; (ii) seeded cases for _n_to_assign_annotators under a 1 s timeout; (iii) seeded "
                         "queries of SingleAnnotatorWrapper around RandomSampling / UncertaintySampling / CoreSet and of IntervalEstimationThreshold; "
                         "non-trivial = mixed missing pattern resp. >= 2 pairs; distinct = full input")
    ctx.trusted += ["utility values are oracle inputs; rankdata / rand_argmax noise are on the implementation side"]
    ctx.assume += ["acceptor is one-directional on NaN (unavailable / earlier picks => NaN), as C07 states it",
                   "a boolean annotators matrix has one row per candidate in the order the candidates are given"]
    ctx.coq_props()
    terms, meta = helper_cases(ctx)
    bad, err = ctx.coq_eval_cases("avail", IMPORTS, "check_avail", terms, chunk=800)
    if err:
        ctx.violation("avail", "model_eval_failed", err, {}, found_input=False, what="Coq evaluation of check_avail failed")
    for i in bad[:5]:
        ctx.violation("_transform_cand_annot", "model_mismatch", "availability / clipped batch size differ from Model/MultiAnnot.v",
                      {"case": repr(meta[i])}, found_input=False,
                      what="correspondence ma_rows/ma_avail/expected_pairs <-> _validate_data/_transform_cand_annot no longer holds")
    terms, meta = assign_cases(ctx)
    bad, err = ctx.coq_eval_cases("assign", IMPORTS, "check_assign", terms, chunk=800)
    if err:
        ctx.violation("assign", "model_eval_failed", err, {}, found_input=False, what="Coq evaluation of check_assign failed")
    for i in bad[:5]:
        ctx.violation("_n_to_assign_annotators", "model_mismatch", "result differs from Model/MultiAnnot.v n_to_assign",
                      {"case": repr(meta[i])}, found_input=False, what="correspondence n_to_assign <-> _n_to_assign_annotators no longer holds")
    # full queries
    strategies = _strategies()
    qs_cases = [make_q((ctx.seed, si, h, 77), si) for si in range(len(strategies)) for h in range(40 if ctx.is_quick else 500)]
    outs = pmap(_run_q, qs_cases, chunksize=4)
    tterms, tmeta = [], []
    for q, out in zip(qs_cases, outs):
        name = strategies[q["sidx"]][0]
        A = availability(q)
        if A.sum() == 0:
            continue          # no available pair at all: nothing to select (outside the statement)
        ctx.count(name)
        ctx.hist[f"{q['cmode']}x{q['amode']}"] += 1
        if min(q["bs"], int(A.sum())) >= 2:
            ctx.nontriv((name, q["X"].tobytes(), q["y"].tobytes(), q["cmode"], q["amode"], q["bs"], q["seed"]))
        rc = {"strategy": name, "X": q["X"].tolist(), "y": [[None if np.isnan(v) else v for v in r] for r in q["y"]],
              "cmode": q["cmode"], "candidates": None if q["cand"] is None else np.asarray(q["cand"]).tolist(),
              "amode": q["amode"], "annotators": None if q["annot"] is None else np.asarray(q["annot"]).tolist(),
              "batch_size": q["bs"], "n_annotators_per_sample": q["napp"], "seed": q["seed"]}
        res = oracle(q, out, A)
        if res:
            tags = set()
            if (A.sum(axis=1) == 0).any() and q["amode"] == "mat":
                tags.add("matrix_row_without_annotator")
            if q["cmode"] == "idx" and q["amode"] == "mat" and list(q["cand"]) != sorted(q["cand"]):
                tags.add("unsorted_candidates_with_matrix")
            if res[0] == "unavailable_pair" and out.get("idx") is not None:
                # the recorded finding explains only unavailable pairs inside a row that offers no annotator at all
                badp = [(int(a), int(b)) for a, b in out["idx"] if not (0 <= a < A.shape[0] and 0 <= b < A.shape[1] and A[a, b])]
                if badp and all(0 <= a < A.shape[0] and A[a].sum() == 0 for a, _ in badp):
                    tags.add("unavailable_pair_in_row_without_annotator")
            rc["tags"] = sorted(tags)
            ctx.violation(name, res[0], res[1], rc, what=f"{name}: {res[1]}", tags=tags)
            continue
        pairs = [(int(a), int(b)) for a, b in out["idx"]]
        ut = out["ut"]
        allk = rank_keys([fkey(x) for x in ut.ravel()])
        nr, na = A.shape
        steps = []
        for s, p in enumerate(pairs):
            base = s * nr * na
            sl = [allk[base + r * na: base + (r + 1) * na] for r in range(nr)]
            steps.append(f"(({natlit(p[0])}, {natlit(p[1])}), {listlit([vlist(r) for r in sl])})")
        tterms.append(f"({boolmat(A)}, {natlit(na)}, {natlit(len(pairs))}, {listlit(steps)})")
        tmeta.append(rc)
    bad, err = ctx.coq_eval_cases("pairs", IMPORTS, "check_pairs", tterms, chunk=300)
    if err:
        ctx.violation("pairs", "model_eval_failed", err, {}, found_input=False, what="Coq evaluation of check_pairs failed")
    for i in bad[:5]:
        ctx.violation(tmeta[i]["strategy"], "trace_rejected", "the Gallina acceptor rejects a trace the direct oracle accepts", tmeta[i],
                      found_input=False, what="correspondence accepts_pairs <-> direct C07 oracle no longer holds")
    if tmeta:
        ctx.sample(tmeta[len(tmeta) // 2])
    saw_counts(ctx)
    ctx.extra["exhaustive"] = False


def replay(ctx, path):
    rec = json.load(open(path))
    print(json.dumps(rec["case"], indent=1, default=str)[:2500])
    run(ctx)


def saw_counts(ctx):
    """'a requested number of annotators per sample is respected whenever enough annotators are available': SingleAnnotatorWrapper with
    n_annotators_per_sample as an int or as an ARRAY (entry i = preferred number for the i-th ranked sample, the last entry for all later
    ones - documented).  The wrapped strategy's ranking is recorded; the number of annotators per ranked sample must equal the
    documented assignment (preferred number clipped to the available annotators, raised evenly while the batch is not full, cut at the
    batch size)."""
    from skactiveml.pool.multiannotator import SingleAnnotatorWrapper
    from skactiveml.classifier import ParzenWindowClassifier
    from . import c20
    Rec = c20._rec_cls()
    rng = ctx.rng("sawcounts")
    for h in range(150 if ctx.is_quick else 1500):
        n, na = int(rng.integers(3, 8)), int(rng.integers(2, 5))
        X = rng.integers(0, 3, size=(n, 2)).astype(float)
        y = rng.integers(0, 2, size=(n, na)).astype(float)
        y[rng.random((n, na)) < 0.6] = np.nan
        for i in range(n):                      # every sample keeps at least one annotator (rows without any are a recorded finding)
            if not np.isnan(y[i]).any():
                y[i, int(rng.integers(na))] = np.nan
        avail = np.isnan(y).sum(axis=1)
        seed = int(rng.integers(0, 1000))
        bs = int(rng.integers(1, int(avail.sum()) + 2))
        if h % 2 == 0:
            pref_arg = int(rng.integers(1, na + 1))
            pref_of = lambda i: pref_arg
        else:
            pref_arg = [int(v) for v in rng.integers(1, na + 1, size=int(rng.integers(1, 5)))]
            pref_of = lambda i: pref_arg[min(i, len(pref_arg) - 1)]
        c20.RECORD.clear()
        saw = SingleAnnotatorWrapper(Rec(random_state=seed), random_state=seed)
        # annotator performances: not given, or accuracies that include exact 0.0 and 1.0 (per annotator / per pair)
        A_perf = None if h % 3 == 0 else rng.choice([0.0, 1.0, 0.5, 1.0, 0.0], size=((na,) if h % 3 == 1 else (n, na)))
        rc = {"X": X.tolist(), "y": [[None if v != v else v for v in r] for r in y], "batch_size": bs, "n_annotators_per_sample": pref_arg, "seed": seed,
              "A_perf": None if A_perf is None else A_perf.tolist()}
        try:
            pairs = with_timeout(lambda: saw.query(X=X, y=y, batch_size=bs, n_annotators_per_sample=pref_arg if isinstance(pref_arg, int) else np.array(pref_arg),
                                                   A_perf=None if A_perf is None else A_perf.copy(),
                                                   clf=ParzenWindowClassifier(classes=[0, 1], random_state=seed)), 5.0)
        except CaseTimeout:
            ctx.violation("SingleAnnotatorWrapper", "timeout", "query did not return within 5 s", rc, what="SingleAnnotatorWrapper: query did not return (n_annotators_per_sample given)")
            continue
        except Exception as e:
            ctx.violation("SingleAnnotatorWrapper", "exception:" + err_class(e), repr(e)[:300], rc, what=f"SingleAnnotatorWrapper raised {err_class(e)} (n_annotators_per_sample={pref_arg})")
            continue
        ctx.count("SingleAnnotatorWrapper_annotators_per_sample")
        ranking = [int(i) for i in np.asarray(c20.RECORD[-1]["out"][0]).ravel()]
        base = [min(int(avail[s_]), pref_of(i)) for i, s_ in enumerate(ranking)]
        mx = [int(avail[s_]) for s_ in ranking]
        while sum(base) < bs and base != mx:
            base = [min(m_, b_ + 1) for m_, b_ in zip(mx, base)]
        exp, rem = [], min(bs, int(avail.sum()))
        for s_, b_ in zip(ranking, base):
            t_ = min(b_, rem)
            rem -= t_
            if t_:
                exp.append((s_, t_))
        got = []
        for s_, _a in np.asarray(pairs).tolist():
            if got and got[-1][0] == s_:
                got[-1] = (s_, got[-1][1] + 1)
            else:
                got.append((int(s_), 1))
        if len(ranking) >= 3 and not isinstance(pref_arg, int):
            ctx.nontriv(("sawcounts", X.tobytes(), y.tobytes(), bs, repr(pref_arg), seed))
        plist = [tuple(int(v) for v in p_) for p_ in np.asarray(pairs).tolist()]
        if len(set(plist)) != len(plist):
            ctx.violation("SingleAnnotatorWrapper", "duplicate_pair", f"pairs {plist} are not pairwise distinct", rc, what="SingleAnnotatorWrapper: a (sample, annotator) pair is returned twice")
            continue
        if got != exp:
            ctx.violation("SingleAnnotatorWrapper", "annotators_per_sample", f"(sample, number of annotators) in ranking order: returned {got}, documented {exp}; ranking {ranking}, available {mx}", rc,
                          what=f"SingleAnnotatorWrapper: the requested number of annotators per sample is not respected (n_annotators_per_sample={pref_arg}, batch_size={bs})")
