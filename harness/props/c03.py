"""C03 -- stream query is a pure simulation.

Coq: Props/C03.v (any arithmetic instance).  Tie: the binary64 instance of the
models is run on histories of interleaved query/update calls recorded from the
real budget managers / baseline strategies; after EVERY call the complete
observable state (u_t_, theta_, counters, generator position) must be the
model's, bit for bit.  The property's own oracle (snapshot of all fitted
attributes incl. nested objects and RandomState before/after query; repeated
query; with/without extra queries) runs on every object, also on the stream
strategies that are not modelled (utility oracle o manager, density windows)."""
import json

import numpy as np

from .. import stream as S
from . import stream_extra as X


def plan_c03(nsteps):
    def plan(rng, mgr, p):
        for _ in range(nsteps):
            n = int(rng.integers(1, 8))
            style = str(rng.choice(["uniform", "uniform", "hug", "ones", "nan", "const"]))
            for _ in range(int(rng.integers(0, 4))):          # extra queries, never committed
                m = int(rng.integers(1, 8))
                yield ("q", S.gen_chunk(rng, mgr, p, m, str(rng.choice(["uniform", "hug", "ones"]))))
            yield ("q", S.gen_chunk(rng, mgr, p, n, style))
            yield ("u",)
    return plan


def run(ctx):
    ctx.extra["rule"] = ("seeded histories of 6-12 steps per manager/baseline; each step = 0-3 extra (uncommitted) queries on fresh chunks, "
                         "then a query whose result is committed by update; chunk sizes 1-7; utilities uniform / constant / all-ones / NaN / "
                         "placed one ulp around the running threshold; non-trivial = history with >=1 extra query and >=1 granted label; "
                         "distinct = distinct (kind, params, seed)")
    ctx.trusted += ["numpy RandomState (draw streams are reproduced from the seed; normal draws are attributed to instances by the harness)"]
    ctx.assume += ["window elements of the density-based strategies are treated as immutable values",
                   "strategies that are 'classifier utility o manager' are covered by the dynamic purity oracle and by the manager model, not by a model of the classifier"]
    ctx.coq_props()
    from ..density import density_correspondence
    density_correspondence(ctx)
    from ..cognitive import cognitive_correspondence
    cognitive_correspondence(ctx)
    nh = 14 if ctx.is_quick else 150
    recs = []
    for kind in S.ALL_KINDS:
        for h in range(nh):
            rng = ctx.rng("c03", kind, h)
            p = S.gen_params(rng, kind)
            rec = S.run_history(p, plan_c03(int(rng.integers(6, 13))), rng)
            recs.append(rec)
            ctx.count(kind, len(rec.ops))
            ctx.hist[kind] += 1
            nq = sum(1 for o in rec.ops if o["op"] == "q")
            nu = sum(1 for o in rec.ops if o["op"] == "u")
            if nq > nu and any(o["res"] for o in rec.ops if o["op"] == "q"):
                ctx.nontriv((kind, sorted(p.items())))
            for kd, msg, data in rec.problems:
                ctx.violation(kind, kd, msg, {"params": p, "data": data}, what=msg)
    S.evaluate(ctx, recs, "c03_")
    r = next(r for r in recs if r.ops and r.p["kind"] == "Split")
    ctx.sample({"params": r.p, "first_ops": [{k: (v if k != "utils" else [float(x).hex() for x in v]) for k, v in o.items()} for o in r.ops[:3]]})
    # with / without extra queries: later results identical (the statement itself, on the implementation)
    X.extra_query_oracle(ctx)
    X.biqf_model_correspondence(ctx, "c03")
    # un-modelled stream strategies and BIQF: dynamic purity oracle
    X.strategy_purity(ctx, report_update=False)
    X.update_only_twin(ctx)
    ctx.extra["exhaustive"] = False


def replay(ctx, path):
    rec = json.load(open(path))
    print(json.dumps(rec["case"], indent=1, default=str)[:3000])
    run(ctx)
