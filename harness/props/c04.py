"""C04 -- budget managers never overspend.

Coq: Props/C04.v (exact arithmetic, arbitrary per-instance decisions).  Tie: the
binary64 instance of the same models is compared bit-exactly with the real
managers on adversarial streams (all-ones, NaN, alternating, threshold-hugging)
under several chunkings; in addition the bound itself is evaluated on the real
objects at every prefix of long streams."""
import json

import numpy as np

from .. import stream as S
from .c10 import chunkings, plan_chunks

ENFORCING = S.ZL + ["DensitySplit", "SRS_strict", "Periodic"]


def adversarial(rng, n, p):
    style = str(rng.choice(["ones", "ones", "alternate", "nan_then_ones", "nan_mixed", "uniform", "hug"]))
    if style == "ones":
        return np.ones(n), style
    if style == "nan_mixed":          # NaN and maximal utilities interleaved at random (what a density filter hands to its manager)
        u = np.ones(n)
        u[rng.random(n) < 0.5] = np.nan
        return u, style
    if style == "alternate":
        return np.tile([1.0, 0.0], n)[:n], style
    if style == "nan_then_ones":
        u = np.ones(n)
        u[: n // 3] = np.nan
        return u, style
    if style == "hug":
        th = 1 / p["K"] + p["budget"] * (1 - 1 / p["K"]) if p["kind"] == "Fixed" else p["theta"]
        base = 1.0 - th
        return np.array([np.nextafter(base, np.inf) if i % 2 else base for i in range(n)]), style
    return rng.random(n), style


def run(ctx):
    ctx.extra["rule"] = ("adversarial utility streams (all-ones, alternating, NaN prefix, threshold-hugging, uniform) of 30-60 instances for "
                         "the model correspondence under 5 chunkings and of 400-3000 instances for the bound evaluated on the real objects at "
                         "every prefix; non-trivial = at least one label granted and at least one refused; distinct = (kind, params, stream style)")
    ctx.trusted += ["numpy RandomState", "IEEE-754 rounding is abstracted to exact arithmetic in the quantitative theorems; the binary64 instance "
                    "of the same definitions is compared bit-exactly with the implementation"]
    ctx.assume += ["bound checked on the implementation with a tolerance of 1e-9*n (the implementation computes b*n in binary64)"]
    ctx.coq_props()
    recs = []
    ns = 4 if ctx.is_quick else 40
    for kind in ENFORCING:
        for h in range(ns):
            rng = ctx.rng("c04", kind, h)
            p = S.gen_params(rng, kind)
            n = int(rng.integers(30, 61))
            utils, style = adversarial(rng, n, p)
            for sizes in chunkings(rng, n)[:3 if ctx.is_quick else 5]:
                rec = S.run_history(p, plan_chunks(utils, sizes), rng, ndraws=2 * n + 10)
                recs.append(rec)
                ctx.count(kind, len(rec.ops))
                for kd, msg, data in rec.problems:
                    ctx.violation(kind, kd, msg, {"params": p, "chunking": sizes, "data": data}, what=msg)
            ctx.hist[f"{kind}:{style}"] += 1
    mism = S.evaluate(ctx, recs, "c04_")
    mism |= {r.p["kind"] for r in recs if r.problems}
    # the bound itself on the real objects, long streams, every prefix
    bound_search(ctx, ENFORCING, 6 if ctx.is_quick else 40, (400, 800) if ctx.is_quick else (800, 3000), "c04long")
    if mism:
        # a correspondence broke: search harder for a concrete overspending stream (failing-input search)
        bound_search(ctx, sorted(mism), 60, (3000, 4000), "c04search", escalate=True)
    strategy_bound(ctx)
    ctx.sample({"kind": recs[0].p["kind"], "params": recs[0].p, "ops": len(recs[0].ops)})
    ctx.extra["exhaustive"] = False


def strategy_bound(ctx):
    """The bound on the real stream STRATEGIES that wrap the window-based managers (default manager created lazily from `budget`, and
    an explicit manager whose own budget differs from the strategy's - documented: the manager is used as it is), with a classifier
    that is maximally uncertain about every instance (the adversarial stream for them), at every prefix, for several chunkings."""
    import warnings
    import skactiveml.stream as st
    import skactiveml.stream.budgetmanager as bm
    from skactiveml.base import SkactivemlClassifier

    class Uniform(SkactivemlClassifier):
        def fit(self, X, y, sample_weight=None):
            self.classes_ = np.array([0, 1])
            return self

        def predict_proba(self, X):
            return np.full((len(X), 2), 0.5)

    clf = Uniform(classes=[0, 1]).fit(None, None)
    confs = [("FixedUncertainty", st.FixedUncertainty, bm.FixedUncertaintyBudgetManager, "Fixed"),
             ("VariableUncertainty", st.VariableUncertainty, bm.VariableUncertaintyBudgetManager, "Variable"),
             ("RandomVariableUncertainty", st.RandomVariableUncertainty, bm.RandomVariableUncertaintyBudgetManager, "RandVar"),
             ("Split", st.Split, bm.SplitBudgetManager, "Split")]
    for name, cls, mgr, kind in confs:
        for h in range(4 if ctx.is_quick else 24):
            rng = ctx.rng("c04strat", name, h)
            budget = float(rng.choice([0.05, 0.1, 0.3]))
            w = int(rng.choice([10, 100]))
            explicit = h % 2 == 1
            kw = {"budget": budget, "random_state": int(rng.integers(0, 1000))}
            if name == "FixedUncertainty":
                kw["classes"] = [0, 1]
            eff = budget
            if explicit:
                eff = float(rng.choice([b for b in (0.05, 0.1, 0.3) if b != budget]))
                mkw = {"budget": eff, "w": w}
                if name == "FixedUncertainty":
                    mkw["classes"] = [0, 1]
                import inspect
                if "random_state" in inspect.signature(mgr.__init__).parameters:
                    mkw["random_state"] = kw["random_state"] + 1
                kw["budget_manager"] = mgr(**mkw)
            else:
                w = 100
            chunk = int(rng.choice([1, 1, 5, 20]))
            n = int(rng.integers(300, 600)) if ctx.is_quick else int(rng.integers(600, 2000))
            p = {"kind": kind if kind in S.ZL else S.ZL[0], "budget": eff, "w": w}
            with warnings.catch_warnings():
                warnings.simplefilter("ignore")
                qs = cls(**kw)
                granted, pos, worst = 0, 0, None
                try:
                    while pos < n:
                        k = min(chunk, n - pos)
                        cand = rng.normal(size=(k, 2))
                        idx = qs.query(cand, clf=clf)
                        qs.update(cand, idx)
                        iset = {int(i) for i in idx}
                        for i in range(k):
                            granted += (i in iset)
                            m = pos + i + 1
                            if granted > S.grants_bound(p, m) + 1e-9 * m and worst is None:
                                worst = (m, granted, S.grants_bound(p, m))
                        pos += k
                except Exception as e:
                    ctx.violation(name, "exception", repr(e)[:300], {"strategy": name, "params": {k: repr(v) for k, v in kw.items()}, "chunk": chunk})
                    continue
            ctx.count("strategy_bound:" + name, n)
            if granted:
                ctx.nontriv(("stratbound", name, budget, eff, w, chunk, explicit))
            if worst:
                ctx.violation(name, "budget_exceeded", f"{worst[1]} labels granted among the first {worst[0]} instances, bound {worst[2]:.3f}",
                              {"strategy": name, "budget": budget, "explicit_manager_budget": eff if explicit else None, "w": w, "chunk": chunk, "n": n, "seed": kw["random_state"]},
                              what=f"{name} (strategy) granted {worst[1]} labels in {worst[0]} maximally uncertain instances (bound {worst[2]:.2f}; manager budget={eff}, w={w}, chunk={chunk})")


def bound_search(ctx, kinds, nl, nrange, tag, escalate=False):
    for kind in kinds:
        found = False
        for h in range(nl):
            if found:
                break
            rng = ctx.rng(tag, kind, h)
            p = S.gen_params(rng, kind)
            n = int(rng.integers(*nrange))
            utils, style = adversarial(rng, n, p)
            chunk = int(rng.choice([1, 3, 10, 50, 100, 500, n]))
            if escalate:
                p["w"] = int(rng.choice([10, 100]))
                p["budget"] = float(rng.choice([0.1, 0.3]))
                chunk = int(rng.choice([10, 50, 100, 200, 500, n]))
                if "v" in p:
                    p["v"] = float(rng.choice([0.1, 0.5, 0.9]))
                if h % 3 == 0:
                    utils, style = np.ones(n), "ones"
                elif h % 3 == 1:
                    utils, style = np.where(rng.random(n) < 0.5, np.nan, 1.0), "nan_mixed"
            m = S.make(p)
            granted, pos, worst = 0, 0, None
            refused = False
            try:
                while pos < n:
                    u = utils[pos:pos + chunk]
                    res, _ = S.do_query(m, p, u)
                    raw = m.query_by_utility(np.asarray(u)) if not S.is_strategy(kind) else m.query(np.zeros((len(u), 1)))
                    S.do_update(m, p, len(u), raw)
                    rs = set(res)
                    for i in range(len(u)):
                        granted += (i in rs)
                        refused |= (i not in rs)
                        k = pos + i + 1
                        if granted > S.grants_bound(p, k) + 1e-9 * k and worst is None:
                            worst = (k, granted, S.grants_bound(p, k))
                    pos += len(u)
            except Exception as e:
                ctx.violation(kind, "exception", repr(e), {"params": p, "style": style, "chunk": chunk})
                continue
            ctx.count("bound:" + kind, n)
            if granted and refused:
                ctx.nontriv((kind, sorted(p.items()), style, chunk))
            if worst:
                found = True
                ctx.violation(kind, "budget_exceeded",
                              f"{worst[1]} labels granted among the first {worst[0]} instances, bound {worst[2]:.3f}",
                              {"params": p, "style": style, "chunk": chunk, "n": n, "utils_head": [float(x).hex() for x in utils[:20]]},
                              what=f"{kind} granted {worst[1]} labels in {worst[0]} instances (bound {worst[2]:.2f}; budget={p['budget']}, chunk={chunk}, stream={style})")


def replay(ctx, path):
    rec = json.load(open(path))
    print(json.dumps(rec["case"], indent=1, default=str)[:3000])
    run(ctx)
