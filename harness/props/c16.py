"""C16 -- label predicates and ExtLabelEncoder round-trip.

Labels are generated as Python objects and coded for the Gallina model
(Model/Label.v) by Python-level equality / ordering; the implementation gets
numpy arrays of every applicable dtype (float, int, <U, object) and Python
lists, so numpy casting is on the implementation's side only."""
import itertools
import json
import math

import numpy as np

from ..core import blit, err_class, listlit, natlist, natlit, relayout, zlist, zlit

IMPORTS = "From V Require Import Model.Label Harness.Run Harness.LabelCheck."
NAN = float("nan")
MISS = object()  # placeholder for "missing" in generated label vectors

NUM_ALPHAS = [[1, 2, 5], [0.5, -2.0, 3.0], [0, -0.0 + 7, 10], [-2, 0, 1], [-3, 1, 2]]   # incl. integer classes with negatives whose maximum is K-1
STR_ALPHAS = [["a", "b", "zz"], ["n", "no", "yes"], ["x", "B", "10"]]   # "n"/"no" are prefixes of the sentinel "none"
NUM_SENT = [NAN, -1, 99, None]
STR_SENT = ["nan", "", "none", None]


def _lab():
    from skactiveml.utils import _label, _label_encoder
    return _label, _label_encoder


def skind(s):
    if s is None:
        return 2
    return 1 if isinstance(s, str) else 0


def dkind(arr):
    if arr.dtype == object:
        return 2
    return 1 if arr.dtype.kind in "US" else 0


def is_missing(v, s):
    if s is None:
        return v is None
    if isinstance(s, float) and math.isnan(s):
        return isinstance(v, float) and math.isnan(v)
    if isinstance(s, str) != isinstance(v, str) or v is None:
        return False
    return v == s


def py(v):
    v = v.item() if hasattr(v, "item") else v
    return v


def isnan(v):
    return isinstance(v, float) and math.isnan(v)


def coder(values, s):
    labs = sorted({py(v) for v in values if not is_missing(py(v), s) and not isnan(py(v))})
    cmap = {v: i + 1 for i, v in enumerate(labs)}
    def code(v):
        v = py(v)
        if is_missing(v, s):
            return 0
        if isnan(v):          # NaN used as an ordinary (non-sentinel) entry: sorts last
            return len(labs) + 1
        return cmap[v]
    return code


def variants(vals, s, shape=None):
    """numpy / list representations of the label vector that can hold it."""
    out = []
    strs = any(isinstance(v, str) for v in vals) or (isinstance(s, str))
    has_none = any(v is None for v in vals)
    def rs(a):
        return a.reshape(shape) if shape is not None else a
    if not has_none:
        if strs:
            if all(isinstance(v, str) for v in vals):
                out.append(("U", rs(np.array(vals, dtype=str) if vals else np.array([], dtype="<U1"))))
        else:
            out.append(("float", rs(np.array(vals, dtype=float))))
            if all(isinstance(v, int) for v in vals):
                out.append(("int", rs(np.array(vals, dtype=int))))
        if shape is None:
            out.append(("list", list(vals)))
    o = np.empty(len(vals), dtype=object)
    for i, v in enumerate(vals):
        o[i] = v
    out.append(("object", rs(o)))
    return out


def gen_vectors(ctx):
    """(vals with sentinel substituted, sentinel) over the exhaustive small scope."""
    maxlen = 3 if ctx.is_quick else 4
    for alphas, sents in ((NUM_ALPHAS, NUM_SENT), (STR_ALPHAS, STR_SENT)):
        for alpha in (alphas if not ctx.is_quick else (alphas[:2] + alphas[3:])):
            for s in sents:
                for n in range(0, maxlen + 1):
                    for tup in itertools.product(alpha + [MISS], repeat=n):
                        yield [s if v is MISS else v for v in tup], s, "exh"
    # NaN entries that are NOT the sentinel (numeric sentinel): they must stay "labeled"
    for s in (-1, 99, -1.0, 7.5):
        for n in range(1, 4):
            for tup in itertools.product([1.0, 2.5, NAN, MISS], repeat=n):
                if any(isnan(v) for v in tup if v is not MISS):
                    yield [float(s) if v is MISS else v for v in tup], s, "nanlabel"
    rng = ctx.rng("vec")
    for _ in range(150 if ctx.is_quick else 3000):
        strs = rng.random() < 0.4
        alpha = (STR_ALPHAS if strs else NUM_ALPHAS)[int(rng.integers(3 if strs else len(NUM_ALPHAS)))]
        s = (STR_SENT if strs else NUM_SENT)[int(rng.integers(4))]
        n = int(rng.integers(1, 40))
        pm = rng.choice([0.0, 0.3, 1.0])
        vals = [s if rng.random() < pm else alpha[int(rng.integers(len(alpha)))] for _ in range(n)]
        yield vals, s, "rand"


def run(ctx):
    lab, enc = _lab()
    ctx.extra["rule"] = ("exhaustive label vectors of length 0..3 (quick) / 0..4 (thorough) over 3-symbol alphabets + missing x 4 sentinels "
                         "x all dtypes that can hold them (float,int,<U,object,list), 2-D reshapes, plus seeded random vectors; non-trivial = "
                         "vector contains both a labeled and a missing entry; distinct = distinct (values, sentinel, dtype)")
    ctx.trusted += ["Python-level equality/ordering of label objects (coding of labels for the model)"]
    ctx.assume += ["'supported' = accepted by check_missing_label(sentinel, target_type=y.dtype); cross-kind pairs are compared for accept/reject only"]
    ctx.coq_props()

    pred, pmeta, pred2, p2meta, acc, ameta, encs, emeta = [], [], [], [], [], [], [], []
    shared = {}
    seen_acc = set()
    for vals, s, tag in gen_vectors(ctx):
        code = coder(vals, s)
        codes = [code(v) for v in vals]
        mixed = 0 < sum(c == 0 for c in codes) < len(codes)
        for name, arr in variants(vals, s):
            if name == "object" and s is not None:
                continue  # incompatible by design, covered by the acceptance cases
            if name in ("float", "int") and s is None:
                continue
            if name == "int" and not isinstance(s, int):
                continue
            if name == "float" and isinstance(s, str):
                continue
            try:
                u = lab.is_unlabeled(arr, missing_label=s)
                l = lab.is_labeled(arr, missing_label=s)
                ui = lab.unlabeled_indices(arr, missing_label=s)
                li = lab.labeled_indices(arr, missing_label=s)
            except Exception as e:
                ctx.violation("label_predicates", "exception", repr(e), {"vals": repr(vals), "sentinel": repr(s), "dtype": name},
                              what=f"is_unlabeled raised {err_class(e)} on a supported (dtype, sentinel) pair")
                continue
            ctx.count("label_predicates")
            ctx.hist[f"pred:{name}:{tag}"] += 1
            if mixed:
                ctx.nontriv(("pred", repr(vals), repr(s), name))
            u, l = np.asarray(u), np.asarray(l)
            exp_u = [c == 0 for c in codes]
            if u.dtype != bool or list(u) != exp_u or list(l) != [not b for b in exp_u] \
                    or list(ui) != [i for i, b in enumerate(exp_u) if b] or list(li) != [i for i, b in enumerate(exp_u) if not b]:
                ctx.violation("label_predicates", "wrong_mask", f"is_unlabeled={list(u)} expected {exp_u}",
                              {"vals": repr(vals), "sentinel": repr(s), "dtype": name},
                              what="is_unlabeled/is_labeled/indices do not mark exactly the entries equal to the sentinel")
            pred.append(f"({zlit(0)}, {zlist(codes)}, {listlit([blit(b) for b in u])}, {listlit([blit(b) for b in l])}, "
                        f"{natlist(ui)}, {natlist(li)})")
            pmeta.append((vals, s, name))
            # 2-D reshapes of the same data
            n = len(vals)
            if name != "list" and n >= 2 and n % 2 == 0:
                for shape in ((n // 2, 2), (2, n // 2), (1, n), (n, 1)):
                    a2 = relayout(arr.reshape(shape), (len(vals) + shape[0]) % 4)
                    try:
                        u2 = lab.is_unlabeled(a2, missing_label=s)
                        l2 = lab.is_labeled(a2, missing_label=s)
                        ui2 = lab.unlabeled_indices(a2, missing_label=s)
                        li2 = lab.labeled_indices(a2, missing_label=s)
                    except Exception as e:
                        ctx.violation("label_predicates_2d", "exception", repr(e), {"vals": repr(vals), "sentinel": repr(s), "dtype": name, "shape": shape})
                        continue
                    ui2, li2 = np.asarray(ui2), np.asarray(li2)
                    if ui2.ndim != 2 or li2.ndim != 2 or ui2.shape[1] != 2 or li2.shape[1] != 2 or np.asarray(u2).shape != shape:
                        ctx.violation("label_predicates_2d", "malformed_output", f"index arrays of shape {ui2.shape}/{li2.shape}",
                                      {"vals": repr(vals), "sentinel": repr(s), "dtype": name, "shape": shape},
                                      what="(un)labeled_indices of a 2-D label array are not (row, column) pairs")
                        continue
                    rows = [codes[r * shape[1]:(r + 1) * shape[1]] for r in range(shape[0])]
                    # direct oracle (the statement): the masks mark exactly the sentinel entries, the index arrays enumerate them in row-major order
                    exp_u2 = [(r, c_) for r in range(shape[0]) for c_ in range(shape[1]) if rows[r][c_] == 0]
                    exp_l2 = [(r, c_) for r in range(shape[0]) for c_ in range(shape[1]) if rows[r][c_] != 0]
                    got_u2, got_l2 = [(int(a), int(b)) for a, b in ui2], [(int(a), int(b)) for a, b in li2]
                    mask_ok = [[bool(b) for b in r] for r in np.asarray(u2)] == [[c_ == 0 for c_ in r] for r in rows] \
                        and [[bool(b) for b in r] for r in np.asarray(l2)] == [[c_ != 0 for c_ in r] for r in rows]
                    if not mask_ok or got_u2 != exp_u2 or got_l2 != exp_l2:
                        ctx.violation("label_predicates_2d", "wrong_mask_or_indices",
                                      f"array {a2.tolist()} (layout {(len(vals) + shape[0]) % 4}, sentinel {s!r}): unlabeled_indices={got_u2} expected {exp_u2}; labeled_indices={got_l2} expected {exp_l2}",
                                      {"vals": repr(vals), "sentinel": repr(s), "dtype": name, "shape": shape, "layout": (len(vals) + shape[0]) % 4},
                                      what="2-D label array: is_labeled / is_unlabeled / (un)labeled_indices do not mark / enumerate exactly the sentinel entries in order")
                    pred2.append(f"({zlit(0)}, {listlit([zlist(r) for r in rows])}, "
                                 f"{listlit([listlit([blit(b) for b in r]) for r in u2])}, {listlit([listlit([blit(b) for b in r]) for r in l2])}, "
                                 f"{listlit(['(%s, %s)' % (natlit(a), natlit(b)) for a, b in ui2])}, {listlit(['(%s, %s)' % (natlit(a), natlit(b)) for a, b in li2])})")
                    p2meta.append((vals, s, name, shape))
                    ctx.count("label_predicates_2d")
                    if mixed:
                        ctx.nontriv(("pred2", repr(vals), repr(s), name, shape))
            # encoder (arrays only; lists are converted by check_array the same way)
            if name in ("list",) or tag == "nanlabel":
                continue
            for classes_mode in ("none", "given", "superset", "subset"):
                labs = sorted({py(v) for v in vals if not is_missing(py(v), s)})
                if classes_mode == "none":
                    classes = None
                elif classes_mode == "given":
                    classes = list(labs)
                elif classes_mode == "superset":
                    extra = "q" if (labs and isinstance(labs[0], str)) or isinstance(s, str) else 42
                    classes = list(reversed(labs)) + [extra]
                else:
                    classes = labs[:-1]
                    if not classes:
                        continue
                if classes is not None and not classes:
                    continue
                if classes_mode == "subset" and any(isinstance(v, str) and any(isinstance(c, str) and v != c and v.startswith(c) for c in classes)
                                                    for v in labs if v not in classes):
                    continue   # sklearn's LabelEncoder casts y to the (narrower) dtype of classes_: an unseen label that has a class as
                               # prefix is silently truncated onto that class (third-party behaviour, outside the round-trip hypothesis)
                if len(emeta) % 3 != 0 and tag == "exh" and classes_mode != "none":
                    pass
                try:
                    le = enc.ExtLabelEncoder(classes=classes, missing_label=s).fit(arr)
                except Exception as e:
                    ctx.violation("label_encoder", "exception_fit", repr(e), {"vals": repr(vals), "sentinel": repr(s), "dtype": name, "classes": repr(classes)},
                                  what=f"ExtLabelEncoder.fit raised {err_class(e)} on a supported input")
                    continue
                allv = list(vals) + (classes or [])
                code2 = coder(allv, s)
                try:
                    cls_codes = [code2(c) for c in le.classes_]
                except KeyError:
                    ctx.violation("label_encoder", "foreign_class", f"classes_={list(le.classes_)}", {"vals": repr(vals), "sentinel": repr(s), "dtype": name, "classes": repr(classes)},
                                  what="classes_ contains a value that is neither a given class nor a label")
                    continue
                ycodes = [code2(v) for v in vals]
                try:
                    tr = [int(c) for c in np.asarray(le.transform(arr)).ravel()]
                    inv = le.inverse_transform(np.array(tr, dtype=int))
                    inv_codes = [code2(v) for v in inv]
                    tr_l, inv_l = f"(Some {zlist(tr)})", f"(Some {zlist(inv_codes)})"
                except ValueError:
                    tr, tr_l, inv_l = None, "None", "None"
                except Exception as e:
                    ctx.violation("label_encoder", "exception_transform", repr(e), {"vals": repr(vals), "sentinel": repr(s), "dtype": name, "classes": repr(classes)})
                    continue
                cl = "None" if classes is None else f"(Some {zlist([code2(c) for c in classes])})"
                encs.append(f"({cl}, {zlit(0)}, {zlist(ycodes)}, {zlist(cls_codes)}, {zlist(ycodes)}, {tr_l}, {inv_l})")
                emeta.append((vals, s, name, classes))
                ctx.count("label_encoder")
                if mixed:
                    ctx.nontriv(("enc", repr(vals), repr(s), name, classes_mode))
                # direct oracle: round trip reproduces y, missing -> -1, sorted classes -> 0..K-1
                if tr is not None:
                    if [c == -1 for c in tr] != [c == 0 for c in ycodes] or inv_codes != ycodes:
                        ctx.violation("label_encoder", "roundtrip", f"transform={tr}", {"vals": repr(vals), "sentinel": repr(s), "dtype": name, "classes": repr(classes)},
                                      what="inverse_transform(transform(y)) != y or missing labels not mapped to -1")
                    # a re-used encoder object (one per sentinel / dtype, re-fitted on every array that comes by, after having transformed and
                    # decoded the previous one): fit starts from scratch, so it behaves exactly like the fresh encoder
                    if classes_mode == "none":
                        key_ = (repr(s), name)
                        try:
                            sh = shared.get(key_)
                            if sh is None:
                                sh = shared[key_] = enc.ExtLabelEncoder(missing_label=s)
                            sh.fit(arr)
                            tr_s = [int(c) for c in np.asarray(sh.transform(arr)).ravel()]
                            inv_s = [code2(v) for v in sh.inverse_transform(np.array(tr_s, dtype=int))]
                            ctx.count("label_encoder_refitted")
                            if tr_s != tr or inv_s != ycodes or list(sh.classes_) != list(le.classes_):
                                ctx.violation("label_encoder", "refit_roundtrip", f"re-fitted encoder: transform={tr_s}, decoded={list(sh.inverse_transform(np.array(tr_s, dtype=int)))}; fresh encoder: transform={tr}",
                                              {"vals": repr(vals), "sentinel": repr(s), "dtype": name, "classes": repr(classes), "history": "encoder fitted / used on other label arrays before"},
                                              what="an ExtLabelEncoder that was fitted and used before does not round-trip after being re-fitted (differs from a fresh encoder)")
                        except Exception as e:
                            ctx.violation("label_encoder", "exception_refit", repr(e)[:200], {"vals": repr(vals), "sentinel": repr(s), "dtype": name, "classes": repr(classes)},
                                          what=f"re-fitted ExtLabelEncoder raised {err_class(e)}")
                    # two-dimensional label arrays in every memory layout (C, Fortran, transposed / strided views): transform is
                    # element-wise and inverse_transform(transform(y)) reproduces y position by position; the encoded matrix fed to
                    # inverse_transform is itself re-laid-out independently (codes computed elsewhere arrive in any layout)
                    n_ = len(vals)
                    if n_ >= 2 and n_ % 2 == 0:
                        for shape in ((n_ // 2, 2), (2, n_ // 2)):
                            for lay in range(4):
                                a2 = relayout(arr.reshape(shape), lay)
                                try:
                                    t2d = np.asarray(le.transform(a2))
                                    i2d = np.asarray(le.inverse_transform(relayout(t2d.copy(), (lay + len(emeta)) % 4)))
                                    i2d_same = np.asarray(le.inverse_transform(t2d))
                                except Exception as e:
                                    ctx.violation("label_encoder_2d", "exception_transform", repr(e)[:200], {"vals": repr(vals), "sentinel": repr(s), "dtype": name, "classes": repr(classes), "shape": shape, "layout": lay})
                                    continue
                                ctx.count("label_encoder_2d")
                                exp_t = np.array(tr, dtype=int).reshape(shape)
                                bad2 = None
                                if t2d.shape != shape or not np.array_equal(t2d, exp_t):
                                    bad2 = f"transform of the {shape} array (layout {lay}) = {t2d.tolist()}, element-wise expectation {exp_t.tolist()}"
                                else:
                                    for nm_, got in (("re-laid-out codes", i2d), ("codes as returned", i2d_same)):
                                        if got.shape != shape or [code2(v) for v in got.ravel()] != ycodes:
                                            bad2 = f"inverse_transform({nm_}) of the {shape} array (layout {lay}) = {got.tolist()}, original {a2.tolist()}"
                                            break
                                if bad2:
                                    ctx.violation("label_encoder_2d", "roundtrip", bad2, {"vals": repr(vals), "sentinel": repr(s), "dtype": name, "classes": repr(classes), "shape": shape, "layout": lay},
                                                  what="2-D label array: inverse_transform(transform(y)) != y (or transform is not element-wise)")
                                    break
                    t2 = [int(c) for c in le.transform(np.asarray(le.classes_))] if len(le.classes_) else []
                    if t2 != list(range(len(le.classes_))) or cls_codes != sorted(cls_codes):
                        ctx.violation("label_encoder", "classes_range", f"transform(classes_)={t2}", {"vals": repr(vals), "sentinel": repr(s), "dtype": name, "classes": repr(classes)},
                                      what="sorted classes are not mapped to 0..K-1")
    # acceptance table: every (dtype kind, sentinel kind) pair
    probes = {0: np.array([1.0, 2.0]), 1: np.array(["a", "b"]), 2: np.array([1, None], dtype=object)}
    sents = {0: [NAN, -1, 7.5], 1: ["nan", ""], 2: [None]}
    for d, arr in probes.items():
        for sk, ss in sents.items():
            for s in ss:
                try:
                    lab.is_unlabeled(arr, missing_label=s)
                    a1 = True
                except TypeError:
                    a1 = False
                try:
                    lab.check_missing_label(s, target_type=arr.dtype)
                    a2 = True
                except TypeError:
                    a2 = False
                acc.append(f"({natlit(d)}, {natlit(sk)}, {blit(a1)}, {blit(a2)})")
                ameta.append((d, repr(s), a1, a2))
                ctx.count("acceptance_table")
    # empty arrays
    for arr in (np.array([]), np.zeros((0, 3)), np.zeros((0, 1)), np.empty((0, 2), dtype=object), np.array([], dtype=str).reshape(0, 2), np.array([], dtype=str), []):
        for s in (NAN, -1, "x", None):
            try:
                r = lab.is_unlabeled(arr, missing_label=s)
                r2 = lab.is_labeled(arr, missing_label=s)
                shp = np.asarray(arr).shape
                if np.asarray(r).size != 0 or np.asarray(r).dtype != bool or np.asarray(r).shape != shp or np.asarray(r2).shape != shp:
                    ctx.violation("label_predicates", "empty", f"is_unlabeled / is_labeled of an array of shape {shp} have shapes {np.asarray(r).shape} / {np.asarray(r2).shape}",
                                  {"arr": repr(arr), "sentinel": repr(s)}, what=f"is_unlabeled / is_labeled do not keep the shape {shp} of an empty label array")
                ui_, li_ = np.asarray(lab.unlabeled_indices(arr, missing_label=s)), np.asarray(lab.labeled_indices(arr, missing_label=s))
                exp_shape = (0,) if len(shp) == 1 else (0, len(shp))
                if len(ui_) or len(li_) or ui_.shape != exp_shape or li_.shape != exp_shape:
                    ctx.violation("label_predicates", "empty", f"(un)labeled_indices of an empty array of shape {shp} have shapes {ui_.shape} / {li_.shape}, expected {exp_shape}",
                                  {"arr": repr(arr), "sentinel": repr(s)}, what="(un)labeled_indices of an empty label array are not an empty index list of the right width")
                ctx.count("empty_arrays")
            except Exception as e:
                ctx.violation("label_predicates", "exception_empty", repr(e), {"arr": repr(arr), "sentinel": repr(s)},
                              what=f"is_unlabeled raised {err_class(e)} on an empty array")

    for tag, fn, cases, meta in (("pred", "check_pred", pred, pmeta), ("pred2", "check_pred2", pred2, p2meta),
                                 ("acc", "check_acc", acc, ameta), ("enc", "check_enc", encs, emeta)):
        bad, err = ctx.coq_eval_cases(tag, IMPORTS, fn, cases, chunk=2500)
        if err:
            ctx.violation(tag, "model_eval_failed", err, {}, found_input=False, what=f"Coq evaluation of {fn} failed")
        for i in bad[:5]:
            ctx.violation(tag, "model_mismatch", "implementation and Gallina model disagree", {"case": repr(meta[i])},
                          found_input=False, what=f"correspondence Model/Label.v <-> skactiveml.utils._label/_label_encoder ({fn}) no longer holds")
    if pmeta:
        ctx.sample({"component": "label_predicates", "values": repr(pmeta[len(pmeta) // 2][0]), "sentinel": repr(pmeta[len(pmeta) // 2][1]), "dtype": pmeta[len(pmeta) // 2][2]})
    if emeta:
        ctx.sample({"component": "label_encoder", "values": repr(emeta[-1][0]), "sentinel": repr(emeta[-1][1]), "dtype": emeta[-1][2], "classes": repr(emeta[-1][3])})
    ctx.extra["exhaustive"] = False


def replay(ctx, path):
    print(json.dumps(json.load(open(path))["case"], indent=1))
    print("replay: re-running the whole (deterministic, seeded) C16 check")
    run(ctx)
