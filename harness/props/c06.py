"""C06 -- results are reproducible for a fixed random_state.

Coq: Props/C06.v (non-interference of computations without draws from the global generator; seed
derivation).  Tie: harness/translate/rng.py regenerates from /repo the table of call sites that can
reach numpy's process-global generator; the theorem 'every such site is a listed known finding'
(= no new one) is re-checked by coqc on every run.  Dynamic validation = the statement itself on the
implementation: every strategy / manager / classifier with an integer seed is run as two fresh
twins, twice on the same object (pool), and under three states of the global generator, on tie-heavy
and cluster-ambiguous data; outputs must be identical."""
import json
import os
import warnings

import numpy as np

from .. import pool as PL
from .. import poolreg as R
from .. import stream as S
from ..core import with_timeout, blit, err_class, listlit, natlit, pmap
from ..translate import rng as TR


def site_key(s):
    kind, file, fn, line, what = s
    return f"{file}:{fn}:{kind}"


def _pool_job(job):
    warnings.simplefilter("ignore")
    eidx, seed_tuple = job
    E = PL._entries()[eidx]
    rng = np.random.default_rng(list(seed_tuple))
    # cluster-ambiguous, tie-heavy data: a symmetric integer grid
    n = int(rng.integers(8, 13))
    X, y, y_true, classes, labeling = R.gen_data(rng, E.task, n=n, binary=E.binary, cold=["half", "few", "cold", "half", "one_class"][seed_tuple[2] % 5])
    seed = int(rng.integers(0, 1000))
    bs = 1 if E.max_bs else int(rng.choice([1, 2, 3, 5, 7]))       # large batches too: BatchBALD leaves the exact joint-entropy regime

    def q(gseed, obj=None):
        np.random.seed(gseed)
        qs = obj or E.make(classes, seed)
        idx, ut = qs.query(X=X.copy(), y=y.copy(), batch_size=bs, return_utilities=True, **E.kw(classes, seed))
        return np.asarray(idx).tolist(), np.asarray(ut, dtype=float), qs
    out = {"name": E.name, "seed": seed, "X": X.tolist(), "y": [None if np.isnan(v) else v for v in y], "bs": bs, "problems": []}
    try:
        i0, u0, obj = q(1)
        i1, u1, _ = q(1)                       # fresh twin, same global state
        i2, u2, _ = q(2)                       # fresh twin, other global state
        i3, u3, _ = q(3)
        i4, u4, _ = q(1, obj)                  # same object again
    except Exception as e:
        out["problems"].append(("exception", repr(e)[:200]))
        return out

    def same(a, ua, b, ub):
        return a == b and np.array_equal(ua, ub, equal_nan=True)
    if not same(i0, u0, i1, u1):
        out["problems"].append(("twins_differ", f"{i0} vs {i1}"))
    if not (same(i0, u0, i2, u2) and same(i0, u0, i3, u3)):
        out["problems"].append(("global_rng_dependence", f"np.random.seed(1) -> {i0}, seed(2) -> {i2}, seed(3) -> {i3}"))
    if not same(i0, u0, i4, u4):
        out["problems"].append(("repeat_differs", f"{i0} then {i4} on the same object"))
    # a USED object (it has answered other calls before) against a fresh twin on the identical call: the result is a function of the
    # constructor parameters and the call arguments, not of the object's history (caches kept between the cycles of a loop)
    try:
        y2 = y.copy()
        y2[[int(i) for i in i0 if 0 <= int(i) < len(y2)]] = y_true[[int(i) for i in i0 if 0 <= int(i) < len(y2)]]
        # ProbCover documents that distances_ / delta_max_ of the first call are kept unless query(..., update=True) is passed
        if np.isnan(y2).any() and E.base != "ProbCover":
            def q2(objx):
                np.random.seed(1)
                idx, ut = objx.query(X=X.copy(), y=y2.copy(), batch_size=bs, return_utilities=True, **E.kw(classes, seed))
                return np.asarray(idx).tolist(), np.asarray(ut, dtype=float)
            j0, v0 = q2(obj)
            j1, v1 = q2(E.make(classes, seed))
            if not same(j0, v0, j1, v1):
                out["problems"].append(("history_dependent", f"after an earlier query the object returns {j0}, a fresh twin {j1} for the identical call"))
    except Exception:
        pass
    _instance_variant(E, rng, classes, bs, out, same)
    for lab in ("cold", str(rng.choice(["few", "half"]))):      # cold start: every prediction is a tie
        _prefit_variant(E, rng, classes, seed, bs, out, same, lab)
    return out


def _instance_variant(E, rng, classes, bs, out, same):
    """random_state given as a RandomState INSTANCE (the statement names it): the repeated call on the same strategy and a
    twin built from an equal instance agree, and the caller's instance is left where it was (cold start: ties everywhere)."""
    n = int(rng.integers(6, 11))
    X, y, _, _, labeling = R.gen_data(rng, E.task, n=n, binary=E.binary, cold=str(rng.choice(["cold", "half"])))
    s0 = int(rng.integers(0, 1000))
    try:
        np.random.seed(1)
        inst = np.random.RandomState(s0)
        before = inst.get_state()[1].tobytes(), inst.get_state()[2]
        qs = E.make(classes, inst)
        kw = lambda: E.kw(classes, s0)
        r1 = qs.query(X=X.copy(), y=y.copy(), batch_size=bs, return_utilities=True, **kw())
        np.random.seed(1)
        r2 = qs.query(X=X.copy(), y=y.copy(), batch_size=bs, return_utilities=True, **kw())
        np.random.seed(1)
        r3 = E.make(classes, np.random.RandomState(s0)).query(X=X.copy(), y=y.copy(), batch_size=bs, return_utilities=True, **kw())
        after = inst.get_state()[1].tobytes(), inst.get_state()[2]
    except Exception:
        return
    f = lambda r: (np.asarray(r[0]).tolist(), np.asarray(r[1], dtype=float))
    (a1, u1), (a2, u2), (a3, u3) = f(r1), f(r2), f(r3)
    rec = {"X": X.tolist(), "y": [None if np.isnan(v) else v for v in y], "labeling": labeling, "random_state": f"RandomState({s0})"}
    out["instance"] = rec
    if not same(a1, u1, a2, u2):
        out["problems"].append(("repeat_differs_instance", f"{a1} then {a2} on the same strategy built with random_state=RandomState({s0}) ({labeling})"))
    elif not same(a1, u1, a3, u3):
        out["problems"].append(("twins_differ_instance", f"{a1} vs {a3} for twins built from equal RandomState instances ({labeling})"))
    elif before != after:
        out["problems"].append(("caller_generator_advanced", f"query advanced the RandomState instance passed as random_state ({labeling})"))


def _prefit_variant(E, rng, classes, seed, bs, out, same, lab):
    """The same call repeated with the SAME pre-fitted model objects (fit_clf / fit_ensemble / fit_reg = False),
    and a fresh twin with freshly fitted equal models; cold-start / tie-heavy data so that tie-breaking inside
    the models' predict is exercised."""
    import inspect
    params = inspect.signature(E.make(classes, seed).query).parameters
    flags = [f for f in ("fit_clf", "fit_ensemble", "fit_reg") if f in params]
    if not flags:
        return
    n = int(rng.integers(6, 11))
    X, y, _, _, labeling = R.gen_data(rng, E.task, n=n, binary=E.binary, cold=lab)
    if len(classes) != (2 if E.binary else len(classes)):
        return
    y = np.where(np.isnan(y), np.nan, np.minimum(y, len(classes) - 1)) if E.task == "clf" else y

    def build():
        kw = E.kw(classes, seed)
        for v in kw.values():
            for m in (v if isinstance(v, (list, tuple)) else [v]):
                if hasattr(m, "fit"):
                    m.fit(X, y)
        for f in flags:
            kw[f] = False
        return kw
    try:
        kwA, qsA = build(), E.make(classes, seed)
        np.random.seed(1)                 # dependence on the global generator is the business of the first phase
        r1 = qsA.query(X=X.copy(), y=y.copy(), batch_size=bs, return_utilities=True, **kwA)
        np.random.seed(1)
        r2 = qsA.query(X=X.copy(), y=y.copy(), batch_size=bs, return_utilities=True, **kwA)
        np.random.seed(1)
        r3 = E.make(classes, seed).query(X=X.copy(), y=y.copy(), batch_size=bs, return_utilities=True, **build())
    except Exception as e:
        return
    f = lambda r: (np.asarray(r[0]).tolist(), np.asarray(r[1], dtype=float))
    (a1, u1), (a2, u2), (a3, u3) = f(r1), f(r2), f(r3)
    out["prefit"] = {"X": X.tolist(), "y": [None if np.isnan(v) else v for v in y], "labeling": labeling, "flags": flags}
    if not same(a1, u1, a2, u2):
        out["problems"].append(("repeat_differs_prefit", f"{a1} then {a2} with the same pre-fitted models ({', '.join(flags)}=False, {labeling})"))
    if not same(a1, u1, a3, u3):
        out["problems"].append(("twins_differ_prefit", f"{a1} vs {a3} for twins with equal pre-fitted models ({', '.join(flags)}=False, {labeling})"))


def run(ctx):
    warnings.simplefilter("ignore")
    ctx.extra["rule"] = ("static: all call sites of non-test code (np.random.*, selection helpers without random_state, check_random_state(None), "
                         "estimator constructors without random_state incl. self.cluster_algo(**dict)); dynamic: 37 pool configurations, 9 stream "
                         "managers/baselines, 6 classifiers x twins / repeated call / three global seeds on tie-heavy integer-grid data; "
                         "non-trivial = batch of >= 2 or ties present; distinct = (component, data, seed)")
    ctx.trusted += ["harness/translate/rng.py (heuristic for dynamically constructed estimators; fail-closed: an unlisted site breaks the table theorem)",
                    "hidden nondeterminism inside third-party estimators is outside any model"]
    ctx.coq_props()
    # ---- static table ----
    sites = TR.scan()
    listed = {f["site"] for f in ctx.known if f.get("site")} | set(TR.REVIEWED)
    tdir = ctx.build
    rows = []
    for s in sites:
        note = f"{s[1]}:{s[3]} {s[2]}: {s[4]}".replace("(*", "( *").replace("*)", "* )")
        rows.append(f"({natlit(s[0])}, {blit(site_key(s) in listed)})  (* {note} *)")
    with open(os.path.join(tdir, "C06_sites.v"), "w") as f:
        f.write("From Coq Require Import List Bool.\nFrom V Require Import Model.RngProv.\nImport ListNotations.\n"
                "Definition rng_sites : list site := [\n  " + ";\n  ".join(rows) + "\n].\n"
                "Theorem C06_no_unlisted_global_rng_site : sites_ok rng_sites = true.\nProof. vm_compute. reflexivity. Qed.\n"
                "Print Assumptions C06_no_unlisted_global_rng_site.\n")
    rc, so, se = ctx.coqc(os.path.join(tdir, "C06_sites.v"))
    ok = rc == 0 and "Closed under the global context" in so
    ctx.obligations.append({"name": f"C06_no_unlisted_global_rng_site ({len(sites)} sites regenerated from /repo)", "discharged": ok,
                            "assumptions": "Closed under the global context" if ok else (se or so)[-300:]})
    static_new = [s for s in sites if site_key(s) not in listed]
    if not ok and not static_new:
        ctx.broken("rng_site_table", "the regenerated call-site table theorem does not check", (se or so)[-1500:])
    for s in static_new[:10]:
        ctx.violation(s[1], "unseeded_site_static", f"{s[1]}:{s[3]} in {s[2]}: {s[4]}", {"site": site_key(s), "what": s[4]}, found_input=False,
                      what=f"obligation C06_no_unlisted_global_rng_site no longer checks: {s[1]}:{s[3]} ({s[4]})")
    for s in sites:
        if site_key(s) in listed:
            for f in ctx.known:
                if f.get("site") == site_key(s):
                    ctx.known_hits[f["id"]] += 1
    ctx.extra["rng_sites"] = [f"{s[1]}:{s[3]} {s[4]}" for s in sites]
    # ---- dynamic: pool ----
    entries = PL._entries()
    jobs = [(ei, (ctx.seed, ei, h, 606)) for ei in range(len(entries)) for h in range((1 if entries[ei].slow else 5) if ctx.is_quick else (4 if entries[ei].slow else 20))]
    for out in pmap(_pool_job, jobs, chunksize=2):
        ctx.count(out["name"])
        if out["bs"] >= 2:
            ctx.nontriv((out["name"], out["seed"], repr(out["X"]), repr(out["y"])))
        for kind, msg in out["problems"]:
            if kind == "exception":
                ctx.hist["query_exception(not C06)"] += 1
                continue
            ctx.violation(out["name"], kind, msg, {k: out.get(k) for k in ("name", "seed", "X", "y", "bs", "prefit", "instance")}, what=f"{out['name']}: {kind.replace('_', ' ')} ({msg})")
    # ---- dynamic: stream managers / baselines ----
    rng = ctx.rng("c06s")
    for kind in S.ALL_KINDS:
        for h in range(3 if ctx.is_quick else 20):
            p = S.gen_params(rng, kind)
            chunks = [rng.random(int(rng.integers(1, 6))) for _ in range(10)]
            res = []
            for g in (1, 1, 2):
                np.random.seed(g)
                m = S.make(p)
                r = []
                for c in chunks:
                    a, _ = S.do_query(m, p, c)
                    raw = m.query_by_utility(np.asarray(c)) if not S.is_strategy(kind) else m.query(np.zeros((len(c), 1)))
                    S.do_update(m, p, len(c), raw)
                    r.append(a)
                res.append(r)
            ctx.count("stream:" + kind)
            if res[0] != res[1] or res[0] != res[2]:
                ctx.violation(kind, "global_rng_dependence" if res[0] == res[1] else "twins_differ", f"{res[0]} / {res[1]} / {res[2]}", {"params": p},
                              what=f"{kind}: query/update sequence is not a deterministic function of parameters and arguments")
    # ---- dynamic: stream strategies built around an explicitly passed, already used budget manager ----
    import skactiveml.stream as st
    import skactiveml.stream.budgetmanager as bm
    from . import stream_extra as X
    pairs = [("RandomVariableUncertainty", bm.RandomVariableUncertaintyBudgetManager), ("Split", bm.SplitBudgetManager),
             ("VariableUncertainty", bm.VariableUncertaintyBudgetManager), ("StreamDensityBasedAL", bm.DensityBasedSplitBudgetManager)]
    for sname, bmcls in pairs:
        for h in range(2 if ctx.is_quick else 10):
            seed = int(rng.integers(0, 100))
            kw = {"random_state": seed} if "random_state" in bmcls.__init__.__code__.co_varnames else {}
            manager = bmcls(budget=0.5, **kw)
            manager.query_by_utility(np.array([0.3, 0.9]))          # the manager has been used before
            clf, Xd, yd = X._clf(seed)
            cands = [rng.integers(0, 4, size=(int(rng.integers(1, 4)), 2)).astype(float) for _ in range(40)]
            seqs = []
            try:
                for twin in range(2):
                    qs = getattr(st, sname)(budget_manager=manager, random_state=seed)
                    r = []
                    for c in cands:
                        idx, ut = X._query(sname, qs, c, clf, Xd, yd)
                        X._update(sname, qs, c, idx, ut)
                        r.append([int(i) for i in idx])
                    seqs.append(r)
            except Exception as e:
                ctx.hist[f"stream_strategy_exception:{sname}:{err_class(e)}"] += 1
                continue
            ctx.count("stream_strategy_shared_manager:" + sname)
            if seqs[0] != seqs[1]:
                ctx.violation(sname, "twins_differ", "two strategies built from the same (already used) budget manager object and equal seeds decide differently",
                              {"strategy": sname, "seed": seed}, what=f"{sname}: twin objects sharing the caller's budget manager differ (state leaks between them)")
    # ---- dynamic: classifiers ----
    from sklearn.mixture import BayesianGaussianMixture
    from sklearn.naive_bayes import GaussianNB
    from sklearn.linear_model import SGDClassifier
    from skactiveml.classifier import MixtureModelClassifier, ParzenWindowClassifier, SklearnClassifier
    mks = [("ParzenWindowClassifier", lambda s: ParzenWindowClassifier(classes=[0, 1, 2], random_state=s)),
           ("MixtureModelClassifier", lambda s: MixtureModelClassifier(classes=[0, 1, 2], random_state=s)),
           ("SklearnClassifier[GaussianNB]", lambda s: SklearnClassifier(GaussianNB(), classes=[0, 1, 2], random_state=s)),
           ("SklearnClassifier[SGD]", lambda s: SklearnClassifier(SGDClassifier(loss="log_loss", random_state=s), classes=[0, 1, 2], random_state=s)),
           ("SklearnClassifier[unfittable]", lambda s: SklearnClassifier(GaussianNB(), classes=[0, 1, 2], random_state=s))]
    for name, mk in mks:
        for h in range(3 if ctx.is_quick else 20):
            n = int(rng.integers(6, 12))
            X = rng.integers(0, 3, size=(n, 2)).astype(float)
            y = rng.integers(0, 3, size=n).astype(float)
            y[rng.random(n) < (1.0 if "unfittable" in name else 0.3)] = np.nan
            seed = int(rng.integers(0, 100))
            outs = []
            for g in (1, 1, 2):
                np.random.seed(g)
                m = mk(seed).fit(X, y)
                outs.append((m.predict_proba(X).tobytes(), np.asarray(m.predict(X)).tobytes()))
            ctx.count("clf:" + name)
            if outs[0] != outs[1] or outs[0] != outs[2]:
                ctx.violation(name, "global_rng_dependence" if outs[0] == outs[1] else "twins_differ", "fit/predict differs", {"X": X.tolist(), "y": [None if np.isnan(v) else v for v in y], "seed": seed},
                              what=f"{name}: fit/predict is not a deterministic function of random_state and data")
    multi_annotator(ctx, rng)
    regressors(ctx, rng)
    ctx.sample({"static_sites": ctx.extra["rng_sites"]})
    ctx.extra["exhaustive"] = False


def _thrice(make_and_run):
    """fresh twin under np.random.seed(1), again under seed(1), under seed(2) and seed(3)"""
    outs = []
    for g in (1, 1, 2, 3):
        np.random.seed(g)
        outs.append(make_and_run())
    return outs


def _same(a, b):
    return len(a) == len(b) and all(np.array_equal(np.asarray(x, dtype=float), np.asarray(y, dtype=float), equal_nan=True) for x, y in zip(a, b))


def multi_annotator(ctx, rng):
    """multi-annotator pool strategies and classifiers, and the vote aggregation they share: annotators that disagree
    (tied votes) and cold starts, so that every tie-break is exercised"""
    from skactiveml.classifier import ParzenWindowClassifier
    from skactiveml.classifier.multiannotator import AnnotatorEnsembleClassifier, AnnotatorLogisticRegression
    from skactiveml.pool import RandomSampling, UncertaintySampling
    from skactiveml.pool.multiannotator import IntervalEstimationThreshold, SingleAnnotatorWrapper
    from skactiveml.utils import majority_vote
    for h in range(6 if ctx.is_quick else 50):
        n, na = int(rng.integers(6, 11)), int(rng.choice([2, 2, 3, 4]))
        X = rng.integers(0, 3, size=(n, 2)).astype(float)
        y = np.tile(rng.integers(0, 2, size=(n, 1)), (1, na)).astype(float)
        flip = rng.random((n, na)) < 0.5
        y[flip] = 1 - y[flip]                      # disagreement: tied votes for an even number of annotators
        y[rng.random((n, na)) < (1.0 if h % 5 == 4 else 0.4)] = np.nan
        seed = int(rng.integers(0, 1000))
        bs = int(rng.integers(1, 4))
        rec = {"X": X.tolist(), "y": [[None if v != v else v for v in r] for r in y], "seed": seed, "batch_size": bs}

        def saw(inner):
            def go():
                qs = SingleAnnotatorWrapper(inner(seed), random_state=seed)
                kw = {"clf": ParzenWindowClassifier(classes=[0, 1], random_state=seed)} if inner is not _rs else {}
                idx, ut = qs.query(X=X.copy(), y=y.copy(), batch_size=bs, n_annotators_per_sample=int(rng_fixed), return_utilities=True, **kw)
                return [idx, ut]
            return go
        _rs = lambda s: RandomSampling(random_state=s)
        rng_fixed = int(rng.integers(1, na + 1))

        def iet():
            qs = IntervalEstimationThreshold(random_state=seed)
            ens = AnnotatorEnsembleClassifier(estimators=[(f"c{i}", ParzenWindowClassifier(random_state=seed + i)) for i in range(na)], classes=[0, 1], random_state=seed)
            idx, ut = qs.query(X=X.copy(), y=y.copy(), clf=ens, batch_size=bs, return_utilities=True)
            return [idx, ut]

        def mv():
            return [majority_vote(y, classes=[0, 1], random_state=seed)]

        def ens_clf():
            m = AnnotatorEnsembleClassifier(estimators=[(f"c{i}", ParzenWindowClassifier(random_state=seed + i)) for i in range(na)], classes=[0, 1], voting="hard", random_state=seed)
            m.fit(X, y)
            return [m.predict(X), m.predict_proba(X)]

        def alr():
            m = AnnotatorLogisticRegression(classes=[0, 1], random_state=seed, n_annotators=na)
            m.fit(X, y)
            return [m.predict(X), m.predict_proba(X)]
        for name, fn in (("SingleAnnotatorWrapper[UncertaintySampling]", saw(lambda s: UncertaintySampling(random_state=s))),
                         ("SingleAnnotatorWrapper[RandomSampling]", saw(_rs)), ("IntervalEstimationThreshold", iet),
                         ("majority_vote", mv), ("AnnotatorEnsembleClassifier[hard]", ens_clf), ("AnnotatorLogisticRegression", alr)):
            try:
                outs = with_timeout(lambda: _thrice(fn), 60)
            except Exception as e:
                ctx.hist[f"multi_annotator_exception(not C06):{name}:{err_class(e)}"] += 1
                continue
            ctx.count("multi:" + name)
            ctx.nontriv(("multi", name, seed, X.tobytes(), y.tobytes()))
            if not _same(outs[0], outs[1]):
                ctx.violation(name, "twins_differ", "two fresh objects with equal parameters and arguments return different results", dict(rec, component=name),
                              what=f"{name}: twins with equal integer seeds differ (tied annotator votes / cold start)")
            elif not (_same(outs[0], outs[2]) and _same(outs[0], outs[3])):
                ctx.violation(name, "global_rng_dependence", "result changes with np.random.seed", dict(rec, component=name),
                              what=f"{name}: the result depends on numpy's global generator (tied annotator votes / cold start)")


def regressors(ctx, rng):
    from sklearn.linear_model import LinearRegression
    from skactiveml.regressor import NICKernelRegressor, SklearnRegressor
    try:
        from skactiveml.regressor import NadarayaWatsonRegressor
    except Exception:
        NadarayaWatsonRegressor = None
    mks = [("NICKernelRegressor", lambda s: NICKernelRegressor(random_state=s)), ("SklearnRegressor[Linear]", lambda s: SklearnRegressor(LinearRegression(), random_state=s))]
    if NadarayaWatsonRegressor is not None:
        mks.append(("NadarayaWatsonRegressor", lambda s: NadarayaWatsonRegressor(random_state=s)))
    for name, mk in mks:
        for h in range(3 if ctx.is_quick else 20):
            n = int(rng.integers(5, 10))
            X = rng.integers(0, 3, size=(n, 2)).astype(float)
            y = np.round(rng.normal(size=n), 1)
            y[rng.random(n) < (1.0 if h % 3 == 2 else 0.4)] = np.nan
            seed = int(rng.integers(0, 100))

            def go():
                m = mk(seed).fit(X, y)
                out = [m.predict(X)]
                if hasattr(m, "sample_y"):
                    out.append(m.sample_y(X, n_samples=3, random_state=seed))
                return out
            try:
                outs = _thrice(go)
            except Exception as e:
                ctx.hist[f"regressor_exception(not C06):{name}:{err_class(e)}"] += 1
                continue
            ctx.count("reg:" + name)
            if not (_same(outs[0], outs[1]) and _same(outs[0], outs[2]) and _same(outs[0], outs[3])):
                ctx.violation(name, "global_rng_dependence" if _same(outs[0], outs[1]) else "twins_differ", "fit / predict / sample_y differs",
                              {"X": X.tolist(), "y": [None if v != v else v for v in y], "seed": seed}, what=f"{name}: fit/predict/sample_y is not a deterministic function of random_state and data")


def replay(ctx, path):
    print(json.dumps(json.load(open(path))["case"], indent=1, default=str)[:2500])
    run(ctx)
