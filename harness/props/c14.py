"""C14 -- a pool active-learning loop labels every sample exactly once.

Coq: Props/C14.v (any sequence of valid batches exhausts the pool in exactly
ceil(u/b) cycles, batches pairwise disjoint).  Tie: real loops for every registry
configuration (one strategy object kept across cycles); every cycle's result must
be a valid batch w.r.t. the current pool (direct oracle), and the recorded batch
sequence is evaluated by the Gallina loop model (loop_valid, loop_remaining,
cycle count)."""
import json
import math
import warnings

import numpy as np

from .. import pool as PL
from .. import poolreg as R
from ..core import CaseTimeout, err_class, listlit, natlist, natlit, pmap, with_timeout

IMPORTS = PL.IMPORTS


BIG_TOO_SLOW = {"EpistemicUncertaintySampling[precompute]", "Quire", "CoreSet", "Badge", "RegressionTreeBasedAL[diversity]"}


def make_loop(seed_tuple, eidx, big=False):
    rng = np.random.default_rng(list(seed_tuple))
    E = PL._entries()[eidx]
    lab = str(rng.choice(["cold", "half", "one_left", "few", "one_class"]))
    # mostly tiny pools (many cycles are cheap), a quarter of the loops on tutorial-sized pools for the fast strategies
    n = int(rng.integers(6, 12)) if (E.slow or rng.random() < 0.75) else int(rng.integers(16, 27))
    if big:
        # a dense benchmark-sized pool (min-max scaled features): hundreds of labels accumulate within kernel range of every candidate
        n, lab = int(rng.integers(240, 281)), str(rng.choice(["few", "half"]))
    X, y, y_true, classes, labeling = R.gen_data(rng, E.task, n=n, binary=E.binary, cold=lab)
    if big:
        X = (X - X.min(axis=0)) / np.maximum(X.max(axis=0) - X.min(axis=0), 1e-12)
    oracle = str(rng.choice(["true", "true", "constant", "alternating"]))
    if oracle == "constant":
        y_true = np.zeros(len(y)) if E.task == "clf" else np.full(len(y), 1.5)
    elif oracle == "alternating":
        y_true = (np.arange(len(y)) % len(classes)).astype(float) if E.task == "clf" else np.arange(len(y), dtype=float)
    b = int(rng.choice([1, 2, 3, 5])) if not big else int(rng.choice([15, 20, 25]))
    if E.max_bs:
        b = min(b, E.max_bs)
    return {"big": big, "eidx": eidx, "name": E.name, "X": X, "y": y, "y_true": y_true, "classes": classes, "b": b,
            "seed": int(rng.integers(0, 1000)), "labeling": labeling, "oracle": oracle}


def _run_loop(lp):
    warnings.simplefilter("ignore")
    E = PL._entries()[lp["eidx"]]
    X, y = lp["X"].copy(), lp["y"].copy()
    out = {"status": "ok", "batches": [], "problem": None}
    u0 = int(np.sum(np.isnan(y)))
    max_cycles = math.ceil(u0 / lp["b"]) + 2 if u0 else 1

    def go():
        qs = E.make(lp["classes"], lp["seed"])
        for cyc in range(max_cycles):
            unl = set(np.flatnonzero(np.isnan(y)).tolist())
            if not unl:
                break
            kw = E.kw(lp["classes"], lp["seed"])
            idx = qs.query(X=X, y=y, batch_size=lp["b"], **kw)
            idx = np.asarray(idx)
            il = [int(i) for i in idx.ravel()]
            out["batches"].append(il)
            k = min(lp["b"], len(unl))
            if idx.ndim != 1 or len(il) != k or len(set(il)) != len(il) or not set(il) <= unl:
                out["c01kind"] = ("shape" if idx.ndim != 1 else "batch_length" if len(il) != k else
                                  "duplicate_index" if len(set(il)) != len(il) else "non_candidate")
                out["problem"] = ("invalid_batch", f"cycle {cyc}: returned {il} (shape {idx.shape}); unlabeled {sorted(unl)}, batch_size {lp['b']}")
                return
            y[il] = lp["y_true"][il]
    try:
        with_timeout(go, 120 if E.slow else 60)
    except CaseTimeout:
        out["status"] = "timeout"
    except Exception as e:
        out["status"] = "exception"
        out["err"] = err_class(e)
        out["msg"] = f"cycle {len(out['batches'])}: {type(e).__name__}: {e}"[:300]
    return out


def run(ctx):
    ctx.extra["rule"] = ("full query/reveal loops for every registry configuration on 6-11-sample pools: initial labelings cold / half / few / one "
                         "unlabeled, batch sizes 1,2,3,5, label oracles true / constant (single class) / alternating, one strategy object kept "
                         "across cycles; non-trivial = loop of >= 2 cycles; distinct = (strategy, data, labeling, b, seed)")
    ctx.trusted += ["the numeric layer is an oracle; the loop theorem quantifies over every sequence of valid batches"]
    ctx.assume += ["SubSamplingWrapper is exempt from the cycle count (it documents selecting from a sub-sample, so a cycle may return fewer than batch_size samples)"]
    ctx.coq_props()
    entries = PL._entries()
    loops = []
    for ei, E in enumerate(entries):
        for h in range(((2 if E.slow else 10) if E.variant else (3 if E.slow else 40)) if ctx.is_quick else (15 if E.slow else 300)):
            loops.append(make_loop((ctx.seed, ei, h, 1414), ei))
        # (measured: these need 10-55 s per big loop here and several times that on a slower machine - the small pools cover them)
        if not E.slow and not E.variant and not E.max_bs and E.name not in BIG_TOO_SLOW:
            for h in range(1 if ctx.is_quick else 4):
                loops.append(make_loop((ctx.seed, ei, h, 1415), ei, big=True))
    outs = pmap(_run_loop, loops, chunksize=1)
    terms, meta = [], []
    for lp, out in zip(loops, outs):
        E = entries[lp["eidx"]]
        ctx.count(E.name, max(1, len(out["batches"])))
        ctx.hist[f"{lp['labeling']}:{lp['oracle']}:b={lp['b']}"] += 1
        if len(out["batches"]) >= 2:
            ctx.nontriv((E.name, lp["seed"], lp["b"], lp["X"].tobytes(), lp["y"].tobytes()))
        rc = {"strategy": E.name, "X": lp["X"].tolist(), "y": [None if np.isnan(v) else float(v) for v in lp["y"]],
              "y_true": lp["y_true"].tolist(), "classes": lp["classes"], "batch_size": lp["b"], "seed": lp["seed"], "batches": out["batches"]}
        if out["status"] == "timeout" and lp.get("big"):
            ctx.count("big_pool_loop_not_finished_in_time_(not_judged)")       # a resource limit of the harness: every loop is bounded by ceil(u/b)+2 cycles
            continue
        if out["status"] == "timeout":
            ctx.violation(E.name, "timeout", "loop did not finish", rc, what=f"{E.name}: active-learning loop did not terminate in time")
            continue
        if out["status"] == "exception":
            ctx.violation(E.name, "exception:" + out["err"], out["msg"], rc, what=f"{E.name}: query failed in the loop, {out['msg']}")
            continue
        if out["problem"] and not (E.subsample and out["problem"][0] == "invalid_batch" and "shape" in out["problem"][1] and _only_short(lp, out)):
            ctx.violation(E.name, out["problem"][0], out["problem"][1], rc, what=f"{E.name}: {out['problem'][1]}",
                          tags=PL.case_tags({"X": lp["X"], "y": lp["y"], "cmode": "none", "cand": None})
                          | ({"dup_rows"} if len(np.unique(lp["X"], axis=0)) < len(lp["X"]) else set()))
            continue
        if E.subsample:
            continue
        u0 = [int(i) for i in np.flatnonzero(np.isnan(lp["y"]))]
        terms.append(f"({natlit(lp['b'])}, {natlist(u0)}, {listlit([natlist(b) for b in out['batches']])})")
        meta.append(rc)
    bad, err = ctx.coq_eval_cases("loop", IMPORTS, "check_loop", terms, chunk=500)
    if err:
        ctx.violation("loop", "model_eval_failed", err, {}, found_input=False, what="Coq evaluation of check_loop failed")
    for i in bad[:5]:
        rc = meta[i]
        u = sum(v is None for v in rc["y"])
        ctx.violation(rc["strategy"], "loop_rejected",
                      f"{len(rc['batches'])} cycles for {u} unlabeled samples with batch size {rc['batch_size']}: {rc['batches']}", rc,
                      what=f"{rc['strategy']}: the loop is not a sequence of valid batches exhausting the pool in ceil(u/b) cycles")
    if meta:
        ctx.sample({k: v for k, v in meta[len(meta) // 2].items() if k in ("strategy", "y", "batch_size", "batches")})
    ctx.extra["exhaustive"] = False


def _only_short(lp, out):
    """sub-sampling wrapper: batches may be shorter than batch_size but must be distinct unlabeled samples."""
    seen = set()
    unl = set(np.flatnonzero(np.isnan(lp["y"])).tolist())
    for b in out["batches"]:
        if len(set(b)) != len(b) or not set(b) <= unl - seen:
            return False
        seen |= set(b)
    return True


def replay(ctx, path):
    rec = json.load(open(path))
    rc = rec["case"]
    names = [e.name for e in PL._entries()]
    lp = {"eidx": names.index(rc["strategy"]), "name": rc["strategy"], "X": np.array(rc["X"], dtype=float),
          "y": np.array([np.nan if v is None else v for v in rc["y"]], dtype=float), "y_true": np.array(rc["y_true"], dtype=float),
          "classes": rc["classes"], "b": rc["batch_size"], "seed": rc["seed"]}
    out = _run_loop(lp)
    print("replay:", out)
    if out["status"] != "ok" or out["problem"]:
        ctx.violation(rc["strategy"], (out["problem"] or ("exception:" + out.get("err", "?"), ""))[0], str(out.get("msg") or out["problem"]), rc)
    ctx.coq_props()
